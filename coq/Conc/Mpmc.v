(* C22 — model of /repo/internal/containers/mpmc/queue.go at atomic-operation granularity.

   One [step] of one thread = one atomic load / CAS / store, one lock acquire / release, or one
   channel operation of the Go code.  Thread-local state = program counter + registers.

   What is modelled literally
     * ring of slots (Sequence, Data), head, tail, capacity, done, extensions, extended;
     * Send / Recv / Close / Grow with every atomic access as its own step, the order of the
       accesses exactly as in the source (see the pc comments, they quote the Go line);
     * the buffered(1) channels [full] / [empty]: a token bit and a closed bit; a non-blocking
       send drops the token when one is already buffered; a send on a closed channel and a close
       of a closed channel are Go panics -> [panicked];
     * extend (buffer doubling / Grow): compaction to index 0, sequence re-initialisation,
       head/tail reset.

   Abstractions (each justified)
     * sync.RWMutex is not a separate variable: "t holds the read lock" is [read_pc (pc t)],
       "t holds the write lock" is [write_pc (pc t)].  RLock is enabled iff no thread is at a
       write pc, Lock iff no thread is at a read or write pc.  That is the safety semantics of
       RWMutex (the holder sets are exactly these pc sets because every RLock/RUnlock/Lock/
       Unlock in queue.go is one pc transition, the deferred RUnlock included).  Go's writer
       preference (a pending Lock blocks *new* readers) only removes interleavings, so every
       safety theorem proved here holds for the real lock; the refutation schedule contains no
       writer at all.
     * extend's body is one step: it runs under the write lock and touches only fields that
       Send/Recv/Size/Capacity access under the read lock (data, capacity, head, tail,
       extended); no other thread can observe an intermediate state.  The guard in Send
       ([capacity == p.capacity && !p.done.Load()]) is evaluated in the same step for the same
       reason.
     * [value := cell.Data; cell.Data = zero] is one step (plain accesses to a slot the receiver
       owns exclusively; exclusivity is part of the proved invariant).
     * the three plain reads [capacity, extensions, extended] and the following RUnlock are one
       step (they are lock-protected reads immediately before the release).
     * contexts are never cancelled (ctx.Err() == nil, ctx.Done() never ready): cancellation
       only adds early "return false" exits.  The driver uses cancellation solely to unblock
       calls that the model says are blocked.
     * mask(v) = v & (capacity-1) is [v mod capacity] (capacity is a power of two in the code;
       the theorems hold for every capacity >= 2).
     * positions are [nat] (int64 in Go; no overflow below 2^63 operations).

   Ghost state (never read by the modelled code): [events] (linearisation events: EEnq at the
   successful head CAS, EDeq at the successful tail CAS, EEnqFail / EDeqFail at the done-load
   that makes the call fail, EClose at done.Swap) and [base] (sum of the tails discarded by
   extend, so that position p of the current epoch is the (p+base)-th enqueue ever). *)
From OFGA Require Export Conc.FifoSpec.

Inductive op := OSend (v : N) | ORecv | OClose | OGrow (n : nat).

Inductive result := RSend (v : N) (ok : bool) | RRecv (v : option N) | RClose | RGrow (n : nat).

Inductive pc :=
| Idle          (* between calls; the next step is the first lock acquisition of the next op *)
(* ---- Send ---- *)
| S_chk0        (* if p.done.Load() ... return false           (read lock held) *)
| S_loadhead    (* pos := p.head.Load()                        (also the two re-loads) *)
| S_loop        (* for !p.done.Load() ...                       *)
| S_loadseq     (* seq := cell.Sequence.Load(); diff := seq-pos *)
| S_cas         (* p.head.CompareAndSwap(pos, pos+1)            *)
| S_write       (* cell.Data = item                             *)
| S_pub         (* cell.Sequence.Store(pos+1)                   *)
| S_sig         (* select { case p.empty <- struct{}{}: default: } *)
| S_rett        (* deferred RUnlock; return true                *)
| S_retf        (* deferred RUnlock; return false               *)
| S_snap        (* capacity, extensions, extended snapshot; p.mu.RUnlock() *)
| S_lock        (* p.mu.Lock()                                  *)
| S_ext         (* if capacity == p.capacity && !p.done.Load() { p.extend(cap<<1) }  (write lock) *)
| S_unlock      (* p.mu.Unlock()                                *)
| S_park        (* select { case <-p.full: }                    (no lock held) *)
| S_relock      (* p.mu.RLock()                                 *)
(* ---- Recv ---- *)
| R_loadtail    (* pos := p.tail.Load()                         (read lock held) *)
| R_loadseq     (* seq := cell.Sequence.Load(); diff := seq-(pos+1) *)
| R_cas         (* p.tail.CompareAndSwap(pos, pos+1)            *)
| R_read        (* value := cell.Data; cell.Data = zero         *)
| R_recycle     (* cell.Sequence.Store(pos + capacity)          *)
| R_chkdone     (* if !p.done.Load() {                          *)
| R_sig         (* select { case p.full <- struct{}{}: default: } *)
| R_rett        (* deferred RUnlock; return value, true         *)
| R_empty       (* if p.done.Load() ... return zero, false      *)
| R_retf        (* deferred RUnlock; return zero, false         *)
| R_unl         (* p.mu.RUnlock()                               *)
| R_park        (* select { case <-p.empty: }                   (no lock held) *)
| R_relock      (* p.mu.RLock()                                 *)
(* ---- Close ---- *)
| C_swap        (* if !p.done.Swap(true) {                      (write lock held) *)
| C_close_empty (* close(p.empty)                               *)
| C_close_full  (* close(p.full)                                *)
| C_unlock      (* deferred Unlock                              *)
(* ---- Grow ---- *)
| G_ext         (* p.extend(n)                                  (write lock held) *)
| G_unlock.     (* deferred Unlock                              *)

Definition read_pc (p : pc) : bool :=
  match p with
  | S_chk0 | S_loadhead | S_loop | S_loadseq | S_cas | S_write | S_pub | S_sig | S_rett | S_retf
  | S_snap
  | R_loadtail | R_loadseq | R_cas | R_read | R_recycle | R_chkdone | R_sig | R_rett | R_empty
  | R_retf | R_unl => true
  | _ => false
  end.

Definition write_pc (p : pc) : bool :=
  match p with
  | S_ext | S_unlock | C_swap | C_close_empty | C_close_full | C_unlock | G_ext | G_unlock => true
  | _ => false
  end.

Record glob := mkGlob {
  slots : list (nat * N);     (* (Sequence, Data) *)
  cap : nat;                  (* p.capacity *)
  head : nat;
  tail : nat;
  done : bool;
  etok : bool;                (* a token is buffered in p.empty *)
  eclosed : bool;
  ftok : bool;                (* a token is buffered in p.full *)
  fclosed : bool;
  exts : option nat;          (* p.extensions: None = negative = unlimited *)
  extended : nat;
  panicked : bool;
  base : nat;                 (* ghost *)
  events : list event         (* ghost *)
}.

Record thread := mkThread {
  prog : list op;             (* remaining calls; the head is the call in progress when pc <> Idle *)
  tpc : pc;
  r_pos : nat;
  r_val : N;                  (* Send: the item; Recv: the value taken *)
  r_cap : nat;                (* capacity snapshot of S_snap *)
  res : list result           (* results of the completed calls, oldest first *)
}.

Record state := mkState { g : glob; thr : list thread }.

Definition slot_at (gl : glob) (i : nat) : nat * N := nth i (slots gl) (0, 0%N).
Definition seq_at (gl : glob) (p : nat) : nat := fst (slot_at gl (p mod cap gl)).
Definition data_at (gl : glob) (p : nat) : N := snd (slot_at gl (p mod cap gl)).

Definition set_seq (gl : glob) (p v : nat) : list (nat * N) :=
  let i := p mod cap gl in upd i (v, snd (slot_at gl i)) (slots gl).
Definition set_data (gl : glob) (p : nat) (d : N) : list (nat * N) :=
  let i := p mod cap gl in upd i (fst (slot_at gl i), d) (slots gl).

(* glob field updates *)
Definition with_slots (gl : glob) (s : list (nat * N)) : glob :=
  mkGlob s (cap gl) (head gl) (tail gl) (done gl) (etok gl) (eclosed gl) (ftok gl) (fclosed gl)
         (exts gl) (extended gl) (panicked gl) (base gl) (events gl).
Definition with_head_ev (gl : glob) (h : nat) (e : event) : glob :=
  mkGlob (slots gl) (cap gl) h (tail gl) (done gl) (etok gl) (eclosed gl) (ftok gl) (fclosed gl)
         (exts gl) (extended gl) (panicked gl) (base gl) (events gl ++ [e]).
Definition with_tail_ev (gl : glob) (t : nat) (e : event) : glob :=
  mkGlob (slots gl) (cap gl) (head gl) t (done gl) (etok gl) (eclosed gl) (ftok gl) (fclosed gl)
         (exts gl) (extended gl) (panicked gl) (base gl) (events gl ++ [e]).
Definition with_ev (gl : glob) (e : event) : glob :=
  mkGlob (slots gl) (cap gl) (head gl) (tail gl) (done gl) (etok gl) (eclosed gl) (ftok gl)
         (fclosed gl) (exts gl) (extended gl) (panicked gl) (base gl) (events gl ++ [e]).
Definition with_done_ev (gl : glob) (e : event) : glob :=
  mkGlob (slots gl) (cap gl) (head gl) (tail gl) true (etok gl) (eclosed gl) (ftok gl)
         (fclosed gl) (exts gl) (extended gl) (panicked gl) (base gl) (events gl ++ [e]).
Definition with_etok (gl : glob) (b : bool) : glob :=
  mkGlob (slots gl) (cap gl) (head gl) (tail gl) (done gl) b (eclosed gl) (ftok gl) (fclosed gl)
         (exts gl) (extended gl) (panicked gl) (base gl) (events gl).
Definition with_ftok (gl : glob) (b : bool) : glob :=
  mkGlob (slots gl) (cap gl) (head gl) (tail gl) (done gl) (etok gl) (eclosed gl) b (fclosed gl)
         (exts gl) (extended gl) (panicked gl) (base gl) (events gl).
Definition with_eclosed (gl : glob) : glob :=
  mkGlob (slots gl) (cap gl) (head gl) (tail gl) (done gl) (etok gl) true (ftok gl) (fclosed gl)
         (exts gl) (extended gl) (panicked gl) (base gl) (events gl).
Definition with_fclosed (gl : glob) : glob :=
  mkGlob (slots gl) (cap gl) (head gl) (tail gl) (done gl) (etok gl) (eclosed gl) (ftok gl) true
         (exts gl) (extended gl) (panicked gl) (base gl) (events gl).
Definition with_panic (gl : glob) : glob :=
  mkGlob (slots gl) (cap gl) (head gl) (tail gl) (done gl) (etok gl) (eclosed gl) (ftok gl)
         (fclosed gl) (exts gl) (extended gl) true (base gl) (events gl).

(* func (p *Queue[T]) extend(n uint) *)
Definition extend (gl : glob) (n : nat) : glob :=
  if n <=? cap gl then gl
  else
    let size := head gl - tail gl in
    let news := map (fun i => if i <? size then (i + 1, data_at gl (tail gl + i)) else (i, 0%N))
                    (seq 0 n) in
    mkGlob news n size 0 (done gl) (etok gl) (eclosed gl) (ftok gl) (fclosed gl)
           (exts gl) (extended gl + 1) (panicked gl) (base gl + tail gl) (events gl).

(* thread updates *)
Definition goto (th : thread) (p : pc) : thread :=
  mkThread (prog th) p (r_pos th) (r_val th) (r_cap th) (res th).
Definition goto_pos (th : thread) (p : pc) (pos : nat) : thread :=
  mkThread (prog th) p pos (r_val th) (r_cap th) (res th).
Definition goto_val (th : thread) (p : pc) (v : N) : thread :=
  mkThread (prog th) p (r_pos th) v (r_cap th) (res th).
Definition goto_cap (th : thread) (p : pc) (c : nat) : thread :=
  mkThread (prog th) p (r_pos th) (r_val th) c (res th).
Definition finish (th : thread) (r : result) : thread :=
  mkThread (tl (prog th)) Idle (r_pos th) (r_val th) (r_cap th) (res th ++ [r]).

Definition can_extend (gl : glob) : bool :=
  match exts gl with None => true | Some e => extended gl <? e end.

(* One step of thread [t] whose local state is [th].  [nw]: no thread holds the write lock;
   [nh]: no thread holds any lock.  None = the thread cannot move (blocked or finished). *)
Definition tstep (gl : glob) (nw nh : bool) (t : nat) (th : thread) : option (glob * thread) :=
  match tpc th with
  | Idle =>
      match prog th with
      | [] => None
      | OSend v :: _ => if nw then Some (gl, goto_val th S_chk0 v) else None
      | ORecv :: _ => if nw then Some (gl, goto th R_loadtail) else None
      | OClose :: _ => if nh then Some (gl, goto th C_swap) else None
      | OGrow _ :: _ => if nh then Some (gl, goto th G_ext) else None
      end
  (* ---- Send ---- *)
  | S_chk0 =>
      if done gl then Some (with_ev gl (EEnqFail t), goto th S_retf)
      else Some (gl, goto th S_loadhead)
  | S_loadhead => Some (gl, goto_pos th S_loop (head gl))
  | S_loop =>
      if done gl then Some (with_ev gl (EEnqFail t), goto th S_retf)
      else Some (gl, goto th S_loadseq)
  | S_loadseq =>
      let sq := seq_at gl (r_pos th) in
      if sq =? r_pos th then Some (gl, goto th S_cas)
      else if sq <? r_pos th then Some (gl, goto th S_snap)
      else Some (gl, goto th S_loadhead)
  | S_cas =>
      if head gl =? r_pos th
      then Some (with_head_ev gl (r_pos th + 1) (EEnq t (r_val th)), goto th S_write)
      else Some (gl, goto th S_loop)
  | S_write => Some (with_slots gl (set_data gl (r_pos th) (r_val th)), goto th S_pub)
  | S_pub => Some (with_slots gl (set_seq gl (r_pos th) (r_pos th + 1)), goto th S_sig)
  | S_sig =>
      if eclosed gl then Some (with_panic gl, th)
      else Some (with_etok gl true, goto th S_rett)
  | S_rett => Some (gl, finish th (RSend (r_val th) true))
  | S_retf => Some (gl, finish th (RSend (r_val th) false))
  | S_snap =>
      if can_extend gl then Some (gl, goto_cap th S_lock (cap gl))
      else Some (gl, goto_cap th S_park (cap gl))
  | S_lock => if nh then Some (gl, goto th S_ext) else None
  | S_ext =>
      if (r_cap th =? cap gl) && negb (done gl)
      then Some (extend gl (2 * cap gl), goto th S_unlock)
      else Some (gl, goto th S_unlock)
  | S_unlock => Some (gl, goto th S_relock)
  | S_park =>
      if ftok gl then Some (with_ftok gl false, goto th S_relock)
      else if fclosed gl then Some (gl, goto th S_relock)
      else None
  | S_relock => if nw then Some (gl, goto th S_loadhead) else None
  (* ---- Recv ---- *)
  | R_loadtail => Some (gl, goto_pos th R_loadseq (tail gl))
  | R_loadseq =>
      let sq := seq_at gl (r_pos th) in
      if sq =? r_pos th + 1 then Some (gl, goto th R_cas)
      else if sq <? r_pos th + 1 then Some (gl, goto th R_empty)
      else Some (gl, goto th R_loadtail)
  | R_cas =>
      if tail gl =? r_pos th
      then let v := data_at gl (r_pos th) in  (* ghost early read, the real one is R_read *)
           Some (with_tail_ev gl (r_pos th + 1) (EDeq t v), goto_val th R_read v)
      else Some (gl, goto th R_loadseq)
  | R_read =>
      Some (with_slots gl (set_data gl (r_pos th) 0%N), goto_val th R_recycle (data_at gl (r_pos th)))
  | R_recycle => Some (with_slots gl (set_seq gl (r_pos th) (r_pos th + cap gl)), goto th R_chkdone)
  | R_chkdone => if done gl then Some (gl, goto th R_rett) else Some (gl, goto th R_sig)
  | R_sig =>
      if fclosed gl then Some (with_panic gl, th)
      else Some (with_ftok gl true, goto th R_rett)
  | R_rett => Some (gl, finish th (RRecv (Some (r_val th))))
  | R_empty =>
      if done gl then Some (with_ev gl (EDeqFail t), goto th R_retf)
      else Some (gl, goto th R_unl)
  | R_retf => Some (gl, finish th (RRecv None))
  | R_unl => Some (gl, goto th R_park)
  | R_park =>
      if etok gl then Some (with_etok gl false, goto th R_relock)
      else if eclosed gl then Some (gl, goto th R_relock)
      else None
  | R_relock => if nw then Some (gl, goto th R_loadtail) else None
  (* ---- Close ---- *)
  | C_swap =>
      if done gl then Some (with_ev gl (EClose t), goto th C_unlock)
      else Some (with_done_ev gl (EClose t), goto th C_close_empty)
  | C_close_empty =>
      if eclosed gl then Some (with_panic gl, th) else Some (with_eclosed gl, goto th C_close_full)
  | C_close_full =>
      if fclosed gl then Some (with_panic gl, th) else Some (with_fclosed gl, goto th C_unlock)
  | C_unlock => Some (gl, finish th RClose)
  (* ---- Grow ---- *)
  | G_ext =>
      match prog th with
      | OGrow n :: _ => Some (extend gl n, goto th G_unlock)
      | _ => Some (gl, goto th G_unlock)
      end
  | G_unlock =>
      match prog th with
      | OGrow n :: _ => Some (gl, finish th (RGrow n))
      | _ => Some (gl, finish th (RGrow 0))
      end
  end.

Definition no_writer (ths : list thread) : bool :=
  forallb (fun u => negb (write_pc (tpc u))) ths.
Definition no_holder (ths : list thread) : bool :=
  forallb (fun u => negb (read_pc (tpc u) || write_pc (tpc u))) ths.

Definition step (s : state) (t : nat) : option state :=
  if panicked (g s) then None else
  match nth_error (thr s) t with
  | None => None
  | Some th =>
      match tstep (g s) (no_writer (thr s)) (no_holder (thr s)) t th with
      | None => None
      | Some (gl', th') => Some (mkState gl' (upd t th' (thr s)))
      end
  end.

(* schedules: a disabled thread id is skipped (stuttering) *)
Fixpoint run (s : state) (sched : list nat) : state :=
  match sched with
  | [] => s
  | t :: r => match step s t with Some s' => run s' r | None => run s r end
  end.

(* strict variant for witnesses: every scheduled step must be enabled *)
Fixpoint run_strict (s : state) (sched : list nat) : option state :=
  match sched with
  | [] => Some s
  | t :: r => match step s t with Some s' => run_strict s' r | None => None end
  end.

Definition init_slots (c : nat) : list (nat * N) := map (fun i => (i, 0%N)) (seq 0 c).

Definition init_glob (c : nat) (e : option nat) : glob :=
  mkGlob (init_slots c) c 0 0 false false false false false e 0 false 0 [].

Definition init_thread (p : list op) : thread := mkThread p Idle 0 0%N 0 [].

Definition init (c : nat) (e : option nat) (progs : list (list op)) : state :=
  mkState (init_glob c e) (map init_thread progs).

(* ---- observations used by the oracle and by the wake-up statements ---- *)

(* run thread t until it cannot move (used for method-granularity correspondence) *)
Fixpoint run_thread (fuel : nat) (s : state) (t : nat) : state :=
  match fuel with
  | O => s
  | S f => match step s t with Some s' => run_thread f s' t | None => s end
  end.

Definition thread_idle_done (th : thread) : bool :=
  match tpc th, prog th with Idle, [] => true | _, _ => false end.

(* number of buffered, published items *)
Definition size (gl : glob) : nat := head gl - tail gl.

Definition item_published (gl : glob) : bool :=
  (tail gl <? head gl) && (seq_at gl (tail gl) =? tail gl + 1).

(* A receiver is parked on [empty], cannot move (no token, channel open), an item is published
   at the tail, and every other thread has finished its program: nothing will ever wake it. *)
Definition lost_wakeup_state (s : state) (r : nat) : bool :=
  match nth_error (thr s) r with
  | None => false
  | Some th =>
      match tpc th with
      | R_park =>
          negb (etok (g s)) && negb (eclosed (g s)) && negb (panicked (g s))
          && item_published (g s)
          && forallb (fun x => x)
               (map (fun iu => Nat.eqb (fst iu) r || thread_idle_done (snd iu))
                    (combine (seq 0 (length (thr s))) (thr s)))
      | _ => false
      end
  end.

(* the trigger of the wake-up finding: two or more threads have a Recv in their program *)
Definition has_recv (p : list op) : bool :=
  existsb (fun o => match o with ORecv => true | _ => false end) p.
Definition multi_receiver (progs : list (list op)) : bool :=
  1 <? length (filter has_recv progs).

(* the witness of the lost wake-up (see MpmcProofs.mpmc_lost_wakeup_refuted_lemma): threads 0,1
   receive, threads 2,3 send; both receivers reach the select on p.empty before either send
   signals, the two signals coalesce into one token *)
Definition lw_progs : list (list op) := [[ORecv]; [ORecv]; [OSend 7%N]; [OSend 8%N]].
Definition lw_sched : list nat :=
  repeat 0 5 ++ repeat 1 5 ++ repeat 2 10 ++ repeat 3 10 ++ repeat 0 10.
