(* Model of internal/listobjects/pipeline/internal/track/reporting.go (StatusPool / Reporter).

   The pool is modelled at the granularity of its ATOMIC OPERATIONS: every function [a_*] below is
   one sync/atomic call, one mutex operation or one channel close of the Go code.  The methods
   ([inc], [dec], [set], [Wait]) are sequences of these operations; the concurrent model in
   Conc/CycleGroup.v interleaves them one operation at a time, and the method-level functions
   [m_*] (used by the method-granularity correspondence run) are the same operations run to
   completion without interleaving.

   Definitions only (proofs are in StatusPoolProofs.v). *)
From Coq Require Export List ZArith Bool Arith Lia.
Export ListNotations.

(* ---- small list helpers (local to the Conc models) ------------------------------------ *)

Fixpoint upd {A : Type} (i : nat) (x : A) (l : list A) : list A :=
  match l, i with
  | [], _ => []
  | _ :: r, O => x :: r
  | y :: r, S j => y :: upd j x r
  end.

Definition b2n (b : bool) : nat := if b then 1 else 0.

(* true when no entry of the list is true *)
Definition all_false (l : list bool) : bool := negb (existsb (fun b => b) l).

(* ---- the object ----------------------------------------------------------------------- *)

Record pool := mkPool {
  sp_mu       : option nat;   (* sync.Mutex: None = unlocked, Some t = held by thread t *)
  sp_pool     : list bool;    (* pool []bool: true = source still pending *)
  sp_inflight : Z;            (* atomic.Int64 *)
  sp_total    : Z;            (* atomic.Int64 *)
  sp_zero     : bool;         (* atomic.Bool *)
  sp_ready    : bool;         (* chan ready: true = closed *)
  sp_quiet    : bool;         (* chan quiescence: true = closed (the one-shot latch) *)
  sp_panic    : bool          (* a closed channel was closed again (Go would panic) *)
}.

Definition new_pool : pool := mkPool None [] 0 0 false false false false.

Definition set_mu (p : pool) (m : option nat) : pool :=
  mkPool m (sp_pool p) (sp_inflight p) (sp_total p) (sp_zero p) (sp_ready p) (sp_quiet p) (sp_panic p).
Definition set_bits (p : pool) (l : list bool) : pool :=
  mkPool (sp_mu p) l (sp_inflight p) (sp_total p) (sp_zero p) (sp_ready p) (sp_quiet p) (sp_panic p).
Definition set_panic (p : pool) : pool :=
  mkPool (sp_mu p) (sp_pool p) (sp_inflight p) (sp_total p) (sp_zero p) (sp_ready p) (sp_quiet p) true.

(* ---- atomic operations ----------------------------------------------------------------- *)

(* sp.total.Add(1) *)
Definition a_total_add (p : pool) : pool :=
  mkPool (sp_mu p) (sp_pool p) (sp_inflight p) (sp_total p + 1) (sp_zero p) (sp_ready p) (sp_quiet p) (sp_panic p).

(* sp.inflight.Add(d); returns the new value *)
Definition a_inflight_add (d : Z) (p : pool) : pool * Z :=
  (mkPool (sp_mu p) (sp_pool p) (sp_inflight p + d) (sp_total p) (sp_zero p) (sp_ready p) (sp_quiet p) (sp_panic p),
   (sp_inflight p + d)%Z).

(* sp.zero.Swap(true); returns the old value *)
Definition a_zero_swap (p : pool) : pool * bool :=
  (mkPool (sp_mu p) (sp_pool p) (sp_inflight p) (sp_total p) true (sp_ready p) (sp_quiet p) (sp_panic p),
   sp_zero p).

(* close(sp.quiescence) *)
Definition a_close_quiet (p : pool) : pool :=
  if sp_quiet p then set_panic p
  else mkPool (sp_mu p) (sp_pool p) (sp_inflight p) (sp_total p) (sp_zero p) (sp_ready p) true (sp_panic p).

(* close(sp.ready) *)
Definition a_close_ready (p : pool) : pool :=
  if sp_ready p then set_panic p
  else mkPool (sp_mu p) (sp_pool p) (sp_inflight p) (sp_total p) (sp_zero p) true (sp_quiet p) (sp_panic p).

(* sp.mu.Lock() by thread t: enabled only when the mutex is free *)
Definition a_lock (t : nat) (p : pool) : option pool :=
  match sp_mu p with None => Some (set_mu p (Some t)) | Some _ => None end.

(* sp.mu.Unlock() *)
Definition a_unlock (p : pool) : pool := set_mu p None.

(* the body of set(index) executed under the mutex (plain memory operations that only the
   lock holder performs): clear the entry if it is pending and scan for another pending entry.
   Returns whether close(sp.ready) has to follow. *)
Definition a_set_body (i : nat) (p : pool) : pool * bool :=
  if nth i (sp_pool p) false
  then let l := upd i false (sp_pool p) in (set_bits p l, all_false l)
  else (p, false).

(* ---- methods, run without interleaving (method granularity) --------------------------- *)

(* Register: append a pending entry, the reporter's index is the old length *)
Definition m_register (p : pool) : pool * nat :=
  (set_bits p (sp_pool p ++ [true]), length (sp_pool p)).

(* inc(): total.Add(1); inflight.Add(1) *)
Definition m_inc (p : pool) : pool := fst (a_inflight_add 1 (a_total_add p)).

(* the two steps that may follow inflight.Add(-1) when it returned v *)
Definition dec_tail (p : pool) (v : Z) : pool :=
  if (v =? 0)%Z
  then let (p2, old) := a_zero_swap p in if old then p2 else a_close_quiet p2
  else p.

(* dec(): inflight.Add(-1); if 0 then (if !zero.Swap(true) then close(quiescence)) *)
Definition m_dec (p : pool) : pool :=
  let (p1, v) := a_inflight_add (-1) p in dec_tail p1 v.

(* set(index) *)
Definition m_set (i : nat) (p : pool) : pool :=
  match a_lock 0 p with
  | None => p
  | Some p1 =>
    let (p2, c) := a_set_body i p1 in
    a_unlock (if c then a_close_ready p2 else p2)
  end.

(* Wait(ctx) with a context that is never cancelled: does it return, and if not, where does it
   block *)
Inductive wait_res := WReturned | WBlockedReady | WBlockedQuiet.

Definition m_wait (p : pool) : wait_res :=
  if negb (length (sp_pool p) =? 0) && negb (sp_ready p) then WBlockedReady
  else if (0 <? sp_total p)%Z && negb (sp_quiet p) then WBlockedQuiet
  else WReturned.

(* the pool after n Register+Inc pairs (what CycleGroup.Join does n times) *)
Definition joined_pool (n : nat) : pool :=
  mkPool None (repeat true n) (Z.of_nat n) (Z.of_nat n) false false false false.
