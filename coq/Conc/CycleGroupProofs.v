(* Proofs about the cycle-group model (Conc/CycleGroup.v): for every number of members, every
   workload forest and every schedule. *)
From OFGA Require Import Conc.StatusPool Conc.StatusPoolProofs Conc.CycleGroup.
From Coq Require Import ZifyBool.

(* ======================================================================================= *)
(* Part 1: Join builds the ring  i -> nxt n i  with the last joined member as leader          *)
(* ======================================================================================= *)

Definition ring_ok (n : nat) (g : group) : Prop :=
  length (g_nodes g) = n /\ g_size g = n /\ g_pool g = joined_pool n /\
  (n = 0 -> g_head g = None /\ g_tail g = None) /\
  (1 <= n -> g_head g = Some (n - 1) /\ g_tail g = Some 0) /\
  forall i, i < n ->
    mn_prev (g_node g i) = Some (nxt n i) /\ mn_leader (g_node g i) = is_leader n i /\
    mn_rep (g_node g i) = i /\ mn_wake (g_node g i) = false /\ mn_awake (g_node g i) = false.

Lemma nth_app_last {A} (l : list A) x d : nth (length l) (l ++ [x]) d = x.
Proof. rewrite app_nth2; [|lia]. rewrite Nat.sub_diag. reflexivity. Qed.

Lemma nth_app_lt {A} (l : list A) x d i : i < length l -> nth i (l ++ [x]) d = nth i l d.
Proof. intro H. apply app_nth1. exact H. Qed.

Lemma join_ring_step n g : ring_ok n g -> ring_ok (S n) (fst (g_join g)).
Proof.
  intros (Hlen & Hsz & Hpool & H0 & H1 & Hnodes).
  unfold g_join. rewrite Hpool.
  pose proof (joined_pool_step n) as Hps. pose proof (joined_pool_index n) as Hidx.
  destruct (m_register (joined_pool n)) as [p1 idx] eqn:Ereg. simpl in Hps, Hidx. subst idx.
  destruct n as [|n].
  - (* first member *)
    destruct (H0 eq_refl) as [Hh Ht]. rewrite Hh, Ht.
    destruct (g_nodes g) as [|x l]; [|simpl in Hlen; discriminate].
    simpl. unfold ring_ok. simpl.
    split; [reflexivity|]. split; [lia|]. split; [exact Hps|].
    split; [intro; discriminate|]. split; [auto|].
    intros i Hi; assert (i = 0) by lia; subst i; unfold g_node; simpl; auto.
  - (* a further member: head = Some n, tail = Some 0 *)
    destruct (H1 ltac:(lia)) as [Hh Ht]. rewrite Hh, Ht.
    replace (S n - 1) with n in * by lia.
    set (k := length (g_nodes g)). assert (Hk : k = S n) by (unfold k; lia).
    unfold on_node.
    set (d := dummy_node).
    set (l0 := g_nodes g ++ [mkNode None None false false false (S n)]).
    assert (Hl0 : length l0 = S (S n)) by (unfold l0; rewrite app_length; simpl; lia).
    set (l1 := upd 0 (n_set_prev (Some k) (nth 0 l0 d)) l0).
    set (l2 := upd k (n_set_prev (Some n) (nth k l1 d)) l1).
    set (l3 := upd n (n_set_leader false (nth n l2 d)) l2).
    set (l4 := upd n (n_set_next (Some k) (nth n l3 d)) l3).
    set (l5 := upd k (n_set_leader true (nth k l4 d)) l4).
    assert (Hl1 : length l1 = S (S n)) by (unfold l1; rewrite upd_length; auto).
    assert (Hl2 : length l2 = S (S n)) by (unfold l2; rewrite upd_length; auto).
    assert (Hl3 : length l3 = S (S n)) by (unfold l3; rewrite upd_length; auto).
    assert (Hl4 : length l4 = S (S n)) by (unfold l4; rewrite upd_length; auto).
    assert (Hl5 : length l5 = S (S n)) by (unfold l5; rewrite upd_length; auto).
    assert (Tk : k <? S (S n) = true) by (apply Nat.ltb_lt; lia).
    assert (Tn : n <? S (S n) = true) by (apply Nat.ltb_lt; lia).
    assert (E0 : forall j, j < S n -> nth j l0 d = g_node g j).
    { intros j Hj. unfold l0, g_node. apply nth_app_lt. lia. }
    assert (E0k : nth k l0 d = mkNode None None false false false (S n)).
    { unfold l0, k. apply nth_app_last. }
    assert (E1 : forall j, nth j l1 d = if j =? 0 then n_set_prev (Some k) (nth 0 l0 d) else nth j l0 d).
    { intro j. unfold l1. rewrite nth_upd, Hl0. destruct (j =? 0); reflexivity. }
    assert (E2 : forall j, nth j l2 d = if j =? k then n_set_prev (Some n) (nth k l1 d) else nth j l1 d).
    { intro j. unfold l2. rewrite nth_upd, Hl1, Tk. destruct (j =? k); reflexivity. }
    assert (E3 : forall j, nth j l3 d = if j =? n then n_set_leader false (nth n l2 d) else nth j l2 d).
    { intro j. unfold l3. rewrite nth_upd, Hl2, Tn. destruct (j =? n); reflexivity. }
    assert (E4 : forall j, nth j l4 d = if j =? n then n_set_next (Some k) (nth n l3 d) else nth j l3 d).
    { intro j. unfold l4. rewrite nth_upd, Hl3, Tn. destruct (j =? n); reflexivity. }
    assert (E5 : forall j, nth j l5 d = if j =? k then n_set_leader true (nth k l4 d) else nth j l4 d).
    { intro j. unfold l5. rewrite nth_upd, Hl4, Tk. destruct (j =? k); reflexivity. }
    clearbody l0 l1 l2 l3 l4 l5.
    unfold ring_ok. cbn [fst g_nodes g_size g_pool g_head g_tail]. rewrite Hps.
    split; [exact Hl5|]. split; [lia|]. split; [reflexivity|].
    split; [intro; discriminate|].
    split; [intros _; split; [f_equal; lia|reflexivity]|].
    intros i Hi. unfold g_node at 1 2 3 4 5. cbn [g_nodes]. fold d.
    rewrite E5.
    destruct (Nat.eqb_spec i k) as [Eik|Nik].
    + (* the new member *)
      assert (Fkn : k =? n = false) by (apply Nat.eqb_neq; lia).
      assert (Fk0 : k =? 0 = false) by (apply Nat.eqb_neq; lia).
      rewrite E4, Fkn, E3, Fkn, E2, Nat.eqb_refl, E1, Fk0, E0k. cbn. subst i. rewrite Hk. unfold nxt, is_leader.
      rewrite Nat.eqb_refl. auto.
    + assert (Hi' : i < S n) by lia.
      destruct (Hnodes i Hi') as (Hp & Hld & Hrp & Hwk & Haw).
      rewrite E4. destruct (Nat.eqb_spec i n) as [Ein|Nin].
      * (* the old head: loses leadership, gets next *)
        subst i. assert (Fnk : n =? k = false) by (apply Nat.eqb_neq; lia).
        rewrite E3, Nat.eqb_refl, E2, Fnk, E1.
        destruct (Nat.eqb_spec n 0) as [En0|Nn0].
        -- rewrite En0 in *. rewrite (E0 0 ltac:(lia)). cbn.
           rewrite Hrp, Hwk, Haw, Hk. unfold nxt, is_leader. cbn. auto.
        -- rewrite (E0 n ltac:(lia)). cbn.
           rewrite Hp, Hrp, Hwk, Haw. unfold nxt, is_leader.
           destruct n as [|n']; [lia|]. cbn.
           replace (n' =? S n') with false by (symmetry; apply Nat.eqb_neq; lia). auto.
      * assert (Fin : i =? n = false) by (apply Nat.eqb_neq; lia).
        assert (Fik : i =? k = false) by (apply Nat.eqb_neq; lia).
        rewrite E3, Fin, E2, Fik, E1. destruct (Nat.eqb_spec i 0) as [Ei0|Ni0].
        -- rewrite Ei0 in *. rewrite (E0 0 ltac:(lia)). cbn.
           rewrite Hld, Hrp, Hwk, Haw, Hk. unfold nxt, is_leader. cbn.
           destruct n as [|n']; [lia|]. cbn. auto.
        -- rewrite (E0 i ltac:(lia)).
           rewrite Hp, Hld, Hrp, Hwk, Haw. unfold nxt, is_leader.
           destruct i as [|i']; [lia|]. cbn.
           replace (i' =? S n) with false by (symmetry; apply Nat.eqb_neq; lia).
           replace (i' =? n) with false by (symmetry; apply Nat.eqb_neq; lia). auto.
Qed.

Lemma join_seq_ring n : ring_ok n (join_seq n).
Proof.
  induction n as [|n IH].
  - unfold ring_ok, join_seq, new_group, joined_pool, new_pool. simpl.
    split; [reflexivity|]. split; [reflexivity|]. split; [reflexivity|].
    split; [auto|]. split; [intro; lia|]. intros; lia.
  - simpl. apply join_ring_step. exact IH.
Qed.
