(* Proofs about the cycle-group model (Conc/CycleGroup.v): for every number of members, every
   workload forest and every schedule. *)
From OFGA Require Import Conc.StatusPool Conc.StatusPoolProofs Conc.CycleGroup.
From Coq Require Import ZifyBool.

(* ======================================================================================= *)
(* Part 1: Join builds the ring  i -> nxt n i  with the last joined member as leader          *)
(* ======================================================================================= *)

Definition ring_ok (n : nat) (g : group) : Prop :=
  length (g_nodes g) = n /\ g_size g = n /\ g_pool g = joined_pool n /\
  (n = 0 -> g_head g = None /\ g_tail g = None) /\
  (1 <= n -> g_head g = Some (n - 1) /\ g_tail g = Some 0) /\
  forall i, i < n ->
    mn_prev (g_node g i) = Some (nxt n i) /\ mn_leader (g_node g i) = is_leader n i /\
    mn_rep (g_node g i) = i /\ mn_wake (g_node g i) = false /\ mn_awake (g_node g i) = false.

Lemma nth_app_last {A} (l : list A) x d : nth (length l) (l ++ [x]) d = x.
Proof. rewrite app_nth2; [|lia]. rewrite Nat.sub_diag. reflexivity. Qed.

Lemma nth_app_lt {A} (l : list A) x d i : i < length l -> nth i (l ++ [x]) d = nth i l d.
Proof. intro H. apply app_nth1. exact H. Qed.

Lemma join_ring_step n g : ring_ok n g -> ring_ok (S n) (fst (g_join g)).
Proof.
  intros (Hlen & Hsz & Hpool & H0 & H1 & Hnodes).
  unfold g_join. rewrite Hpool.
  pose proof (joined_pool_step n) as Hps. pose proof (joined_pool_index n) as Hidx.
  destruct (m_register (joined_pool n)) as [p1 idx] eqn:Ereg. simpl in Hps, Hidx. subst idx.
  destruct n as [|n].
  - (* first member *)
    destruct (H0 eq_refl) as [Hh Ht]. rewrite Hh, Ht.
    destruct (g_nodes g) as [|x l]; [|simpl in Hlen; discriminate].
    simpl. unfold ring_ok. simpl.
    split; [reflexivity|]. split; [lia|]. split; [exact Hps|].
    split; [intro; discriminate|]. split; [auto|].
    intros i Hi; assert (i = 0) by lia; subst i; unfold g_node; simpl; auto.
  - (* a further member: head = Some n, tail = Some 0 *)
    destruct (H1 ltac:(lia)) as [Hh Ht]. rewrite Hh, Ht.
    replace (S n - 1) with n in * by lia.
    set (k := length (g_nodes g)). assert (Hk : k = S n) by (unfold k; lia).
    unfold on_node.
    set (d := dummy_node).
    set (l0 := g_nodes g ++ [mkNode None None false false false (S n)]).
    assert (Hl0 : length l0 = S (S n)) by (unfold l0; rewrite app_length; simpl; lia).
    set (l1 := upd 0 (n_set_prev (Some k) (nth 0 l0 d)) l0).
    set (l2 := upd k (n_set_prev (Some n) (nth k l1 d)) l1).
    set (l3 := upd n (n_set_leader false (nth n l2 d)) l2).
    set (l4 := upd n (n_set_next (Some k) (nth n l3 d)) l3).
    set (l5 := upd k (n_set_leader true (nth k l4 d)) l4).
    assert (Hl1 : length l1 = S (S n)) by (unfold l1; rewrite upd_length; auto).
    assert (Hl2 : length l2 = S (S n)) by (unfold l2; rewrite upd_length; auto).
    assert (Hl3 : length l3 = S (S n)) by (unfold l3; rewrite upd_length; auto).
    assert (Hl4 : length l4 = S (S n)) by (unfold l4; rewrite upd_length; auto).
    assert (Hl5 : length l5 = S (S n)) by (unfold l5; rewrite upd_length; auto).
    assert (Tk : k <? S (S n) = true) by (apply Nat.ltb_lt; lia).
    assert (Tn : n <? S (S n) = true) by (apply Nat.ltb_lt; lia).
    assert (E0 : forall j, j < S n -> nth j l0 d = g_node g j).
    { intros j Hj. unfold l0, g_node. apply nth_app_lt. lia. }
    assert (E0k : nth k l0 d = mkNode None None false false false (S n)).
    { unfold l0, k. apply nth_app_last. }
    assert (E1 : forall j, nth j l1 d = if j =? 0 then n_set_prev (Some k) (nth 0 l0 d) else nth j l0 d).
    { intro j. unfold l1. rewrite nth_upd, Hl0. destruct (j =? 0); reflexivity. }
    assert (E2 : forall j, nth j l2 d = if j =? k then n_set_prev (Some n) (nth k l1 d) else nth j l1 d).
    { intro j. unfold l2. rewrite nth_upd, Hl1, Tk. destruct (j =? k); reflexivity. }
    assert (E3 : forall j, nth j l3 d = if j =? n then n_set_leader false (nth n l2 d) else nth j l2 d).
    { intro j. unfold l3. rewrite nth_upd, Hl2, Tn. destruct (j =? n); reflexivity. }
    assert (E4 : forall j, nth j l4 d = if j =? n then n_set_next (Some k) (nth n l3 d) else nth j l3 d).
    { intro j. unfold l4. rewrite nth_upd, Hl3, Tn. destruct (j =? n); reflexivity. }
    assert (E5 : forall j, nth j l5 d = if j =? k then n_set_leader true (nth k l4 d) else nth j l4 d).
    { intro j. unfold l5. rewrite nth_upd, Hl4, Tk. destruct (j =? k); reflexivity. }
    clearbody l0 l1 l2 l3 l4 l5.
    unfold ring_ok. cbn [fst g_nodes g_size g_pool g_head g_tail]. rewrite Hps.
    split; [exact Hl5|]. split; [lia|]. split; [reflexivity|].
    split; [intro; discriminate|].
    split; [intros _; split; [f_equal; lia|reflexivity]|].
    intros i Hi. unfold g_node at 1 2 3 4 5. cbn [g_nodes]. fold d.
    rewrite E5.
    destruct (Nat.eqb_spec i k) as [Eik|Nik].
    + (* the new member *)
      assert (Fkn : k =? n = false) by (apply Nat.eqb_neq; lia).
      assert (Fk0 : k =? 0 = false) by (apply Nat.eqb_neq; lia).
      rewrite E4, Fkn, E3, Fkn, E2, Nat.eqb_refl, E1, Fk0, E0k. cbn. subst i. rewrite Hk. unfold nxt, is_leader.
      rewrite Nat.eqb_refl. auto.
    + assert (Hi' : i < S n) by lia.
      destruct (Hnodes i Hi') as (Hp & Hld & Hrp & Hwk & Haw).
      rewrite E4. destruct (Nat.eqb_spec i n) as [Ein|Nin].
      * (* the old head: loses leadership, gets next *)
        subst i. assert (Fnk : n =? k = false) by (apply Nat.eqb_neq; lia).
        rewrite E3, Nat.eqb_refl, E2, Fnk, E1.
        destruct (Nat.eqb_spec n 0) as [En0|Nn0].
        -- rewrite En0 in *. rewrite (E0 0 ltac:(lia)). cbn.
           rewrite Hrp, Hwk, Haw, Hk. unfold nxt, is_leader. cbn. auto.
        -- rewrite (E0 n ltac:(lia)). cbn.
           rewrite Hp, Hrp, Hwk, Haw. unfold nxt, is_leader.
           destruct n as [|n']; [lia|]. cbn.
           replace (n' =? S n') with false by (symmetry; apply Nat.eqb_neq; lia). auto.
      * assert (Fin : i =? n = false) by (apply Nat.eqb_neq; lia).
        assert (Fik : i =? k = false) by (apply Nat.eqb_neq; lia).
        rewrite E3, Fin, E2, Fik, E1. destruct (Nat.eqb_spec i 0) as [Ei0|Ni0].
        -- rewrite Ei0 in *. rewrite (E0 0 ltac:(lia)). cbn.
           rewrite Hld, Hrp, Hwk, Haw, Hk. unfold nxt, is_leader. cbn.
           destruct n as [|n']; [lia|]. cbn. auto.
        -- rewrite (E0 i ltac:(lia)).
           rewrite Hp, Hld, Hrp, Hwk, Haw. unfold nxt, is_leader.
           destruct i as [|i']; [lia|]. cbn.
           replace (i' =? S n) with false by (symmetry; apply Nat.eqb_neq; lia).
           replace (i' =? n) with false by (symmetry; apply Nat.eqb_neq; lia). auto.
Qed.

Lemma join_seq_ring n : ring_ok n (join_seq n).
Proof.
  induction n as [|n IH].
  - unfold ring_ok, join_seq, new_group, joined_pool, new_pool. simpl.
    split; [reflexivity|]. split; [reflexivity|]. split; [reflexivity|].
    split; [auto|]. split; [intro; lia|]. intros; lia.
  - simpl. apply join_ring_step. exact IH.
Qed.

(* ======================================================================================= *)
(* Part 2: the concurrent protocol                                                          *)
(* ======================================================================================= *)

(* ---- what each thread contributes to the shared counters -------------------------------- *)

(* 1 while the member's initial in-flight unit (Join) has not been released by SignalReady *)
Definition mpend (pc : mpc) : nat :=
  match pc with MWaitStd | MSetLock | MSetBody | MSetClose | MSetUnlock | MDec1 => 1 | _ => 0 end.

(* the counted messages a processing goroutine is responsible for: the received message until
   its Done, plus the child between inflight.Add(1) and a successful Send / its own Done *)
Definition phold (p : proc) : nat :=
  match p_pc p with
  | PRecv | PEnd | PFin2 | PFin3 => 0
  | PInc1 _ _ | PInc2 _ _ | PDrop2 _ | PDrop3 _ => b2n (is_cyc (p_src p))
  | PSend _ _ | PDrop1 _ => S (b2n (is_cyc (p_src p)))
  | PFin1 => 1
  end.

Definition md2 (pc : mpc) : nat := match pc with MDec2 => 1 | _ => 0 end.
Definition md3 (pc : mpc) : nat := match pc with MDec3 => 1 | _ => 0 end.
Definition pd2 (p : proc) : nat := match p_pc p with PDrop2 _ | PFin2 => 1 | _ => 0 end.
Definition pd3 (p : proc) : nat := match p_pc p with PDrop3 _ | PFin3 => 1 | _ => 0 end.
Definition nD2 (s : state) : nat := sumn md2 (st_main s) + sumn pd2 (st_proc s).
Definition nD3 (s : state) : nat := sumn md3 (st_main s) + sumn pd3 (st_proc s).

Definition mhold (pc : mpc) : nat :=
  match pc with MSetBody | MSetClose | MSetUnlock => 1 | _ => 0 end.
Definition mclose (pc : mpc) : nat := match pc with MSetClose => 1 | _ => 0 end.
Definition bitp (pc : mpc) : bool :=
  match pc with MWaitStd | MSetLock | MSetBody => true | _ => false end.

(* teardown phase of a member: 0 before its Cleanup, 1 during Cleanup / Wake, 2 after *)
Definition tphase (pc : mpc) : nat :=
  match pc with MCleanup _ | MWake1 | MWake2 => 1 | MWaitRec | MDone => 2 | _ => 0 end.
Definition cpos (n : nat) (pc : mpc) : nat :=
  match pc with MCleanup k => k | MWake1 | MWake2 | MWaitRec | MDone => n | _ => 0 end.
Definition woke1 (pc : mpc) : bool := match pc with MWake2 | MWaitRec | MDone => true | _ => false end.
Definition woke2 (pc : mpc) : bool := match pc with MWaitRec | MDone => true | _ => false end.

(* the teardown events member i has produced when it is at pc *)
Definition evs (n i : nat) (pc : mpc) : list event :=
  match pc with
  | MCleanup k => map (EClose i) (seq 0 k)
  | MWake1 | MWake2 => map (EClose i) (seq 0 n)
  | MWaitRec | MDone => member_events n i
  | _ => []
  end.
Fixpoint log_from (n : nat) (mains : list mpc) (m : nat) : list event :=
  match m with
  | O => []
  | S j => evs n j (nth j mains MWaitStd) ++ log_from n mains j
  end.

(* size of the work a goroutine still has to send *)
Definition psize (p : proc) : nat :=
  match p_pc p with
  | PInc1 m r | PInc2 m r | PSend m r => msize m + msizes r
  | PDrop1 r | PDrop2 r | PDrop3 r => msizes r
  | _ => 0
  end.
Definition qsize (q : qmsg) : nat := S (msizes (q_kids q)).

Definition is_some {A} (o : option A) : bool := match o with Some _ => true | None => false end.

Arguments msize : simpl never.
Arguments msizes : simpl never.
Arguments phold !p /.
Arguments pd2 !p /.
Arguments pd3 !p /.
Arguments psize !p /.

(* ---- the invariant ------------------------------------------------------------------------ *)

Record InvL (s : state) : Prop := {
  il_n : 1 <= st_n s;
  il_main : length (st_main s) = st_n s;
  il_wake : length (st_wake s) = st_n s;
  il_awake : length (st_awake s) = st_n s;
  il_closed : length (st_closed s) = st_n s;
  il_bits : length (sp_pool (st_pool s)) = st_n s;
  il_proc : forall k p, nth_error (st_proc s) k = Some p ->
            p_owner p < st_n s /\ forall a, p_src p = Some a -> a < st_n s;
  il_flight : forall q, In q (st_flight s) -> q_src q < st_n s /\ q_dst q < st_n s;
  il_edges : forall a b, a < st_n s -> b < st_n s ->
             exists k p, nth_error (st_proc s) k = Some p /\ p_owner p = b /\ p_src p = Some a
}.

Record InvA (s : state) : Prop := {
  (* inflight_invariant *)
  ia_inflight : sp_inflight (st_pool s) =
                Z.of_nat (sumn mpend (st_main s) + sumn phold (st_proc s) + length (st_flight s));
  (* a goroutine of a standard sender runs only while its member has not signalled ready *)
  ia_std : forall k p, nth_error (st_proc s) k = Some p -> p_src p = None -> p_pc p <> PEnd ->
           nth_error (st_main s) (p_owner p) = Some MWaitStd;
  ia_zero : (sp_zero (st_pool s) = true \/ 0 < nD2 s) <-> sp_inflight (st_pool s) = 0%Z;
  ia_d3 : nD3 s + b2n (sp_quiet (st_pool s)) = b2n (sp_zero (st_pool s));
  ia_total : (1 <= sp_total (st_pool s))%Z
}.

Record InvB (s : state) : Prop := {
  ib_mu_cnt : sumn mhold (st_main s) = b2n (is_some (sp_mu (st_pool s)));
  ib_mu : forall i, sp_mu (st_pool s) = Some i ->
          exists pc, nth_error (st_main s) i = Some pc /\ mhold pc = 1;
  ib_bits : forall i pc, nth_error (st_main s) i = Some pc ->
            nth i (sp_pool (st_pool s)) false = bitp pc;
  ib_ready : sumn mclose (st_main s) + b2n (sp_ready (st_pool s)) =
             b2n (all_false (sp_pool (st_pool s)))
}.

Record InvC (s : state) : Prop := {
  ic_closed : forall i pc, nth_error (st_main s) i = Some pc ->
              nth i (st_closed s) 0 = cpos (st_n s) pc /\ (forall k, pc = MCleanup k -> k < st_n s);
  ic_wake : forall i pc, nth_error (st_main s) i = Some pc ->
            nth (nxt (st_n s) i) (st_awake s) false = woke1 pc /\
            nth (nxt (st_n s) i) (st_wake s) false = woke2 pc;
  ic_order : forall i pc, nth_error (st_main s) i = Some pc -> 1 <= tphase pc ->
             sp_quiet (st_pool s) = true /\
             forall j pcj, i < j -> nth_error (st_main s) j = Some pcj -> tphase pcj = 2;
  ic_sleep : forall i, nth_error (st_main s) i = Some MSleep -> is_leader (st_n s) i = false;
  ic_log : st_log s = log_from (st_n s) (st_main s) (st_n s);
  ic_panic : sp_panic (st_pool s) = false
}.

Record InvD (W : nat) (s : state) : Prop := {
  id_cons : sumn psize (st_proc s) + sumn qsize (st_flight s) + st_processed s + st_lost s = W;
  id_lost : st_cancel s = false -> st_lost s = 0;
  id_pend : forall k p a, nth_error (st_proc s) k = Some p -> p_src p = Some a -> p_pc p = PEnd ->
            edge_closed s a (p_owner p) = true
}.

Record Inv (W : nat) (s : state) : Prop := {
  iL : InvL s; iA : InvA s; iB : InvB s; iC : InvC s; iD : InvD W s
}.

(* ---- frame lemmas: what a step of each kind of thread leaves unchanged -------------------- *)

Lemma step_main_frame s i pc s' :
  step_main s i pc = Some s' ->
  st_n s' = st_n s /\ st_proc s' = st_proc s /\ st_flight s' = st_flight s /\
  st_cancel s' = st_cancel s /\ st_processed s' = st_processed s /\ st_lost s' = st_lost s /\
  exists pc', st_main s' = upd i pc' (st_main s).
Proof.
  unfold step_main. intro H.
  destruct pc; simpl in H;
    repeat match type of H with
           | (if ?c then _ else _) = _ => destruct c eqn:?
           | match ?c with _ => _ end = _ => destruct c eqn:?
           end;
    try discriminate; inversion H; subst; simpl; repeat split; eauto.
Qed.

Lemma step_proc_frame s k pr s' :
  step_proc s k pr = Some s' ->
  st_n s' = st_n s /\ st_main s' = st_main s /\ st_wake s' = st_wake s /\
  st_awake s' = st_awake s /\ st_closed s' = st_closed s /\ st_log s' = st_log s /\
  st_cancel s' = st_cancel s /\
  sp_mu (st_pool s') = sp_mu (st_pool s) /\ sp_pool (st_pool s') = sp_pool (st_pool s) /\
  sp_ready (st_pool s') = sp_ready (st_pool s) /\
  (exists pc', st_proc s' = upd k (mkProc (p_owner pr) (p_src pr) pc') (st_proc s)).
Proof.
  unfold step_proc. intro H. destruct pr as [o src pc]. simpl in H.
  destruct pc as [|m r|m r|[d ks] r|r|r|r| | | |]; simpl in H;
    repeat match type of H with
           | (if ?c then _ else _) = _ => destruct c eqn:?
           | match ?c with _ => _ end = _ => destruct c eqn:?
           end;
    try discriminate; inversion H; subst; simpl; repeat split; eauto;
    unfold a_close_quiet; destruct (sp_quiet (st_pool s)); reflexivity.
Qed.

Ltac step_cases H :=
  repeat match type of H with
         | match (match ?c with _ => _ end) with _ => _ end = _ => destruct c eqn:?
         | (if ?c then _ else _) = _ => destruct c eqn:?
         | match ?c with _ => _ end = _ => destruct c eqn:?
         end;
  try discriminate H; inversion H; subst; clear H.

Lemma take_first_spec a b l q l' :
  take_first a b l = Some (q, l') ->
  q_src q = a /\ q_dst q = b /\ In q l /\ (forall x, In x l' -> In x l) /\
  length l = S (length l') /\ forall f : qmsg -> nat, sumn f l = f q + sumn f l'.
Proof.
  revert q l'; induction l as [|x l IH]; intros q l' H; simpl in H; [discriminate|].
  destruct ((q_src x =? a) && (q_dst x =? b)) eqn:E.
  - inversion H; subst. apply andb_true_iff in E as [E1 E2].
    apply Nat.eqb_eq in E1, E2. simpl. repeat split; auto.
  - destruct (take_first a b l) as [[y r]|] eqn:T; [|discriminate].
    inversion H; subst. destruct (IH _ _ eq_refl) as (H1 & H2 & H3 & H4 & H5 & H6).
    simpl. repeat split; auto.
    + intros z [Hz|Hz]; auto.
    + intro f. rewrite (H6 f). lia.
Qed.

Lemma take_first_none a b l :
  take_first a b l = None -> forall q, In q l -> q_src q = a -> q_dst q = b -> False.
Proof.
  induction l as [|x l IH]; simpl; intros H q Hq Ha Hb; [contradiction|].
  destruct ((q_src x =? a) && (q_dst x =? b)) eqn:E; [discriminate|].
  destruct (take_first a b l) as [[y r]|] eqn:T; [discriminate|].
  destruct Hq as [->|Hq]; [|eapply IH; eauto].
  rewrite Ha, Hb, !Nat.eqb_refl in E. discriminate.
Qed.

Lemma step_main_lens s i pc s' :
  step_main s i pc = Some s' ->
  length (st_main s') = length (st_main s) /\ length (st_wake s') = length (st_wake s) /\
  length (st_awake s') = length (st_awake s) /\ length (st_closed s') = length (st_closed s) /\
  length (sp_pool (st_pool s')) = length (sp_pool (st_pool s)).
Proof.
  unfold step_main. intro H.
  destruct pc; simpl in H; unfold a_set_body, a_lock, a_close_ready, a_close_quiet in H;
    step_cases H; simpl; rewrite ?upd_length;
    repeat match goal with |- context[if ?c then _ else _] => destruct c end;
    simpl; rewrite ?upd_length; auto.
Qed.

Lemma InvL_step W s t s' : Inv W s -> step s t = Some s' -> InvL s'.
Proof.
  intros [L _ _ _ _] H. destruct L as [Ln Lm Lw La Lc Lb Lp Lf Le].
  destruct t as [i|k|]; simpl in H.
  - destruct (nth_error (st_main s) i) as [pc|] eqn:Hi; [|discriminate].
    destruct (step_main_frame _ _ _ _ H) as (F1 & F2 & F3 & _).
    destruct (step_main_lens _ _ _ _ H) as (G1 & G2 & G3 & G4 & G5).
    constructor; rewrite ?F1, ?F2, ?F3; try congruence; auto.
  - destruct (nth_error (st_proc s) k) as [pr|] eqn:Hk; [|discriminate].
    destruct (step_proc_frame _ _ _ _ H) as (F1 & F2 & F3 & F4 & F5 & _ & _ & _ & F6 & _ & pc' & F7).
    destruct (Lp _ _ Hk) as [Lo Ls].
    constructor; rewrite ?F1, ?F2, ?F3, ?F4, ?F5, ?F6; auto.
    + rewrite F7. intros k' p'. rewrite nth_error_upd.
      destruct ((k' =? k) && (k <? length (st_proc s))); [|apply Lp].
      intro E; inversion E; subst; simpl. auto.
    + (* messages in flight keep valid end points *)
      clear F7 pc'. unfold step_proc in H. destruct pr as [o src pc]. simpl in *.
      destruct pc as [|m r|m r|[d ks] r|r|r|r| | | |]; simpl in H; step_cases H; simpl; auto.
      * intros x0 Hx0. apply Lf. eapply take_first_spec; eauto.
      * intros x0 Hx0. apply Lf. eapply take_first_spec; eauto.
      * intros x0 Hx0. apply in_app_or in Hx0 as [Hx0|[<-|[]]]; auto. simpl. split; auto.
        apply Nat.mod_upper_bound. lia.
    + rewrite F7. intros a b Ha Hb. destruct (Le a b Ha Hb) as (k' & p' & E1 & E2 & E3).
      destruct (Nat.eq_dec k' k) as [->|Hne].
      * exists k, (mkProc (p_owner pr) (p_src pr) pc'). rewrite nth_error_upd_eq.
        -- rewrite Hk in E1. inversion E1; subst. auto.
        -- eapply nth_error_lt; eauto.
      * exists k', p'. rewrite nth_error_upd_neq; auto.
  - destruct (st_cancel s); [discriminate|]. inversion H; subst. constructor; simpl; auto.
Qed.

(* ---- InvA: the counters --------------------------------------------------------------------- *)

Lemma std_done_spec i l k p :
  std_done i l = true -> nth_error l k = Some p -> p_src p = None -> p_owner p = i -> p_pc p = PEnd.
Proof.
  unfold std_done. intros H Hk Hs Ho. rewrite forallb_forall in H.
  specialize (H p (nth_error_In _ _ Hk)). rewrite Hs, Ho, Nat.eqb_refl in H. simpl in H.
  destruct (p_pc p); try discriminate. reflexivity.
Qed.

Lemma rec_done_spec i l k p a :
  rec_done i l = true -> nth_error l k = Some p -> p_src p = Some a -> p_owner p = i -> p_pc p = PEnd.
Proof.
  unfold rec_done. intros H Hk Hs Ho. rewrite forallb_forall in H.
  specialize (H p (nth_error_In _ _ Hk)). rewrite Hs, Ho, Nat.eqb_refl in H. simpl in H.
  destruct (p_pc p); try discriminate. reflexivity.
Qed.

(* a goroutine that can still send holds the pool away from zero *)
Lemma busy_pos s k p :
  InvA s -> nth_error (st_proc s) k = Some p ->
  match p_pc p with PRecv | PEnd | PFin2 | PFin3 => False | _ => True end ->
  1 <= sumn mpend (st_main s) + sumn phold (st_proc s).
Proof.
  intros A Hk Hpc.
  pose proof (sumn_ge phold _ _ _ Hk) as G.
  destruct p as [o [a|] pc].
  - destruct pc; simpl in *; try contradiction; lia.
  - assert (Hm : nth_error (st_main s) o = Some MWaitStd).
    { apply (ia_std _ A k (mkProc o None pc) Hk eq_refl). simpl. destruct pc; simpl in Hpc; try contradiction; discriminate. }
    pose proof (sumn_ge mpend _ _ _ Hm) as G'. simpl in G'. lia.
Qed.

Lemma InvA_step_main W s i pc s' :
  Inv W s -> nth_error (st_main s) i = Some pc -> step_main s i pc = Some s' -> InvA s'.
Proof.
  intros [L A B C D] Hi H.
  assert (Hstd : forall k p, nth_error (st_proc s') k = Some p -> p_src p = None -> p_pc p <> PEnd ->
                 nth_error (st_main s') (p_owner p) = Some MWaitStd).
  { destruct (step_main_frame _ _ _ _ H) as (_ & F2 & _ & _ & _ & _ & pc' & F7).
    rewrite F2, F7. intros k p Hk Hs Hp.
    pose proof (ia_std _ A k p Hk Hs Hp) as Hm.
    destruct (Nat.eq_dec (p_owner p) i) as [E|E].
    - rewrite E in Hm. rewrite Hi in Hm. inversion Hm; subst pc.
      simpl in H. destruct (std_done i (st_proc s)) eqn:Sd; [|discriminate].
      exfalso. apply Hp. eapply std_done_spec; eauto.
    - rewrite nth_error_upd_neq; auto. }
  destruct A as [Ai As Az Ad At]. unfold nD2, nD3 in *.
  pose proof (fun x => sumn_upd mpend i x pc _ Hi) as U1.
  pose proof (fun x => sumn_upd md2 i x pc _ Hi) as U2.
  pose proof (fun x => sumn_upd md3 i x pc _ Hi) as U3.
  pose proof (sumn_ge mpend _ _ _ Hi) as G1.
  pose proof (sumn_ge md2 _ _ _ Hi) as G2.
  pose proof (sumn_ge md3 _ _ _ Hi) as G3.
  unfold step_main, after_wait in H.
  destruct pc; simpl in H; unfold a_lock, a_set_body, a_close_ready, a_close_quiet, a_unlock in H;
    simpl in H; step_cases H;
    repeat (match goal with |- context[if ?c then _ else _] => destruct c eqn:? end);
    (constructor; [ | exact Hstd | | | ]); clear Hstd; unfold nD2, nD3;
    destruct (sp_zero (st_pool s)) eqn:Ez; destruct (sp_quiet (st_pool s)) eqn:Eq;
    simpl in *; rewrite ?Ez, ?Eq; simpl;
    repeat match goal with
           | |- context[sumn ?f (upd i ?x (st_main s))] =>
             match f with
             | mpend => let U := fresh in pose proof (U1 x) as U; simpl in U; revert U
             | md2 => let U := fresh in pose proof (U2 x) as U; simpl in U; revert U
             | md3 => let U := fresh in pose proof (U3 x) as U; simpl in U; revert U
             end;
             generalize (sumn f (upd i x (st_main s)))
           end; intros;
    repeat match goal with |- context[if ?c then _ else _] => destruct c; simpl end;
    rewrite ?Ez, ?Eq; simpl; try lia.
Qed.

Lemma InvA_step_proc W s k pr s' :
  Inv W s -> nth_error (st_proc s) k = Some pr -> step_proc s k pr = Some s' -> InvA s'.
Proof.
  intros [L A B C D] Hk H.
  assert (Hstd : forall k p, nth_error (st_proc s') k = Some p -> p_src p = None -> p_pc p <> PEnd ->
                 nth_error (st_main s') (p_owner p) = Some MWaitStd).
  { destruct (step_proc_frame _ _ _ _ H) as (_ & F2 & _ & _ & _ & _ & _ & _ & _ & _ & pc' & F7).
    rewrite F2, F7. intros k' p. rewrite nth_error_upd.
    destruct ((k' =? k) && (k <? length (st_proc s))).
    - intro E; inversion E; subst p; simpl. intros Hs _.
      apply (ia_std _ A k pr Hk Hs). intro Hp.
      destruct pr as [o src pc]. simpl in Hp. subst pc. simpl in H. discriminate.
    - apply (ia_std _ A). }
  pose proof (busy_pos s k _ A Hk) as BP.
  destruct A as [Ai As Az Ad At]. unfold nD2, nD3 in *.
  destruct pr as [o src pc].
  pose proof (fun x => sumn_upd phold k x _ _ Hk) as U1.
  pose proof (fun x => sumn_upd pd2 k x _ _ Hk) as U2.
  pose proof (fun x => sumn_upd pd3 k x _ _ Hk) as U3.
  pose proof (sumn_ge phold _ _ _ Hk) as G1.
  pose proof (sumn_ge pd2 _ _ _ Hk) as G2.
  pose proof (sumn_ge pd3 _ _ _ Hk) as G3.
  unfold step_proc in H. simpl in H.
  destruct src as [a|];
  (destruct pc as [|m r|m r|[d ks] r|r|r|r| | | |]; simpl in H;
    unfold a_close_quiet in H; simpl in H; step_cases H;
    try match goal with
        | T : take_first _ _ _ = Some _ |- _ =>
          let TL := fresh "TL" in
          pose proof (proj1 (proj2 (proj2 (proj2 (proj2 (take_first_spec _ _ _ _ _ T)))))) as TL
        end;
    repeat (match goal with |- context[if ?c then _ else _] => destruct c eqn:? end);
    repeat (match goal with |- context[after _ ?r] => destruct r eqn:?; unfold after end);
    (constructor; [ | exact Hstd | | | ]); clear Hstd; unfold nD2, nD3;
    destruct (sp_zero (st_pool s)) eqn:Ez; destruct (sp_quiet (st_pool s)) eqn:Eq;
    simpl in *; rewrite ?Ez, ?Eq, ?app_length; simpl;
    try specialize (BP I);
    repeat match goal with
           | |- context[sumn ?f (upd k ?x (st_proc s))] =>
             match f with
             | phold => let U := fresh in pose proof (U1 x) as U; simpl in U; revert U
             | pd2 => let U := fresh in pose proof (U2 x) as U; simpl in U; revert U
             | pd3 => let U := fresh in pose proof (U3 x) as U; simpl in U; revert U
             end;
             generalize (sumn f (upd k x (st_proc s)))
           end; intros;
    repeat match goal with
           | |- context[after ?c ?r] => destruct r; simpl in *
           end;
    try lia).
Qed.

Lemma InvA_step W s t s' : Inv W s -> step s t = Some s' -> InvA s'.
Proof.
  intros I H. destruct t as [i|k|]; simpl in H.
  - destruct (nth_error (st_main s) i) as [pc|] eqn:Hi; [|discriminate].
    eapply InvA_step_main; eauto.
  - destruct (nth_error (st_proc s) k) as [pr|] eqn:Hk; [|discriminate].
    eapply InvA_step_proc; eauto.
  - destruct (st_cancel s); [discriminate|]. inversion H; subst.
    destruct I as [_ [A1 A2 A3 A4 A5] _ _ _]. constructor; simpl; auto.
Qed.

(* ---- InvB: mutex, pool bits, ready channel ---------------------------------------------------- *)

Ltac main_cases pc H :=
  unfold step_main, after_wait in H;
  destruct pc; simpl in H; unfold a_lock, a_set_body, a_close_ready, a_close_quiet, a_unlock in H;
  simpl in H; step_cases H; unfold w_wake; simpl;
  repeat (match goal with |- context[if ?c then _ else _] => destruct c eqn:? end).

Lemma InvB_step_main W s i pc s' :
  Inv W s -> nth_error (st_main s) i = Some pc -> step_main s i pc = Some s' -> InvB s'.
Proof.
  intros [L A B C D] Hi H. destruct B as [Bc Bm Bb Br].
  assert (Hilt : i <? length (sp_pool (st_pool s)) = true).
  { apply Nat.ltb_lt. rewrite (il_bits _ L), <- (il_main _ L). eapply nth_error_lt; eauto. }
  assert (Hilm : i < length (st_main s)) by (eapply nth_error_lt; eauto).
  pose proof (fun x => sumn_upd mhold i x pc _ Hi) as U1.
  pose proof (fun x => sumn_upd mclose i x pc _ Hi) as U2.
  pose proof (sumn_ge mhold _ _ _ Hi) as G1.
  pose proof (sumn_ge mclose _ _ _ Hi) as G2.
  pose proof (Bb i pc Hi) as Bi.
  assert (AF : bitp pc = true -> all_false (sp_pool (st_pool s)) = false).
  { intro E. rewrite E in Bi. eapply all_false_nth; eauto. }
  constructor.
  - (* mutex count *)
    main_cases pc H; simpl in *; try discriminate;
      match goal with |- context[sumn mhold (upd i ?x _)] => pose proof (U1 x) as U; simpl in U end;
      destruct (sp_mu (st_pool s)); simpl in *; try discriminate; lia.
  - (* mutex holder *)
    assert (Hgen : forall pc' mu' mains', mu' = sp_mu (st_pool s) -> mains' = upd i pc' (st_main s) ->
                   (mhold pc = 1 -> mhold pc' = 1) ->
                   forall j, mu' = Some j -> exists pcj, nth_error mains' j = Some pcj /\ mhold pcj = 1).
    { intros pc' mu' mains' Emu Em Hh j Hj. rewrite Em. rewrite Emu in Hj. destruct (Bm j Hj) as (pcj & Hpj & Hhj).
      destruct (Nat.eq_dec j i) as [->|Hne].
      - rewrite nth_error_upd_eq by assumption. exists pc'. split; auto. apply Hh. congruence.
      - rewrite nth_error_upd_neq by congruence. eauto. }
    main_cases pc H; simpl in *; try discriminate;
      try (eapply Hgen; simpl; try reflexivity; simpl; auto; fail).
    + (* Lock *) intros j Hj. inversion Hj; subst j. rewrite nth_error_upd_eq by assumption. eauto.
  - (* pool bits *)
    assert (Hgen : forall pc' bits' mains', bits' = sp_pool (st_pool s) -> mains' = upd i pc' (st_main s) ->
                   bitp pc' = bitp pc ->
                   forall j pcj, nth_error mains' j = Some pcj -> nth j bits' false = bitp pcj).
    { intros pc' bits' mains' Ep Em Hb j pcj. rewrite Em, Ep, nth_error_upd.
      destruct (Nat.eqb_spec j i) as [->|Hne]; simpl.
      - replace (i <? length (st_main s)) with true by (symmetry; apply Nat.ltb_lt; assumption).
        intro E; inversion E; subst. congruence.
      - apply Bb. }
    main_cases pc H; simpl in *; try discriminate;
      try (eapply Hgen; simpl; try reflexivity; fail).
    + (* set body: the bit is cleared *)
      intros j pcj. rewrite nth_error_upd, nth_upd, Hilt.
      destruct (Nat.eqb_spec j i) as [->|Hne]; simpl.
      * replace (i <? length (st_main s)) with true by (symmetry; apply Nat.ltb_lt; assumption).
        intro E; inversion E; subst. reflexivity.
      * apply Bb.
    + intros j pcj. rewrite nth_error_upd, nth_upd, Hilt.
      destruct (Nat.eqb_spec j i) as [->|Hne]; simpl.
      * replace (i <? length (st_main s)) with true by (symmetry; apply Nat.ltb_lt; assumption).
        intro E; inversion E; subst. reflexivity.
      * apply Bb.
  - (* ready *)
    main_cases pc H; simpl in *; try discriminate;
      match goal with |- context[sumn mclose (upd i ?x _)] => pose proof (U2 x) as U; simpl in U end;
      try (specialize (AF eq_refl); rewrite AF in * );
      destruct (sp_ready (st_pool s));
      destruct (all_false (sp_pool (st_pool s))) eqn:?; simpl in *; try lia.
Qed.

Lemma InvB_step W s t s' : Inv W s -> step s t = Some s' -> InvB s'.
Proof.
  intros I H. destruct t as [i|k|]; simpl in H.
  - destruct (nth_error (st_main s) i) as [pc|] eqn:Hi; [|discriminate].
    eapply InvB_step_main; eauto.
  - destruct (nth_error (st_proc s) k) as [pr|] eqn:Hk; [|discriminate].
    destruct (step_proc_frame _ _ _ _ H) as (_ & F2 & _ & _ & _ & _ & _ & F8 & F9 & F10 & _).
    destruct I as [_ _ [B1 B2 B3 B4] _ _]. constructor; rewrite ?F2, ?F8, ?F9, ?F10; auto.
  - destruct (st_cancel s); [discriminate|]. inversion H; subst.
    destruct I as [_ _ [B1 B2 B3 B4] _ _]. constructor; simpl; auto.
Qed.

(* ---- InvC: the ordered teardown ------------------------------------------------------------------ *)

Lemma nxt_lt n i : i < n -> nxt n i < n.
Proof. destruct i; simpl; lia. Qed.

Lemma nxt_inj n i j : i < n -> j < n -> nxt n i = nxt n j -> i = j.
Proof. destruct i, j; simpl; lia. Qed.

Lemma tphase_le2 pc : tphase pc <= 2.
Proof. destruct pc; simpl; lia. Qed.

Lemma evs_phase0 n i pc : tphase pc = 0 -> evs n i pc = [].
Proof. destruct pc; simpl; auto; discriminate. Qed.

Lemma log_from_upd_ge n i x mains m : m <= i -> log_from n (upd i x mains) m = log_from n mains m.
Proof.
  induction m as [|m IH]; simpl; intro H; auto.
  rewrite IH by lia. rewrite nth_upd.
  replace (m =? i) with false by (symmetry; apply Nat.eqb_neq; lia). reflexivity.
Qed.

Lemma log_from_nil n mains m :
  (forall j, j < m -> tphase (nth j mains MWaitStd) = 0) -> log_from n mains m = [].
Proof.
  induction m as [|m IH]; simpl; intro H; auto.
  rewrite IH by (intros; apply H; lia). rewrite evs_phase0; auto.
Qed.

Lemma log_from_upd_app n i pc pc' es mains m :
  nth_error mains i = Some pc -> i < m ->
  evs n i pc' = evs n i pc ++ es ->
  es = [] \/ log_from n mains i = [] ->
  log_from n (upd i pc' mains) m = log_from n mains m ++ es.
Proof.
  intros Hi Hlt He Hes. induction m as [|m IH]; [lia|].
  simpl. rewrite nth_upd.
  assert (Hl : i <? length mains = true) by (apply Nat.ltb_lt; eapply nth_error_lt; eauto).
  rewrite Hl. destruct (Nat.eqb_spec m i) as [->|Hne]; simpl.
  - rewrite log_from_upd_ge by lia. rewrite (nth_of_nth_error _ _ _ MWaitStd Hi), He.
    destruct Hes as [Hes | Hes]; rewrite Hes; rewrite ?app_nil_r; auto.
  - rewrite IH by lia. rewrite app_assoc. reflexivity.
Qed.

Lemma InvC_update s s' i pc pc' es :
  InvL s -> InvC s -> nth_error (st_main s) i = Some pc ->
  st_n s' = st_n s -> st_main s' = upd i pc' (st_main s) ->
  (sp_quiet (st_pool s) = true -> sp_quiet (st_pool s') = true) ->
  sp_panic (st_pool s') = false ->
  (nth i (st_closed s') 0 = cpos (st_n s) pc' /\ forall k, pc' = MCleanup k -> k < st_n s) ->
  (forall j, j <> i -> nth j (st_closed s') 0 = nth j (st_closed s) 0) ->
  (nth (nxt (st_n s) i) (st_awake s') false = woke1 pc' /\
   nth (nxt (st_n s) i) (st_wake s') false = woke2 pc') ->
  (forall j, j <> nxt (st_n s) i ->
             nth j (st_awake s') false = nth j (st_awake s) false /\
             nth j (st_wake s') false = nth j (st_wake s) false) ->
  tphase pc <= tphase pc' ->
  (1 <= tphase pc' ->
   sp_quiet (st_pool s') = true /\
   forall j pcj, i < j -> nth_error (st_main s) j = Some pcj -> tphase pcj = 2) ->
  (pc' = MSleep -> is_leader (st_n s) i = false) ->
  evs (st_n s) i pc' = evs (st_n s) i pc ++ es ->
  st_log s' = st_log s ++ es ->
  (es = [] \/ tphase pc <= 1) ->
  InvC s'.
Proof.
  intros L C Hi En Em Hq Hp Hc Hc' Hw Hw' Hmono Hord Hsl Hev Hlog Hes.
  destruct C as [Cc Cw Co Cs Cl Cp].
  assert (Hilt : i < length (st_main s)) by (eapply nth_error_lt; eauto).
  assert (Hin : i < st_n s) by (rewrite <- (il_main _ L); auto).
  assert (Hlt : i <? length (st_main s) = true) by (apply Nat.ltb_lt; auto).
  constructor; rewrite ?En, ?Em.
  - intros j pcj. rewrite nth_error_upd, Hlt.
    destruct (Nat.eqb_spec j i) as [->|Hne]; simpl.
    + intro E; inversion E; subst. auto.
    + intro E. rewrite Hc' by auto. apply Cc; auto.
  - intros j pcj. rewrite nth_error_upd, Hlt.
    destruct (Nat.eqb_spec j i) as [->|Hne]; simpl.
    + intro E; inversion E; subst. auto.
    + intro E. assert (Hjn : j < st_n s).
      { rewrite <- (il_main _ L). eapply nth_error_lt; eauto. }
      assert (nxt (st_n s) j <> nxt (st_n s) i) by (intro X; apply Hne; eapply nxt_inj; eauto).
      destruct (Hw' _ H) as [-> ->]. apply Cw; auto.
  - intros j pcj. rewrite nth_error_upd, Hlt.
    destruct (Nat.eqb_spec j i) as [->|Hne]; simpl.
    + intro E; inversion E; subst. intro Hph. destruct (Hord Hph) as [Q O]. split; auto.
      intros j' pcj' Hj'. rewrite nth_error_upd_neq by lia. apply O; auto.
    + intros E Hph. destruct (Co j pcj E Hph) as [Q O]. split; auto.
      intros j' pcj' Hj'. rewrite nth_error_upd, Hlt.
      destruct (Nat.eqb_spec j' i) as [->|Hne']; simpl.
      * intro E'; inversion E'; subst. pose proof (O i pc Hj' Hi). pose proof (tphase_le2 pcj'). lia.
      * apply O; auto.
  - intros j. rewrite nth_error_upd, Hlt.
    destruct (Nat.eqb_spec j i) as [->|Hne]; simpl.
    + intro E; inversion E; subst. auto.
    + apply Cs.
  - rewrite Hlog, Cl. symmetry. eapply log_from_upd_app; eauto.
    destruct Hes as [Hes | Hph]; [rewrite Hes|]; auto. right.
    apply log_from_nil. intros j Hj.
    assert (Hjl : j < length (st_main s)) by lia.
    destruct (nth_error_ex _ _ Hjl) as [pcj Hpj].
    rewrite (nth_of_nth_error _ _ _ MWaitStd Hpj).
    destruct (tphase pcj) eqn:T; auto.
    destruct (Co j pcj Hpj ltac:(lia)) as [_ O]. specialize (O i pc Hj Hi). lia.
  - exact Hp.
Qed.

Lemma map_seq_S {A} (f : nat -> A) k : map f (seq 0 (S k)) = map f (seq 0 k) ++ [f k].
Proof. rewrite seq_S, map_app. reflexivity. Qed.

Lemma InvC_step_main W s i pc s' :
  Inv W s -> nth_error (st_main s) i = Some pc -> step_main s i pc = Some s' -> InvC s'.
Proof.
  intros [L A B C D] Hi H.
  pose proof (ic_closed _ C i pc Hi) as Cci.
  pose proof (ic_wake _ C i pc Hi) as Cwi.
  pose proof (ic_panic _ C) as Cp.
  pose proof (ia_total _ A) as At.
  pose proof (ia_d3 _ A) as Ad. unfold nD3 in Ad.
  pose proof (ib_ready _ B) as Br.
  pose proof (sumn_ge md3 _ _ _ Hi) as G3.
  pose proof (sumn_ge mclose _ _ _ Hi) as G4.
  assert (Hin : i < st_n s) by (rewrite <- (il_main _ L); eapply nth_error_lt; eauto).
  assert (Hnx : nxt (st_n s) i < st_n s) by (apply nxt_lt; auto).
  main_cases pc H;
    try (eapply (InvC_update s _ i _ _ []);
         [eassumption|eassumption|eassumption|reflexivity|reflexivity| .. ];
         simpl in *; rewrite ?app_nil_r; auto; try tauto; try lia; try discriminate;
         try (split; [tauto|intros; discriminate]); fail).
  - (* close(ready) on a closed channel: impossible *)
    exfalso. simpl in *. destruct (all_false (sp_pool (st_pool s))); simpl in *; lia.
  - (* close(quiescence) on a closed channel: impossible *)
    exfalso. simpl in *. destruct (sp_zero (st_pool s)); simpl in *; lia.
  - (* the leader passes WaitForAllReady *)
    eapply (InvC_update s _ i _ _ []);
      [eassumption|eassumption|eassumption|reflexivity|reflexivity| .. ];
      simpl in *; rewrite ?app_nil_r; auto; try tauto; try lia; try discriminate.
    + split; [tauto|]. intros k E. inversion E. lia.
    + intros _. split; auto. intros j pcj Hj Hpj. exfalso.
      apply nth_error_lt in Hpj. rewrite (il_main _ L) in Hpj.
      unfold is_leader in Heqb0. apply Nat.eqb_eq in Heqb0. lia.
  - (* a sleeping member is woken *)
    eapply (InvC_update s _ i _ _ []);
      [eassumption|eassumption|eassumption|reflexivity|reflexivity| .. ];
      simpl in *; rewrite ?app_nil_r; auto; try tauto; try lia; try discriminate.
    + split; [tauto|]. intros k E. inversion E. lia.
    + intros _.
      pose proof (ic_sleep _ C i Hi) as Nl. unfold is_leader in Nl. apply Nat.eqb_neq in Nl.
      assert (Hsi : S i < length (st_main s)) by (rewrite (il_main _ L); lia).
      destruct (nth_error_ex _ _ Hsi) as [pcs Hps].
      destruct (ic_wake _ C (S i) pcs Hps) as [_ Hw2]. simpl in Hw2. rewrite Heqb in Hw2.
      assert (Hph : tphase pcs = 2) by (destruct pcs; simpl in *; try discriminate; reflexivity).
      destruct (ic_order _ C (S i) pcs Hps ltac:(lia)) as [Q O]. split; auto.
      intros j pcj Hj Hpj. destruct (Nat.eq_dec j (S i)) as [->|Hne].
      * congruence.
      * apply (O j pcj); auto. lia.
  - (* Cleanup closes listener k, more to come *)
    destruct Cci as [Cc1 Cc2]. specialize (Cc2 k eq_refl). simpl in Cc1.
    apply Nat.ltb_lt in Heqb.
    assert (Hcl : i <? length (st_closed s) = true) by (apply Nat.ltb_lt; rewrite (il_closed _ L); auto).
    eapply (InvC_update s _ i _ _ [EClose i k]);
      [eassumption|eassumption|eassumption|reflexivity|reflexivity| .. ];
      simpl in *; auto; try tauto; try lia; try discriminate.
    + rewrite nth_upd, Nat.eqb_refl, Hcl. simpl. split; auto. intros k' E. inversion E. lia.
    + intros j Hj. rewrite nth_upd. replace (j =? i) with false by (symmetry; apply Nat.eqb_neq; auto). reflexivity.
    + intros _. apply (ic_order _ C i _ Hi). simpl. lia.
    + exact (map_seq_S (EClose i) k).
  - (* Cleanup closes the last listener *)
    destruct Cci as [Cc1 Cc2]. specialize (Cc2 k eq_refl). simpl in Cc1.
    apply Nat.ltb_ge in Heqb. assert (Ek : S k = st_n s) by lia.
    assert (Hcl : i <? length (st_closed s) = true) by (apply Nat.ltb_lt; rewrite (il_closed _ L); auto).
    eapply (InvC_update s _ i _ _ [EClose i k]);
      [eassumption|eassumption|eassumption|reflexivity|reflexivity| .. ];
      simpl in *; auto; try tauto; try lia; try discriminate.
    + rewrite nth_upd, Nat.eqb_refl, Hcl. simpl. split; auto. intros; discriminate.
    + intros j Hj. rewrite nth_upd. replace (j =? i) with false by (symmetry; apply Nat.eqb_neq; auto). reflexivity.
    + intros _. apply (ic_order _ C i _ Hi). simpl. lia.
    + rewrite <- Ek. exact (map_seq_S (EClose i) k).
  - (* Wake: awake.Swap(true) returned false *)
    assert (Haw : nxt (st_n s) i <? length (st_awake s) = true) by (apply Nat.ltb_lt; rewrite (il_awake _ L); auto).
    eapply (InvC_update s _ i _ _ []);
      [eassumption|eassumption|eassumption|reflexivity|reflexivity| .. ];
      simpl in *; rewrite ?app_nil_r; auto; try tauto; try lia; try discriminate.
    + split; [tauto|intros; discriminate].
    + rewrite nth_upd, Nat.eqb_refl, Haw. simpl. tauto.
    + intros j Hj. rewrite nth_upd. replace (j =? nxt (st_n s) i) with false by (symmetry; apply Nat.eqb_neq; auto). auto.
    + intros _. apply (ic_order _ C i _ Hi). simpl. lia.
  - (* Wake: close(wake) *)
    assert (Hwk : nxt (st_n s) i <? length (st_wake s) = true) by (apply Nat.ltb_lt; rewrite (il_wake _ L); auto).
    eapply (InvC_update s _ i _ _ [EWake (nxt (st_n s) i)]);
      [eassumption|eassumption|eassumption|reflexivity|reflexivity| .. ];
      simpl in *; auto; try tauto; try lia; try discriminate.
    + split; [tauto|intros; discriminate].
    + rewrite nth_upd, Nat.eqb_refl, Hwk. simpl. tauto.
    + intros j Hj. rewrite nth_upd. replace (j =? nxt (st_n s) i) with false by (symmetry; apply Nat.eqb_neq; auto). auto.
    + intros _. apply (ic_order _ C i _ Hi). simpl. lia.
  - (* wgRecursive.Wait() returns *)
    eapply (InvC_update s _ i _ _ []);
      [eassumption|eassumption|eassumption|reflexivity|reflexivity| .. ];
      simpl in *; rewrite ?app_nil_r; auto; try tauto; try lia; try discriminate.
    + split; [tauto|intros; discriminate].
    + intros _. apply (ic_order _ C i _ Hi). simpl. lia.
Qed.

Lemma step_proc_latch s k pr s' :
  InvA s -> nth_error (st_proc s) k = Some pr -> step_proc s k pr = Some s' ->
  (sp_quiet (st_pool s) = true -> sp_quiet (st_pool s') = true) /\
  sp_panic (st_pool s') = sp_panic (st_pool s).
Proof.
  intros A Hk H. pose proof (ia_d3 _ A) as Ad. unfold nD3 in Ad.
  pose proof (sumn_ge pd3 _ _ _ Hk) as G.
  destruct pr as [o src pc]. unfold step_proc in H. simpl in H.
  destruct pc as [|m r|m r|[d ks] r|r|r|r| | | |]; simpl in H;
    unfold a_close_quiet in H; step_cases H; simpl in *; auto;
    destruct (sp_quiet (st_pool s)) eqn:Q; simpl in *; auto;
    exfalso; destruct (sp_zero (st_pool s)); simpl in *; lia.
Qed.

Lemma InvC_step W s t s' : Inv W s -> step s t = Some s' -> InvC s'.
Proof.
  intros I H. destruct t as [i|k|]; simpl in H.
  - destruct (nth_error (st_main s) i) as [pc|] eqn:Hi; [|discriminate].
    eapply InvC_step_main; eauto.
  - destruct (nth_error (st_proc s) k) as [pr|] eqn:Hk; [|discriminate].
    destruct (step_proc_frame _ _ _ _ H) as (F1 & F2 & F3 & F4 & F5 & F6 & _).
    destruct (step_proc_latch _ _ _ _ (iA _ _ I) Hk H) as [Q P].
    destruct I as [_ _ _ [C1 C2 C3 C4 C5 C6] _].
    constructor; rewrite ?F1, ?F2, ?F3, ?F4, ?F5, ?F6, ?P; auto.
    intros i pc Hi Hph. destruct (C3 i pc Hi Hph). split; auto.
  - destruct (st_cancel s); [discriminate|]. inversion H; subst.
    destruct I as [_ _ _ [C1 C2 C3 C4 C5 C6] _]. constructor; simpl; auto.
Qed.

(* ---- consequences used by the remaining parts ------------------------------------------------- *)

(* once the latch is closed, nothing is pending, held or queued *)
Lemma quiet_zero W s :
  Inv W s -> sp_quiet (st_pool s) = true ->
  sumn mpend (st_main s) + sumn phold (st_proc s) + length (st_flight s) = 0.
Proof.
  intros I Q. destruct (iA _ _ I) as [Ai _ Az Ad _]. rewrite Q in Ad. simpl in Ad.
  assert (Z : sp_zero (st_pool s) = true) by (destruct (sp_zero (st_pool s)); simpl in *; auto; lia).
  assert (Z0 : sp_inflight (st_pool s) = 0%Z) by (apply Az; auto). lia.
Qed.

(* a member that has started its Cleanup has seen the latch closed *)
Lemma closed_quiet W s a :
  Inv W s -> a < st_n s -> 0 < nth a (st_closed s) 0 -> sp_quiet (st_pool s) = true.
Proof.
  intros I Ha Hc. destruct (iC _ _ I) as [Cc _ Co _ _ _].
  assert (Hl : a < length (st_main s)) by (rewrite (il_main _ (iL _ _ I)); auto).
  destruct (nth_error_ex _ _ Hl) as [pc Hpc].
  destruct (Cc a pc Hpc) as [E _]. rewrite E in Hc.
  apply (Co a pc Hpc). destruct pc; simpl in *; lia.
Qed.

Lemma psize_after o src c r : psize (mkProc o src (after c r)) = msizes r.
Proof. destruct r; simpl; auto. destruct c; reflexivity. Qed.

Lemma msizes_cons m r : msizes (m :: r) = msize m + msizes r.
Proof. reflexivity. Qed.

Lemma msize_Msg d ks : msize (Msg d ks) = S (msizes ks).
Proof. reflexivity. Qed.

Opaque msize msizes.

(* ---- InvD: conservation of work ----------------------------------------------------------------- *)

Lemma InvD_step_proc W s k pr s' :
  Inv W s -> nth_error (st_proc s) k = Some pr -> step_proc s k pr = Some s' -> InvD W s'.
Proof.
  intros I Hk H. destruct (iD _ _ I) as [Dc Dl Dp].
  pose proof (iL _ _ I) as L.
  destruct (il_proc _ L _ _ Hk) as [Lo Ls].
  constructor.
  - (* conservation *)
    destruct pr as [o src pc].
    pose proof (fun x => sumn_upd psize k x _ _ Hk) as U.
    unfold step_proc in H. simpl in H.
    destruct pc as [|m r|m r|[d ks] r|r|r|r| | | |]; simpl in H; step_cases H;
      try match goal with
          | T : take_first _ _ _ = Some _ |- _ =>
            pose proof (proj2 (proj2 (proj2 (proj2 (proj2 (take_first_spec _ _ _ _ _ T))))) qsize) as TS
          end;
      repeat (match goal with |- context[if ?c then _ else _] => destruct c eqn:? end);
      simpl;
      match goal with |- context[sumn psize (upd k ?x _)] => pose proof (U x) as Ux end;
      rewrite ?psize_after in Ux; simpl in Ux; rewrite ?sumn_app; simpl; unfold qsize in *; simpl in *;
      rewrite ?msize_Msg, ?msizes_cons in *; try lia.
  - (* nothing is lost unless the request is cancelled *)
    destruct (step_proc_frame _ _ _ _ H) as (_ & _ & _ & _ & _ & _ & Fc & _).
    rewrite Fc. intro Hc. specialize (Dl Hc).
    destruct pr as [o src pc]. unfold step_proc in H. simpl in H.
    destruct pc as [|m r|m r|[d ks] r|r|r|r| | | |]; simpl in H; step_cases H; simpl in *; auto; try congruence.
    (* Send on a closed listener: the owner has started Cleanup, so the latch is closed and this
       goroutine could not be holding a message *)
    exfalso. rewrite Hc in *. simpl in *. unfold edge_closed in Heqb.
    apply Nat.ltb_lt in Heqb.
    assert (Q : sp_quiet (st_pool s) = true) by (eapply closed_quiet; eauto; lia).
    pose proof (quiet_zero _ _ I Q) as Z.
    pose proof (sumn_ge phold _ _ _ Hk) as G. simpl in G. lia.
  - (* a returned goroutine of a cyclical sender has seen its queue closed *)
    destruct (step_proc_frame _ _ _ _ H) as (_ & _ & _ & _ & Fcl & _ & _ & _ & _ & _ & pc' & Fp).
    intros k' p a Hp Hs Hpc. unfold edge_closed. rewrite Fcl.
    destruct (Nat.eq_dec k' k) as [->|Hne].
    + assert (Hkl : k < length (st_proc s)) by (eapply nth_error_lt; eauto).
      clear Fp pc'. destruct pr as [o src pc]. unfold step_proc in H. simpl in H.
      destruct pc as [|m r|m r|[d ks] r|r|r|r| | | |]; simpl in H; step_cases H; simpl in Hp;
        rewrite nth_error_upd_eq in Hp by assumption; inversion Hp; subst p; simpl in *;
        try discriminate; try (inversion Hs; subst);
        repeat match type of Hpc with context[if ?c then _ else _] => destruct c end;
        try discriminate;
        try (match type of Hpc with after _ ?r = _ => destruct r; discriminate end).
      * exact Heqb.
    + rewrite Fp in Hp. rewrite nth_error_upd_neq in Hp by congruence.
      apply (Dp k' p a Hp Hs Hpc).
Qed.

Lemma step_main_closed_mono W s i pc s' a :
  Inv W s -> nth_error (st_main s) i = Some pc -> step_main s i pc = Some s' ->
  nth a (st_closed s) 0 <= nth a (st_closed s') 0.
Proof.
  intros I Hi H. destruct (ic_closed _ (iC _ _ I) i pc Hi) as [Cc _].
  main_cases pc H; simpl; auto.
  all: rewrite nth_upd; destruct ((a =? i) && (i <? length (st_closed s))) eqn:E; auto;
    apply andb_true_iff in E as [E _]; apply Nat.eqb_eq in E; subst a; simpl in Cc; lia.
Qed.

Lemma InvD_step W s t s' : Inv W s -> step s t = Some s' -> InvD W s'.
Proof.
  intros I H. destruct t as [i|k|]; simpl in H.
  - destruct (nth_error (st_main s) i) as [pc|] eqn:Hi; [|discriminate].
    destruct (step_main_frame _ _ _ _ H) as (F1 & F2 & F3 & F4 & F5 & F6 & _).
    destruct (iD _ _ I) as [Dc Dl Dp].
    constructor; rewrite ?F2, ?F3, ?F4, ?F5, ?F6; auto.
    intros k p a Hp Hs Hpc. specialize (Dp k p a Hp Hs Hpc).
    unfold edge_closed in *. apply Nat.ltb_lt in Dp. apply Nat.ltb_lt.
    pose proof (step_main_closed_mono _ _ _ _ _ a I Hi H). lia.
  - destruct (nth_error (st_proc s) k) as [pr|] eqn:Hk; [|discriminate].
    eapply InvD_step_proc; eauto.
  - destruct (st_cancel s) eqn:Ec; [discriminate|]. inversion H; subst.
    destruct (iD _ _ I) as [Dc Dl Dp]. constructor; simpl; auto; discriminate.
Qed.

Theorem Inv_step W s t s' : Inv W s -> step s t = Some s' -> Inv W s'.
Proof.
  intros I H. constructor.
  - eapply InvL_step; eauto.
  - eapply InvA_step; eauto.
  - eapply InvB_step; eauto.
  - eapply InvC_step; eauto.
  - eapply InvD_step; eauto.
Qed.

(* ---- the initial states satisfy the invariant ------------------------------------------------ *)

Lemma sumn_In_zero {A} (f : A -> nat) l : (forall x, In x l -> f x = 0) -> sumn f l = 0.
Proof.
  induction l as [|z l IH]; simpl; intro H; auto.
  rewrite (H z (or_introl eq_refl)), IH; auto.
Qed.

Lemma edge_procs_In n np p :
  In p (edge_procs n np) <-> exists a b, a < n /\ b < n /\ 0 < np /\ p = mkProc b (Some a) PRecv.
Proof.
  unfold edge_procs. rewrite in_flat_map. split.
  - intros (a & Ha & Hp). apply in_flat_map in Hp as (b & Hb & Hp).
    apply in_seq in Ha, Hb. pose proof (repeat_spec _ _ _ Hp) as E.
    exists a, b. repeat split; try lia; auto. destruct np; [contradiction|lia].
  - intros (a & b & Ha & Hb & Hnp & ->). exists a. split; [apply in_seq; lia|].
    apply in_flat_map. exists b. split; [apply in_seq; lia|].
    destruct np; [lia|]. simpl. auto.
Qed.

Lemma std_procs_In n std p :
  In p (std_procs n std) -> exists x, In x std /\ p = mkProc (fst x mod n) None (after false (snd x)).
Proof. unfold std_procs. rewrite in_map_iff. intros (x & E & Hx). eauto. Qed.

Lemma sumn_psize_std n std : sumn psize (std_procs n std) = workload std.
Proof.
  induction std as [|x std IH]; [reflexivity|].
  unfold std_procs, workload in *. cbn [map sumn fold_right].
  rewrite psize_after, IH. reflexivity.
Qed.

Lemma init_procs_hold n np std x :
  In x (edge_procs n np ++ std_procs n std) -> phold x = 0 /\ pd2 x = 0 /\ pd3 x = 0.
Proof.
  intro H. apply in_app_or in H as [H|H].
  - apply edge_procs_In in H as (a & b & _ & _ & _ & ->). simpl. auto.
  - apply std_procs_In in H as (y & _ & ->). destruct (snd y); simpl; auto.
Qed.

Theorem Inv_init n np std : 1 <= n -> 1 <= np -> Inv (workload std) (init n np std).
Proof.
  intros Hn Hnp. unfold init.
  assert (Hmain : forall i pc, nth_error (repeat MWaitStd n) i = Some pc -> pc = MWaitStd /\ i < n)
    by (intros; eapply ne_repeat_inv; eauto).
  constructor.
  - (* InvL *)
    constructor; simpl; rewrite ?repeat_length; auto.
    + intros k p Hk. apply nth_error_In in Hk. apply in_app_or in Hk as [H|H].
      * apply edge_procs_In in H as (a & b & Ha & Hb & _ & ->). simpl. split; auto.
        intros a' E. inversion E; subst; auto.
      * apply std_procs_In in H as (y & _ & ->). simpl. split.
        -- apply Nat.mod_upper_bound. lia.
        -- intros; discriminate.
    + intros q [].
    + intros a b Ha Hb.
      assert (Hin : In (mkProc b (Some a) PRecv) (edge_procs n np ++ std_procs n std)).
      { apply in_or_app. left. apply edge_procs_In. exists a, b. repeat split; auto. }
      apply In_nth_error in Hin as [k Hk]. exists k, (mkProc b (Some a) PRecv). auto.
  - (* InvA *)
    constructor; simpl; unfold nD2, nD3; simpl.
    + rewrite sumn_repeat. simpl.
      rewrite (sumn_In_zero phold) by (intros x Hx; apply (init_procs_hold _ _ _ _ Hx)). lia.
    + intros k p Hk Hs Hp. apply nth_error_In in Hk. apply in_app_or in Hk as [H|H].
      * apply edge_procs_In in H as (a & b & _ & _ & _ & ->). discriminate.
      * apply std_procs_In in H as (y & _ & ->). simpl. apply ne_repeat.
        apply Nat.mod_upper_bound. lia.
    + rewrite sumn_repeat. simpl.
      rewrite (sumn_In_zero pd2) by (intros x Hx; apply (init_procs_hold _ _ _ _ Hx)).
      split; [intros [H|H]; [discriminate|lia]|lia].
    + rewrite sumn_repeat. simpl.
      rewrite (sumn_In_zero pd3) by (intros x Hx; apply (init_procs_hold _ _ _ _ Hx)). lia.
    + lia.
  - (* InvB *)
    constructor; simpl.
    + rewrite sumn_repeat. simpl. lia.
    + intros; discriminate.
    + intros i pc Hi. destruct (Hmain _ _ Hi) as [-> Hlt]. simpl.
      apply nth_of_nth_error. apply ne_repeat. auto.
    + rewrite sumn_repeat. simpl.
      rewrite (all_false_nth (repeat true n) 0); [simpl; lia|].
      apply nth_of_nth_error. apply ne_repeat. lia.
  - (* InvC *)
    constructor; simpl; auto.
    + intros i pc Hi. destruct (Hmain _ _ Hi) as [-> Hlt]. simpl. split.
      * apply nth_of_nth_error. apply ne_repeat. auto.
      * intros; discriminate.
    + intros i pc Hi. destruct (Hmain _ _ Hi) as [-> Hlt]. simpl.
      split; apply nth_of_nth_error; apply ne_repeat; apply nxt_lt; auto.
    + intros i pc Hi Hph. destruct (Hmain _ _ Hi) as [-> Hlt]. simpl in Hph. lia.
    + intros i Hi. destruct (Hmain _ _ Hi) as [E _]. discriminate.
    + symmetry. apply log_from_nil. intros j Hj.
      rewrite (nth_of_nth_error _ _ _ MWaitStd (ne_repeat MWaitStd n j Hj)). reflexivity.
  - (* InvD *)
    constructor; simpl; auto.
    + rewrite sumn_app, sumn_psize_std.
      rewrite (sumn_In_zero psize); [lia|].
      intros x Hx. apply edge_procs_In in Hx as (a & b & _ & _ & _ & ->). reflexivity.
    + intros k p a Hk Hs Hp. apply nth_error_In in Hk. apply in_app_or in Hk as [H|H].
      * apply edge_procs_In in H as (a' & b & _ & _ & _ & ->). discriminate.
      * apply std_procs_In in H as (y & _ & ->). discriminate.
Qed.

(* ---- reachable states ------------------------------------------------------------------------------ *)

Inductive reach (s0 : state) : state -> Prop :=
| reach_init : reach s0 s0
| reach_step s t s' : reach s0 s -> step s t = Some s' -> reach s0 s'.

Theorem reach_Inv n np std s :
  1 <= n -> 1 <= np -> reach (init n np std) s -> Inv (workload std) s.
Proof.
  intros Hn Hnp R. induction R as [|s t s' R IH H].
  - apply Inv_init; auto.
  - eapply Inv_step; eauto.
Qed.

Lemma reach_run s0 s sched : reach s0 s -> reach s0 (run s sched).
Proof.
  revert s. induction sched as [|t r IH]; intros s R; simpl; auto.
  destruct (step s t) as [s'|] eqn:E; auto. apply IH. eapply reach_step; eauto.
Qed.
