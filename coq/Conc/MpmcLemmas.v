(* C22 — helper lemmas shared by the MPMC / MPSC proofs: modular arithmetic on ring positions,
   list update, event-list projections, spec runs over appended histories. *)
From OFGA Require Import Conc.FifoSpec.
From Coq Require Import Lia.

Lemma mod_close a b c : 0 < c -> a mod c = b mod c -> a < b + c -> b < a + c -> a = b.
Proof.
  intros Hc Hm H1 H2.
  pose proof (Nat.div_mod a c ltac:(lia)) as Ea.
  pose proof (Nat.div_mod b c ltac:(lia)) as Eb.
  rewrite Hm in Ea.
  assert (a / c = b / c) by nia.
  nia.
Qed.

Lemma mod_succ_ne a c : 2 <= c -> (S a) mod c <> a mod c.
Proof.
  intros Hc E.
  assert (S a = a) by (apply (mod_close (S a) a c); lia). lia.
Qed.

Lemma mod_add_cap a c : 0 < c -> (a + c) mod c = a mod c.
Proof.
  intros Hc. replace (a + c) with (a + 1 * c) by lia. apply Nat.mod_add. lia.
Qed.

Lemma mod_lt' a c : 0 < c -> a mod c < c.
Proof. intros. apply Nat.mod_upper_bound. lia. Qed.

(* ---- list update ---- *)
Lemma upd_length {A} i (x : A) l : length (upd i x l) = length l.
Proof. revert i; induction l as [|y l IH]; intros [|i]; simpl; auto. Qed.

Lemma nth_upd_eq {A} i (x d : A) l : i < length l -> nth i (upd i x l) d = x.
Proof.
  revert i; induction l as [|y l IH]; intros [|i] H; simpl in *; try lia; auto.
  apply IH. lia.
Qed.

Lemma nth_upd_ne {A} i j (x d : A) l : i <> j -> nth j (upd i x l) d = nth j l d.
Proof.
  revert i j; induction l as [|y l IH]; intros [|i] [|j] H; simpl in *; try lia; auto.
Qed.

Lemma nth_error_upd_eq {A} i (x : A) l : i < length l -> nth_error (upd i x l) i = Some x.
Proof.
  revert i; induction l as [|y l IH]; intros [|i] H; simpl in *; try lia; auto.
  apply IH. lia.
Qed.

Lemma nth_error_upd_ne {A} i j (x : A) l : i <> j -> nth_error (upd i x l) j = nth_error l j.
Proof.
  revert i j; induction l as [|y l IH]; intros [|i] [|j] H; simpl in *; try lia; auto.
Qed.

Lemma nth_error_lt {A} (l : list A) i x : nth_error l i = Some x -> i < length l.
Proof. intro H. apply nth_error_Some. congruence. Qed.

(* ---- events ---- *)
Lemma enqs_app a b : enqs (a ++ b) = enqs a ++ enqs b.
Proof.
  induction a as [|e a IH]; simpl; auto. destruct e; simpl; rewrite ?IH; auto.
Qed.

Lemma proj_app t a b : proj t (a ++ b) = proj t a ++ proj t b.
Proof. unfold proj. apply filter_app. Qed.

Lemma run_spec_app c a b :
  run_spec c (a ++ b) = match run_spec c a with Some c' => run_spec c' b | None => None end.
Proof.
  revert c; induction a as [|e a IH]; intro c; simpl; auto.
  destruct (spec_step c e); auto.
Qed.

Lemma nth_error_app_l {A} (l r : list A) i x :
  nth_error l i = Some x -> nth_error (l ++ r) i = Some x.
Proof.
  intro H. rewrite nth_error_app1; auto. eapply nth_error_lt; eauto.
Qed.

Lemma nth_error_app_last {A} (l : list A) x : nth_error (l ++ [x]) (length l) = Some x.
Proof. rewrite nth_error_app2 by lia. rewrite Nat.sub_diag. reflexivity. Qed.

Lemma skipn_app_last {A} (l : list A) n x : n <= length l -> skipn n (l ++ [x]) = skipn n l ++ [x].
Proof.
  intro H. rewrite skipn_app. replace (n - length l) with 0 by lia. reflexivity.
Qed.

Lemma skipn_nth_cons {A} (l : list A) n x :
  nth_error l n = Some x -> skipn n l = x :: skipn (S n) l.
Proof.
  revert n; induction l as [|y l IH]; intros [|n] H; simpl in *; try discriminate.
  - congruence.
  - apply IH; auto.
Qed.

Lemma skipn_all' {A} (l : list A) n : length l <= n -> skipn n l = [].
Proof. intro H. apply skipn_all2. exact H. Qed.
