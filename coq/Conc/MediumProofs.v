(* C22 — the media never lose an accepted item; a receive that gives up on a cancelled context
   does not close the medium. *)
From OFGA Require Import Conc.FifoSpec Conc.Medium Conc.MpmcLemmas Conc.FifoSpecProofs.
From Coq Require Import Lia.

Record med_inv (s : medium) : Prop := {
  mi_spec : run_spec chan0 (mev s) = Some (mch s);
  mi_latch : latch s = true -> c_closed (mch s) = true /\ c_buf (mch s) = [];
  mi_nolatch : has_latch (mk s) = false -> latch s = false
}.

Lemma med_init_inv k : med_inv (minit_medium k).
Proof. constructor; simpl; auto; discriminate. Qed.

Lemma chan_eta c : mkChan (c_buf c) (c_closed c) = c.
Proof. destruct c; reflexivity. Qed.

Ltac spec_tac Hs :=
  rewrite run_spec_app; rewrite Hs; simpl;
  repeat match goal with E : c_closed _ = _ |- _ => rewrite E | E : c_buf _ = _ |- _ => rewrite E end;
  simpl; rewrite ?N.eqb_refl; try reflexivity.

Lemma med_step_inv s o : med_inv s -> med_inv (fst (med_step s o)).
Proof.
  intros [Hs Hl Hn]. destruct s as [k ch l ev]. simpl in Hs, Hl, Hn.
  assert (Keep : med_inv (mkMedium k ch l ev)) by (constructor; auto).
  destruct o as [live v | live choice |]; unfold med_step; simpl.
  - assert (QA : has_latch k = true ->
              med_inv (fst (if negb live then (mkMedium k ch l ev, MRSend false)
                            else if c_closed ch
                                 then (mkMedium k ch l (ev ++ [EEnqFail 0]), MRSend false)
                                 else (mkMedium k (mkChan (c_buf ch ++ [v]) false) l (ev ++ [EEnq 0 v]),
                                       MRSend true)))).
    { intros _. destruct live; simpl; auto.
      destruct (c_closed ch) eqn:Hc; simpl; constructor; simpl; auto.
      - spec_tac Hs; destruct ch; simpl in *; subst; reflexivity.
      - intro L. destruct (Hl L) as [_ B]. auto.
      - spec_tac Hs.
      - intro L. destruct (Hl L) as [A _]. discriminate. }
    destruct k as [| | c]; simpl; try (apply QA; reflexivity).
    assert (Lf : l = false) by (apply Hn; reflexivity).
    destruct (c_closed ch) eqn:Hc; simpl; auto.
    destruct (length (c_buf ch) <? c); destruct live; simpl; auto.
    constructor; simpl; auto.
    + spec_tac Hs.
    + rewrite Lf. discriminate.
  - destruct (has_latch k && l) eqn:HL; simpl; auto.
    destruct (c_buf ch) as [|x rest] eqn:Hb.
    + destruct (c_closed ch) eqn:Hc; simpl.
      * constructor; simpl.
        -- spec_tac Hs; destruct ch; simpl in *; subst; reflexivity.
        -- intros _. auto.
        -- intro E. rewrite E. reflexivity.
      * destruct live; simpl; auto.
    + destruct (live || has_latch k || choice); simpl; auto.
      constructor; simpl; auto.
      * spec_tac Hs.
      * intro L. destruct (Hl L) as [_ E]. discriminate.
  - constructor; simpl; auto.
    + spec_tac Hs.
    + intro L. destruct (Hl L). auto.
Qed.

Lemma med_step_alt_inv s o s' r : med_inv s -> med_step_alt s o = Some (s', r) -> med_inv s'.
Proof.
  intros [Hs Hl Hn] H. destruct s as [k ch l ev]. unfold med_step_alt in H. simpl in *.
  destruct o as [[|] v | |]; try discriminate. destruct k as [| | c]; try discriminate.
  destruct (negb (c_closed ch) && (length (c_buf ch) <? c)) eqn:E; [|discriminate].
  injection H as <- <-. apply andb_true_iff in E as [E1 _]. apply negb_true_iff in E1.
  constructor; simpl; auto.
  - rewrite run_spec_app, Hs. simpl. rewrite E1. reflexivity.
  - intro L. rewrite (Hn eq_refl) in L. discriminate.
Qed.

Lemma med_run_inv s ops : med_inv s -> med_inv (med_run s ops).
Proof.
  revert s. induction ops as [|[o alt] r IH]; intros s HI; simpl; auto.
  destruct (if alt then med_step_alt s o else None) as [[s' x]|] eqn:E.
  - apply IH. destruct alt; [|discriminate]. eapply med_step_alt_inv; eauto.
  - apply IH. apply med_step_inv. auto.
Qed.

(* no loss / FIFO / close for every medium, every call sequence (cancelled contexts included) *)
Theorem medium_legal_lemma k ops :
  let s := med_run (minit_medium k) ops in
  legal (mev s) /\ enqs (mev s) = deqs (mev s) ++ c_buf (mch s).
Proof.
  intro s. pose proof (med_run_inv _ ops (med_init_inv k)) as [Hs _ _]. fold s in Hs.
  split; [eexists; eauto | apply (run_spec_fifo chan0 _ _ Hs)].
Qed.

(* A receive that gives up on a cancelled context does not close the medium:
   (1) it never changes the latch and never changes the channel unless it returns an item;
   (2) the latch is only ever set on a closed and drained medium;
   (3) whatever happened before (cancelled receives included), an accepted item that is still
       buffered is what the next receive with a live context returns. *)
Theorem medium_cancel_does_not_close_lemma k ops choice :
  let s := med_run (minit_medium k) ops in
  (latch (fst (med_step s (MRecv false choice))) = latch s
   /\ (snd (med_step s (MRecv false choice)) = MRRecv None ->
         mch (fst (med_step s (MRecv false choice))) = mch s))
  /\ (latch s = true -> c_closed (mch s) = true /\ c_buf (mch s) = [])
  /\ (forall v rest, c_buf (mch s) = v :: rest ->
        snd (med_step s (MRecv true choice)) = MRRecv (Some v)
        /\ c_buf (mch (fst (med_step s (MRecv true choice)))) = rest).
Proof.
  intro s. pose proof (med_run_inv _ ops (med_init_inv k)) as [Hs Hl Hn]. fold s in Hs, Hl, Hn.
  destruct s as [k0 ch l ev]. simpl in *. split; [|split]; auto.
  - unfold med_step. simpl.
    destruct (has_latch k0 && l) eqn:HL; simpl; auto.
    destruct (c_buf ch) as [|x rest] eqn:Hb; simpl.
    + destruct (c_closed ch) eqn:Hc; simpl; auto.
      split; auto. destruct (has_latch k0) eqn:Hk; simpl in *; [congruence|]. rewrite Hn; auto.
    + destruct (has_latch k0 || choice); simpl; auto. split; auto. discriminate.
  - intros v rest Hb. unfold med_step. simpl.
    destruct (has_latch k0 && l) eqn:HL; simpl.
    + apply andb_true_iff in HL as [_ L]. destruct (Hl L) as [_ E]. congruence.
    + rewrite Hb. simpl. auto.
Qed.

(* exactly-once hand-over: Send reports true iff the item was appended to the channel (and then
   exactly once, at the end); on every other outcome the channel is unchanged.  Holds in every
   state, whatever the context. *)
Lemma app_neq_self {A} (l : list A) x : l ++ [x] <> l.
Proof.
  intro E. apply (f_equal (@length A)) in E. rewrite app_length in E. simpl in E. lia.
Qed.

Theorem medium_send_true_iff_delivered_lemma s live v :
  let r := med_step s (MSend live v) in
  (snd r = MRSend true <-> c_buf (mch (fst r)) = c_buf (mch s) ++ [v])
  /\ (snd r <> MRSend true -> mch (fst r) = mch s)
  /\ (forall s' r', med_step_alt s (MSend live v) = Some (s', r') ->
        r' = MRSend true /\ c_buf (mch s') = c_buf (mch s) ++ [v]).
Proof.
  destruct s as [k ch l ev]. unfold med_step, med_step_alt. simpl.
  assert (N : forall x, c_buf ch = c_buf ch ++ [x] -> False)
    by (intros x E; symmetry in E; exact (app_neq_self _ _ E)).
  split; [|split].
  - destruct k as [| | c]; simpl.
    + destruct live; simpl; [destruct (c_closed ch); simpl|]; split; intro H;
        try discriminate; try reflexivity; try (exfalso; eapply N; eauto).
    + destruct live; simpl; [destruct (c_closed ch); simpl|]; split; intro H;
        try discriminate; try reflexivity; try (exfalso; eapply N; eauto).
    + destruct (c_closed ch); simpl; [split; intro H; [discriminate | exfalso; eapply N; eauto]|].
      destruct (length (c_buf ch) <? c); destruct live; simpl; split; intro H;
        try discriminate; try reflexivity; try (exfalso; eapply N; eauto).
  - destruct k as [| | c]; simpl.
    + destruct live; simpl; [destruct (c_closed ch); simpl|]; intro H; auto; congruence.
    + destruct live; simpl; [destruct (c_closed ch); simpl|]; intro H; auto; congruence.
    + destruct (c_closed ch); simpl; auto.
      destruct (length (c_buf ch) <? c); destruct live; simpl; intro H; auto; congruence.
  - intros s' r' H. destruct live; [discriminate|]. destruct k as [| | c]; try discriminate.
    destruct (negb (c_closed ch) && (length (c_buf ch) <? c)); [|discriminate].
    injection H as <- <-. simpl. auto.
Qed.
