(* The local algorithmic core of the weighted-graph engine on a union-only part of the tuple
   graph (recursive relation / tuple cycle): depth-first search with ONE visited set shared by the
   whole request (check.ResolveUnion creates the sync.Map and stores the root object#relation;
   filters.BuildUniqueTupleKeyFilter does LoadOrStore on every userset read from an iterator and
   drops the ones already seen; default.go dispatches ResolveUnion on the survivors with the same
   map).  Nodes are object#relation pairs (numbered), `succ n` the usersets stored on n (in read
   order), `leaf n` = "n grants the request's user directly" (the terminal edges of the node).
   Definitions only; the theorems are in V2Proofs.v. *)
From Coq Require Export NArith List Bool.
Export ListNotations.
Open Scope N_scope.

Definition nmem (n : N) (V : list N) : bool := existsb (N.eqb n) V.

Section Dfs.
  Variable succ : N -> list N.
  Variable leaf : N -> bool.

  (* the successors of one node, left to right, threading the visited set;
     rec V s = "resolve s, which has just been stored in the visited set V" *)
  Fixpoint scan (rec : list N -> N -> option bool * list N) (l : list N) (V : list N)
    : option bool * list N :=
    match l with
    | [] => (Some false, V)
    | s :: l' =>
        if nmem s V then scan rec l' V            (* LoadOrStore: seen, the tuple is dropped *)
        else match rec (s :: V) s with
             | (Some true, V') => (Some true, V')  (* union short-circuit *)
             | (Some false, V') => scan rec l' V'
             | (None, V') => (None, V')
             end
    end.

  (* None = out of fuel *)
  Fixpoint dfs (fuel : nat) (V : list N) (n : N) : option bool * list N :=
    match fuel with
    | O => (None, V)
    | S f => if leaf n then (Some true, V) else scan (dfs f) (succ n) V
    end.

  (* the ROOT query: the visited set starts with the root itself *)
  Definition dfs_root (fuel : nat) (root : N) : option bool := fst (dfs fuel [root] root).

  (* the truth value of a node: some leaf is reachable *)
  Inductive reach : N -> Prop :=
  | reach_leaf : forall n, leaf n = true -> reach n
  | reach_step : forall n s, In s (succ n) -> reach s -> reach n.

  (* what an INNER node evaluates to during the root's search: the result of resolving `inner`
     under the visited set the search has accumulated when it gets there *)
  Definition unvisited (nodes : list N) (V : list N) : nat :=
    length (filter (fun x => negb (nmem x V)) nodes).
End Dfs.

(* witness graph for visited_dfs_inner_refuted: 0 -> [1; 2], 1 -> [0], 2 is a leaf.
   Node 1's own truth value is TRUE (1 -> 0 -> 2), but resolved inside the root's search, with the
   root already in the shared visited set, it evaluates to FALSE: caching that sub-result per
   node (check.ResolveUnionEdges stores edge results computed under `visited`) is the C08 finding. *)
Definition wsucc (n : N) : list N := match n with 0 => [1; 2] | 1 => [0] | _ => [] end.
Definition wleaf (n : N) : bool := N.eqb n 2.
