(* The producer of the user side of the fast paths (fastPathDirect -> checkutil.
   IteratorReadStartingFromUser with sorted results), definitions only:
     storagewrappers.CombinedTupleReader.ReadStartingWithUser merges the contextual tuples (iter1)
     and the stored tuples (iter2), both sorted by object, with storage.OrderedCombinedIterator
     keyed by the OBJECT only: a tuple whose object equals the object yielded last is discarded;
     afterwards the tuples go through ConditionsFilteredTupleKeyIterator and are mapped to their
     object.  The read asks for the user AND the user type's wildcard, so two tuples of one object
     (user:a and user:* ) are normal — the second is dropped before its condition is looked at. *)
From Coq Require Import List NArith Bool Arith.
From OFGA Require Import Check.V1Weight2.
Import ListNotations.
Open Scope N_scope.

(* (object, outcome of the tuple's condition: 0 met, 1 not met, 2 cannot be evaluated) *)
Definition stup := (N * N)%type.

Fixpoint drop_eq (o : N) (l : list stup) : list stup :=
  match l with
  | t :: r => if fst t =? o then drop_eq o r else l
  | [] => []
  end.

Definition drop_last (last : option N) (l : list stup) : list stup :=
  match last with Some o => drop_eq o l | None => l end.

(* OrderedCombinedIterator drained: head() discards duplicates of lastYielded in every pending
   iterator, then yields the smallest head (the earlier iterator wins ties) *)
Fixpoint ocomb (fuel : nat) (last : option N) (l1 l2 : list stup) : list stup :=
  match fuel with
  | O => []
  | S f =>
      match drop_last last l1, drop_last last l2 with
      | [], [] => []
      | t :: r, [] => t :: ocomb f (Some (fst t)) r []
      | [], t :: r => t :: ocomb f (Some (fst t)) [] r
      | t1 :: r1, t2 :: r2 =>
          if fst t2 <? fst t1 then t2 :: ocomb f (Some (fst t2)) (t1 :: r1) r2
          else t1 :: ocomb f (Some (fst t1)) r1 (t2 :: r2)
      end
  end.

(* ConditionsFilteredTupleKeyIterator drained and mapped to objects: the passing objects; the
   error is reported only when nothing passed (onceValid) *)
Definition cond_objs (l : list stup) : list N * bool :=
  let pass := map fst (filter (fun t => snd t =? 0) l) in
  (pass, match pass with [] => existsb (fun t => snd t =? 2) l | _ => false end).

Definition source_impl (ctxt stored : list stup) : list N * bool :=
  cond_objs (ocomb (S (length ctxt + length stored)) None ctxt stored).

Fixpoint nodupb (l : list N) : bool :=
  match l with
  | [] => true
  | x :: r => negb (existsb (N.eqb x) r) && nodupb r
  end.

(* an iterator message of a fast-path stream whose iterator is a ConditionsFilteredTupleKeyIterator
   over tuples with the given condition outcomes (consumed with Head/Next by the set operations):
   it delivers the objects of the passing tuples and, at its end, fails iff nothing passed and some
   condition could not be evaluated *)
Definition cond_chunk (l : list stup) : chunk := Ch (fst (cond_objs l)) (snd (cond_objs l)).
