(* Algorithm models of the weight-2 strategy of the Check engine
   (internal/graph/weight_two_resolver.go, internal/iterator/stream.go), definitions only.

   1. The fast-path set operations fastPathUnion / fastPathIntersection / fastPathDifference.
      They work on iterator.Streams: every stream receives a sequence of iterators ("chunks")
      over a channel, holds at most one of them in `buffer`, and the loops look at the heads
      (Stream.Head), advance (Stream.Next via NextItemInSliceStreams), skip
      (Stream.SkipToTargetObject: only inside the current buffer) and refill
      (Streams.CleanDone -> fetchSource, which also drops finished streams).  The transcription
      keeps all of that, including the lazy refill (a finished buffer is noticed by the next Head,
      the loop then `continue`s), the batching of the output (a batch is flushed when it has more
      than 100 items and at the end; after a failure only the flushed part has been seen by the
      consumer) and the failure paths (error message on a source channel, iterator whose
      Head/Next fails).  Object strings are modelled by N with the same order (the driver
      renders numbers as fixed-width strings).

   2. weight2: the two-sided intersection of the object ids coming from the user side
      (`leftChan`, iterator messages) and from the object side (`rightChan`, one id per message),
      with the `select` loop made explicit by a schedule and with its error precedence
      (`lastErr`, reset when an intersection is found). *)
From Coq Require Import List NArith Bool Arith.
Import ListNotations.
Open Scope N_scope.

(* ------------------------------------------------------------------------------------------ *)
(* streams *)

(* one message on a stream's source channel *)
Inductive chunk :=
| Ch (l : list N) (failing : bool)   (* an iterator yielding l, then ErrIteratorDone (false) or a failure (true) *)
| ChErr.                              (* Msg{Err: ...} *)

(* iterator.Stream *)
Record sst := { idx : nat; buf : option (list N * bool); src : list chunk; closed : bool }.

Definition mk_stream (i : nat) (cs : list chunk) : sst :=
  {| idx := i; buf := None; src := cs; closed := false |}.

Fixpoint mk_streams (i : nat) (css : list (list chunk)) : list sst :=
  match css with
  | [] => []
  | cs :: r => mk_stream i cs :: mk_streams (S i) r
  end.

Definition set_buf (s : sst) (b : option (list N * bool)) : sst :=
  {| idx := idx s; buf := b; src := src s; closed := closed s |}.

(* Stream.fetchSource *)
Inductive fetchres := FOk (s : sst) | FErr.
Definition fetch (s : sst) : fetchres :=
  match buf s with
  | Some _ => FOk s
  | None =>
      if closed s then FOk s
      else match src s with
           | [] => FOk {| idx := idx s; buf := None; src := []; closed := true |}
           | ChErr :: _ => FErr
           | Ch l f :: r => FOk {| idx := idx s; buf := Some (l, f); src := r; closed := false |}
           end
  end.

Fixpoint fetch_all (ss : list sst) : option (list sst) :=
  match ss with
  | [] => Some []
  | s :: r =>
      match fetch s with
      | FErr => None
      | FOk s' => match fetch_all r with None => None | Some r' => Some (s' :: r') end
      end
  end.

(* Stream.isDone *)
Definition is_done (s : sst) : bool :=
  closed s && match buf s with None => true | Some _ => false end.

(* Streams.CleanDone: None = an error came out of a source channel *)
Definition clean_done (ss : list sst) : option (list sst) :=
  match fetch_all ss with
  | None => None
  | Some ss' => Some (filter (fun s => negb (is_done s)) ss')
  end.

(* Stream.Head *)
Inductive headres := HVal (x : N) | HDone (s' : sst) | HErr.
Definition head (s : sst) : headres :=
  match buf s with
  | None => HDone s
  | Some ([], false) => HDone (set_buf s None)
  | Some ([], true) => HErr
  | Some (x :: _, _) => HVal x
  end.

(* the `for idx, stream := range iterStreams { v, err := stream.Head(ctx) ... }` loops: stop at
   the first finished buffer (`allIters = false; break`, the caller `continue`s), abort at the
   first failure *)
Inductive headsres := HsAll (hs : list N) | HsRetry (ss' : list sst) | HsErr.
Fixpoint heads (ss : list sst) : headsres :=
  match ss with
  | [] => HsAll []
  | s :: r =>
      match head s with
      | HErr => HsErr
      | HDone s' => HsRetry (s' :: r)
      | HVal x =>
          match heads r with
          | HsAll hs => HsAll (x :: hs)
          | HsRetry r' => HsRetry (s :: r')
          | HsErr => HsErr
          end
      end
  end.

(* Stream.Next after a successful Head *)
Definition pop (s : sst) : sst :=
  match buf s with
  | Some (_ :: l, f) => set_buf s (Some (l, f))
  | _ => s
  end.

Fixpoint pop_where (p : N -> bool) (ss : list sst) (hs : list N) : list sst :=
  match ss, hs with
  | s :: r, h :: hr => (if p h then pop s else s) :: pop_where p r hr
  | _, _ => ss
  end.

Fixpoint dropwhile_lt (t : N) (l : list N) : list N :=
  match l with
  | x :: r => if x <? t then dropwhile_lt t r else l
  | [] => []
  end.

(* Stream.SkipToTargetObject: inside the current buffer only; None = failure *)
Definition skip (t : N) (s : sst) : option sst :=
  match buf s with
  | None => Some s
  | Some (l, f) =>
      match dropwhile_lt t l with
      | [] => if f then None else Some (set_buf s None)
      | l' => Some (set_buf s (Some (l', f)))
      end
  end.

Fixpoint skip_all (t : N) (ss : list sst) : option (list sst) :=
  match ss with
  | [] => Some []
  | s :: r =>
      match skip t s with
      | None => None
      | Some s' => match skip_all t r with None => None | Some r' => Some (s' :: r') end
      end
  end.

(* ------------------------------------------------------------------------------------------ *)
(* output batching: (flushed, batch) *)

Definition thr : nat := 100.   (* IteratorMinBatchThreshold *)
Definition outst := (list N * list N)%type.

Definition emit_many (xs : list N) (ob : outst) : outst :=
  let b' := snd ob ++ xs in
  if Nat.ltb thr (length b') then (fst ob ++ b', []) else (fst ob, b').
Definition emit (x : N) (ob : outst) : outst := emit_many [x] ob.
Definition finish (ob : outst) : list N := fst ob ++ snd ob.

Inductive fpres :=
| FPDone (l : list N)       (* everything that was sent, in order *)
| FPFail (seen : list N)    (* an error message was sent; `seen` was sent before it *)
| FPFuel.                   (* the loop does not end (model out of fuel) *)

Definition min_list (h : N) (hs : list N) : N := fold_left N.min hs h.
Definition max_list (h : N) (hs : list N) : N := fold_left N.max hs h.

(* ------------------------------------------------------------------------------------------ *)
(* fastPathUnion *)

Fixpoint union_loop (fuel : nat) (ss : list sst) (ob : outst) : fpres :=
  match fuel with
  | O => FPFuel
  | S f =>
      match ss with
      | [] => FPDone (finish ob)                   (* GetActiveStreamsCount() == 0 *)
      | _ =>
          match clean_done ss with
          | None => FPFail (fst ob)
          | Some ss1 =>
              match heads ss1 with
              | HsErr => FPFail (fst ob)
              | HsRetry ss2 => union_loop f ss2 ob
              | HsAll [] => union_loop f ss1 ob
              | HsAll (h :: hs) =>
                  let m := min_list h hs in
                  union_loop f (pop_where (N.eqb m) ss1 (h :: hs)) (emit m ob)
              end
          end
      end
  end.

(* ------------------------------------------------------------------------------------------ *)
(* fastPathIntersection *)

Fixpoint inter_loop (fuel : nat) (total : nat) (ss : list sst) (ob : outst) : fpres :=
  match fuel with
  | O => FPFuel
  | S f =>
      if negb (Nat.eqb (length ss) total) then FPDone (finish ob)
      else
        match clean_done ss with
        | None => FPFail (fst ob)
        | Some ss1 =>
            if negb (Nat.eqb (length ss1) total) then FPDone (finish ob)   (* short circuit *)
            else
              match heads ss1 with
              | HsErr => FPFail (fst ob)
              | HsRetry ss2 => inter_loop f total ss2 ob
              | HsAll [] => inter_loop f total ss1 ob     (* no operands: the Go loop spins *)
              | HsAll (h :: hs) =>
                  let mx := max_list h hs in
                  if forallb (N.eqb mx) (h :: hs)
                  then inter_loop f total (map pop ss1) (emit mx ob)
                  else match skip_all mx ss1 with
                       | None => FPFail (fst ob)
                       | Some ss2 => inter_loop f total ss2 ob
                       end
              end
        end
  end.

(* ------------------------------------------------------------------------------------------ *)
(* fastPathDifference *)

(* "drain the base" *)
Fixpoint drain_loop (fuel : nat) (b : sst) (ob : outst) : fpres :=
  match fuel with
  | O => FPFuel
  | S f =>
      match buf b with
      | Some (_, true) => FPFail (fst ob)             (* Stream.Drain returns (nil, err) *)
      | _ =>
          let items := match buf b with Some (l, _) => l | None => [] end in
          let ob1 := emit_many items ob in
          match fetch (set_buf b None) with
          | FErr => FPFail (fst ob1)
          | FOk b2 => if is_done b2 then FPDone (finish ob1) else drain_loop f b2 ob1
          end
      end
  end.

Definition diff_tail (fuel : nat) (ss : list sst) (ob : outst) : fpres :=
  match clean_done ss with
  | None => FPFail (fst ob)
  | Some [b] => if Nat.eqb (idx b) 0 then drain_loop fuel b ob else FPDone (finish ob)
  | Some _ => FPDone (finish ob)
  end.

Fixpoint diff_loop (fuel : nat) (ss : list sst) (ob : outst) : fpres :=
  match fuel with
  | O => FPFuel
  | S f =>
      if Nat.eqb (length ss) 2 then
        match clean_done ss with
        | None => FPFail (fst ob)
        | Some [b; d] =>
            match heads [b; d] with
            | HsErr => FPFail (fst ob)
            | HsRetry ss2 => diff_loop f ss2 ob
            | HsAll [hb; hd] =>
                if hb =? hd then diff_loop f [pop b; pop d] ob
                else if hb <? hd then diff_loop f [pop b; d] (emit hb ob)
                else match skip hb d with
                     | None => FPFail (fst ob)
                     | Some d' => diff_loop f [b; d'] ob
                     end
            | HsAll _ => FPFuel
            end
        | Some ss1 => diff_tail f ss1 ob              (* len(iterStreams) != 2: break *)
        end
      else diff_tail f ss ob
  end.

(* ------------------------------------------------------------------------------------------ *)
(* entry points on lists of chunk lists *)

Definition chunk_size (c : chunk) : nat := match c with Ch l _ => S (S (length l)) | ChErr => 2%nat end.
Definition stream_size (cs : list chunk) : nat := fold_right (fun c n => (chunk_size c + n)%nat) 3%nat cs.
Definition streams_size (css : list (list chunk)) : nat :=
  fold_right (fun cs n => (stream_size cs + n)%nat) 2%nat css.

Definition fp_union_c (css : list (list chunk)) : fpres :=
  union_loop (streams_size css) (mk_streams 0 css) ([], []).
Definition fp_inter_c (css : list (list chunk)) : fpres :=
  inter_loop (streams_size css) (length css) (mk_streams 0 css) ([], []).
Definition fp_diff_c (base sub : list chunk) : fpres :=
  diff_loop (streams_size [base; sub]) (mk_streams 0 [base; sub]) ([], []).

(* on plain lists (one chunk per stream) *)
Definition one (l : list N) : list chunk := [Ch l false].
Definition out_of (r : fpres) : list N := match r with FPDone l => l | FPFail l => l | FPFuel => [] end.
Definition fp_union (ls : list (list N)) : list N := out_of (fp_union_c (map one ls)).
Definition fp_inter (ls : list (list N)) : list N := out_of (fp_inter_c (map one ls)).
Definition fp_diff (a b : list N) : list N := out_of (fp_diff_c (one a) (one b)).

(* strictly ascending *)
Fixpoint ssortedb (l : list N) : bool :=
  match l with
  | x :: ((y :: _) as r) => (x <? y) && ssortedb r
  | _ => true
  end.

(* ------------------------------------------------------------------------------------------ *)
(* weight2 *)

Inductive item := IVal (x : N) | IFail.       (* Next: a value / an error that is not Done *)
Inductive lmsg := LIter (l : list item) | LErr.   (* a message on leftChan *)
Inductive rmsg := RVal (x : N) | RErr.            (* a message on rightChan *)

Record w2res := { w_allowed : bool; w_err : bool }.

Definition memN (x : N) (l : list N) : bool := existsb (N.eqb x) l.

(* the inner `for { t, err := msg.Iter.Next(ctx) ... }`: (found, leftSet', lastErr') *)
Fixpoint consume_iter (l : list item) (lset rset : list N) (lasterr : bool) : bool * list N * bool :=
  match l with
  | [] => (false, lset, lasterr)
  | IFail :: r => consume_iter r lset rset true
  | IVal x :: r =>
      if memN x rset then (true, x :: lset, false)
      else consume_iter r (x :: lset) rset lasterr
  end.

(* ConsumerLoop.  sched: which ready channel the `select` takes (true = left); a channel that
   was already seen closed is skipped (selecting it again changes nothing).  None = the model
   ran out of fuel (excluded by w2_terminates). *)
Fixpoint w2_loop (fuel : nat) (sched : list bool) (left : list lmsg) (right : list rmsg)
         (lopen ropen : bool) (lset rset : list N) (lasterr : bool) : option w2res :=
  match fuel with
  | O => None
  | S f =>
      if negb (lopen || ropen) then Some {| w_allowed := false; w_err := lasterr |}
      else
        let pick_left := match sched with b :: _ => b | [] => true end in
        let sched' := tl sched in
        let take_left := if lopen then (pick_left || negb ropen) else false in
        if take_left then
          match left with
          | [] =>   (* closed *)
              match lset with
              | [] => Some {| w_allowed := false; w_err := lasterr |}
              | _ => w2_loop f sched' left right false ropen lset rset lasterr
              end
          | LErr :: _ => Some {| w_allowed := false; w_err := true |}
          | LIter l :: left' =>
              let '(found, lset', le') := consume_iter l lset rset lasterr in
              if found then Some {| w_allowed := true; w_err := false |}
              else w2_loop f sched' left' right lopen ropen lset' rset le'
          end
        else
          match right with
          | [] => w2_loop f sched' left right lopen false lset rset lasterr
          | RErr :: right' => w2_loop f sched' left right' lopen ropen lset rset true
          | RVal x :: right' =>
              if memN x lset then Some {| w_allowed := true; w_err := false |}
              else w2_loop f sched' left right' lopen ropen lset (x :: rset) lasterr
          end
  end.

(* LocalChecker.weight2: the first message of the right side is awaited before the loop *)
Definition weight2 (sched : list bool) (left : list lmsg) (right : list rmsg) : option w2res :=
  match right with
  | [] => Some {| w_allowed := false; w_err := false |}
  | RErr :: _ => Some {| w_allowed := false; w_err := true |}
  | RVal x :: right' =>
      w2_loop (S (S (S (length left + length right)))) sched left right' true true [] [x] false
  end.

Definition lvals (left : list lmsg) : list N :=
  flat_map (fun m => match m with
                     | LIter l => flat_map (fun i => match i with IVal x => [x] | IFail => [] end) l
                     | LErr => [] end) left.
Definition rvals (right : list rmsg) : list N :=
  flat_map (fun m => match m with RVal x => [x] | RErr => [] end) right.
Definition intersects (a b : list N) : bool := existsb (fun x => memN x b) a.

Definition item_ok (i : item) : bool := match i with IVal _ => true | IFail => false end.
Definition left_ok (left : list lmsg) : bool :=
  forallb (fun m => match m with LIter l => forallb item_ok l | LErr => false end) left.
Definition right_ok (right : list rmsg) : bool :=
  forallb (fun m => match m with RVal _ => true | RErr => false end) right.
