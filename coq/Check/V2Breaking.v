(* Faithful model of pkg/server/commands/v2breaking (CheckReason, CheckExclusionReason,
   CheckReasonFromV2Error), of commands.IsV2CheckTerminalError (on the raw error returned by
   CheckQueryV2.resolve and on the error mapped by CheckCommandErrorToServerError), and of the glue
   in pkg/server/check.go that decides fallback and which breaking-change reason is logged.
   The detector reads the model only (schema-shape filter); it is transcribed over Sem/Vocab.v.
   Relation name "" (non-userset users) is rid 0: interned names start at 1.
   Definitions only. *)
From OFGA Require Export Sem.Semantics.
Open Scope N_scope.

Inductive reason :=
| RNone
| RSelfRef        (* self_referential_userset *)
| RAlias          (* alias_userset *)
| RComputedSelf   (* computed_userset_self_object *)
| RTTU            (* ttu_userset *)
| RUsersetExcl    (* userset_with_exclusion *)
| RWildExcl.      (* wildcard_with_exclusion *)

Definition reason_eqb (a b : reason) : bool :=
  match a, b with
  | RNone, RNone | RSelfRef, RSelfRef | RAlias, RAlias | RComputedSelf, RComputedSelf
  | RTTU, RTTU | RUsersetExcl, RUsersetExcl | RWildExcl, RWildExcl => true
  | _, _ => false
  end.

Definition is_none (a : reason) : bool := match a with RNone => true | _ => false end.

(* typesys.GetDirectlyRelatedUserTypes: error when the relation is undefined *)
Definition restr_of (m : model) (t : tid) (r : rid) : option (list restriction) :=
  match get_relation m t r with Some rd => Some (rd_restr rd) | None => None end.

(* number of relations of the model: every walk below crosses a relation edge at most once per
   (type, relation) key, so this many steps (+1) can never run out on a finite model *)
Definition nrel (m : model) : nat := length (flat_map (fun d => td_rels d) m).
Definition walk_fuel (m : model) : nat := S (S (nrel m)).

(* typesys.ResolveComputedRelation: follow `define r: r'` until a direct assignment; any other
   rewrite is an error.  (The Go function has no cycle guard; validated models have no computed
   cycle, the fuel only makes the model total.) *)
Fixpoint resolve_computed (m : model) (fuel : nat) (t : tid) (r : rid) : option rid :=
  match fuel with
  | O => None
  | S f =>
      match get_relation m t r with
      | None => None
      | Some rd =>
          match rd_rw rd with
          | Computed r' => resolve_computed m f t r'
          | This => Some r
          | _ => None
          end
      end
  end.

(* usersetAliasesTargetRelation, the loop over DirectlyRelatedUsersets(target) *)
Fixpoint alias_scan (m : model) (refs : list (tid * rid)) (ut : tid) (ur : rid) (found : bool) : bool :=
  match refs with
  | [] => found
  | (t', r') :: rest =>
      if negb (N.eqb t' ut) then alias_scan m rest ut ur found
      else if N.eqb r' ur then false
      else alias_scan m rest ut ur
             (found || match resolve_computed m (walk_fuel m) t' r' with
                       | Some x => N.eqb x ur
                       | None => false
                       end)
  end.

Definition userset_aliases (m : model) (tt : tid) (tr : rid) (ut : tid) (ur : rid) : bool :=
  match restr_of m tt tr with
  | Some rs => alias_scan m (restr_usersets rs) ut ur false
  | None => false
  end.

(* rewriteContainsComputedUserset *)
Fixpoint rw_has_computed (rel : rid) (rw : rewrite) : bool :=
  match rw with
  | This | TTU _ _ => false
  | Computed r' => N.eqb r' rel
  | Union l | Inter l =>
      (fix any (l : list rewrite) := match l with [] => false | x :: l' => rw_has_computed rel x || any l' end) l
  | Diff b s => rw_has_computed rel b || rw_has_computed rel s
  end.

(* rewriteContainsDifference *)
Fixpoint rw_has_diff (rw : rewrite) : bool :=
  match rw with
  | This | TTU _ _ | Computed _ => false
  | Union l | Inter l =>
      (fix any (l : list rewrite) := match l with [] => false | x :: l' => rw_has_diff x || any l' end) l
  | Diff _ _ => true
  end.

(* rewriteContainsTTUForUser: TTU whose computed relation is the user's relation and whose
   tupleset relation (on the target type) lists the user's object type — any kind of reference *)
Fixpoint rw_has_ttu_for (m : model) (tt : tid) (ut : tid) (ur : rid) (rw : rewrite) : bool :=
  match rw with
  | This | Computed _ => false
  | TTU ts c =>
      N.eqb c ur &&
      match restr_of m tt ts with
      | Some rs => existsb (fun d => N.eqb (r_type d) ut) rs
      | None => false
      end
  | Union l | Inter l =>
      (fix any (l : list rewrite) := match l with [] => false | x :: l' => rw_has_ttu_for m tt ut ur x || any l' end) l
  | Diff b s => rw_has_ttu_for m tt ut ur b || rw_has_ttu_for m tt ut ur s
  end.

(* tuple.SplitObjectRelation(user) *)
Definition subj_obj (s : subject) : option obj :=
  match s with SObj o | SSet o _ => Some o | SWild _ => None end.
Definition subj_rel (s : subject) : rid := match s with SSet _ r => r | _ => 0 end.

(* v2breaking.CheckReason (as coded: it does not re-check that the user is a userset) *)
Definition check_reason (m : model) (subj : subject) (o : obj) (r : rid) : reason :=
  if subject_eqb subj (SSet o r) then RSelfRef
  else
    let ut := subject_type subj in
    let ur := subj_rel subj in
    if userset_aliases m (otype o) r ut ur then RAlias
    else match get_relation m (otype o) r with
         | None => RNone
         | Some rd =>
             if match subj_obj subj with Some uo => obj_eqb uo o | None => false end
                && rw_has_computed ur (rd_rw rd)
             then RComputedSelf
             else if rw_has_ttu_for m (otype o) ut ur (rd_rw rd) then RTTU
             else RNone
         end.

(* ---- wildcard reachability under a Difference base ---- *)
Definition vis := list (tid * rid).
Definition vmem (k : tid * rid) (v : vis) : bool :=
  existsb (fun p => N.eqb (fst p) (fst k) && N.eqb (snd p) (snd k)) v.

(* relationAcceptsWildcardForType *)
Definition accepts_wild (m : model) (t : tid) (r : rid) (ut : tid) : bool :=
  match restr_of m t r with
  | Some rs => existsb (fun d => N.eqb (r_type d) ut && match r_kind d with RWild => true | _ => false end) rs
  | None => false
  end.

(* branchAcceptsWildcard; the visited map is shared by the whole walk of one Difference base and
   only grows when a relation edge (computed / TTU) is crossed.  None = out of fuel. *)
Fixpoint branch_acc (m : model) (ut : tid) (fuel : nat) (t : tid) (r : rid) (rw : rewrite) (v : vis)
  {struct fuel} : option (bool * vis) :=
  match fuel with
  | O => None
  | S f =>
      (fix go (rw : rewrite) (v : vis) {struct rw} : option (bool * vis) :=
         match rw with
         | This => Some (accepts_wild m t r ut, v)
         | Computed r' =>
             if vmem (t, r') v then Some (false, v)
             else match get_relation m t r' with
                  | None => Some (false, v)
                  | Some rd => branch_acc m ut f t r' (rd_rw rd) ((t, r') :: v)
                  end
         | TTU ts c =>
             match restr_of m t ts with
             | None => Some (false, v)
             | Some rs =>
                 (fix each (rs : list restriction) (v : vis) {struct rs} : option (bool * vis) :=
                    match rs with
                    | [] => Some (false, v)
                    | d :: rs' =>
                        if vmem (r_type d, c) v then each rs' v
                        else match get_relation m (r_type d) c with
                             | None => each rs' v
                             | Some rd =>
                                 match branch_acc m ut f (r_type d) c (rd_rw rd) ((r_type d, c) :: v) with
                                 | None => None
                                 | Some (true, v') => Some (true, v')
                                 | Some (false, v') => each rs' v'
                                 end
                             end
                    end) rs v
             end
         | Union l | Inter l =>
             (fix any (l : list rewrite) (v : vis) {struct l} : option (bool * vis) :=
                match l with
                | [] => Some (false, v)
                | x :: l' =>
                    match go x v with
                    | None => None
                    | Some (true, v') => Some (true, v')
                    | Some (false, v') => any l' v'
                    end
                end) l v
         | Diff b _ => go b v
         end) rw v
  end.

(* walkForWildcardUnderDifference *)
Fixpoint walk_diff (m : model) (ut : tid) (fuel : nat) (t : tid) (r : rid) (rw : rewrite) (v : vis)
  {struct fuel} : option (bool * vis) :=
  match fuel with
  | O => None
  | S f =>
      (fix go (rw : rewrite) (v : vis) {struct rw} : option (bool * vis) :=
         match rw with
         | This => Some (false, v)
         | Diff b s =>
             match branch_acc m ut (walk_fuel m) t r b [] with
             | None => None
             | Some (true, _) => Some (true, v)
             | Some (false, _) =>
                 match go b v with
                 | None => None
                 | Some (true, v') => Some (true, v')
                 | Some (false, v') => go s v'
                 end
             end
         | Union l | Inter l =>
             (fix any (l : list rewrite) (v : vis) {struct l} : option (bool * vis) :=
                match l with
                | [] => Some (false, v)
                | x :: l' =>
                    match go x v with
                    | None => None
                    | Some (true, v') => Some (true, v')
                    | Some (false, v') => any l' v'
                    end
                end) l v
         | Computed r' =>
             if vmem (t, r') v then Some (false, v)
             else match get_relation m t r' with
                  | None => Some (false, v)
                  | Some rd => walk_diff m ut f t r' (rd_rw rd) ((t, r') :: v)
                  end
         | TTU ts c =>
             match restr_of m t ts with
             | None => Some (false, v)
             | Some rs =>
                 (fix each (rs : list restriction) (v : vis) {struct rs} : option (bool * vis) :=
                    match rs with
                    | [] => Some (false, v)
                    | d :: rs' =>
                        if vmem (r_type d, c) v then each rs' v
                        else match get_relation m (r_type d) c with
                             | None => each rs' v
                             | Some rd =>
                                 match walk_diff m ut f (r_type d) c (rd_rw rd) ((r_type d, c) :: v) with
                                 | None => None
                                 | Some (true, v') => Some (true, v')
                                 | Some (false, v') => each rs' v'
                                 end
                             end
                    end) rs v
             end
         end) rw v
  end.

(* wildcardReachableUnderDifferenceBase; None = the model ran out of fuel (reported by the oracle) *)
Definition wildcard_under_diff (m : model) (t : tid) (r : rid) (rw : rewrite) (ut : tid) : option bool :=
  match walk_diff m ut (walk_fuel m) t r rw [] with
  | Some (b, _) => Some b
  | None => None
  end.

(* v2breaking.CheckExclusionReason *)
Definition excl_reason (m : model) (subj : subject) (o : obj) (r : rid) : option reason :=
  match get_relation m (otype o) r with
  | None => Some RNone
  | Some rd =>
      match subj with
      | SSet _ _ => Some (if rw_has_diff (rd_rw rd) then RUsersetExcl else RNone)
      | _ =>
          match wildcard_under_diff m (otype o) r (rd_rw rd) (subject_type subj) with
          | Some true => Some RWildExcl
          | Some false => Some RNone
          | None => None
          end
      end
  end.

(* ---- error classes of the weighted-graph path ---- *)
Inductive v2err :=
| EValidation    (* check.ErrValidation: object#relation not in the model *)
| EInvalidUser   (* check.ErrInvalidUser *)
| EInvalidTuple  (* *tuple.InvalidTupleError: contextual tuple rejected *)
| EUsersetExcl   (* check.ErrUsersetInvalidRequest *)
| EWildExcl      (* check.ErrWildcardInvalidRequest *)
| EPanic         (* check.ErrPanicRequest *)
| EGraph         (* modelgraph.ErrGraphError *)
| ECond          (* condition.ErrEvaluationFailed *)
| ETimeout       (* context deadline / cancellation *)
| EOther
| EModel.        (* modelgraph.ErrInvalidModel: the weighted graph cannot be built *)

(* v2breaking.CheckReasonFromV2Error *)
Definition reason_from_error (e : v2err) : reason :=
  match e with EWildExcl => RWildExcl | EUsersetExcl => RUsersetExcl | _ => RNone end.

(* commands.IsV2CheckTerminalError on the RAW error (CheckQueryV2.Execute with a fallback checker,
   i.e. BatchCheck): only context errors qualify, nothing else is a gRPC status yet *)
Definition terminal_raw (e : v2err) : bool :=
  match e with ETimeout => true | _ => false end.

(* ... on the error mapped by CheckCommandErrorToServerError (Server.Check): validation_error
   and invalid_tuple codes and the context errors are terminal *)
Definition terminal_mapped (e : v2err) : bool :=
  match e with
  | EValidation | EInvalidUser | EInvalidTuple | ECond | ETimeout => true
  | EUsersetExcl | EWildExcl | EPanic | EGraph | EOther | EModel => false
  end.

(* the request-shape errors the weighted-graph path documents (v1 rejects them identically, or
   v2breaking lists them as exclusion shapes), plus the errors both engines share *)
Definition documented_error (e : v2err) : bool :=
  match e with
  | EValidation | EInvalidUser | EInvalidTuple | EUsersetExcl | EWildExcl | ECond | ETimeout => true
  | EPanic | EGraph | EOther | EModel => false
  end.

Inductive v2out := V2T | V2F | V2E (e : v2err).
Inductive dec := DT | DF | DE.
Inductive skind := KObj | KWild | KSet.

Definition kind_of (s : subject) : skind :=
  match s with SObj _ => KObj | SWild _ => KWild | SSet _ _ => KSet end.
Definition is_kset (k : skind) : bool := match k with KSet => true | _ => false end.

(* pkg/server/check.go: does Server.Check fall back to the default engine? *)
Definition server_fallback (v2 : v2out) : bool :=
  match v2 with V2E e => negb (terminal_mapped e) | _ => false end.

(* pkg/server/check.go: the answer class the client gets *)
Definition server_final (v2 : v2out) (v1 : dec) : dec :=
  match v2 with
  | V2T => DT
  | V2F => DF
  | V2E e => if terminal_mapped e then DE else v1
  end.

(* pkg/server/check.go: the reason logged with "potential v2 Check resolution breaking change";
   rc = CheckReason, re = CheckExclusionReason of the request *)
Definition server_reason (k : skind) (v2 : v2out) (v1 : dec) (rc re : reason) : reason :=
  match v2 with
  | V2T => RNone
  | V2F => if is_kset k then rc else RNone
  | V2E e =>
      if terminal_mapped e then RNone
      else match v1 with
           | DE => RNone
           | _ =>
               if negb (is_none (reason_from_error e)) then reason_from_error e
               else if negb (is_none re) then re
               else match v1 with
                    | DF => if is_kset k then rc else RNone
                    | _ => RNone
                    end
           end
  end.
