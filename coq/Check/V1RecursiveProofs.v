(* C02/C20 — functional correctness of the breadth-first recursive strategy model
   (Check/V1Recursive.v: breadthFirstRecursiveMatch / recursiveFastPath of
   internal/graph/recursive_resolver.go).

   The search is characterised against plain graph reachability (`path`):
     - bfs_terminates      the fuel bfs_fuel is always enough on a finite closed graph;
     - bfs_true_iff        BTrue  <-> a target is reachable in 1 .. maxdepth-depth-1 steps;
     - bfs_depth_iff       BDepth <-> no such target and the first maxdepth-depth-1 levels of the
                           search are all non-empty (the search is still running at the limit);
     - bfs_no_failure_no_err / bfs_err_has_failure   BErr needs a failing read;
     - rec_fast_true_iff   with a depth limit larger than the graph: BTrue <-> reachability;
     - rec_check_true_iff  the same for the edge-list instance used by the oracle.
   The proof is the classic BFS invariant: at the i-th call `visited` is the set of nodes at
   shortest distance < i from the first frontier and `frontier` is the set of successors of the
   nodes at shortest distance exactly i-1. *)
From Coq Require Import List NArith Bool Arith Lia.
From OFGA Require Import Check.V1Recursive.
Import ListNotations.
Local Close Scope N_scope.

(* ---------- boolean membership / dedup ---------- *)

Lemma memN_In : forall x l, memN x l = true <-> In x l.
Proof.
  intros x l. unfold memN. rewrite existsb_exists. split.
  - intros [y [Hy He]]. apply N.eqb_eq in He. subst y. exact Hy.
  - intro H. exists x. split; [exact H | apply N.eqb_refl].
Qed.

Lemma memN_false : forall x l, memN x l = false <-> ~ In x l.
Proof.
  intros x l. split.
  - intros H Hin. apply memN_In in Hin. rewrite Hin in H. discriminate H.
  - intro H. destruct (memN x l) eqn:Hm; [|reflexivity]. exfalso. apply H. apply memN_In. exact Hm.
Qed.

Lemma nodupN_In : forall x l, In x (nodupN l) <-> In x l.
Proof.
  intros x l. induction l as [|y l IH]; simpl; [tauto|].
  destruct (memN y l) eqn:Hm.
  - rewrite IH. split; [auto|]. intros [H|H]; [subst y; apply memN_In; exact Hm | exact H].
  - simpl. rewrite IH. tauto.
Qed.

Lemma existsb_memN : forall l targets,
  existsb (fun y => memN y targets) l = true <-> exists t, In t l /\ In t targets.
Proof.
  intros l targets. rewrite existsb_exists. split.
  - intros [t [Hl Ht]]. exists t. split; [exact Hl | apply memN_In; exact Ht].
  - intros [t [Hl Ht]]. exists t. split; [exact Hl | apply memN_In; exact Ht].
Qed.

(* ---------- the measure of bfs_terminates: nodes not yet expanded ---------- *)

Definition unvisitedN (nodes visited : list N) : nat :=
  length (filter (fun a => negb (memN a visited)) nodes).

Lemma filter_len_le : forall (p q : N -> bool) l,
  (forall x, p x = true -> q x = true) -> length (filter p l) <= length (filter q l).
Proof.
  intros p q l H. induction l as [|x l IH]; simpl; [lia|].
  destruct (p x) eqn:Hp; [rewrite (H x Hp); simpl; lia | destruct (q x); simpl; lia].
Qed.

Lemma filter_len_lt : forall (p q : N -> bool) l a,
  (forall x, p x = true -> q x = true) -> In a l -> p a = false -> q a = true ->
  length (filter p l) < length (filter q l).
Proof.
  intros p q l a H. induction l as [|x l IH]; simpl; intros Hin Hp Hq; [destruct Hin|].
  destruct Hin as [Hin|Hin].
  - subst x. rewrite Hp, Hq. simpl. pose proof (filter_len_le p q l H) as Hle. lia.
  - specialize (IH Hin Hp Hq).
    destruct (p x) eqn:Hpx; [rewrite (H x Hpx); simpl; lia | destruct (q x); simpl; lia].
Qed.

Lemma unvisitedN_le : forall nodes visited, unvisitedN nodes visited <= length nodes.
Proof.
  intros nodes visited. unfold unvisitedN. induction nodes as [|x l IH]; simpl; [lia|].
  destruct (negb (memN x visited)); simpl; lia.
Qed.

Lemma unvisitedN_expand : forall nodes visited todo x,
  In x todo -> In x nodes -> memN x visited = false ->
  unvisitedN nodes (todo ++ visited) < unvisitedN nodes visited.
Proof.
  intros nodes visited todo x Ht Hn Hv. unfold unvisitedN. apply filter_len_lt with (a := x).
  - intros a Ha. apply negb_true_iff in Ha. apply negb_true_iff.
    destruct (memN a visited) eqn:Hm; [|reflexivity].
    assert (Hin : memN a (todo ++ visited) = true).
    { apply memN_In. apply in_or_app. right. apply memN_In. exact Hm. }
    rewrite Hin in Ha. discriminate Ha.
  - exact Hn.
  - apply negb_false_iff. apply memN_In. apply in_or_app. left. exact Ht.
  - rewrite Hv. reflexivity.
Qed.

(* rec_fast answers BTrue exactly through the first-level test or through the search *)
Lemma rec_fast_BTrue : forall succ failing targets maxdepth fuel depth first,
  rec_fast succ failing targets maxdepth fuel depth first = BTrue <->
  existsb (fun y => memN y targets) first = true \/
  (targets <> [] /\ first <> [] /\
   bfs succ failing targets maxdepth fuel depth [] first false = BTrue).
Proof.
  intros succ failing targets maxdepth fuel depth first. unfold rec_fast.
  destruct first as [|a fr].
  - simpl. split; [discriminate|]. intros [H | [_ [H _]]]; [discriminate H | congruence].
  - destruct targets as [|t0 ts].
    + split; [discriminate|]. intros [H | [H _]]; [|congruence].
      exfalso. apply existsb_memN in H. destruct H as [t [_ Ht]]. destruct Ht.
    + destruct (existsb (fun y => memN y (t0 :: ts)) (a :: fr)) eqn:He.
      * split; intros _; [left|]; reflexivity.
      * split.
        -- intro H. right. split; [discriminate|]. split; [discriminate | exact H].
        -- intros [H | [_ [_ H]]]; [discriminate H | exact H].
Qed.

Section BFSProofs.
  Variable succ : N -> list N.
  Variable failing : N -> bool.
  Variable targets : list N.
  Variable maxdepth : nat.

  Local Notation BFS := (bfs succ failing targets maxdepth).

  (* ---------- graph reachability ---------- *)

  Inductive path : N -> N -> nat -> Prop :=
  | path0 x : path x x 0
  | pathS x y z n : In y (succ x) -> path y z n -> path x z (S n).

  Definition reach_from (F : list N) (t : N) (n : nat) : Prop :=
    exists s, In s F /\ path s t n.

  (* x is at shortest distance exactly i from F *)
  Definition fresh (F : list N) (i : nat) (x : N) : Prop :=
    reach_from F x i /\ forall j, j < i -> ~ reach_from F x j.

  (* the i-th frontier of the search *)
  Definition level (F : list N) (i : nat) (y : N) : Prop :=
    match i with O => In y F | S k => exists x, fresh F k x /\ In y (succ x) end.

  (* the graph is finite and closed *)
  Definition closed_graph (nodes : list N) : Prop :=
    forall x y, In x nodes -> In y (succ x) -> In y nodes.

  (* a target is reachable in 1 .. m steps *)
  Definition hit (F : list N) (m : nat) : Prop :=
    exists t n, In t targets /\ 1 <= n /\ n <= m /\ reach_from F t n.

  Lemma path_0_inv : forall x y, path x y 0 -> x = y.
  Proof.
    intros x y H. inversion H as [x' Hx Hy Hn | x' y' z' n' Hin Hp Hx Hy Hn]. reflexivity.
  Qed.

  Lemma path_S_inv : forall x z n, path x z (S n) -> exists y, In y (succ x) /\ path y z n.
  Proof.
    intros x z n H. inversion H as [x' Hx Hy Hn | x' y' z' n' Hin Hp Hx Hy Hn]. subst.
    exists y'. split; [exact Hin | exact Hp].
  Qed.

  Lemma path_snoc : forall x y n z, path x y n -> In z (succ y) -> path x z (S n).
  Proof.
    intros x y n z H. induction H as [x | x y w n Hin Hp IH]; intro Hz.
    - apply pathS with (y := z); [exact Hz | apply path0].
    - apply pathS with (y := y); [exact Hin | apply IH; exact Hz].
  Qed.

  Lemma path_unsnoc : forall n x z, path x z (S n) -> exists y, path x y n /\ In z (succ y).
  Proof.
    induction n as [|m IH]; intros x z H.
    - apply path_S_inv in H. destruct H as [y [Hin Hp]]. apply path_0_inv in Hp. subst y.
      exists x. split; [apply path0 | exact Hin].
    - apply path_S_inv in H. destruct H as [y [Hin Hp]].
      destruct (IH y z Hp) as [w [Hpw Hz]].
      exists w. split; [apply pathS with (y := y); assumption | exact Hz].
  Qed.

  Lemma reach_0 : forall F x, reach_from F x 0 <-> In x F.
  Proof.
    intros F x. split.
    - intros [s [Hs Hp]]. apply path_0_inv in Hp. subst s. exact Hs.
    - intro H. exists x. split; [exact H | apply path0].
  Qed.

  Lemma reach_snoc : forall F y n z, reach_from F y n -> In z (succ y) -> reach_from F z (S n).
  Proof.
    intros F y n z [s [Hs Hp]] Hz. exists s. split; [exact Hs | exact (path_snoc s y n z Hp Hz)].
  Qed.

  Lemma reach_unsnoc : forall F z n,
    reach_from F z (S n) -> exists y, reach_from F y n /\ In z (succ y).
  Proof.
    intros F z n [s [Hs Hp]]. destruct (path_unsnoc n s z Hp) as [y [Hpy Hz]].
    exists y. split; [exists s; split; assumption | exact Hz].
  Qed.

  Lemma path_nodes : forall nodes, closed_graph nodes ->
    forall s t n, path s t n -> In s nodes -> In t nodes.
  Proof.
    intros nodes Hc s t n H. induction H as [x | x y w n Hin Hp IH]; intro Hs; [exact Hs|].
    apply IH. exact (Hc x y Hs Hin).
  Qed.

  Lemma reach_nodes : forall nodes F, closed_graph nodes -> incl F nodes ->
    forall t n, reach_from F t n -> In t nodes.
  Proof.
    intros nodes F Hc HF t n [s [Hs Hp]]. exact (path_nodes nodes Hc s t n Hp (HF s Hs)).
  Qed.

  Lemma level_reach : forall F i y, level F i y -> reach_from F y i.
  Proof.
    intros F i y H. destruct i as [|k]; simpl in H.
    - apply reach_0. exact H.
    - destruct H as [x [[Hr _] Hy]]. exact (reach_snoc F x k y Hr Hy).
  Qed.

  (* the predecessor of a node at shortest distance S k is at shortest distance k *)
  Lemma fresh_pred : forall F k t,
    fresh F (S k) t -> exists y, fresh F k y /\ In t (succ y).
  Proof.
    intros F k t [Hr Hmin]. destruct (reach_unsnoc F t k Hr) as [y [Hy Ht]].
    exists y. split; [|exact Ht]. split; [exact Hy|].
    intros j Hj Hyj. apply (Hmin (S j)); [lia|]. exact (reach_snoc F y j t Hyj Ht).
  Qed.

  Lemma fresh_level : forall F i x, fresh F i x -> level F i x.
  Proof.
    intros F i x H. destruct i as [|k]; simpl.
    - apply reach_0. exact (proj1 H).
    - exact (fresh_pred F k x H).
  Qed.

  (* ---------- the model, one step ---------- *)

  Lemma bfs_S : forall f depth visited frontier err,
    BFS (S f) depth visited frontier err =
    if Nat.eqb (S depth) maxdepth then BDepth
    else match frontier with
         | [] => if err then BErr else BFalse
         | _ =>
             let todo := nodupN (filter (fun x => negb (memN x visited)) frontier) in
             let next := flat_map succ todo in
             if existsb (fun y => memN y targets) next then BTrue
             else BFS f (S depth) (todo ++ visited) next (err || existsb failing todo)
         end.
  Proof. reflexivity. Qed.

  Lemma todo_In : forall visited frontier x,
    In x (nodupN (filter (fun a => negb (memN a visited)) frontier)) <->
    In x frontier /\ ~ In x visited.
  Proof.
    intros visited frontier x. rewrite nodupN_In, filter_In, negb_true_iff, memN_false. tauto.
  Qed.

  (* ---------- 1. termination ---------- *)

  Lemma bfs_terminates_gen : forall nodes, closed_graph nodes ->
    forall fuel depth visited frontier err,
    incl frontier nodes -> unvisitedN nodes visited + 2 <= fuel ->
    BFS fuel depth visited frontier err <> BFuel.
  Proof.
    intros nodes Hc.
    induction fuel as [|f IH]; intros depth visited frontier err Hfr Hf; [lia|].
    rewrite bfs_S. destruct (Nat.eqb (S depth) maxdepth); [discriminate|].
    destruct frontier as [|x0 fr]; [destruct err; discriminate|]. cbv zeta.
    set (todo := nodupN (filter (fun x => negb (memN x visited)) (x0 :: fr))).
    set (next := flat_map succ todo).
    destruct (existsb (fun y => memN y targets) next); [discriminate|].
    assert (Htodo : forall x, In x todo -> In x nodes /\ memN x visited = false).
    { intros x Hx. unfold todo in Hx. apply todo_In in Hx. destruct Hx as [Hx Hv].
      split; [apply Hfr; exact Hx | apply memN_false; exact Hv]. }
    destruct todo as [|t0 todo'] eqn:Ht.
    - (* nothing new: the next level is empty and ends the search *)
      simpl in next. unfold next. destruct f as [|f']; [lia|].
      rewrite bfs_S. destruct (Nat.eqb (S (S depth)) maxdepth); [discriminate|].
      destruct (err || existsb failing []); discriminate.
    - apply IH.
      + intros y Hy. unfold next in Hy. apply in_flat_map in Hy. destruct Hy as [x [Hx Hy]].
        apply (Hc x y); [exact (proj1 (Htodo x Hx)) | exact Hy].
      + destruct (Htodo t0 (or_introl eq_refl)) as [Hn Hv].
        pose proof (unvisitedN_expand nodes visited (t0 :: todo') t0 (or_introl eq_refl) Hn Hv)
          as Hlt.
        lia.
  Qed.

  Theorem bfs_terminates : forall nodes depth visited frontier err,
    closed_graph nodes -> incl frontier nodes ->
    bfs succ failing targets maxdepth (bfs_fuel nodes) depth visited frontier err <> BFuel.
  Proof.
    intros nodes depth visited frontier err Hc Hfr.
    apply (bfs_terminates_gen nodes Hc); [exact Hfr|].
    unfold bfs_fuel. pose proof (unvisitedN_le nodes visited) as Hle. lia.
  Qed.

  (* ---------- the BFS invariant ---------- *)

  (* state of the i-th call of a search started on F: `visited` = the nodes at distance < i,
     `frontier` = level i, and no target was seen on the levels 1 .. i *)
  Definition inv (F : list N) (i : nat) (visited frontier : list N) : Prop :=
    (forall x, In x visited <-> exists j, j < i /\ reach_from F x j) /\
    (forall y, In y frontier <-> level F i y) /\
    (forall t n, In t targets -> 1 <= n -> n <= i -> ~ reach_from F t n).

  Lemma inv_init : forall F, inv F 0 [] F.
  Proof.
    intro F. split; [|split].
    - intro x. split; [intros [] | intros [j [Hj _]]; lia].
    - intro y. simpl. tauto.
    - intros t n _ H1 H0. lia.
  Qed.

  (* a node reachable in i steps is visited or at shortest distance i *)
  Lemma inv_fresh_or_visited : forall F i visited frontier x,
    inv F i visited frontier -> reach_from F x i -> In x visited \/ fresh F i x.
  Proof.
    intros F i visited frontier x [Hv _] Hr.
    destruct (memN x visited) eqn:Hm.
    - left. apply memN_In. exact Hm.
    - right. split; [exact Hr|]. intros j Hj Hrj.
      apply memN_false in Hm. apply Hm. apply Hv. exists j. split; assumption.
  Qed.

  (* the nodes expanded by the i-th call are those at shortest distance i *)
  Lemma inv_todo : forall F i visited frontier x,
    inv F i visited frontier ->
    (In x (nodupN (filter (fun a => negb (memN a visited)) frontier)) <-> fresh F i x).
  Proof.
    intros F i visited frontier x Hinv. pose proof Hinv as [Hv [Hf _]].
    rewrite todo_In. split.
    - intros [Hx Hnv]. apply Hf in Hx.
      destruct (inv_fresh_or_visited F i visited frontier x Hinv (level_reach F i x Hx))
        as [Hin | Hfr]; [contradiction | exact Hfr].
    - intros Hfr. split.
      + apply Hf. exact (fresh_level F i x Hfr).
      + intro Hin. apply Hv in Hin. destruct Hin as [j [Hj Hrj]].
        exact (proj2 Hfr j Hj Hrj).
  Qed.

  Lemma inv_next : forall F i visited frontier y,
    inv F i visited frontier ->
    (In y (flat_map succ (nodupN (filter (fun a => negb (memN a visited)) frontier))) <->
     level F (S i) y).
  Proof.
    intros F i visited frontier y Hinv. rewrite in_flat_map. simpl. split.
    - intros [x [Hx Hy]]. exists x. split; [apply (inv_todo F i visited frontier x Hinv); exact Hx | exact Hy].
    - intros [x [Hx Hy]]. exists x. split; [apply (inv_todo F i visited frontier x Hinv); exact Hx | exact Hy].
  Qed.

  Lemma inv_step : forall F i visited frontier,
    inv F i visited frontier ->
    existsb (fun y => memN y targets)
      (flat_map succ (nodupN (filter (fun a => negb (memN a visited)) frontier))) = false ->
    inv F (S i)
      (nodupN (filter (fun a => negb (memN a visited)) frontier) ++ visited)
      (flat_map succ (nodupN (filter (fun a => negb (memN a visited)) frontier))).
  Proof.
    intros F i visited frontier Hinv Hex. pose proof Hinv as [Hv [Hf Ht]].
    split; [|split].
    - intro x. rewrite in_app_iff. split.
      + intros [Hx | Hx].
        * apply (inv_todo F i visited frontier x Hinv) in Hx.
          exists i. split; [lia | exact (proj1 Hx)].
        * apply Hv in Hx. destruct Hx as [j [Hj Hr]]. exists j. split; [lia | exact Hr].
      + intros [j [Hj Hr]].
        destruct (memN x visited) eqn:Hm; [right; apply memN_In; exact Hm|].
        apply memN_false in Hm. left. apply (inv_todo F i visited frontier x Hinv).
        assert (Hmin : forall j', j' < i -> ~ reach_from F x j').
        { intros j' Hj' Hr'. apply Hm. apply Hv. exists j'. split; assumption. }
        assert (Hji : j = i).
        { destruct (Nat.eq_dec j i) as [E | E]; [exact E|].
          exfalso. apply (Hmin j); [lia | exact Hr]. }
        subst j. split; [exact Hr | exact Hmin].
    - intro y. exact (inv_next F i visited frontier y Hinv).
    - intros t n Hin H1 Hn Hr.
      destruct (Nat.eq_dec n (S i)) as [E | E]; [|apply (Ht t n Hin H1); [lia | exact Hr]].
      subst n. destruct (reach_unsnoc F t i Hr) as [y [Hy Hty]].
      destruct (inv_fresh_or_visited F i visited frontier y Hinv Hy) as [Hyv | Hyf].
      + apply Hv in Hyv. destruct Hyv as [j [Hj Hrj]].
        apply (Ht t (S j) Hin); [lia | lia | exact (reach_snoc F y j t Hrj Hty)].
      + assert (Htn : In t (flat_map succ
                   (nodupN (filter (fun a => negb (memN a visited)) frontier)))).
        { apply (inv_next F i visited frontier t Hinv). simpl. exists y. split; assumption. }
        assert (Htrue : existsb (fun y0 => memN y0 targets)
                  (flat_map succ (nodupN (filter (fun a => negb (memN a visited)) frontier)))
                = true).
        { apply existsb_memN. exists t. split; assumption. }
        rewrite Htrue in Hex. discriminate Hex.
  Qed.

  (* an empty level: everything reachable has been visited *)
  Lemma inv_empty_closed : forall F i visited,
    inv F i visited [] ->
    forall n x, reach_from F x n -> exists j, j < i /\ reach_from F x j.
  Proof.
    intros F i visited Hinv. pose proof Hinv as [Hv [Hf _]].
    assert (Hnofresh : forall x, ~ fresh F i x).
    { intros x Hx. apply fresh_level in Hx. apply Hf in Hx. destruct Hx. }
    induction n as [|m IH]; intros x Hr.
    - destruct i as [|k]; [|exists 0; split; [lia | exact Hr]].
      exfalso. apply (Hnofresh x). split; [exact Hr | intros j Hj; lia].
    - destruct (reach_unsnoc F x m Hr) as [y [Hy Hxy]].
      destruct (IH y Hy) as [j [Hj Hrj]].
      pose proof (reach_snoc F y j x Hrj Hxy) as Hrx.
      destruct (Nat.eq_dec (S j) i) as [E | E]; [|exists (S j); split; [lia | exact Hrx]].
      subst i.
      destruct (inv_fresh_or_visited F (S j) visited [] x Hinv Hrx) as [Hxv | Hxf].
      + apply Hv. exact Hxv.
      + exfalso. exact (Hnofresh x Hxf).
  Qed.

  Lemma inv_empty_no_hit : forall F i visited m, inv F i visited [] -> ~ hit F m.
  Proof.
    intros F i visited m Hinv [t [n [Hin [H1 [_ Hr]]]]].
    destruct n as [|n']; [lia|].
    destruct (reach_unsnoc F t n' Hr) as [y [Hy Hty]].
    destruct (inv_empty_closed F i visited Hinv n' y Hy) as [j [Hj Hrj]].
    destruct Hinv as [_ [_ Ht]].
    apply (Ht t (S j) Hin); [lia | lia | exact (reach_snoc F y j t Hrj Hty)].
  Qed.

  (* ---------- 2./3. the results BTrue and BDepth, characterised ---------- *)

  Lemma bfs_spec : forall F fuel i depth visited frontier err,
    depth < maxdepth -> inv F i visited frontier ->
    BFS fuel depth visited frontier err <> BFuel ->
    (BFS fuel depth visited frontier err = BTrue <-> hit F (i + (maxdepth - depth - 1))) /\
    (BFS fuel depth visited frontier err = BDepth <->
       ~ hit F (i + (maxdepth - depth - 1)) /\
       forall k, i <= k -> k < i + (maxdepth - depth - 1) -> exists y, level F k y).
  Proof.
    intros F. induction fuel as [|f IH]; intros i depth visited frontier err Hd Hinv Hnf.
    - exfalso. apply Hnf. reflexivity.
    - rewrite bfs_S in Hnf. rewrite bfs_S.
      destruct (Nat.eqb (S depth) maxdepth) eqn:He.
      + (* the limit is reached *)
        apply Nat.eqb_eq in He.
        replace (maxdepth - depth - 1) with 0 by lia. rewrite Nat.add_0_r.
        assert (Hnh : ~ hit F i).
        { intros [t [n [Hin [H1 [Hn Hr]]]]]. destruct Hinv as [_ [_ Ht]].
          exact (Ht t n Hin H1 Hn Hr). }
        split; split.
        * discriminate.
        * intro H. contradiction.
        * intros _. split; [exact Hnh | intros k Hk1 Hk2; lia].
        * reflexivity.
      + apply Nat.eqb_neq in He.
        destruct frontier as [|x0 fr].
        * (* empty level: the search ends, nothing more is reachable *)
          pose proof (inv_empty_no_hit F i visited (i + (maxdepth - depth - 1)) Hinv) as Hnh.
          assert (Hnl : ~ exists y, level F i y).
          { intros [y Hy]. destruct Hinv as [_ [Hf _]]. apply Hf in Hy. destruct Hy. }
          split; split.
          -- destruct err; discriminate.
          -- intro H. contradiction.
          -- destruct err; discriminate.
          -- intros [_ Hl]. exfalso. apply Hnl. apply Hl; lia.
        * cbv zeta in Hnf. cbv zeta.
          set (todo := nodupN (filter (fun x => negb (memN x visited)) (x0 :: fr))) in *.
          set (next := flat_map succ todo) in *.
          destruct (existsb (fun y => memN y targets) next) eqn:Hex.
          -- (* a target on level S i *)
             assert (Hh : hit F (i + (maxdepth - depth - 1))).
             { apply existsb_memN in Hex. destruct Hex as [t [Hn Ht]].
               unfold next, todo in Hn. apply (inv_next F i visited (x0 :: fr) t Hinv) in Hn.
               exists t, (S i). split; [exact Ht|]. split; [lia|]. split; [lia|].
               exact (level_reach F (S i) t Hn). }
             split; split.
             ++ intros _. exact Hh.
             ++ reflexivity.
             ++ discriminate.
             ++ intros [Hnh _]. contradiction.
          -- (* next level *)
             assert (Hd' : S depth < maxdepth) by lia.
             pose proof (inv_step F i visited (x0 :: fr) Hinv Hex) as Hinv'.
             fold todo in Hinv'. fold next in Hinv'.
             destruct (IH (S i) (S depth) (todo ++ visited) next
                          (err || existsb failing todo) Hd' Hinv' Hnf) as [IHt IHd].
             replace (S i + (maxdepth - S depth - 1)) with (i + (maxdepth - depth - 1))
               in IHt, IHd by lia.
             split; [exact IHt|].
             rewrite IHd. split.
             ++ intros [Hnh Hl]. split; [exact Hnh|]. intros k Hk1 Hk2.
                destruct (Nat.eq_dec k i) as [E | E].
                ** subst k. exists x0. destruct Hinv as [_ [Hf _]]. apply Hf. left. reflexivity.
                ** apply Hl; lia.
             ++ intros [Hnh Hl]. split; [exact Hnh|]. intros k Hk1 Hk2. apply Hl; lia.
  Qed.

  Theorem bfs_true_iff : forall nodes depth frontier,
    closed_graph nodes -> incl frontier nodes -> (depth < maxdepth)%nat ->
    (bfs succ failing targets maxdepth (bfs_fuel nodes) depth [] frontier false = BTrue <->
     exists t n, In t targets /\ (1 <= n)%nat /\ (n <= maxdepth - depth - 1)%nat /\
                 reach_from frontier t n).
  Proof.
    intros nodes depth frontier Hc Hfr Hd.
    exact (proj1 (bfs_spec frontier (bfs_fuel nodes) 0 depth [] frontier false Hd
                    (inv_init frontier)
                    (bfs_terminates nodes depth [] frontier false Hc Hfr))).
  Qed.

  Theorem bfs_depth_iff : forall nodes depth frontier err,
    closed_graph nodes -> incl frontier nodes -> (depth < maxdepth)%nat ->
    (bfs succ failing targets maxdepth (bfs_fuel nodes) depth [] frontier err = BDepth <->
     (~ exists t n, In t targets /\ (1 <= n)%nat /\ (n <= maxdepth - depth - 1)%nat /\
                    reach_from frontier t n) /\
     forall i, (i < maxdepth - depth - 1)%nat -> exists y, level frontier i y).
  Proof.
    intros nodes depth frontier err Hc Hfr Hd.
    pose proof (proj2 (bfs_spec frontier (bfs_fuel nodes) 0 depth [] frontier err Hd
                    (inv_init frontier)
                    (bfs_terminates nodes depth [] frontier err Hc Hfr))) as H.
    simpl in H. rewrite H. unfold hit. split.
    - intros [Hnh Hl]. split; [exact Hnh|]. intros i Hi. apply Hl; lia.
    - intros [Hnh Hl]. split; [exact Hnh|]. intros k _ Hk. apply Hl; exact Hk.
  Qed.

  (* ---------- 4./5. BErr needs a failing read ---------- *)

  Lemma bfs_err_gen : forall fuel depth visited frontier err,
    BFS fuel depth visited frontier err = BErr -> err = true \/ exists x, failing x = true.
  Proof.
    induction fuel as [|f IH]; intros depth visited frontier err H; [discriminate H|].
    rewrite bfs_S in H. destruct (Nat.eqb (S depth) maxdepth); [discriminate H|].
    destruct frontier as [|x0 fr].
    - destruct err; [left; reflexivity | discriminate H].
    - cbv zeta in H.
      destruct (existsb (fun y => memN y targets)
                  (flat_map succ (nodupN (filter (fun x => negb (memN x visited)) (x0 :: fr)))));
        [discriminate H|].
      apply IH in H. destruct H as [H | H]; [|right; exact H].
      apply orb_true_iff in H. destruct H as [H | H]; [left; exact H|].
      right. apply existsb_exists in H. destruct H as [x [_ Hx]]. exists x. exact Hx.
  Qed.

  Theorem bfs_err_has_failure : forall fuel depth visited frontier,
    bfs succ failing targets maxdepth fuel depth visited frontier false = BErr ->
    exists x, failing x = true.
  Proof.
    intros fuel depth visited frontier H. apply bfs_err_gen in H.
    destruct H as [H | H]; [discriminate H | exact H].
  Qed.

  Theorem bfs_no_failure_no_err : forall fuel depth visited frontier,
    (forall x, failing x = false) ->
    bfs succ failing targets maxdepth fuel depth visited frontier false <> BErr.
  Proof.
    intros fuel depth visited frontier Hnf H. apply bfs_err_has_failure in H.
    destruct H as [x Hx]. rewrite (Hnf x) in Hx. discriminate Hx.
  Qed.

  (* ---------- shortest distances are smaller than the graph ---------- *)

  (* the nodes reachable in exactly n steps, computed: reachability is decidable *)
  Fixpoint lvl (F : list N) (n : nat) : list N :=
    match n with O => F | S k => flat_map succ (lvl F k) end.

  Lemma lvl_reach : forall F n t, In t (lvl F n) <-> reach_from F t n.
  Proof.
    intros F. induction n as [|k IH]; intro t; simpl.
    - symmetry. apply reach_0.
    - rewrite in_flat_map. split.
      + intros [x [Hx Ht]]. apply IH in Hx. exact (reach_snoc F x k t Hx Ht).
      + intro H. destruct (reach_unsnoc F t k H) as [y [Hy Ht]].
        exists y. split; [apply IH; exact Hy | exact Ht].
  Qed.

  Lemma reach_least_aux : forall F t n,
    (exists k, k < n /\ fresh F k t) \/ (forall j, j < n -> ~ reach_from F t j).
  Proof.
    intros F t. induction n as [|n IH].
    - right. intros j Hj. lia.
    - destruct IH as [[k [Hk Hf]] | Hno].
      + left. exists k. split; [lia | exact Hf].
      + destruct (memN t (lvl F n)) eqn:Hm.
        * left. exists n. split; [lia|]. split; [apply lvl_reach; apply memN_In; exact Hm | exact Hno].
        * right. intros j Hj Hr. destruct (Nat.eq_dec j n) as [E | E].
          -- subst j. apply memN_false in Hm. apply Hm. apply lvl_reach. exact Hr.
          -- apply (Hno j); [lia | exact Hr].
  Qed.

  Lemma reach_least : forall F t n, reach_from F t n -> exists k, k <= n /\ fresh F k t.
  Proof.
    intros F t n Hr. destruct (reach_least_aux F t (S n)) as [[k [Hk Hf]] | Hno].
    - exists k. split; [lia | exact Hf].
    - exfalso. apply (Hno n); [lia | exact Hr].
  Qed.

  (* a shortest path of length k goes through k+1 distinct nodes *)
  Lemma fresh_chain : forall nodes F, closed_graph nodes -> incl F nodes ->
    forall k t, fresh F k t ->
    exists l, length l = S k /\ NoDup l /\ incl l nodes /\
              forall x, In x l -> exists j, j <= k /\ fresh F j x.
  Proof.
    intros nodes F Hc HF. induction k as [|k IH]; intros t Hf.
    - exists [t]. split; [reflexivity|]. split; [constructor; [intros [] | constructor]|].
      split.
      + intros x [Hx | []]. subst x. exact (reach_nodes nodes F Hc HF t 0 (proj1 Hf)).
      + intros x [Hx | []]. subst x. exists 0. split; [lia | exact Hf].
    - destruct (fresh_pred F k t Hf) as [y [Hy Hty]].
      destruct (IH y Hy) as [l [Hlen [Hnd [Hincl Hall]]]].
      exists (t :: l). split; [simpl; rewrite Hlen; reflexivity|]. split.
      + constructor; [|exact Hnd]. intro Hin. destruct (Hall t Hin) as [j [Hj Hfj]].
        apply (proj2 Hf j); [lia | exact (proj1 Hfj)].
      + split.
        * intros x [Hx | Hx]; [subst x; exact (reach_nodes nodes F Hc HF t (S k) (proj1 Hf)) | exact (Hincl x Hx)].
        * intros x [Hx | Hx]; [subst x; exists (S k); split; [lia | exact Hf]|].
          destruct (Hall x Hx) as [j [Hj Hfj]]. exists j. split; [lia | exact Hfj].
  Qed.

  Lemma reach_short : forall nodes F t n, closed_graph nodes -> incl F nodes ->
    reach_from F t n -> exists n', n' <= n /\ n' < length nodes /\ reach_from F t n'.
  Proof.
    intros nodes F t n Hc HF Hr. destruct (reach_least F t n Hr) as [k [Hk Hf]].
    destruct (fresh_chain nodes F Hc HF k t Hf) as [l [Hlen [Hnd [Hincl _]]]].
    pose proof (NoDup_incl_length Hnd Hincl) as Hle.
    exists k. split; [exact Hk|]. split; [lia | exact (proj1 Hf)].
  Qed.

  (* ---------- 6. the depth limit is larger than the graph ---------- *)

  Theorem rec_fast_true_iff : forall nodes depth first,
    closed_graph nodes -> incl first nodes -> (depth + length nodes + 1 < maxdepth)%nat ->
    (rec_fast succ failing targets maxdepth (bfs_fuel nodes) depth first = BTrue <->
     exists t n s, In t targets /\ In s first /\ path s t n).
  Proof.
    intros nodes depth first Hc Hfr Hd.
    assert (Hd' : depth < maxdepth) by lia.
    rewrite rec_fast_BTrue. rewrite (bfs_true_iff nodes depth first Hc Hfr Hd'). split.
    - intros [H | [_ [_ H]]].
      + apply existsb_memN in H. destruct H as [t [Hf Ht]].
        exists t, 0, t. split; [exact Ht|]. split; [exact Hf | apply path0].
      + destruct H as [t [n [Ht [_ [_ [s [Hs Hp]]]]]]]. exists t, n, s. split; [exact Ht|]. split; assumption.
    - intros [t [n [s [Ht [Hs Hp]]]]].
      destruct (existsb (fun y => memN y targets) first) eqn:Hex; [left; reflexivity|].
      right. split; [intro E; rewrite E in Ht; destruct Ht|].
      split; [intro E; rewrite E in Hs; destruct Hs|].
      assert (Hr : reach_from first t n) by (exists s; split; assumption).
      destruct (reach_short nodes first t n Hc Hfr Hr) as [n' [_ [Hn' Hr']]].
      exists t, n'. split; [exact Ht|].
      destruct n' as [|m].
      + exfalso. apply reach_0 in Hr'.
        assert (Htrue : existsb (fun y => memN y targets) first = true).
        { apply existsb_memN. exists t. split; assumption. }
        rewrite Htrue in Hex. discriminate Hex.
      + split; [lia|]. split; [lia | exact Hr'].
  Qed.
End BFSProofs.

(* ---------- 7. the edge-list instance ---------- *)

Lemma succ_of_In : forall edges x y, In y (succ_of edges x) <-> In (x, y) edges.
Proof.
  intros edges x y. unfold succ_of. rewrite in_map_iff. split.
  - intros [[a b] [Hb Hin]]. apply filter_In in Hin. destruct Hin as [Hin He].
    simpl in Hb, He. apply N.eqb_eq in He. subst. exact Hin.
  - intro H. exists (x, y). split; [reflexivity|]. apply filter_In. split; [exact H|].
    simpl. apply N.eqb_refl.
Qed.

Lemma nodes_of_target : forall edges extra x y, In (x, y) edges -> In y (nodes_of edges extra).
Proof.
  intros edges extra x y H. unfold nodes_of. apply nodupN_In. apply in_or_app. right.
  apply in_or_app. left. apply in_map_iff. exists (x, y). split; [reflexivity | exact H].
Qed.

Lemma nodes_of_closed : forall edges extra, closed_graph (succ_of edges) (nodes_of edges extra).
Proof.
  intros edges extra x y _ Hy. apply succ_of_In in Hy. exact (nodes_of_target edges extra x y Hy).
Qed.

Lemma succ_of_incl_nodes : forall edges extra x, incl (succ_of edges x) (nodes_of edges extra).
Proof.
  intros edges extra x y Hy. apply succ_of_In in Hy. exact (nodes_of_target edges extra x y Hy).
Qed.

Theorem rec_check_true_iff : forall edges direct maxdepth x,
  (length (nodes_of edges (x :: direct)) + 2 < maxdepth)%nat ->
  (rec_check edges direct maxdepth x = BTrue <->
   exists t n, In t direct /\ path (succ_of edges) x t n).
Proof.
  intros edges direct maxdepth x Hd. unfold rec_check.
  destruct (memN x direct) eqn:Hm.
  - split; [intros _ | reflexivity]. exists x, 0. split; [apply memN_In; exact Hm | apply path0].
  - rewrite (rec_fast_true_iff (succ_of edges) (fun _ => false) direct maxdepth
               (nodes_of edges (x :: direct)) 0 (succ_of edges x)
               (nodes_of_closed edges (x :: direct))
               (succ_of_incl_nodes edges (x :: direct) x)); [|lia].
    split.
    + intros [t [n [s [Ht [Hs Hp]]]]]. exists t, (S n). split; [exact Ht|].
      apply pathS with (y := s); assumption.
    + intros [t [n [Ht Hp]]]. destruct n as [|m].
      * apply path_0_inv in Hp. subst t. apply memN_false in Hm. contradiction.
      * apply path_S_inv in Hp. destruct Hp as [s [Hs Hp]]. exists t, m, s.
        split; [exact Ht|]. split; assumption.
Qed.

(* ---------- 8. non-vacuity ---------- *)

(* allowed through a graph containing the cycle 1 -> 2 -> 3 -> 1 *)
Example bfs_ex_true :
  rec_check [(1,2);(2,3);(3,1);(3,4)]%N [4%N] 25 1%N = BTrue.
Proof. vm_compute. reflexivity. Qed.

(* the cycle is explored once, the target is not reachable *)
Example bfs_ex_false :
  rec_check [(1,2);(2,3);(3,1);(3,4)]%N [9%N] 25 1%N = BFalse.
Proof. vm_compute. reflexivity. Qed.

(* the target is three edges away but the limit stops the search before *)
Example bfs_ex_depth :
  rec_check [(1,2);(2,3);(3,4)]%N [4%N] 2 1%N = BDepth.
Proof. vm_compute. reflexivity. Qed.

(* the premise of rec_check_true_iff holds for the first two examples *)
Example bfs_ex_premise :
  (length (nodes_of [(1,2);(2,3);(3,1);(3,4)]%N [1%N; 4%N]) + 2 < 25)%nat.
Proof. vm_compute. lia. Qed.
