(* C02: the strategies of the Check engine compute the same answers.

   1. The fast-path set operations on plain sorted lists (corollaries of the chunked statements
      in V1FastPathUnion / V1FastPathInter / V1FastPathDiff) and witnesses that sortedness is
      really needed.
   2. weight2 and the recursive BFS (proved in V1Weight2W2Proofs / V1RecursiveProofs) restated.
   3. strategy_irrelevant: a Check is a tree of sub-problems; at some of them the planner chooses
      among the eligible strategies (or the strategy selected by the parent request is inherited).
      If at every decision point all eligible alternatives have the same denotation, then every
      planner and every inherited selection give the same answer.  The decision points of the
      code are instantiated: default-vs-weight2 (coherent by weight2_spec) and
      default-vs-recursive (coherent by rec_check_true_iff, given that the default strategy
      computes reachability — that part is C01's statement and is covered by correspondence). *)
From Coq Require Import List NArith Bool Arith Lia.
From OFGA Require Import Check.V1Weight2 Check.V1Recursive Check.V1FastPathBase Check.V1FastPathUnion
  Check.V1FastPathInter Check.V1FastPathDiff Check.V1Weight2W2Proofs Check.V1RecursiveProofs.
Import ListNotations.
Open Scope N_scope.

(* ------------------------------------------------------------------------------------------ *)
(* 1. plain sorted lists *)

Lemma cvals_one : forall l, cvals (one l) = l.
Proof. intros l. unfold cvals, one. simpl. apply app_nil_r. Qed.

Lemma one_clean : forall ls, Forall (fun cs => stream_clean cs = true) (map one ls).
Proof. intros ls. apply Forall_forall. intros cs H. apply in_map_iff in H. destruct H as [l [E _]]. subst. reflexivity. Qed.

Lemma one_sorted : forall ls, Forall (fun l => ssortedb l = true) ls ->
  Forall (fun cs => ssortedb (cvals cs) = true) (map one ls).
Proof.
  intros ls H. apply Forall_forall. intros cs Hc. apply in_map_iff in Hc. destruct Hc as [l [E Hl]]. subst.
  rewrite cvals_one. rewrite Forall_forall in H. apply H. exact Hl.
Qed.

Theorem fp_union_spec : forall ls, Forall (fun l => ssortedb l = true) ls ->
  ssortedb (fp_union ls) = true /\ forall x, In x (fp_union ls) <-> exists l, In l ls /\ In x l.
Proof.
  intros ls H. unfold fp_union.
  destruct (fp_union_c_spec (map one ls) (one_clean ls) (one_sorted ls H)) as [r [Hr [Hs Hx]]].
  rewrite Hr. simpl. split; [exact Hs|]. intros x. rewrite (Hx x). split.
  - intros [cs [Hc Hin]]. apply in_map_iff in Hc. destruct Hc as [l [E Hl]]. subst. rewrite cvals_one in Hin. exists l. split; assumption.
  - intros [l [Hl Hin]]. exists (one l). split; [apply in_map; exact Hl | rewrite cvals_one; exact Hin].
Qed.

Theorem fp_inter_spec : forall ls, ls <> [] -> Forall (fun l => ssortedb l = true) ls ->
  ssortedb (fp_inter ls) = true /\ forall x, In x (fp_inter ls) <-> forall l, In l ls -> In x l.
Proof.
  intros ls Hne H. unfold fp_inter.
  assert (Hne' : map one ls <> []) by (destruct ls; [contradiction | discriminate]).
  destruct (fp_inter_c_spec (map one ls) Hne' (one_clean ls) (one_sorted ls H)) as [r [Hr [Hs Hx]]].
  rewrite Hr. simpl. split; [exact Hs|]. intros x. rewrite (Hx x). split.
  - intros Hall l Hl. rewrite <- (cvals_one l). apply Hall. apply in_map. exact Hl.
  - intros Hall cs Hc. apply in_map_iff in Hc. destruct Hc as [l [E Hl]]. subst. rewrite cvals_one. apply Hall. exact Hl.
Qed.

Theorem fp_diff_spec : forall a b, ssortedb a = true -> ssortedb b = true ->
  ssortedb (fp_diff a b) = true /\ forall x, In x (fp_diff a b) <-> In x a /\ ~ In x b.
Proof.
  intros a b Ha Hb. unfold fp_diff.
  destruct (fp_diff_c_spec (one a) (one b) eq_refl eq_refl) as [r [Hr [Hs Hx]]];
    try (rewrite cvals_one; assumption).
  rewrite Hr. simpl. split; [exact Hs|]. intros x. rewrite (Hx x), !cvals_one. reflexivity.
Qed.

(* sortedness is needed: on unsorted input the union repeats a value, the intersection loses a
   common value, the difference keeps a value that should have been removed *)
Theorem fp_union_unsorted_refuted : exists ls,
  ~ (ssortedb (fp_union ls) = true) /\ ~ NoDup (fp_union ls).
Proof.
  exists [[2; 1]; [1]]. split.
  - vm_compute. discriminate.
  - vm_compute. intros H. inversion H as [|? ? Hn _]; subst. apply Hn. right. left. reflexivity.
Qed.

Theorem fp_inter_unsorted_refuted : exists ls x,
  (forall l, In l ls -> In x l) /\ ~ In x (fp_inter ls).
Proof.
  exists [[2; 1]; [1]], 1. split.
  - intros l [E|[E|[]]]; subst; simpl; auto.
  - vm_compute. intros [].
Qed.

Theorem fp_diff_unsorted_refuted : exists a b x, In x (fp_diff a b) /\ In x b.
Proof.
  exists [2; 1], [1], 1. split; vm_compute; auto.
Qed.

Example fp_union_ex : fp_union [[1; 4; 9]; [2; 4]; []; [9; 12]] = [1; 2; 4; 9; 12].
Proof. vm_compute. reflexivity. Qed.
Example fp_inter_ex : fp_inter [[1; 4; 9; 12]; [2; 4; 12]; [4; 5; 12; 13]] = [4; 12].
Proof. vm_compute. reflexivity. Qed.
Example fp_diff_ex : fp_diff [1; 4; 9; 12] [0; 4; 5; 12; 13] = [1; 9].
Proof. vm_compute. reflexivity. Qed.
(* chunk boundaries do not matter *)
Example fp_inter_chunked_ex :
  fp_inter_c [[Ch [1; 4] false; Ch [] false; Ch [9; 12] false]; [Ch [] false; Ch [2] false; Ch [4; 12] false]] = FPDone [4; 12].
Proof. vm_compute. reflexivity. Qed.
(* a failure aborts; only what was flushed before it has been seen *)
Example fp_union_fail_ex : fp_union_c [[Ch [1; 4] false; ChErr]; [Ch [2] false]] = FPFail [].
Proof. vm_compute. reflexivity. Qed.

(* ------------------------------------------------------------------------------------------ *)
(* 3. strategy irrelevance *)

Inductive strategy := SDefault | SWeight2 | SRecursive.
Definition strategy_eqb (a b : strategy) : bool :=
  match a, b with SDefault, SDefault | SWeight2, SWeight2 | SRecursive, SRecursive => true | _, _ => false end.

Section Irrelevance.
  Variable key : Type.

  (* the computation a Check performs, with the planner's decision points made explicit *)
  Inductive node :=
  | Leaf (b : bool)                               (* tuple lookups, fast-path results *)
  | Or (l : list node)                            (* union / the dispatches of the default strategy *)
  | And (l : list node)
  | ButNot (a b : node)
  | Reset (n : node)                              (* a dispatch that passes no selected strategy *)
  | Choice (k : key) (alts : list (strategy * node)).  (* eligible strategies of a plan key *)

  (* the strategy used at a decision point: the one inherited from the parent request if it is
     eligible here (SelectedStrategy), else the planner's choice; a planner can only return an
     eligible strategy (Select picks among the offered map) *)
  Definition wanted (sigma : key -> strategy) (sel : option strategy) (k : key) (names : list strategy) : strategy :=
    let planner := if existsb (strategy_eqb (sigma k)) names then sigma k else hd SDefault names in
    match sel with
    | Some s => if existsb (strategy_eqb s) names then s else planner
    | None => planner
    end.

  Fixpoint eval (sigma : key -> strategy) (sel : option strategy) (n : node) : bool :=
    match n with
    | Leaf b => b
    | Or l => existsb (eval sigma sel) l
    | And l => forallb (eval sigma sel) l
    | ButNot a b => eval sigma sel a && negb (eval sigma sel b)
    | Reset n' => eval sigma None n'
    | Choice k alts =>
        let w := wanted sigma sel k (map fst alts) in
        (fix go (l : list (strategy * node)) : bool :=
           match l with
           | [] => false
           | p :: r => if strategy_eqb (fst p) w then eval sigma (Some (fst p)) (snd p) else go r
           end) alts
    end.

  (* strategy-free denotation: a decision point means what its first alternative means *)
  Fixpoint den (n : node) : bool :=
    match n with
    | Leaf b => b
    | Or l => existsb den l
    | And l => forallb den l
    | ButNot a b => den a && negb (den b)
    | Reset n' => den n'
    | Choice _ alts => match alts with [] => false | p :: _ => den (snd p) end
    end.

  (* every decision point offers alternatives with the same denotation *)
  Fixpoint coherent (n : node) : bool :=
    match n with
    | Leaf _ => true
    | Or l | And l => forallb coherent l
    | ButNot a b => coherent a && coherent b
    | Reset n' => coherent n'
    | Choice _ alts =>
        match alts with
        | [] => true
        | p :: _ =>
            (fix all (l : list (strategy * node)) : bool :=
               match l with
               | [] => true
               | q :: r => Bool.eqb (den (snd q)) (den (snd p)) && coherent (snd q) && all r
               end) alts
        end
    end.

  Lemma wanted_in : forall sigma sel k names, names <> [] ->
    existsb (strategy_eqb (wanted sigma sel k names)) names = true.
  Proof.
    intros sigma sel k names Hne. unfold wanted.
    assert (Hp : existsb (strategy_eqb (if existsb (strategy_eqb (sigma k)) names then sigma k else hd SDefault names)) names = true).
    { destruct (existsb (strategy_eqb (sigma k)) names) eqn:E; [exact E|].
      destruct names as [|a r]; [contradiction|]. simpl. destruct a; reflexivity. }
    destruct sel as [s|]; [|exact Hp].
    destruct (existsb (strategy_eqb s) names) eqn:E; [exact E | exact Hp].
  Qed.

  Lemma eval_den : forall n, coherent n = true -> forall sigma sel, eval sigma sel n = den n.
  Proof.
    fix IH 1. intros n. destruct n as [b|l|l|a b|n'|k alts]; intros Hc sigma sel.
    - reflexivity.
    - simpl in *. induction l as [|x r IHl]; [reflexivity|].
      simpl in *. apply andb_true_iff in Hc. destruct Hc as [Hx Hr].
      rewrite (IH x Hx sigma sel), (IHl Hr). reflexivity.
    - simpl in *. induction l as [|x r IHl]; [reflexivity|].
      simpl in *. apply andb_true_iff in Hc. destruct Hc as [Hx Hr].
      rewrite (IH x Hx sigma sel), (IHl Hr). reflexivity.
    - simpl in *. apply andb_true_iff in Hc. destruct Hc as [Ha Hb].
      rewrite (IH a Ha sigma sel), (IH b Hb sigma sel). reflexivity.
    - simpl in *. apply (IH n' Hc sigma None).
    - destruct alts as [|p r0]; [reflexivity|].
      assert (Hw : existsb (strategy_eqb (wanted sigma sel k (map fst (p :: r0)))) (map fst (p :: r0)) = true).
      { apply wanted_in. discriminate. }
      cbn [eval den].
      set (w := wanted sigma sel k (map fst (p :: r0))) in *.
      cbn [coherent] in Hc.
      (* generalise over the suffix being scanned *)
      assert (Hgen : forall l,
        (fix all (l : list (strategy * node)) : bool :=
           match l with
           | [] => true
           | q :: r => Bool.eqb (den (snd q)) (den (snd p)) && coherent (snd q) && all r
           end) l = true ->
        existsb (strategy_eqb w) (map fst l) = true ->
        (fix go (l : list (strategy * node)) : bool :=
           match l with
           | [] => false
           | p0 :: r => if strategy_eqb (fst p0) w then eval sigma (Some (fst p0)) (snd p0) else go r
           end) l = den (snd p)).
      { induction l as [|q r IHl]; intros Hall Hex; [discriminate|].
        apply andb_true_iff in Hall. destruct Hall as [Hq Hr].
        apply andb_true_iff in Hq. destruct Hq as [Heq Hcq].
        destruct (strategy_eqb (fst q) w) eqn:Ew.
        - rewrite (IH (snd q) Hcq sigma (Some (fst q))). apply Bool.eqb_prop. exact Heq.
        - apply IHl; [exact Hr|]. simpl in Hex.
          assert (Esym : strategy_eqb w (fst q) = false) by (destruct w, (fst q); simpl in *; congruence).
          rewrite Esym in Hex. exact Hex. }
      exact (Hgen (p :: r0) Hc Hw).
  Qed.

  (* the planner's choices and the inherited selection do not influence the answer *)
  Theorem strategy_irrelevant : forall n, coherent n = true ->
    forall sigma1 sigma2 sel1 sel2, eval sigma1 sel1 n = eval sigma2 sel2 n.
  Proof.
    intros n Hc sigma1 sigma2 sel1 sel2. rewrite !(eval_den n Hc). reflexivity.
  Qed.
End Irrelevance.

Arguments Leaf {key}. Arguments Or {key}. Arguments And {key}. Arguments ButNot {key}.
Arguments Reset {key}. Arguments Choice {key}.

(* ---- the decision points of the code ---- *)

Lemma existsb_mem_intersects : forall L R,
  existsb (fun o => memN o L) R = intersects L R.
Proof.
  intros L R. apply eq_true_iff_eq. unfold intersects. rewrite !existsb_exists. split.
  - intros [o [Ho Hm]]. unfold memN in Hm. apply existsb_exists in Hm. destruct Hm as [y [Hy E]].
    apply N.eqb_eq in E. subst y. exists o. split; [exact Hy|]. unfold memN. apply existsb_exists.
    exists o. split; [exact Ho | apply N.eqb_refl].
  - intros [x [Hx Hm]]. unfold memN in Hm. apply existsb_exists in Hm. destruct Hm as [y [Hy E]].
    apply N.eqb_eq in E. subst y. exists x. split; [exact Hy|]. unfold memN. apply existsb_exists.
    exists x. split; [exact Hx | apply N.eqb_refl].
Qed.

Lemma existsb_map_leaf : forall key (f : N -> bool) R,
  existsb (den key) (map (fun o => Leaf (f o)) R) = existsb f R.
Proof. intros key f R. induction R as [|o r IH]; simpl; [reflexivity|]. rewrite IH. reflexivity. Qed.

Lemma forallb_coherent_leaf : forall key (f : N -> bool) R,
  forallb (coherent key) (map (fun o => Leaf (f o)) R) = true.
Proof. intros key f R. induction R as [|o r IH]; simpl; [reflexivity | exact IH]. Qed.

(* userset / TTU with a weight-2 operand (checkDirectUsersetTuples, checkTTU): the default strategy
   dispatches one sub-check per object of the right-hand side (here each sub-check is a leaf that
   answers "the user is related to that object", i.e. membership in the left-hand set), weight2
   intersects the two producers.  For every schedule of weight2 and failure-free producers the
   two alternatives mean the same. *)
Theorem weight2_choice_coherent : forall key (k : key) sched left right r,
  left_ok left = true -> right_ok right = true -> weight2 sched left right = Some r ->
  coherent key (Choice k [(SDefault, Or (map (fun o => Leaf (memN o (lvals left))) (rvals right)));
                          (SWeight2, Leaf (w_allowed r))]) = true.
Proof.
  intros key k sched left right r Hl Hr Hw.
  destruct (weight2_complete sched left right r Hl Hr Hw) as [_ Ha].
  cbn [coherent den snd]. rewrite existsb_map_leaf, forallb_coherent_leaf, existsb_mem_intersects, Ha.
  rewrite !Bool.eqb_reflx. reflexivity.
Qed.

(* recursive userset / TTU (recursive strategy eligible): `d` is the computation of the default
   strategy on the same sub-problem; if it decides reachability of a directly related object
   along the recursive edges (the reference semantics of the recursive relation), the two
   alternatives mean the same for every depth limit larger than the graph. *)
Theorem recursive_choice_coherent : forall key (k : key) (d : node key) edges direct maxdepth x,
  (length (nodes_of edges (x :: direct)) + 2 < maxdepth)%nat ->
  coherent key d = true ->
  (den key d = true <-> exists t n, In t direct /\ path (succ_of edges) x t n) ->
  coherent key (Choice k [(SDefault, d);
                          (SRecursive, Leaf (match rec_check edges direct maxdepth x with BTrue => true | _ => false end))]) = true.
Proof.
  intros key k d edges direct maxdepth x Hd Hcd Hden.
  pose proof (rec_check_true_iff edges direct maxdepth x Hd) as Hrc.
  cbn [coherent den snd]. rewrite Hcd, Bool.eqb_reflx. simpl.
  rewrite !andb_true_r.
  apply Bool.eqb_true_iff. apply eq_true_iff_eq. rewrite Hden, <- Hrc.
  destruct (rec_check edges direct maxdepth x); split; intros H; try reflexivity; try discriminate.
Qed.

(* a small plan: doc.viewer = [group#member] or viewer from parent; both decision points *)
Example strategy_irrelevant_ex :
  let n := Or [Choice 1%nat [(SDefault, Or [Leaf false; Leaf true]); (SWeight2, Leaf true)];
               Reset (Choice 2%nat [(SDefault, And [Leaf true; Leaf false]); (SRecursive, Leaf false)])] in
  coherent nat n = true /\
  eval nat (fun _ => SWeight2) None n = eval nat (fun _ => SRecursive) (Some SDefault) n.
Proof. vm_compute. split; reflexivity. Qed.

(* ------------------------------------------------------------------------------------------ *)
(* 4. the producer of the user side (V1FastPathSource): the objects it delivers are the objects
      with a passing tuple PROVIDED no object has two tuples in the read; with two tuples of one
      object (user and user:* ) the second is dropped before its condition is evaluated — the
      faithful model reproduces the defect (known finding fastpath_dedup_before_condition) *)
From OFGA Require Import Check.V1FastPathSource.

Lemma drop_eq_notin : forall o l, ~ In o (map fst l) -> drop_eq o l = l.
Proof.
  intros o l H. destruct l as [|t r]; [reflexivity|]. simpl.
  destruct (fst t =? o) eqn:E; [|reflexivity].
  apply N.eqb_eq in E. exfalso. apply H. left. exact E.
Qed.

Lemma drop_last_notin : forall last l, (forall o, last = Some o -> ~ In o (map fst l)) -> drop_last last l = l.
Proof. intros [o|] l H; [apply drop_eq_notin; apply H; reflexivity | reflexivity]. Qed.

Lemma ocomb_complete : forall fuel last l1 l2,
  (length l1 + length l2 < fuel)%nat -> NoDup (map fst (l1 ++ l2)) ->
  (forall o, last = Some o -> ~ In o (map fst (l1 ++ l2))) ->
  forall t, In t (ocomb fuel last l1 l2) <-> In t (l1 ++ l2).
Proof.
  induction fuel as [|f IH]; intros last l1 l2 Hf Hnd Hlast t; [lia|].
  cbn [ocomb].
  rewrite (drop_last_notin last l1), (drop_last_notin last l2).
  2:{ intros o Ho Hin. apply (Hlast o Ho). rewrite map_app. apply in_app_iff. right. exact Hin. }
  2:{ intros o Ho Hin. apply (Hlast o Ho). rewrite map_app. apply in_app_iff. left. exact Hin. }
  destruct l1 as [|t1 r1]; destruct l2 as [|t2 r2].
  - reflexivity.
  - simpl in Hnd. inversion Hnd as [|? ? Hn Hnd']; subst.
    simpl. rewrite (IH (Some (fst t2)) [] r2); [reflexivity | simpl in *; lia | exact Hnd' |].
    intros o Ho. injection Ho as Ho. subst o. exact Hn.
  - rewrite app_nil_r in *. simpl in Hnd. inversion Hnd as [|? ? Hn Hnd']; subst.
    simpl. rewrite (IH (Some (fst t1)) r1 []); [rewrite app_nil_r; reflexivity | simpl in *; lia | rewrite app_nil_r; exact Hnd' |].
    intros o Ho. injection Ho as Ho. subst o. rewrite app_nil_r. exact Hn.
  - destruct (fst t2 <? fst t1).
    + change ((t1 :: r1) ++ t2 :: r2) with ((t1 :: r1) ++ t2 :: r2) in *.
      rewrite map_app in Hnd. simpl map in Hnd.
      pose proof (NoDup_remove _ _ _ Hnd) as [Hnd' Hn].
      simpl In at 1. rewrite (IH (Some (fst t2)) (t1 :: r1) r2).
      * rewrite !in_app_iff. simpl. tauto.
      * simpl in *. lia.
      * rewrite map_app. exact Hnd'.
      * intros o Ho. injection Ho as Ho. subst o. rewrite map_app. exact Hn.
    + simpl in Hnd. inversion Hnd as [|? ? Hn Hnd']; subst.
      simpl In at 1. rewrite (IH (Some (fst t1)) r1 (t2 :: r2)).
      * simpl. tauto.
      * simpl in *. lia.
      * exact Hnd'.
      * intros o Ho. injection Ho as Ho. subst o. exact Hn.
Qed.

Lemma nodupb_NoDup : forall l, nodupb l = true -> NoDup l.
Proof.
  induction l as [|x r IH]; simpl; intros H; [constructor|].
  apply andb_true_iff in H. destruct H as [Hx Hr]. constructor; [|apply IH; exact Hr].
  intros Hin. apply negb_true_iff in Hx.
  assert (existsb (N.eqb x) r = true) by (apply existsb_exists; exists x; split; [exact Hin | apply N.eqb_refl]).
  congruence.
Qed.

Theorem source_partial : forall ctxt stored,
  nodupb (map fst (ctxt ++ stored)) = true ->
  forall o, In o (fst (source_impl ctxt stored)) <-> exists t, In t (ctxt ++ stored) /\ fst t = o /\ snd t = 0.
Proof.
  intros ctxt stored Hnd o. unfold source_impl, cond_objs. cbn [fst].
  rewrite in_map_iff. split.
  - intros [t [Ho Hin]]. apply filter_In in Hin. destruct Hin as [Hin Hp].
    apply (ocomb_complete (S (length ctxt + length stored)) None ctxt stored) in Hin; [|lia|apply nodupb_NoDup; exact Hnd|discriminate].
    exists t. split; [exact Hin|]. split; [exact Ho | apply N.eqb_eq; exact Hp].
  - intros [t [Hin [Ho Hp]]]. exists t. split; [exact Ho|]. apply filter_In. split.
    + apply (ocomb_complete (S (length ctxt + length stored)) None ctxt stored); [lia|apply nodupb_NoDup; exact Hnd|discriminate|exact Hin].
    + apply N.eqb_eq. exact Hp.
Qed.

(* full-strength statement (no hypothesis on repeated objects) is false for the code as it is *)
Theorem source_refuted : exists ctxt stored o,
  (exists t, In t (ctxt ++ stored) /\ fst t = o /\ snd t = 0) /\ ~ In o (fst (source_impl ctxt stored)).
Proof.
  exists [], [(7, 1); (7, 0)], 7. split.
  - exists (7, 0). split; [right; left; reflexivity | split; reflexivity].
  - vm_compute. intros [].
Qed.

(* consequence: on such a store the weight-2 strategy denies what the default strategy (which
   looks at the user's tuple and at the wildcard tuple separately) allows *)
Theorem weight2_source_refuted : exists stored right,
  (exists r, weight2 [] [LIter (map IVal (fst (source_impl [] stored)))] right = Some r /\ w_allowed r = false) /\
  (exists r, weight2 [] [LIter (map IVal (map fst (filter (fun t => snd t =? 0) stored)))] right = Some r /\ w_allowed r = true).
Proof.
  exists [(7, 1); (7, 0)], [RVal 7]. split; eexists; split; vm_compute; reflexivity.
Qed.

Example source_partial_ex : nodupb (map fst ([(1, 0)] ++ [(2, 1); (3, 0); (5, 2)])) = true /\
  source_impl [(1, 0)] [(2, 1); (3, 0); (5, 2)] = ([1; 3], false).
Proof. vm_compute. split; reflexivity. Qed.

(* Head/Next over a condition-filtered stream: an unevaluable element is reported as an error at the
   end iff no element was valid *)
Theorem cond_objs_error_iff : forall l,
  snd (cond_objs l) = true <->
  (forall t, In t l -> snd t <> 0) /\ (exists t, In t l /\ snd t = 2).
Proof.
  intros l.
  assert (Hp : map fst (filter (fun t : stup => snd t =? 0) l) = [] <-> forall t, In t l -> snd t <> 0).
  { induction l as [|a r IH]; simpl.
    - split; [intros _ t [] | reflexivity].
    - destruct (snd a =? 0) eqn:E; simpl.
      + split; [discriminate|]. intros H. exfalso. apply (H a); [left; reflexivity | apply N.eqb_eq; exact E].
      + rewrite IH. apply N.eqb_neq in E. split.
        * intros H t [Ht|Ht]; [subst; exact E | apply H; exact Ht].
        * intros H t Ht. apply H. right. exact Ht. }
  assert (He : existsb (fun t : stup => snd t =? 2) l = true <-> exists t, In t l /\ snd t = 2).
  { rewrite existsb_exists. split; intros [t [Ht E]]; exists t; (split; [exact Ht | apply N.eqb_eq; exact E]). }
  assert (Hs : snd (cond_objs l) = match map fst (filter (fun t : stup => snd t =? 0) l) with
                                   | [] => existsb (fun t : stup => snd t =? 2) l | _ => false end) by reflexivity.
  rewrite Hs. clear Hs.
  destruct (map fst (filter (fun t : stup => snd t =? 0) l)) as [|x xs].
  - rewrite He. split.
    + intros H. split; [apply Hp; reflexivity | exact H].
    + intros [_ H]. exact H.
  - split; [discriminate|]. intros [H _]. apply Hp in H. discriminate.
Qed.

Example cond_chunk_ex : cond_chunk [(4, 1); (5, 2)] = Ch [] true /\ cond_chunk [(4, 1); (5, 2); (6, 0)] = Ch [6] false /\
  cond_chunk [(4, 1)] = Ch [] false.
Proof. vm_compute. repeat split. Qed.
