(* C20 — termination of the Check algorithm model (Check/V1.v) by its VISITED-SET guard, with an
   explicit bound, plus the reusable argument behind every "visited" guard of the query engines.

   1. VisitedGuard: any recursion of the shape
          f visited x = if x ∈ visited then stop else combine (map (f (x :: visited)) (next x))
      over a finite universe closed under `next` needs at most |universe \ visited| + 1 units of
      fuel, nests at most |universe \ visited| calls, and its result does not depend on the fuel
      once the fuel is sufficient.  This is hasCycle / VisitedPaths of internal/graph/check.go and
      enteredCycle of pkg/server/commands/listusers/list_users_rpc.go.
   2. One resolution step of the Check model (check_step) calls its recursion only
        - on the sub-problems listed by `dispatched` (userset / tuple-to-userset dispatches, depth
          + 1) and `computed_of` (computed usersets, same depth),
        - with the visited path extended by the current atom,
        - at a depth <= maxdepth                                   (check_depth_bound).
   3. check_terminates: in a universe of atoms closed under sub-problems (universe_closed, a
      boolean), `check fuel depth visited o r` never contains AFuel when
      fuel > |atoms not yet visited|; check_fuel_irrelevant: with sufficient fuel the outcome is
      the same for every fuel.  The depth-based bound (check_no_fuel) is in Check/V1Proofs.v.

   Check/V1.v is not modified; the evaluator of one call is the named copy eval_with of
   Check/V1Proofs.v (check_unfold). *)
From Coq Require Import List Bool Arith NArith Lia.
From OFGA Require Import Sem.B3 Sem.Vocab Sem.Valid Sem.Semantics Sem.SemProofs Check.V1 Check.V1Proofs.
Import ListNotations.
Open Scope N_scope.

(* ================================================================== *)
(* 1. the generic visited-set guard                                    *)
(* ================================================================== *)

Section VisitedGuard.
  Variable A : Type.
  Variable eqb : A -> A -> bool.
  Hypothesis eqb_spec : forall x y, eqb x y = true <-> x = y.
  Variable next : A -> list A.            (* the sub-problems of a node *)

  Definition vmem (x : A) (l : list A) : bool := existsb (eqb x) l.

  (* the measure: elements of the universe that are not on the visited path *)
  Definition unvisited (U visited : list A) : nat :=
    length (filter (fun a => negb (vmem a visited)) U).

  (* the universe is closed under `next` *)
  Definition closedb (U : list A) : bool :=
    forallb (fun x => forallb (fun y => vmem y U) (next x)) U.

  Lemma vmem_In : forall x l, vmem x l = true <-> In x l.
  Proof.
    intros x l. unfold vmem. rewrite existsb_exists. split.
    - intros [y [Hy He]]. apply eqb_spec in He. subst y. exact Hy.
    - intro H. exists x. split; [exact H | apply eqb_spec; reflexivity].
  Qed.

  Lemma closedb_next : forall U x y,
    closedb U = true -> vmem x U = true -> In y (next x) -> vmem y U = true.
  Proof.
    intros U x y Hc Hx Hy. unfold closedb in Hc. rewrite forallb_forall in Hc.
    apply vmem_In in Hx. specialize (Hc x Hx). rewrite forallb_forall in Hc. exact (Hc y Hy).
  Qed.

  Lemma unvisited_le : forall U visited, (unvisited U visited <= length U)%nat.
  Proof. intros U visited. unfold unvisited. apply filter_length_le_gen. Qed.

  Lemma unvisited_nil : forall U, unvisited U [] = length U.
  Proof.
    intro U. unfold unvisited. induction U as [|a U IH]; simpl; [reflexivity | f_equal; exact IH].
  Qed.

  (* entering a node of the universe that is not on the path strictly decreases the measure *)
  Lemma unvisited_enter : forall U visited x,
    vmem x U = true -> vmem x visited = false ->
    (unvisited U (x :: visited) < unvisited U visited)%nat.
  Proof.
    intros U visited x Hu Hv. unfold unvisited. apply filter_length_lt with (a := x).
    - intros a Ha. simpl in Ha. apply negb_true_iff in Ha. apply orb_false_iff in Ha.
      destruct Ha as [_ Ha]. rewrite Ha. reflexivity.
    - apply vmem_In. exact Hu.
    - simpl. assert (He : eqb x x = true) by (apply eqb_spec; reflexivity). rewrite He. reflexivity.
    - rewrite Hv. reflexivity.
  Qed.

  Variable R : Type.
  Variable on_cycle : A -> R.             (* the answer when the guard cuts *)
  Variable combine : A -> list R -> R.    (* the answer from the sub-problems' answers *)

  Fixpoint all_some (l : list (option R)) : option (list R) :=
    match l with
    | [] => Some []
    | None :: _ => None
    | Some x :: l' => match all_some l' with Some xs => Some (x :: xs) | None => None end
    end.

  (* None = out of fuel *)
  Fixpoint guarded (fuel : nat) (visited : list A) (x : A) : option R :=
    match fuel with
    | O => None
    | S f =>
        if vmem x visited then Some (on_cycle x)
        else match all_some (map (guarded f (x :: visited)) (next x)) with
             | Some rs => Some (combine x rs)
             | None => None
             end
    end.

  Lemma all_some_map_some : forall (B : Type) (g : B -> option R) l,
    (forall y, In y l -> g y <> None) -> all_some (map g l) <> None.
  Proof.
    intros B g l. induction l as [|y l IH]; simpl; intro H; [discriminate|].
    destruct (g y) as [v|] eqn:Hg; [|exfalso; apply (H y); [left; reflexivity | exact Hg]].
    destruct (all_some (map g l)) as [vs|] eqn:Ha; [discriminate|].
    exfalso. apply IH; [|reflexivity]. intros z Hz. apply H. right. exact Hz.
  Qed.

  Lemma all_some_map_ext : forall (B : Type) (g h : B -> option R) l,
    (forall y, In y l -> g y = h y) -> all_some (map g l) = all_some (map h l).
  Proof.
    intros B g h l. induction l as [|y l IH]; simpl; intro H; [reflexivity|].
    rewrite (H y (or_introl eq_refl)). rewrite IH; [reflexivity|].
    intros z Hz. apply H. right. exact Hz.
  Qed.

  (* the guard terminates: fuel > |U \ visited| is enough *)
  Theorem visited_guard_terminates_gen : forall U, closedb U = true ->
    forall fuel visited x, vmem x U = true -> (unvisited U visited < fuel)%nat ->
    guarded fuel visited x <> None.
  Proof.
    intros U Hc. induction fuel as [|f IH]; intros visited x Hx Hf; [lia|].
    simpl. destruct (vmem x visited) eqn:Hv; [discriminate|].
    pose proof (unvisited_enter U visited x Hx Hv) as Hlt.
    assert (Hall : all_some (map (guarded f (x :: visited)) (next x)) <> None).
    { apply all_some_map_some. intros y Hy. apply IH; [|lia].
      exact (closedb_next U x y Hc Hx Hy). }
    destruct (all_some (map (guarded f (x :: visited)) (next x))); [discriminate | contradiction].
  Qed.

  Theorem visited_guard_terminates : forall U x,
    closedb U = true -> vmem x U = true -> guarded (S (length U)) [] x <> None.
  Proof.
    intros U x Hc Hx. apply visited_guard_terminates_gen with (U := U); [exact Hc | exact Hx|].
    rewrite unvisited_nil. lia.
  Qed.

  (* sufficient fuel is irrelevant fuel *)
  Theorem visited_guard_fuel_irrelevant : forall U, closedb U = true ->
    forall f1 f2 visited x, vmem x U = true ->
    (unvisited U visited < f1)%nat -> (unvisited U visited < f2)%nat ->
    guarded f1 visited x = guarded f2 visited x.
  Proof.
    intros U Hc. induction f1 as [|f1 IH]; intros f2 visited x Hx H1 H2; [lia|].
    destruct f2 as [|f2]; [lia|]. simpl.
    destruct (vmem x visited) eqn:Hv; [reflexivity|].
    pose proof (unvisited_enter U visited x Hx Hv) as Hlt.
    rewrite (all_some_map_ext _ (guarded f1 (x :: visited)) (guarded f2 (x :: visited))); [reflexivity|].
    intros y Hy. apply IH; [exact (closedb_next U x y Hc Hx Hy) | lia | lia].
  Qed.
End VisitedGuard.

(* the number of NESTED calls: the instance that counts them *)
Section Nesting.
  Variable A : Type.
  Variable eqb : A -> A -> bool.
  Hypothesis eqb_spec : forall x y, eqb x y = true <-> x = y.
  Variable next : A -> list A.

  Definition nesting : nat -> list A -> A -> option nat :=
    guarded A eqb next nat (fun _ => O) (fun _ ds => S (list_max ds)).

  Lemma all_some_bound : forall (g : A -> option nat) (b : nat) l ds,
    (forall y d, In y l -> g y = Some d -> (d <= b)%nat) ->
    all_some nat (map g l) = Some ds -> (list_max ds <= b)%nat.
  Proof.
    intros g b l. induction l as [|y l IH]; simpl; intros ds H Hs.
    - inversion Hs. simpl. lia.
    - destruct (g y) as [d|] eqn:Hg; [|discriminate Hs].
      destruct (all_some nat (map g l)) as [ds'|] eqn:Ha; [|discriminate Hs].
      inversion Hs; subst ds. simpl.
      assert (Hd : (d <= b)%nat) by (apply (H y d); [left; reflexivity | exact Hg]).
      assert (Hds : (list_max ds' <= b)%nat).
      { apply IH; [|reflexivity]. intros z dz Hz Hgz. apply (H z dz); [right; exact Hz | exact Hgz]. }
      lia.
  Qed.

  (* at most |U \ visited| nested calls below the current one, whatever the fuel *)
  Theorem visited_guard_nesting_gen : forall U, closedb A eqb next U = true ->
    forall fuel visited x n, vmem A eqb x U = true ->
    nesting fuel visited x = Some n -> (n <= unvisited A eqb U visited)%nat.
  Proof.
    intros U Hc. induction fuel as [|f IH]; intros visited x n Hx Hn; [discriminate Hn|].
    unfold nesting in *. simpl in Hn.
    destruct (vmem A eqb x visited) eqn:Hv.
    { inversion Hn. lia. }
    pose proof (unvisited_enter A eqb eqb_spec U visited x Hx Hv) as Hlt.
    destruct (all_some nat (map (guarded A eqb next nat (fun _ => O) (fun _ ds => S (list_max ds)) f (x :: visited)) (next x)))
      as [ds|] eqn:Ha; [|discriminate Hn].
    inversion Hn; subst n.
    assert (Hb : (list_max ds <= unvisited A eqb U (x :: visited))%nat).
    { eapply all_some_bound; [|exact Ha]. intros y d Hy Hg.
      apply (IH (x :: visited) y d); [|exact Hg].
      exact (closedb_next A eqb eqb_spec next U x y Hc Hx Hy). }
    lia.
  Qed.

  Theorem visited_guard_nesting : forall U x fuel n,
    closedb A eqb next U = true -> vmem A eqb x U = true ->
    nesting fuel [] x = Some n -> (n <= length U)%nat.
  Proof.
    intros U x fuel n Hc Hx Hn.
    pose proof (visited_guard_nesting_gen U Hc fuel [] x n Hx Hn) as H.
    rewrite unvisited_nil in H. exact H.
  Qed.
End Nesting.

(* ================================================================== *)
(* 2. the recursive calls of one resolution step                       *)
(* ================================================================== *)

Lemma union_all_ext : forall hs hs',
  Forall2 (fun h h' : unit -> res => h tt = h' tt) hs hs' -> union_all hs = union_all hs'.
Proof.
  intros hs hs' H. induction H as [|h h' hs hs' Hh Hrest IH]; simpl; [reflexivity|].
  rewrite Hh, IH. reflexivity.
Qed.

Lemma inter_all_ext : forall hs hs',
  Forall2 (fun h h' : unit -> res => h tt = h' tt) hs hs' -> inter_all hs = inter_all hs'.
Proof.
  intros hs hs' H. induction H as [|h h' hs hs' Hh Hrest IH]; simpl; [reflexivity|].
  rewrite Hh, IH. reflexivity.
Qed.

Lemma Forall2_same : forall (B : Type) (P : B -> B -> Prop) l, (forall x, P x x) -> Forall2 P l l.
Proof. intros B P l H. induction l as [|x l IH]; constructor; auto. Qed.

Lemma Forall2_flat_map : forall (B C : Type) (P : C -> C -> Prop) (g h : B -> list C) l,
  (forall x, In x l -> Forall2 P (g x) (h x)) -> Forall2 P (flat_map g l) (flat_map h l).
Proof.
  intros B C P g h l. induction l as [|x l IH]; simpl; intro H; [constructor|].
  apply Forall2_app; [apply H; left; reflexivity | apply IH; intros y Hy; apply H; right; exact Hy].
Qed.

Lemma Forall2_map : forall (B C : Type) (P : C -> C -> Prop) (g h : B -> C) l,
  (forall x, In x l -> P (g x) (h x)) -> Forall2 P (map g l) (map h l).
Proof.
  intros B C P g h l. induction l as [|x l IH]; simpl; intro H; constructor.
  - apply H. left. reflexivity.
  - apply IH. intros y Hy. apply H. right. exact Hy.
Qed.

Section CheckTermination.
  Variable m : model.
  Variable conds : list cid.
  Variable store : list tuple.
  Variable subj : subject.
  Variable pathx : list (tid * rid).
  Variable maxdepth : nat.

  Local Notation chk := (check m conds store subj pathx maxdepth).

  Definition amem (a : atom) (l : list atom) : bool := existsb (atom_eqb a) l.

  (* the sub-problems dispatched by the direct-userset handler of (o, r) *)
  Definition this_subs (rd : reldef) (o : obj) (r : rid) : list atom :=
    let rs := rd_restr rd in
    if has_userset_restr rs then
      flat_map (fun t => match t_sub t with SSet o' r' => [(o', r')] | _ => [] end)
               (passing (filter (fun t => valid m conds t && in_userset_restr rs (t_sub t)) (raw_of store o r)))
    else [].

  (* the sub-problems dispatched by a tuple-to-userset of (o, tupleset ts, computed c) *)
  Definition ttu_subs (o : obj) (ts c : rid) : list atom :=
    flat_map (fun t => match t_sub t with
                       | SObj o' => if rel_defined m (otype o') c then [(o', c)] else []
                       | _ => []
                       end)
             (passing (filter (valid m conds) (raw_of store o ts))).

  Fixpoint disp_subs (rd : reldef) (o : obj) (r : rid) (rw : rewrite) : list atom :=
    match rw with
    | This => this_subs rd o r
    | Computed _ => []
    | TTU ts c => ttu_subs o ts c
    | Union l | Inter l =>
        (fix go (l : list rewrite) : list atom :=
           match l with [] => [] | x :: l' => disp_subs rd o r x ++ go l' end) l
    | Diff b s => disp_subs rd o r b ++ disp_subs rd o r s
    end.

  Fixpoint comp_subs (rw : rewrite) : list rid :=
    match rw with
    | This | TTU _ _ => []
    | Computed r' => [r']
    | Union l | Inter l =>
        (fix go (l : list rewrite) : list rid :=
           match l with [] => [] | x :: l' => comp_subs x ++ go l' end) l
    | Diff b s => comp_subs b ++ comp_subs s
    end.

  Lemma disp_subs_Union : forall rd o r l, disp_subs rd o r (Union l) = flat_map (disp_subs rd o r) l.
  Proof. intros rd o r l. simpl. induction l as [|x l IH]; simpl; [reflexivity | rewrite IH; reflexivity]. Qed.
  Lemma disp_subs_Inter : forall rd o r l, disp_subs rd o r (Inter l) = flat_map (disp_subs rd o r) l.
  Proof. intros rd o r l. simpl. induction l as [|x l IH]; simpl; [reflexivity | rewrite IH; reflexivity]. Qed.
  Lemma comp_subs_Union : forall l, comp_subs (Union l) = flat_map comp_subs l.
  Proof. intro l. simpl. induction l as [|x l IH]; simpl; [reflexivity | rewrite IH; reflexivity]. Qed.
  Lemma comp_subs_Inter : forall l, comp_subs (Inter l) = flat_map comp_subs l.
  Proof. intro l. simpl. induction l as [|x l IH]; simpl; [reflexivity | rewrite IH; reflexivity]. Qed.

  Section OneCallExt.
    Variable rd : reldef.
    Variable o : obj.
    Variable r : rid.
    Variables d1 d2 : obj -> rid -> unit -> res.
    Variables c1 c2 : rid -> res.

    Lemma this_ext :
      (forall o' r', In (o', r') (this_subs rd o r) -> d1 o' r' tt = d2 o' r' tt) ->
      union_all (this_handlers m conds store subj rd o r d1) =
      union_all (this_handlers m conds store subj rd o r d2).
    Proof.
      intro H. apply union_all_ext. unfold this_handlers.
      apply Forall2_app; [apply Forall2_same; reflexivity|].
      apply Forall2_app; [apply Forall2_same; reflexivity|].
      unfold this_subs in H.
      destruct (has_userset_restr (rd_restr rd)); [|constructor].
      constructor; [|constructor]. unfold userset_handler.
      match goal with |- context [passing ?X] => set (ts := X) in * end.
      destruct (passing ts) as [|t0 ps] eqn:Hp; [reflexivity|].
      rewrite (union_all_ext
                 (flat_map (fun t => match t_sub t with SSet o' r' => [d1 o' r'] | _ => [] end) (t0 :: ps))
                 (flat_map (fun t => match t_sub t with SSet o' r' => [d2 o' r'] | _ => [] end) (t0 :: ps)));
        [reflexivity|].
      apply Forall2_flat_map. intros t Ht.
      destruct (t_sub t) as [x|x|o' r'] eqn:Hs; try constructor; [|constructor].
      apply H. apply in_flat_map. exists t. split; [exact Ht|]. rewrite Hs. left. reflexivity.
    Qed.

    Lemma ttu_ext : forall ts c,
      (forall o' r', In (o', r') (ttu_subs o ts c) -> d1 o' r' tt = d2 o' r' tt) ->
      ttu_eval m conds store o ts c d1 = ttu_eval m conds store o ts c d2.
    Proof.
      intros ts c H. unfold ttu_eval. unfold ttu_subs in H.
      match goal with |- context [passing ?X] => set (tl := X) in * end.
      destruct (passing tl) as [|t0 ps] eqn:Hp; [reflexivity|].
      rewrite (union_all_ext
                 (flat_map (fun t => match t_sub t with
                                     | SObj o' => if rel_defined m (otype o') c then [d1 o' c] else []
                                     | _ => [] end) (t0 :: ps))
                 (flat_map (fun t => match t_sub t with
                                     | SObj o' => if rel_defined m (otype o') c then [d2 o' c] else []
                                     | _ => [] end) (t0 :: ps)));
        [reflexivity|].
      apply Forall2_flat_map. intros t Ht.
      destruct (t_sub t) as [o'|x|x r'] eqn:Hs; try constructor.
      destruct (rel_defined m (otype o') c) eqn:Hd; [|constructor].
      constructor; [|constructor].
      apply H. apply in_flat_map. exists t. split; [exact Ht|]. rewrite Hs, Hd. left. reflexivity.
    Qed.

    (* the evaluator of one call consults its recursion only on the listed sub-problems *)
    Lemma eval_with_ext : forall rw,
      (forall o' r', In (o', r') (disp_subs rd o r rw) -> d1 o' r' tt = d2 o' r' tt) ->
      (forall r', In r' (comp_subs rw) -> c1 r' = c2 r') ->
      eval_with m conds store subj rd o r d1 c1 rw = eval_with m conds store subj rd o r d2 c2 rw.
    Proof.
      intro rw. induction rw as [|r'|ts c|l IH|l IH|b s IHb IHs] using rewrite_ind'; intros Hd Hc.
      - cbn [eval_with]. apply this_ext. exact Hd.
      - cbn [eval_with]. apply Hc. left. reflexivity.
      - cbn [eval_with]. apply ttu_ext. exact Hd.
      - cbn [eval_with]. apply union_all_ext. apply Forall2_map. intros x Hx.
        rewrite Forall_forall in IH. apply (IH x Hx).
        + intros o' r' Hin. apply Hd. rewrite disp_subs_Union. apply in_flat_map. exists x; auto.
        + intros r' Hin. apply Hc. rewrite comp_subs_Union. apply in_flat_map. exists x; auto.
      - cbn [eval_with]. apply inter_all_ext. apply Forall2_map. intros x Hx.
        rewrite Forall_forall in IH. apply (IH x Hx).
        + intros o' r' Hin. apply Hd. rewrite disp_subs_Inter. apply in_flat_map. exists x; auto.
        + intros r' Hin. apply Hc. rewrite comp_subs_Inter. apply in_flat_map. exists x; auto.
      - cbn [eval_with]. rewrite IHb, IHs; [reflexivity | | | |].
        + intros o' r' Hin. apply Hd. simpl. apply in_or_app. right. exact Hin.
        + intros r' Hin. apply Hc. simpl. apply in_or_app. right. exact Hin.
        + intros o' r' Hin. apply Hd. simpl. apply in_or_app. left. exact Hin.
        + intros r' Hin. apply Hc. simpl. apply in_or_app. left. exact Hin.
    Qed.
  End OneCallExt.

  (* sub-problems of the atom (o, r): dispatched ones run one level deeper, computed ones at the
     same depth *)
  Definition dispatched (o : obj) (r : rid) : list atom :=
    match get_relation m (otype o) r with
    | Some rd => disp_subs rd o r (rd_rw rd)
    | None => []
    end.
  Definition computed_of (o : obj) (r : rid) : list atom :=
    match get_relation m (otype o) r with
    | Some rd => map (fun r' => (o, r')) (comp_subs (rd_rw rd))
    | None => []
    end.
  Definition subproblems (a : atom) : list atom :=
    dispatched (fst a) (snd a) ++ computed_of (fst a) (snd a).

  (* one resolution step over an arbitrary recursion *)
  Definition check_step (rec : nat -> list atom -> obj -> rid -> res)
             (depth : nat) (visited : list atom) (o : obj) (r : rid) : res :=
    if Nat.eqb depth maxdepth then ([AEd], notrig)
    else if existsb (atom_eqb (o, r)) visited then ([AFc], notrig)
    else if subject_eqb subj (SSet o r) then ([AT], notrig)
    else match get_relation m (otype o) r with
         | None => ([AEo], notrig)
         | Some rd =>
             if negb (path_exists pathx (otype o) r) then ([AFn], notrig)
             else eval_with m conds store subj rd o r
                    (fun o' r' _ => rec (S depth) ((o, r) :: visited) o' r')
                    (fun r' => rec depth ((o, r) :: visited) o r')
                    (rd_rw rd)
         end.

  Lemma check_S : forall f depth visited o r,
    chk (S f) depth visited o r = check_step (chk f) depth visited o r.
  Proof. intros. apply check_unfold. Qed.

  (* Every recursive call of a step started at depth <= maxdepth has
       depth' <= maxdepth, visited' = (o, r) :: visited, and a target among the sub-problems:
     two recursions that agree on those calls give the same step. *)
  Theorem check_depth_bound : forall rec1 rec2 depth visited o r,
    (depth <= maxdepth)%nat ->
    (forall d a, (d <= maxdepth)%nat ->
                 (d = S depth /\ In a (dispatched o r)) \/ (d = depth /\ In a (computed_of o r)) ->
                 rec1 d ((o, r) :: visited) (fst a) (snd a) = rec2 d ((o, r) :: visited) (fst a) (snd a)) ->
    check_step rec1 depth visited o r = check_step rec2 depth visited o r.
  Proof.
    intros rec1 rec2 depth visited o r Hd H. unfold check_step.
    destruct (Nat.eqb depth maxdepth) eqn:Hdm; [reflexivity|]. apply Nat.eqb_neq in Hdm.
    destruct (existsb (atom_eqb (o, r)) visited); [reflexivity|].
    destruct (subject_eqb subj (SSet o r)); [reflexivity|].
    unfold dispatched, computed_of in H.
    destruct (get_relation m (otype o) r) as [rd|]; [|reflexivity].
    destruct (negb (path_exists pathx (otype o) r)); [reflexivity|].
    apply eval_with_ext.
    - intros o' r' Hin. apply (H (S depth) (o', r')); [lia|]. left. split; [reflexivity | exact Hin].
    - intros r' Hin. apply (H depth (o, r')); [exact Hd|]. right. split; [reflexivity|].
      apply in_map_iff. exists r'. split; [reflexivity | exact Hin].
  Qed.

  (* the depth argument of the real recursion therefore stays within the limit *)
  Corollary check_depth_bound_fuel : forall f1 f2 depth visited o r,
    (depth <= maxdepth)%nat ->
    (forall d a, (d <= maxdepth)%nat -> In a (subproblems (o, r)) ->
                 chk f1 d ((o, r) :: visited) (fst a) (snd a) = chk f2 d ((o, r) :: visited) (fst a) (snd a)) ->
    chk (S f1) depth visited o r = chk (S f2) depth visited o r.
  Proof.
    intros f1 f2 depth visited o r Hd H. rewrite !check_S. apply check_depth_bound; [exact Hd|].
    intros d a Hdm Hc. apply H; [exact Hdm|]. unfold subproblems. simpl. apply in_or_app.
    destruct Hc as [[_ Hc]|[_ Hc]]; [left | right]; exact Hc.
  Qed.

  (* The call tree of a request, as a relation: a call (depth, visited, o, r) that passes the depth
     test and the cycle test has the sub-calls listed by check_depth_bound.  Along every path of
     that tree: the depth stays <= maxdepth, never exceeds the length of the visited path, and
     the visited path has no repetition (so its length — the nesting — is bounded by the number
     of atoms of any universe that contains it). *)
  Definition callsig := (nat * list atom * atom)%type.

  Inductive subcall : callsig -> callsig -> Prop :=
  | sc_dispatch : forall d v o r a,
      d <> maxdepth -> existsb (atom_eqb (o, r)) v = false -> In a (dispatched o r) ->
      subcall (d, v, (o, r)) (S d, (o, r) :: v, a)
  | sc_computed : forall d v o r a,
      d <> maxdepth -> existsb (atom_eqb (o, r)) v = false -> In a (computed_of o r) ->
      subcall (d, v, (o, r)) (d, (o, r) :: v, a).

  Inductive reachable (c0 : callsig) : callsig -> Prop :=
  | reach_refl : reachable c0 c0
  | reach_step : forall c c', reachable c0 c -> subcall c c' -> reachable c0 c'.

  Theorem reachable_call_invariant : forall o r c,
    reachable (O, [], (o, r)) c ->
    (fst (fst c) <= maxdepth)%nat /\
    (fst (fst c) <= length (snd (fst c)))%nat /\
    NoDup (snd (fst c)).
  Proof.
    intros o r c H. induction H as [|c c' Hr IH Hs].
    - simpl. repeat split; [lia | lia | constructor].
    - destruct IH as [H1 [H2 H3]].
      assert (Hnd : forall v a, existsb (atom_eqb a) v = false -> NoDup v -> NoDup (a :: v)).
      { intros v a Hv Hn. constructor; [|exact Hn]. intro Hin.
        apply existsb_atom_In in Hin. rewrite Hin in Hv. discriminate Hv. }
      inversion Hs as [d v o' r' a Hd Hv Ha|d v o' r' a Hd Hv Ha]; subst; simpl in *.
      + repeat split; [lia | lia | apply Hnd; assumption].
      + repeat split; [exact H1 | lia | apply Hnd; assumption].
  Qed.

  (* in a closed universe the visited path of every reachable call stays inside the universe:
     at most |U| nested calls *)
  Theorem reachable_nesting_bound : forall U o r c,
    closedb atom atom_eqb subproblems U = true -> existsb (atom_eqb (o, r)) U = true ->
    reachable (O, [], (o, r)) c ->
    incl (snd c :: snd (fst c)) U /\ (length (snd (fst c)) <= length U)%nat.
  Proof.
    intros U o r c Hc Hx H.
    assert (Hin : incl (snd c :: snd (fst c)) U).
    { induction H as [|c c' Hr IH Hs].
      - simpl. intros a [Ha|[]]. subst a. apply existsb_atom_In. exact Hx.
      - assert (Hcur : vmem atom atom_eqb (snd c) U = true).
        { apply existsb_atom_In. apply IH. left. reflexivity. }
        inversion Hs as [d v o' r' a Hd Hv Ha|d v o' r' a Hd Hv Ha]; subst; simpl in *.
        + intros b [Hb|Hb].
          * subst b. apply existsb_atom_In.
            apply (closedb_next atom atom_eqb atom_eqb_eq subproblems U (o', r') a Hc Hcur).
            unfold subproblems. simpl. apply in_or_app. left. exact Ha.
          * apply IH. exact Hb.
        + intros b [Hb|Hb].
          * subst b. apply existsb_atom_In.
            apply (closedb_next atom atom_eqb atom_eqb_eq subproblems U (o', r') a Hc Hcur).
            unfold subproblems. simpl. apply in_or_app. right. exact Ha.
          * apply IH. exact Hb. }
    split; [exact Hin|].
    destruct (reachable_call_invariant o r c H) as [_ [_ Hnd]].
    apply NoDup_incl_length; [exact Hnd|]. intros a Ha. apply Hin. right. exact Ha.
  Qed.

  (* ================================================================== *)
  (* 3. termination by the visited-set measure                          *)
  (* ================================================================== *)

  (* every sub-problem of an atom of the universe is an atom of the universe *)
  Definition universe_closed (U : list atom) : bool :=
    closedb atom atom_eqb subproblems U.

  Definition unvisited_atoms (U visited : list atom) : nat := unvisited atom atom_eqb U visited.

  Lemma amem_vmem : forall a l, amem a l = vmem atom atom_eqb a l.
  Proof. reflexivity. Qed.

  Lemma closed_sub : forall U o r a,
    universe_closed U = true -> amem (o, r) U = true -> In a (subproblems (o, r)) -> amem a U = true.
  Proof.
    intros U o r a Hc Hx Ha. exact (closedb_next atom atom_eqb atom_eqb_eq subproblems U (o, r) a Hc Hx Ha).
  Qed.

  Theorem check_terminates : forall U, universe_closed U = true ->
    forall fuel depth visited o r,
      amem (o, r) U = true -> (unvisited_atoms U visited < fuel)%nat ->
      ~ In AFuel (fst (chk fuel depth visited o r)).
  Proof.
    intros U Hc. unfold unvisited_atoms.
    induction fuel as [|f IH]; intros depth visited o r Hx Hf; [lia|].
    rewrite check_S. unfold check_step.
    destruct (Nat.eqb depth maxdepth); [simpl; intros [H|[]]; discriminate H|].
    destruct (existsb (atom_eqb (o, r)) visited) eqn:Hvis; [simpl; intros [H|[]]; discriminate H|].
    destruct (subject_eqb subj (SSet o r)); [simpl; intros [H|[]]; discriminate H|].
    destruct (get_relation m (otype o) r) as [rd|] eqn:Hr; [|simpl; intros [H|[]]; discriminate H].
    destruct (negb (path_exists pathx (otype o) r)); [simpl; intros [H|[]]; discriminate H|].
    pose proof (unvisited_enter atom atom_eqb atom_eqb_eq U visited (o, r) Hx Hvis) as Hlt.
    (* replace the recursion outside the sub-problems by a constant: same value, no AFuel anywhere *)
    set (dsub := disp_subs rd o r (rd_rw rd)).
    set (csub := comp_subs (rd_rw rd)).
    rewrite (eval_with_ext rd o r
               (fun o' r' _ => chk f (S depth) ((o, r) :: visited) o' r')
               (fun o' r' _ => if amem (o', r') dsub then chk f (S depth) ((o, r) :: visited) o' r'
                               else ([AFn], notrig))
               (fun r' => chk f depth ((o, r) :: visited) o r')
               (fun r' => if existsb (N.eqb r') csub then chk f depth ((o, r) :: visited) o r'
                          else ([AFn], notrig))).
    - apply eval_with_no_fuel.
      + intros o' r'. destruct (amem (o', r') dsub) eqn:Hm; [|simpl; intros [H|[]]; discriminate H].
        apply IH; [|exact (Nat.lt_le_trans _ _ _ Hlt (proj1 (Nat.lt_succ_r _ _) Hf))]. apply (closed_sub U o r (o', r') Hc Hx).
        unfold subproblems, dispatched. simpl. rewrite Hr. apply in_or_app. left.
        apply existsb_atom_In. exact Hm.
      + intros r'. destruct (existsb (N.eqb r') csub) eqn:Hm; [|simpl; intros [H|[]]; discriminate H].
        apply IH; [|exact (Nat.lt_le_trans _ _ _ Hlt (proj1 (Nat.lt_succ_r _ _) Hf))]. apply (closed_sub U o r (o, r') Hc Hx).
        unfold subproblems, computed_of. simpl. rewrite Hr. apply in_or_app. right.
        apply in_map_iff. exists r'. split; [reflexivity|].
        apply existsb_exists in Hm. destruct Hm as [y [Hy He]]. apply N.eqb_eq in He. subst y. exact Hy.
    - intros o' r' Hin. apply existsb_atom_In in Hin. unfold amem. fold dsub in Hin. rewrite Hin. reflexivity.
    - intros r' Hin. fold csub in Hin.
      assert (Hm : existsb (N.eqb r') csub = true).
      { apply existsb_exists. exists r'. split; [exact Hin | apply N.eqb_refl]. }
      rewrite Hm. reflexivity.
  Qed.

  (* the top-level request: |U| + 1 units of fuel *)
  Theorem check_top_terminates : forall U fuel o r,
    universe_closed U = true -> amem (o, r) U = true -> (length U < fuel)%nat ->
    ~ In AFuel (fst (check_top m conds store subj pathx maxdepth fuel o r)).
  Proof.
    intros U fuel o r Hc Hx Hf. unfold check_top. apply (check_terminates U Hc); [exact Hx|].
    unfold unvisited_atoms. rewrite unvisited_nil. exact Hf.
  Qed.

  (* with sufficient fuel the outcome does not depend on the fuel *)
  Theorem check_fuel_irrelevant : forall U, universe_closed U = true ->
    forall f1 f2 depth visited o r,
      amem (o, r) U = true ->
      (unvisited_atoms U visited < f1)%nat -> (unvisited_atoms U visited < f2)%nat ->
      chk f1 depth visited o r = chk f2 depth visited o r.
  Proof.
    intros U Hc. unfold unvisited_atoms.
    induction f1 as [|f1 IH]; intros f2 depth visited o r Hx H1 H2; [lia|].
    destruct f2 as [|f2]; [lia|].
    rewrite !check_S. unfold check_step.
    destruct (Nat.eqb depth maxdepth); [reflexivity|].
    destruct (existsb (atom_eqb (o, r)) visited) eqn:Hvis; [reflexivity|].
    destruct (subject_eqb subj (SSet o r)); [reflexivity|].
    destruct (get_relation m (otype o) r) as [rd|] eqn:Hr; [|reflexivity].
    destruct (negb (path_exists pathx (otype o) r)); [reflexivity|].
    pose proof (unvisited_enter atom atom_eqb atom_eqb_eq U visited (o, r) Hx Hvis) as Hlt.
    apply eval_with_ext.
    - intros o' r' Hin. apply IH; [|exact (Nat.lt_le_trans _ _ _ Hlt (proj1 (Nat.lt_succ_r _ _) H1))|exact (Nat.lt_le_trans _ _ _ Hlt (proj1 (Nat.lt_succ_r _ _) H2))]. apply (closed_sub U o r (o', r') Hc Hx).
      unfold subproblems, dispatched. simpl. rewrite Hr. apply in_or_app. left. exact Hin.
    - intros r' Hin. apply IH; [|exact (Nat.lt_le_trans _ _ _ Hlt (proj1 (Nat.lt_succ_r _ _) H1))|exact (Nat.lt_le_trans _ _ _ Hlt (proj1 (Nat.lt_succ_r _ _) H2))]. apply (closed_sub U o r (o, r') Hc Hx).
      unfold subproblems, computed_of. simpl. rewrite Hr. apply in_or_app. right.
      apply in_map_iff. exists r'. split; [reflexivity | exact Hin].
  Qed.

  (* the same for the depth-based bound of Check/V1Proofs.v (no hypothesis on the universe) *)
  Lemma mu_pos : forall depth visited o, (1 <= mu m maxdepth depth visited o)%nat.
  Proof. intros. unfold mu. nia. Qed.

  Lemma mu_dispatch : forall f depth visited o r o',
    (depth < maxdepth)%nat ->
    (mu m maxdepth depth visited o <= S f)%nat ->
    (mu m maxdepth (S depth) ((o, r) :: visited) o' <= f)%nat.
  Proof.
    intros f depth visited o r o' Hd Hmu.
    pose proof (cnt_le m ((o, r) :: visited) o') as Hle'.
    unfold mu in *.
    replace (maxdepth - depth)%nat with (S (maxdepth - S depth)) in Hmu by lia.
    simpl in Hmu. lia.
  Qed.

  Lemma mu_computed : forall f depth visited o r,
    rel_defined m (otype o) r = true -> existsb (atom_eqb (o, r)) visited = false ->
    (mu m maxdepth depth visited o <= S f)%nat ->
    (mu m maxdepth depth ((o, r) :: visited) o <= f)%nat.
  Proof.
    intros f depth visited o r Hdef Hvis Hmu.
    pose proof (cnt_grow m visited o r Hdef Hvis) as Hg.
    pose proof (cnt_le m ((o, r) :: visited) o) as Hle.
    unfold mu in *. lia.
  Qed.

  Theorem check_fuel_irrelevant_depth : forall f1 f2 depth visited o r,
    (depth <= maxdepth)%nat ->
    (mu m maxdepth depth visited o <= f1)%nat -> (mu m maxdepth depth visited o <= f2)%nat ->
    chk f1 depth visited o r = chk f2 depth visited o r.
  Proof.
    induction f1 as [|f1 IH]; intros f2 depth visited o r Hd H1 H2.
    { exfalso. pose proof (mu_pos depth visited o). lia. }
    destruct f2 as [|f2]; [exfalso; pose proof (mu_pos depth visited o); lia|].
    rewrite !check_S. unfold check_step.
    destruct (Nat.eqb depth maxdepth) eqn:Hdm; [reflexivity|]. apply Nat.eqb_neq in Hdm.
    destruct (existsb (atom_eqb (o, r)) visited) eqn:Hvis; [reflexivity|].
    destruct (subject_eqb subj (SSet o r)); [reflexivity|].
    destruct (get_relation m (otype o) r) as [rd|] eqn:Hr; [|reflexivity].
    destruct (negb (path_exists pathx (otype o) r)); [reflexivity|].
    assert (Hdef : rel_defined m (otype o) r = true) by (unfold rel_defined; rewrite Hr; reflexivity).
    apply eval_with_ext.
    - intros o' r' _. apply IH; [lia | apply mu_dispatch; [lia | exact H1] | apply mu_dispatch; [lia | exact H2]].
    - intros r' _. apply IH; [exact Hd | apply mu_computed; assumption | apply mu_computed; assumption].
  Qed.
End CheckTermination.
