(* Proofs about the weight2 model of Check/V1Weight2.v (the `select` loop that intersects the
   object ids arriving on leftChan / rightChan):

   - w2_terminates                       the fuel of weight2 always suffices
   - weight2_sound                       `allowed` is only answered when the sets really intersect,
                                         for every schedule and in the presence of failures
   - weight2_err_not_allowed             an error is never reported together with `allowed`
   - weight2_complete / weight2_spec     without failures the answer is exactly "the sets intersect"
   - weight2_schedule_irrelevant         ... hence it does not depend on the schedule
   - weight2_failure_schedule_dependent  with failures it does depend on the schedule
   - non-vacuity examples *)
From Coq Require Import List NArith Bool Arith Lia.
From OFGA Require Import Check.V1Weight2.
Import ListNotations.

(* ------------------------------------------------------------------------------------------ *)
(* values, membership *)

Definition ivals (l : list item) : list N :=
  flat_map (fun i => match i with IVal x => [x] | IFail => [] end) l.

Lemma lvals_nil : lvals [] = [].
Proof. reflexivity. Qed.
Lemma lvals_iter : forall l left, lvals (LIter l :: left) = ivals l ++ lvals left.
Proof. reflexivity. Qed.
Lemma lvals_err : forall left, lvals (LErr :: left) = lvals left.
Proof. reflexivity. Qed.
Lemma rvals_nil : rvals [] = [].
Proof. reflexivity. Qed.
Lemma rvals_val : forall x right, rvals (RVal x :: right) = x :: rvals right.
Proof. reflexivity. Qed.
Lemma rvals_err : forall right, rvals (RErr :: right) = rvals right.
Proof. reflexivity. Qed.
Lemma ivals_val : forall x l, ivals (IVal x :: l) = x :: ivals l.
Proof. reflexivity. Qed.
Lemma ivals_fail : forall l, ivals (IFail :: l) = ivals l.
Proof. reflexivity. Qed.

Lemma memN_In : forall x l, memN x l = true <-> In x l.
Proof.
  intros x l. unfold memN. rewrite existsb_exists. split.
  - intros [y [Hin Heq]]. apply N.eqb_eq in Heq. subst y. exact Hin.
  - intros Hin. exists x. split; [exact Hin | apply N.eqb_refl].
Qed.

Lemma memN_false_In : forall x l, memN x l = false -> In x l -> False.
Proof.
  intros x l Hm Hin. apply memN_In in Hin. rewrite Hin in Hm. discriminate.
Qed.

Lemma intersects_iff : forall a b, intersects a b = true <-> exists x, In x a /\ In x b.
Proof.
  intros a b. unfold intersects. rewrite existsb_exists.
  split; intros [x [H1 H2]]; exists x; (split; [exact H1 | apply memN_In; exact H2]).
Qed.

(* ------------------------------------------------------------------------------------------ *)
(* one step of the loop *)

Lemma w2_loop_S : forall f sched left right lopen ropen lset rset le,
  w2_loop (S f) sched left right lopen ropen lset rset le =
  if negb (lopen || ropen) then Some {| w_allowed := false; w_err := le |}
  else
    if (if lopen then ((match sched with b :: _ => b | [] => true end) || negb ropen) else false)
    then
      match left with
      | [] =>
          match lset with
          | [] => Some {| w_allowed := false; w_err := le |}
          | _ => w2_loop f (tl sched) left right false ropen lset rset le
          end
      | LErr :: _ => Some {| w_allowed := false; w_err := true |}
      | LIter l :: left' =>
          let '(found, lset', le') := consume_iter l lset rset le in
          if found then Some {| w_allowed := true; w_err := false |}
          else w2_loop f (tl sched) left' right lopen ropen lset' rset le'
      end
    else
      match right with
      | [] => w2_loop f (tl sched) left right lopen false lset rset le
      | RErr :: right' => w2_loop f (tl sched) left right' lopen ropen lset rset true
      | RVal x :: right' =>
          if memN x lset then Some {| w_allowed := true; w_err := false |}
          else w2_loop f (tl sched) left right' lopen ropen lset (x :: rset) le
      end.
Proof. reflexivity. Qed.

(* what the select guard tells about the channels *)
Lemma take_left_true : forall (lopen ropen pick : bool),
  (if lopen then (pick || negb ropen) else false) = true -> lopen = true.
Proof. intros lopen ropen pick H. destruct lopen; [reflexivity | discriminate]. Qed.

Lemma take_left_false : forall (lopen ropen pick : bool),
  negb (lopen || ropen) = false ->
  (if lopen then (pick || negb ropen) else false) = false -> ropen = true.
Proof.
  intros lopen ropen pick Hn H. destruct lopen, ropen, pick; simpl in *;
    try reflexivity; discriminate.
Qed.

(* ------------------------------------------------------------------------------------------ *)
(* 1. termination *)

Definition b2n (b : bool) : nat := if b then 1%nat else 0%nat.

Lemma w2_loop_terminates : forall fuel sched left right lopen ropen lset rset le,
  (length left + length right + b2n lopen + b2n ropen < fuel)%nat ->
  w2_loop fuel sched left right lopen ropen lset rset le <> None.
Proof.
  induction fuel as [|f IH]; intros sched left right lopen ropen lset rset le Hm.
  - lia.
  - rewrite w2_loop_S.
    destruct (negb (lopen || ropen)) eqn:Hn; [discriminate|].
    destruct (if lopen then _ else false) eqn:Htake.
    + apply take_left_true in Htake. subst lopen.
      destruct left as [|[l|] left'].
      * destruct lset as [|a lset0]; [discriminate|].
        apply IH. simpl in *. lia.
      * destruct (consume_iter l lset rset le) as [[found lset'] le'].
        destruct found; [discriminate|].
        apply IH. simpl in *. lia.
      * discriminate.
    + apply (take_left_false _ _ _ Hn) in Htake. subst ropen.
      destruct right as [|[x|] right'].
      * apply IH. simpl in *. lia.
      * destruct (memN x lset); [discriminate|].
        apply IH. simpl in *. lia.
      * apply IH. simpl in *. lia.
Qed.

Theorem w2_terminates : forall sched left right, weight2 sched left right <> None.
Proof.
  intros sched left right. unfold weight2.
  destruct right as [|[x|] right']; try discriminate.
  apply w2_loop_terminates. simpl. lia.
Qed.

(* ------------------------------------------------------------------------------------------ *)
(* 2. soundness, for every schedule and with failures *)

Lemma consume_iter_sound : forall l lset rset le found lset' le',
  consume_iter l lset rset le = (found, lset', le') ->
  (found = true -> exists x, In x (ivals l) /\ In x rset) /\
  (forall x, In x lset' -> In x lset \/ In x (ivals l)).
Proof.
  induction l as [|i r IH]; intros lset rset le found lset' le' Hc.
  - simpl in Hc. inversion Hc; subst. split.
    + intros Hf; discriminate.
    + intros x Hx. left. exact Hx.
  - destruct i as [x|].
    + simpl in Hc. destruct (memN x rset) eqn:Hmem.
      * inversion Hc; subst. split.
        -- intros _. exists x. rewrite ivals_val. split; [left; reflexivity|].
           apply memN_In. exact Hmem.
        -- intros y Hy. rewrite ivals_val. destruct Hy as [Hy|Hy].
           ++ right. left. exact Hy.
           ++ left. exact Hy.
      * destruct (IH _ _ _ _ _ _ Hc) as [Hf Hsub]. rewrite ivals_val. split.
        -- intros Hfound. destruct (Hf Hfound) as [y [Hy1 Hy2]].
           exists y. split; [right; exact Hy1 | exact Hy2].
        -- intros y Hy. destruct (Hsub y Hy) as [[Hy'|Hy']|Hy'].
           ++ right. left. exact Hy'.
           ++ left. exact Hy'.
           ++ right. right. exact Hy'.
    + simpl in Hc. rewrite ivals_fail. exact (IH _ _ _ _ _ _ Hc).
Qed.

Lemma w2_loop_sound : forall fuel sched left right lopen ropen lset rset le r,
  w2_loop fuel sched left right lopen ropen lset rset le = Some r ->
  w_allowed r = true ->
  w_err r = false /\ exists x, In x (lset ++ lvals left) /\ In x (rset ++ rvals right).
Proof.
  induction fuel as [|f IH]; intros sched left right lopen ropen lset rset le r Hrun Hall.
  - simpl in Hrun. discriminate.
  - rewrite w2_loop_S in Hrun.
    destruct (negb (lopen || ropen)) eqn:Hn.
    { inversion Hrun; subst r. simpl in Hall. discriminate. }
    destruct (if lopen then _ else false) eqn:Htake.
    + destruct left as [|[l|] left'].
      * destruct lset as [|a lset0].
        -- inversion Hrun; subst r. simpl in Hall. discriminate.
        -- exact (IH _ _ _ _ _ _ _ _ _ Hrun Hall).
      * destruct (consume_iter l lset rset le) as [[found lset'] le'] eqn:Hc.
        destruct (consume_iter_sound _ _ _ _ _ _ _ Hc) as [Hf Hsub].
        destruct found.
        -- inversion Hrun; subst r. split; [reflexivity|].
           destruct (Hf eq_refl) as [x [Hx1 Hx2]]. exists x. rewrite lvals_iter. split.
           ++ apply in_or_app. right. apply in_or_app. left. exact Hx1.
           ++ apply in_or_app. left. exact Hx2.
        -- destruct (IH _ _ _ _ _ _ _ _ _ Hrun Hall) as [He [x [Hx1 Hx2]]].
           split; [exact He|]. exists x. split; [|exact Hx2].
           rewrite lvals_iter. apply in_app_or in Hx1. destruct Hx1 as [Hx1|Hx1].
           ++ destruct (Hsub x Hx1) as [Hx1'|Hx1'].
              ** apply in_or_app. left. exact Hx1'.
              ** apply in_or_app. right. apply in_or_app. left. exact Hx1'.
           ++ apply in_or_app. right. apply in_or_app. right. exact Hx1.
      * inversion Hrun; subst r. simpl in Hall. discriminate.
    + destruct right as [|[x|] right'].
      * exact (IH _ _ _ _ _ _ _ _ _ Hrun Hall).
      * destruct (memN x lset) eqn:Hmem.
        -- inversion Hrun; subst r. split; [reflexivity|].
           exists x. split.
           ++ apply in_or_app. left. apply memN_In. exact Hmem.
           ++ apply in_or_app. right. rewrite rvals_val. left. reflexivity.
        -- destruct (IH _ _ _ _ _ _ _ _ _ Hrun Hall) as [He [y [Hy1 Hy2]]].
           split; [exact He|]. exists y. split; [exact Hy1|].
           rewrite rvals_val. apply in_app_or in Hy2. destruct Hy2 as [[Hy2|Hy2]|Hy2].
           ++ apply in_or_app. right. left. exact Hy2.
           ++ apply in_or_app. left. exact Hy2.
           ++ apply in_or_app. right. right. exact Hy2.
      * rewrite rvals_err. exact (IH _ _ _ _ _ _ _ _ _ Hrun Hall).
Qed.

Theorem weight2_sound : forall sched left right r,
  weight2 sched left right = Some r -> w_allowed r = true ->
  intersects (lvals left) (rvals right) = true /\ w_err r = false.
Proof.
  intros sched left right r Hrun Hall. unfold weight2 in Hrun.
  destruct right as [|[x|] right'].
  - inversion Hrun; subst r. simpl in Hall. discriminate.
  - destruct (w2_loop_sound _ _ _ _ _ _ _ _ _ _ Hrun Hall) as [He [y [Hy1 Hy2]]].
    split; [|exact He]. apply intersects_iff. exists y. split.
    + exact Hy1.
    + rewrite rvals_val. exact Hy2.
  - inversion Hrun; subst r. simpl in Hall. discriminate.
Qed.

(* ------------------------------------------------------------------------------------------ *)
(* 3. an error is never reported together with `allowed` *)

Theorem weight2_err_not_allowed : forall sched left right r,
  weight2 sched left right = Some r -> w_err r = true -> w_allowed r = false.
Proof.
  intros sched left right r Hrun Herr.
  destruct (w_allowed r) eqn:Hall; [|reflexivity].
  destruct (weight2_sound _ _ _ _ Hrun Hall) as [_ He].
  rewrite He in Herr. discriminate.
Qed.

(* ------------------------------------------------------------------------------------------ *)
(* 4. completeness without failures *)

Lemma consume_iter_ok : forall l lset rset found lset' le',
  forallb item_ok l = true ->
  (forall x, In x lset -> In x rset -> False) ->
  consume_iter l lset rset false = (found, lset', le') ->
  le' = false /\
  (found = true -> exists x, In x (ivals l) /\ In x rset) /\
  (found = false ->
     (forall x, In x lset' <-> In x lset \/ In x (ivals l)) /\
     (forall x, In x lset' -> In x rset -> False)).
Proof.
  induction l as [|i r IH]; intros lset rset found lset' le' Hok Hdisj Hc.
  - simpl in Hc. inversion Hc; subst. split; [reflexivity|]. split.
    + intros Hf; discriminate.
    + intros _. split.
      * intros x. simpl. split; [intros Hx; left; exact Hx | intros [Hx|[]]; exact Hx].
      * exact Hdisj.
  - destruct i as [x|]; simpl in Hok; [|discriminate].
    simpl in Hc. destruct (memN x rset) eqn:Hmem.
    + inversion Hc; subst. split; [reflexivity|]. split.
      * intros _. exists x. rewrite ivals_val. split; [left; reflexivity|].
        apply memN_In. exact Hmem.
      * intros Hf; discriminate.
    + assert (Hdisj' : forall y, In y (x :: lset) -> In y rset -> False).
      { intros y [Hy|Hy] Hy2.
        - subst y. exact (memN_false_In _ _ Hmem Hy2).
        - exact (Hdisj y Hy Hy2). }
      destruct (IH _ _ _ _ _ Hok Hdisj' Hc) as [Hle [Hf Hnf]].
      split; [exact Hle|]. rewrite ivals_val. split.
      * intros Hfound. destruct (Hf Hfound) as [y [Hy1 Hy2]].
        exists y. split; [right; exact Hy1 | exact Hy2].
      * intros Hfound. destruct (Hnf Hfound) as [Heq Hd]. split; [|exact Hd].
        intros y. rewrite (Heq y). simpl. tauto.
Qed.

Lemma w2_loop_complete : forall fuel sched left right lopen ropen lset rset r,
  left_ok left = true -> right_ok right = true ->
  (lopen = false -> left = []) -> (ropen = false -> right = []) ->
  (forall x, In x lset -> In x rset -> False) ->
  w2_loop fuel sched left right lopen ropen lset rset false = Some r ->
  w_err r = false /\
  (w_allowed r = true <-> exists x, In x (lset ++ lvals left) /\ In x (rset ++ rvals right)).
Proof.
  induction fuel as [|f IH];
    intros sched left right lopen ropen lset rset r Hlok Hrok Hlc Hrc Hdisj Hrun.
  - simpl in Hrun. discriminate.
  - rewrite w2_loop_S in Hrun.
    destruct (negb (lopen || ropen)) eqn:Hn.
    { (* both channels closed *)
      inversion Hrun; subst r. cbn [w_err w_allowed]. split; [reflexivity|].
      destruct lopen; [simpl in Hn; discriminate|].
      destruct ropen; [simpl in Hn; discriminate|].
      rewrite (Hlc eq_refl), (Hrc eq_refl), lvals_nil, rvals_nil, !app_nil_r.
      split; [intros Hf; discriminate|].
      intros [x [Hx1 Hx2]]. exfalso. exact (Hdisj x Hx1 Hx2). }
    destruct (if lopen then _ else false) eqn:Htake.
    + apply take_left_true in Htake. subst lopen.
      destruct left as [|[l|] left'].
      * destruct lset as [|a lset0].
        -- inversion Hrun; subst r. cbn [w_err w_allowed]. split; [reflexivity|].
           split; [intros Hf; discriminate|].
           intros [x [Hx1 _]]. simpl in Hx1. destruct Hx1.
        -- apply (IH _ _ _ _ _ _ _ _ Hlok Hrok (fun _ => eq_refl) Hrc Hdisj Hrun).
      * simpl in Hlok. apply andb_true_iff in Hlok. destruct Hlok as [Hiok Hlok'].
        destruct (consume_iter l lset rset false) as [[found lset'] le'] eqn:Hc.
        destruct (consume_iter_ok _ _ _ _ _ _ Hiok Hdisj Hc) as [Hle [Hf Hnf]].
        subst le'. destruct found.
        -- inversion Hrun; subst r. cbn [w_err w_allowed]. split; [reflexivity|].
           split; [|intros _; reflexivity]. intros _.
           destruct (Hf eq_refl) as [x [Hx1 Hx2]]. exists x. rewrite lvals_iter. split.
           ++ apply in_or_app. right. apply in_or_app. left. exact Hx1.
           ++ apply in_or_app. left. exact Hx2.
        -- destruct (Hnf eq_refl) as [Heq Hd].
           assert (Hlc' : true = false -> left' = []) by (intros Hf'; discriminate).
           destruct (IH _ _ _ _ _ _ _ _ Hlok' Hrok Hlc' Hrc Hd Hrun) as [He Hiff].
           split; [exact He|]. rewrite Hiff. rewrite lvals_iter.
           split; intros [x [Hx1 Hx2]]; exists x; (split; [|exact Hx2]).
           ++ apply in_app_or in Hx1. destruct Hx1 as [Hx1|Hx1].
              ** apply Heq in Hx1. destruct Hx1 as [Hx1|Hx1].
                 --- apply in_or_app. left. exact Hx1.
                 --- apply in_or_app. right. apply in_or_app. left. exact Hx1.
              ** apply in_or_app. right. apply in_or_app. right. exact Hx1.
           ++ apply in_app_or in Hx1. destruct Hx1 as [Hx1|Hx1].
              ** apply in_or_app. left. apply Heq. left. exact Hx1.
              ** apply in_app_or in Hx1. destruct Hx1 as [Hx1|Hx1].
                 --- apply in_or_app. left. apply Heq. right. exact Hx1.
                 --- apply in_or_app. right. exact Hx1.
      * simpl in Hlok. discriminate.
    + apply (take_left_false _ _ _ Hn) in Htake. subst ropen.
      destruct right as [|[x|] right'].
      * apply (IH _ _ _ _ _ _ _ _ Hlok Hrok Hlc (fun _ => eq_refl) Hdisj Hrun).
      * simpl in Hrok. destruct (memN x lset) eqn:Hmem.
        -- inversion Hrun; subst r. cbn [w_err w_allowed]. split; [reflexivity|].
           split; [|intros _; reflexivity]. intros _. exists x. split.
           ++ apply in_or_app. left. apply memN_In. exact Hmem.
           ++ apply in_or_app. right. rewrite rvals_val. left. reflexivity.
        -- assert (Hdisj' : forall y, In y lset -> In y (x :: rset) -> False).
           { intros y Hy1 [Hy2|Hy2].
             - subst y. exact (memN_false_In _ _ Hmem Hy1).
             - exact (Hdisj y Hy1 Hy2). }
           assert (Hrc' : true = false -> right' = []) by (intros Hf'; discriminate).
           destruct (IH _ _ _ _ _ _ _ _ Hlok Hrok Hlc Hrc' Hdisj' Hrun) as [He Hiff].
           split; [exact He|]. rewrite Hiff. rewrite rvals_val.
           split; intros [y [Hy1 Hy2]]; exists y; (split; [exact Hy1|]).
           ++ apply in_app_or in Hy2. destruct Hy2 as [[Hy2|Hy2]|Hy2].
              ** apply in_or_app. right. left. exact Hy2.
              ** apply in_or_app. left. exact Hy2.
              ** apply in_or_app. right. right. exact Hy2.
           ++ apply in_app_or in Hy2. destruct Hy2 as [Hy2|[Hy2|Hy2]].
              ** apply in_or_app. left. right. exact Hy2.
              ** apply in_or_app. left. left. exact Hy2.
              ** apply in_or_app. right. exact Hy2.
      * simpl in Hrok. discriminate.
Qed.

Theorem weight2_complete : forall sched left right r,
  left_ok left = true -> right_ok right = true ->
  weight2 sched left right = Some r ->
  w_err r = false /\ w_allowed r = intersects (lvals left) (rvals right).
Proof.
  intros sched left right r Hlok Hrok Hrun. unfold weight2 in Hrun.
  destruct right as [|[x|] right'].
  - inversion Hrun; subst r. cbn [w_err w_allowed]. split; [reflexivity|].
    apply eq_true_iff_eq. rewrite intersects_iff. split; [intros Hf; discriminate|].
    intros [x [_ Hx]]. destruct Hx.
  - simpl in Hrok.
    assert (Hlc : true = false -> left = []) by (intros Hf; discriminate).
    assert (Hrc : true = false -> right' = []) by (intros Hf; discriminate).
    assert (Hdisj : forall y, In y (@nil N) -> In y [x] -> False) by (intros y []).
    destruct (w2_loop_complete _ _ _ _ _ _ _ _ _ Hlok Hrok Hlc Hrc Hdisj Hrun) as [He Hiff].
    split; [exact He|]. apply eq_true_iff_eq. rewrite Hiff, intersects_iff.
    rewrite rvals_val. simpl. tauto.
  - simpl in Hrok. discriminate.
Qed.

(* ------------------------------------------------------------------------------------------ *)
(* 5. / 6. specification and schedule independence without failures *)

Theorem weight2_spec : forall sched left right,
  left_ok left = true -> right_ok right = true ->
  exists r, weight2 sched left right = Some r /\ w_err r = false /\
            (w_allowed r = true <-> exists x, In x (lvals left) /\ In x (rvals right)).
Proof.
  intros sched left right Hlok Hrok.
  destruct (weight2 sched left right) as [r|] eqn:Hrun.
  - exists r. split; [reflexivity|].
    destruct (weight2_complete _ _ _ _ Hlok Hrok Hrun) as [He Ha].
    split; [exact He|]. rewrite Ha. apply intersects_iff.
  - exfalso. exact (w2_terminates _ _ _ Hrun).
Qed.

Lemma weight2_ok_value : forall sched left right,
  left_ok left = true -> right_ok right = true ->
  weight2 sched left right =
  Some {| w_allowed := intersects (lvals left) (rvals right); w_err := false |}.
Proof.
  intros sched left right Hlok Hrok.
  destruct (weight2 sched left right) as [r|] eqn:Hrun.
  - destruct (weight2_complete _ _ _ _ Hlok Hrok Hrun) as [He Ha].
    destruct r as [a e]. simpl in He, Ha. subst a e. reflexivity.
  - exfalso. exact (w2_terminates _ _ _ Hrun).
Qed.

Theorem weight2_schedule_irrelevant : forall s1 s2 left right,
  left_ok left = true -> right_ok right = true ->
  weight2 s1 left right = weight2 s2 left right.
Proof.
  intros s1 s2 left right Hlok Hrok.
  rewrite (weight2_ok_value s1 _ _ Hlok Hrok), (weight2_ok_value s2 _ _ Hlok Hrok).
  reflexivity.
Qed.

(* ------------------------------------------------------------------------------------------ *)
(* 7. with failures the outcome depends on the schedule: the left side delivers 2 and then an
      error message, the right side 1 and then 2.  Taking the left error first answers the
      error; taking the right 2 first answers `allowed`. *)

Theorem weight2_failure_schedule_dependent :
  exists s1 s2 left right, weight2 s1 left right <> weight2 s2 left right.
Proof.
  exists [true; true], [true; false], [LIter [IVal 2%N]; LErr], [RVal 1%N; RVal 2%N].
  vm_compute. discriminate.
Qed.

(* ------------------------------------------------------------------------------------------ *)
(* 8. non-vacuity *)

Example weight2_ex_allowed :
  weight2 [] [LIter [IVal 2%N; IVal 1%N]] [RVal 1%N; RVal 3%N]
  = Some {| w_allowed := true; w_err := false |}.
Proof. vm_compute. reflexivity. Qed.

Example weight2_ex_denied :
  weight2 [] [LIter [IVal 2%N]] [RVal 1%N; RVal 3%N]
  = Some {| w_allowed := false; w_err := false |}.
Proof. vm_compute. reflexivity. Qed.

Example weight2_ex_error :
  weight2 [true; true] [LIter [IVal 2%N]; LErr] [RVal 1%N; RVal 2%N]
  = Some {| w_allowed := false; w_err := true |}.
Proof. vm_compute. reflexivity. Qed.

(* the same inputs, other schedule: the match on the right side wins and the error is not seen *)
Example weight2_ex_error_masked :
  weight2 [true; false] [LIter [IVal 2%N]; LErr] [RVal 1%N; RVal 2%N]
  = Some {| w_allowed := true; w_err := false |}.
Proof. vm_compute. reflexivity. Qed.

(* an iterator failure without a match is reported ... *)
Example weight2_ex_iter_fail :
  weight2 [] [LIter [IFail; IVal 2%N]] [RVal 1%N]
  = Some {| w_allowed := false; w_err := true |}.
Proof. vm_compute. reflexivity. Qed.

(* ... and is reset by a later match (lastErr = nil when an intersection is found) *)
Example weight2_ex_iter_fail_reset :
  weight2 [] [LIter [IFail; IVal 1%N]] [RVal 1%N]
  = Some {| w_allowed := true; w_err := false |}.
Proof. vm_compute. reflexivity. Qed.
