(* C04 — trigger predicates (definitions only) used by the oracle to attribute a difference between
   "tuple passed as contextual" and "tuple stored" to a listed finding.  Each is a boolean function
   of the scenario in the vocabulary of Sem/Vocab.v; none is a pattern over messages. *)
From OFGA Require Export Sem.Semantics.
Open Scope N_scope.

(* the condition of a tuple is carried by a restriction of exactly its subject kind *)
Definition strict_cond_ok (rs : list restriction) (s : subject) (c : cid) : bool :=
  existsb (fun d => N.eqb (r_type d) (subject_type s) && kind_eqb (r_kind d) (subject_kind s) && N.eqb (r_cond d) c) rs.

(* finding F4 (C18) and its mirror image: the write/read validation accepts a conditioned tuple when
   ANY restriction of the subject's type carries the condition (user:a with c for [user, user:* with c])
   and an unconditioned userset when a plain-object restriction of its type is unconditioned
   (group:1#member for [group, group#member with c]).  The weighted-graph engine
   (validateCtxTupleInModel, edge conditions) and the pipeline (Conditions filter of
   ReadStartingWithUser, not applied to contextual tuples) are strict: the restriction of exactly
   the subject's kind must carry exactly the tuple's condition. *)
Definition lenient_cond (m : model) (conds : list cid) (t : tuple) : bool :=
  valid_for_read m conds t &&
  match get_relation m (otype (t_obj t)) (t_rel t) with
  | Some rd => negb (strict_cond_ok (rd_restr rd) (t_sub t) (t_cond t))
  | None => false
  end.

(* an object#relation has a tuple for the subject itself and one for the subject type's wildcard
   whose conditions evaluate differently: the sorted ReadStartingWithUser of the weight-2 fast path
   keeps only one tuple per object (OrderedCombinedIterator), contextual tuples first *)
Definition wild_direct_conflict (m : model) (conds : list cid) (store : list tuple) (subj : subject) : bool :=
  match subj with
  | SObj so =>
      existsb (fun t1 =>
        subject_eqb (t_sub t1) subj && valid_for_read m conds t1 &&
        existsb (fun t2 =>
          match t_sub t2 with SWild ty => N.eqb ty (otype so) | _ => false end &&
          obj_eqb (t_obj t1) (t_obj t2) && N.eqb (t_rel t1) (t_rel t2) && valid_for_read m conds t2 &&
          negb (b3_eqb (t_ceval t1) (t_ceval t2))) store) store
  | _ => false
  end.

(* the model has a relation that (transitively) depends on itself: the weighted-graph engine then
   resolves under a shared `visited` set, whose partial results it caches (finding F3, C08) *)
Definition pair_eqb (a b : tid * rid) : bool := N.eqb (fst a) (fst b) && N.eqb (snd a) (snd b).
Definition dep_succ (m : model) (p : tid * rid) : list (tid * rid) :=
  match get_relation m (fst p) (snd p) with
  | Some rd => map (fun d : tid * rid * bool => (fst (fst d), snd (fst d))) (deps m (fst p) rd false (rd_rw rd))
  | None => []
  end.
Definition add_all (S new : list (tid * rid)) : list (tid * rid) :=
  fold_left (fun acc x => if existsb (pair_eqb x) acc then acc else x :: acc) new S.
Fixpoint closure (m : model) (n : nat) (S : list (tid * rid)) : list (tid * rid) :=
  match n with
  | O => S
  | Datatypes.S k => closure m k (add_all S (flat_map (dep_succ m) S))
  end.
Definition rel_recursive (m : model) (p : tid * rid) : bool :=
  existsb (pair_eqb p) (closure m (nrels m) (dep_succ m p)).
Definition model_recursive (m : model) : bool :=
  existsb (fun tr : tid * reldef => rel_recursive m (fst tr, rd_rel (snd tr))) (all_rels m).
