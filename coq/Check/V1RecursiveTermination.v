(* C20 — termination of the breadth-first recursive strategy model (Check/V1Recursive.v:
   breadthFirstRecursiveMatch of internal/graph/recursive_resolver.go).

   Two independent arguments, as in the Go code:
     - the depth counter: every level increments the resolution depth and stops at the limit
       (bfs_terminates_depth: maxdepth - depth units of fuel suffice);
     - the visited set (`visitedUserset`): a level only expands nodes that were never expanded, so
       on a finite graph there are at most |nodes| non-empty levels
       (bfs_terminates: |nodes not yet visited| + 2 units of fuel suffice, for ANY depth limit).
   rec_check_terminates: the fuel the model gives itself (bfs_fuel of the nodes of the edge
   list) is always enough: rec_check never answers BFuel. *)
From Coq Require Import List Bool Arith NArith Lia.
From OFGA Require Import Check.V1Recursive.
Import ListNotations.
Open Scope N_scope.

Lemma memN_In : forall x l, memN x l = true <-> In x l.
Proof.
  intros x l. unfold memN. rewrite existsb_exists. split.
  - intros [y [Hy He]]. apply N.eqb_eq in He. subst y. exact Hy.
  - intro H. exists x. split; [exact H | apply N.eqb_refl].
Qed.

Lemma nodupN_In : forall x l, In x (nodupN l) <-> In x l.
Proof.
  intros x l. induction l as [|y l IH]; simpl; [tauto|].
  destruct (memN y l) eqn:Hm.
  - rewrite IH. split; [auto|]. intros [H|H]; [subst y; apply memN_In; exact Hm | exact H].
  - simpl. rewrite IH. tauto.
Qed.

(* nodes of `nodes` that have not been expanded *)
Definition unvisitedN (nodes visited : list N) : nat :=
  length (filter (fun a => negb (memN a visited)) nodes).

Lemma filter_len_le : forall (p q : N -> bool) l,
  (forall x, p x = true -> q x = true) -> (length (filter p l) <= length (filter q l))%nat.
Proof.
  intros p q l H. induction l as [|x l IH]; simpl; [lia|].
  destruct (p x) eqn:Hp; [rewrite (H x Hp); simpl; lia | destruct (q x); simpl; lia].
Qed.

Lemma filter_len_lt : forall (p q : N -> bool) l a,
  (forall x, p x = true -> q x = true) -> In a l -> p a = false -> q a = true ->
  (length (filter p l) < length (filter q l))%nat.
Proof.
  intros p q l a H. induction l as [|x l IH]; simpl; intros Hin Hp Hq; [destruct Hin|].
  destruct Hin as [Hin|Hin].
  - subst x. rewrite Hp, Hq. simpl. pose proof (filter_len_le p q l H). lia.
  - specialize (IH Hin Hp Hq). destruct (p x) eqn:Hpx; [rewrite (H x Hpx); simpl; lia | destruct (q x); simpl; lia].
Qed.

Lemma unvisitedN_le : forall nodes visited, (unvisitedN nodes visited <= length nodes)%nat.
Proof.
  intros nodes visited. unfold unvisitedN. induction nodes as [|x l IH]; simpl; [lia|].
  destruct (negb (memN x visited)); simpl; lia.
Qed.

(* expanding at least one new node of the graph strictly decreases the measure *)
Lemma unvisitedN_expand : forall nodes visited todo x,
  In x todo -> In x nodes -> memN x visited = false ->
  (unvisitedN nodes (todo ++ visited) < unvisitedN nodes visited)%nat.
Proof.
  intros nodes visited todo x Ht Hn Hv. unfold unvisitedN. apply filter_len_lt with (a := x).
  - intros a Ha. apply negb_true_iff in Ha. apply negb_true_iff.
    destruct (memN a visited) eqn:Hm; [|reflexivity].
    assert (Hin : memN a (todo ++ visited) = true).
    { apply memN_In. apply in_or_app. right. apply memN_In. exact Hm. }
    rewrite Hin in Ha. discriminate Ha.
  - exact Hn.
  - apply negb_false_iff. apply memN_In. apply in_or_app. left. exact Ht.
  - rewrite Hv. reflexivity.
Qed.

Section BFSTermination.
  Variable succ : N -> list N.
  Variable failing : N -> bool.
  Variable targets : list N.
  Variable maxdepth : nat.

  Local Notation bfs := (bfs succ failing targets maxdepth).

  Lemma bfs_S : forall f depth visited frontier err,
    bfs (S f) depth visited frontier err =
    if Nat.eqb (S depth) maxdepth then BDepth
    else match frontier with
         | [] => if err then BErr else BFalse
         | _ =>
             let todo := nodupN (filter (fun x => negb (memN x visited)) frontier) in
             let next := flat_map succ todo in
             if existsb (fun y => memN y targets) next then BTrue
             else bfs f (S depth) (todo ++ visited) next (err || existsb failing todo)
         end.
  Proof. reflexivity. Qed.

  (* an empty level ends the search in one step *)
  Lemma bfs_empty_frontier : forall f depth visited err,
    bfs (S f) depth visited [] err <> BFuel.
  Proof.
    intros f depth visited err. rewrite bfs_S.
    destruct (Nat.eqb (S depth) maxdepth); [discriminate|]. destruct err; discriminate.
  Qed.

  (* --- the depth counter --- *)
  Theorem bfs_terminates_depth : forall fuel depth visited frontier err,
    (S depth <= maxdepth)%nat -> (maxdepth - depth <= fuel)%nat ->
    bfs fuel depth visited frontier err <> BFuel.
  Proof.
    induction fuel as [|f IH]; intros depth visited frontier err Hd Hf; [lia|].
    rewrite bfs_S. destruct (Nat.eqb (S depth) maxdepth) eqn:He; [discriminate|]. apply Nat.eqb_neq in He.
    destruct frontier as [|x fr]; [destruct err; discriminate|]. cbv zeta.
    match goal with |- context [existsb (fun y => memN y targets) ?L] =>
      destruct (existsb (fun y => memN y targets) L) end; [discriminate|].
    apply IH; lia.
  Qed.

  (* --- the visited set --- *)
  Variable nodes : list N.
  Hypothesis succ_closed : forall x y, In x nodes -> In y (succ x) -> In y nodes.

  Theorem bfs_terminates : forall fuel depth visited frontier err,
    (forall x, In x frontier -> In x nodes) ->
    (unvisitedN nodes visited + 2 <= fuel)%nat ->
    bfs fuel depth visited frontier err <> BFuel.
  Proof.
    induction fuel as [|f IH]; intros depth visited frontier err Hfr Hf; [lia|].
    rewrite bfs_S. destruct (Nat.eqb (S depth) maxdepth); [discriminate|].
    destruct frontier as [|x0 fr]; [destruct err; discriminate|]. cbv zeta.
    set (todo := nodupN (filter (fun x => negb (memN x visited)) (x0 :: fr))).
    set (next := flat_map succ todo).
    destruct (existsb (fun y => memN y targets) next); [discriminate|].
    assert (Htodo : forall x, In x todo -> In x nodes /\ memN x visited = false).
    { intros x Hx. unfold todo in Hx. apply (proj1 (nodupN_In _ _)) in Hx. apply filter_In in Hx.
      destruct Hx as [Hx Hv]. split; [apply Hfr; exact Hx | apply negb_true_iff; exact Hv]. }
    destruct todo as [|t0 todo'] eqn:Ht.
    - (* nothing new: the next level is empty *)
      simpl in next. unfold next. destruct f as [|f']; [lia|]. apply bfs_empty_frontier.
    - apply IH.
      + intros y Hy. unfold next in Hy. apply in_flat_map in Hy. destruct Hy as [x [Hx Hy]].
        apply (succ_closed x y); [exact (proj1 (Htodo x Hx)) | exact Hy].
      + destruct (Htodo t0 (or_introl eq_refl)) as [Hn Hv].
        pose proof (unvisitedN_expand nodes visited (t0 :: todo') t0 (or_introl eq_refl) Hn Hv). lia.
  Qed.
End BFSTermination.

(* ---- the graph the oracle builds from the tuples: closure holds by construction ---- *)

Lemma succ_of_In : forall edges x y, In y (succ_of edges x) -> In (x, y) edges.
Proof.
  intros edges x y H. unfold succ_of in H. apply in_map_iff in H. destruct H as [[a b] [Hb Hin]].
  apply filter_In in Hin. destruct Hin as [Hin He]. simpl in *. apply N.eqb_eq in He. subst. exact Hin.
Qed.

Lemma nodes_of_target : forall edges extra x y, In (x, y) edges -> In y (nodes_of edges extra).
Proof.
  intros edges extra x y H. unfold nodes_of. apply nodupN_In. apply in_or_app. right.
  apply in_or_app. left. apply in_map_iff. exists (x, y). split; [reflexivity | exact H].
Qed.

Theorem rec_check_terminates : forall edges direct maxdepth x,
  rec_check edges direct maxdepth x <> BFuel.
Proof.
  intros edges direct maxdepth x. unfold rec_check.
  destruct (memN x direct); [discriminate|]. unfold rec_fast.
  destruct (succ_of edges x) as [|y0 first] eqn:Hs; [discriminate|].
  destruct direct as [|d0 direct']; [discriminate|].
  match goal with |- context [existsb ?P ?L] => destruct (existsb P L) end; [discriminate|].
  apply bfs_terminates with (nodes := nodes_of edges (x :: d0 :: direct')).
  - intros a b _ Hb. apply succ_of_In in Hb. exact (nodes_of_target edges _ a b Hb).
  - intros a Ha. rewrite <- Hs in Ha. apply succ_of_In in Ha. exact (nodes_of_target edges _ x a Ha).
  - unfold bfs_fuel. pose proof (unvisitedN_le (nodes_of edges (x :: d0 :: direct')) []). lia.
Qed.

(* non-vacuity: a 3-cycle with a tail, target unreachable; little fuel does run out *)
Example rec_check_cycle_example :
  rec_check [(1, 2); (2, 3); (3, 1); (3, 4)] [9] 25 1 = BFalse /\
  bfs (succ_of [(1, 2); (2, 3); (3, 1); (3, 4)]) (fun _ => false) [9] 25 2 0 [] [2] false = BFuel.
Proof. split; vm_compute; reflexivity. Qed.
