(* Lemmas about the stream primitives of Check/V1Weight2.v (fetch / clean_done / heads / pop /
   skip) on failure-free streams, in terms of `flat` = the values a stream will still deliver. *)
From Coq Require Import List NArith Bool Arith Lia Sorting.Sorted.
From OFGA Require Import Check.V1Weight2.
Import ListNotations.
Open Scope N_scope.

(* ---- sortedness ---- *)
Definition ssorted (l : list N) : Prop := StronglySorted N.lt l.

Lemma ssortedb_iff : forall l, ssortedb l = true <-> ssorted l.
Proof.
  induction l as [|x r IH]; simpl.
  - split; intros; [constructor | reflexivity].
  - destruct r as [|y r'].
    + split; intros; [constructor; constructor | reflexivity].
    + rewrite andb_true_iff, N.ltb_lt, IH. split.
      * intros [Hxy Hs]. constructor; [exact Hs|].
        constructor; [exact Hxy|].
        apply StronglySorted_inv in Hs. destruct Hs as [_ Hall].
        eapply Forall_impl; [|exact Hall]. intros a Ha. simpl in Ha. lia.
      * intros Hs. apply StronglySorted_inv in Hs. destruct Hs as [Hs Hall].
        split; [|exact Hs]. inversion Hall; assumption.
Qed.

Lemma ssorted_cons_inv : forall x l, ssorted (x :: l) -> ssorted l /\ Forall (fun y => x < y) l.
Proof. intros x l H. apply StronglySorted_inv in H. exact H. Qed.

Lemma ssorted_app_one : forall l x, ssorted l -> Forall (fun a => a < x) l -> ssorted (l ++ [x]).
Proof.
  induction l as [|a r IH]; intros x Hs Hall; simpl.
  - constructor; constructor.
  - apply ssorted_cons_inv in Hs. destruct Hs as [Hs Ha].
    inversion Hall as [|? ? Hax Hr]; subst.
    constructor.
    + apply IH; assumption.
    + apply Forall_app. split; [exact Ha|]. constructor; [exact Hax|constructor].
Qed.

Lemma ssorted_app : forall l1 l2, ssorted l1 -> ssorted l2 ->
  (forall a b, In a l1 -> In b l2 -> a < b) -> ssorted (l1 ++ l2).
Proof.
  induction l1 as [|a r IH]; intros l2 H1 H2 Hlt; simpl; [exact H2|].
  apply ssorted_cons_inv in H1. destruct H1 as [H1 Ha].
  constructor.
  - apply IH; try assumption. intros x y Hx Hy. apply Hlt; [right|]; assumption.
  - apply Forall_app. split; [exact Ha|].
    apply Forall_forall. intros y Hy. apply Hlt; [left; reflexivity | exact Hy].
Qed.

Lemma ssorted_app_inv_r : forall l1 l2, ssorted (l1 ++ l2) -> ssorted l2.
Proof.
  induction l1 as [|a r IH]; intros l2 H; simpl in *; [exact H|].
  apply ssorted_cons_inv in H. apply IH. apply H.
Qed.

(* ---- clean streams and the values they still deliver ---- *)
Definition chunk_clean (c : chunk) : bool := match c with Ch _ false => true | _ => false end.
Definition chunk_vals (c : chunk) : list N := match c with Ch l _ => l | ChErr => [] end.
Definition cvals (cs : list chunk) : list N := flat_map chunk_vals cs.
Definition stream_clean (cs : list chunk) : bool := forallb chunk_clean cs.

Definition buf_vals (s : sst) : list N := match buf s with Some (l, _) => l | None => [] end.
Definition flat (s : sst) : list N := buf_vals s ++ cvals (src s).

(* well-formed, failure-free stream state *)
Definition sst_ok (s : sst) : Prop :=
  match buf s with Some (_, true) => False | _ => True end /\
  stream_clean (src s) = true /\
  (closed s = true -> src s = []).

Definition allv (ss : list sst) : list N := flat_map flat ss.

(* termination measure *)
Definition csize (cs : list chunk) : nat :=
  fold_right (fun c n => (S (length (chunk_vals c)) + n)%nat) O cs.
Definition msize (s : sst) : nat :=
  ((match buf s with Some (l, _) => S (length l) | None => O end) + csize (src s) +
   (if closed s then 0 else 1))%nat.
Definition measure (ss : list sst) : nat :=
  fold_right (fun s n => (S (msize s) + n)%nat) O ss.

Lemma measure_cons : forall s ss, measure (s :: ss) = (S (msize s) + measure ss)%nat.
Proof. reflexivity. Qed.

Lemma allv_cons : forall s ss, allv (s :: ss) = flat s ++ allv ss.
Proof. reflexivity. Qed.

(* ---- fetch ---- *)
Lemma fetch_ok : forall s, sst_ok s ->
  exists s', fetch s = FOk s' /\ sst_ok s' /\ flat s' = flat s /\ idx s' = idx s /\
             (msize s' <= msize s)%nat /\
             (buf s' = None -> closed s' = true /\ flat s' = []).
Proof.
  intros s Hok. pose proof Hok as [Hb [Hc Hcl]]. unfold fetch.
  destruct (buf s) as [[l f]|] eqn:Eb.
  - exists s. split; [reflexivity|]. split; [exact Hok|]. split; [reflexivity|].
    split; [reflexivity|]. split; [lia|]. intros HN. rewrite Eb in HN. discriminate.
  - destruct (closed s) eqn:Ecl.
    + exists s. split; [reflexivity|]. split; [exact Hok|]. split; [reflexivity|].
      split; [reflexivity|]. split; [lia|]. intros _. split; [exact Ecl|].
      unfold flat, buf_vals. rewrite Eb, (Hcl eq_refl). reflexivity.
    + destruct (src s) as [|c r] eqn:Es.
      * eexists. split; [reflexivity|]. unfold sst_ok, flat, buf_vals, msize; simpl.
        rewrite Eb, Es, Ecl. simpl.
        split; [split; [exact I|split; [reflexivity|reflexivity]]|].
        split; [reflexivity|]. split; [reflexivity|]. split; [lia|]. intros _. split; reflexivity.
      * simpl in Hc. apply andb_true_iff in Hc. destruct Hc as [Hcc Hr].
        destruct c as [l f|]; [|discriminate]. destruct f; [discriminate|].
        eexists. split; [reflexivity|]. unfold sst_ok, flat, buf_vals, msize, cvals; simpl.
        rewrite Eb, Es, Ecl. simpl.
        split; [split; [exact I|split; [exact Hr|discriminate]]|].
        split; [reflexivity|]. split; [reflexivity|]. split; [lia|]. discriminate.
Qed.

Lemma fetch_all_ok : forall ss, Forall sst_ok ss ->
  exists ss', fetch_all ss = Some ss' /\ Forall sst_ok ss' /\
              map flat ss' = map flat ss /\ map idx ss' = map idx ss /\
              (measure ss' <= measure ss)%nat /\
              Forall (fun s' => buf s' = None -> closed s' = true /\ flat s' = []) ss'.
Proof.
  induction ss as [|s r IH]; intros Hall.
  - exists []. simpl. repeat split; try constructor.
  - inversion Hall as [|? ? Hs Hr]; subst.
    destruct (fetch_ok s Hs) as [s' [Hf [Hok [Hfl [Hid [Hms Hn]]]]]].
    destruct (IH Hr) as [r' [Hfa [Hokr [Hflr [Hidr [Hmsr Hnr]]]]]].
    exists (s' :: r'). simpl. rewrite Hf, Hfa.
    split; [reflexivity|]. split; [constructor; assumption|].
    split; [congruence|]. split; [congruence|]. split; [lia|]. constructor; assumption.
Qed.

Lemma measure_map_msize : forall a b, map msize a = map msize b -> measure a = measure b.
Proof.
  induction a as [|x a IH]; intros [|y b] H; simpl in *; try discriminate; [reflexivity|].
  inversion H. rewrite (IH b); [|assumption]. congruence.
Qed.

Lemma allv_map_flat : forall a b, map flat a = map flat b -> allv a = allv b.
Proof.
  induction a as [|x a IH]; intros [|y b] H; simpl in *; try discriminate; [reflexivity|].
  inversion H. unfold allv in *. simpl. rewrite (IH b); [|assumption]. congruence.
Qed.

(* ---- clean_done ---- *)
Definition has_buf (s : sst) : Prop := buf s <> None.

Lemma is_done_true : forall s, is_done s = true -> buf s = None.
Proof. intros s H. unfold is_done in H. destruct (buf s); [rewrite andb_false_r in H; discriminate | reflexivity]. Qed.

Lemma filter_live_props : forall ss',
  Forall sst_ok ss' ->
  Forall (fun s' => buf s' = None -> closed s' = true /\ flat s' = []) ss' ->
  let ss1 := filter (fun s => negb (is_done s)) ss' in
  Forall sst_ok ss1 /\ Forall has_buf ss1 /\ allv ss1 = allv ss' /\
  (measure ss1 <= measure ss')%nat /\
  (length ss1 = length ss' \/ ((length ss1 < length ss')%nat /\ exists s, In s ss' /\ flat s = [])) /\
  (forall s, In s ss1 -> In s ss').
Proof.
  induction ss' as [|s r IH]; intros Hok Hn; simpl.
  - split; [constructor|]. split; [constructor|]. split; [reflexivity|]. split; [lia|].
    split; [left; reflexivity|]. intros s [].
  - inversion Hok as [|? ? Hs Hr]; subst. inversion Hn as [|? ? Hns Hnr]; subst.
    destruct (IH Hr Hnr) as [H1 [H2 [H3 [H4 [H5 H6]]]]].
    destruct (is_done s) eqn:Ed; simpl.
    + pose proof (is_done_true s Ed) as Hb. destruct (Hns Hb) as [_ Hfl].
      split; [exact H1|]. split; [exact H2|].
      split; [unfold allv in *; simpl; rewrite Hfl; simpl; exact H3|].
      split; [lia|].
      split.
      * right. split.
        -- destruct H5 as [H5|[H5 _]]; lia.
        -- exists s. split; [left; reflexivity | exact Hfl].
      * intros x Hx. right. apply H6. exact Hx.
    + split; [constructor; assumption|].
      split.
      { constructor; [|assumption]. unfold has_buf. intros Hb.
        destruct (Hns Hb) as [Hcl _]. unfold is_done in Ed. rewrite Hcl, Hb in Ed. discriminate. }
      split; [unfold allv in *; simpl; rewrite H3; reflexivity|].
      split; [lia|].
      split.
      * destruct H5 as [H5|[H5 [x [Hx Hfx]]]].
        -- left. lia.
        -- right. split; [lia|]. exists x. split; [right; exact Hx | exact Hfx].
      * intros x [Hx|Hx]; [left; exact Hx | right; apply H6; exact Hx].
Qed.

Lemma In_map_flat_transfer : forall a b s, map flat a = map flat b -> In s a -> exists s', In s' b /\ flat s' = flat s.
Proof.
  induction a as [|x a IH]; intros [|y b] s H Hin; simpl in *; try discriminate; [contradiction|].
  inversion H. destruct Hin as [Hin|Hin].
  - subst. exists y. split; [left; reflexivity | congruence].
  - destruct (IH b s H2 Hin) as [s' [Hs' Hf]]. exists s'. split; [right; exact Hs' | exact Hf].
Qed.

Lemma clean_done_ok : forall ss, Forall sst_ok ss ->
  exists ss1, clean_done ss = Some ss1 /\ Forall sst_ok ss1 /\ Forall has_buf ss1 /\
              allv ss1 = allv ss /\ (measure ss1 <= measure ss)%nat /\
              (length ss1 = length ss \/ ((length ss1 < length ss)%nat /\ exists s, In s ss /\ flat s = [])) /\
              (forall s1, In s1 ss1 -> exists s, In s ss /\ flat s = flat s1 /\ idx s = idx s1).
Proof.
  intros ss Hok.
  destruct (fetch_all_ok ss Hok) as [ss' [Hfa [Hok' [Hfl [Hid [Hms Hn]]]]]].
  destruct (filter_live_props ss' Hok' Hn) as [H1 [H2 [H3 [H4 [H5 H6]]]]].
  exists (filter (fun s => negb (is_done s)) ss'). unfold clean_done. rewrite Hfa.
  assert (Hlen : length ss' = length ss).
  { rewrite <- (map_length flat ss'), Hfl, map_length. reflexivity. }
  repeat split; try assumption.
  - rewrite H3. apply allv_map_flat. exact Hfl.
  - lia.
  - destruct H5 as [H5|[H5 [s [Hs Hfs]]]]; [left; lia|].
    right. split; [lia|].
    destruct (In_map_flat_transfer ss' ss s Hfl Hs) as [s0 [Hs0 Hf0]].
    exists s0. split; [exact Hs0 | congruence].
  - intros s1 Hs1. apply H6 in Hs1.
    clear - Hfl Hid Hs1. revert ss Hfl Hid.
    induction ss' as [|y b IH]; intros [|x a] Hfl Hid; simpl in *; try discriminate; [contradiction|].
    inversion Hfl. inversion Hid. destruct Hs1 as [Hs1|Hs1].
    + subst. exists x. split; [left; reflexivity | split; congruence].
    + destruct (IH Hs1 a H1 H3) as [s [Hs [Hf Hi]]]. exists s. split; [right; exact Hs | split; assumption].
Qed.

(* ---- heads ---- *)
(* s has head h: its buffer starts with h *)
Definition headed (s : sst) (h : N) : Prop := exists l f, buf s = Some (h :: l, f).

Lemma headed_flat : forall s h, headed s h -> flat s = h :: flat (pop s).
Proof.
  intros s h [l [f Hb]]. unfold flat, buf_vals, pop. rewrite Hb. simpl. reflexivity.
Qed.

Lemma pop_ok : forall s h, sst_ok s -> headed s h -> sst_ok (pop s) /\ S (msize (pop s)) = msize s /\ idx (pop s) = idx s.
Proof.
  intros s h [Hb [Hc Hcl]] [l [f Hbuf]]. unfold pop. rewrite Hbuf. rewrite Hbuf in Hb.
  unfold sst_ok, msize; simpl. rewrite Hbuf. repeat split; try assumption.
Qed.

Lemma heads_ok : forall ss, Forall sst_ok ss -> Forall has_buf ss ->
  (exists hs, heads ss = HsAll hs /\ Forall2 headed ss hs) \/
  (exists ss2, heads ss = HsRetry ss2 /\ Forall sst_ok ss2 /\ map flat ss2 = map flat ss /\
               map idx ss2 = map idx ss /\ (measure ss2 < measure ss)%nat).
Proof.
  induction ss as [|s r IH]; intros Hok Hb.
  - left. exists []. split; [reflexivity | constructor].
  - inversion Hok as [|? ? Hs Hr]; subst. inversion Hb as [|? ? Hbs Hbr]; subst.
    simpl. unfold head.
    destruct (buf s) as [[l f]|] eqn:Eb; [|exfalso; apply Hbs; exact Eb].
    destruct l as [|x l].
    + destruct f.
      * destruct Hs as [Hs _]. rewrite Eb in Hs. contradiction.
      * right. eexists. split; [reflexivity|].
        destruct Hs as [_ [Hc Hcl]].
        split; [|split; [|split]].
        -- constructor; [|assumption]. unfold sst_ok, set_buf; simpl.
           split; [exact I|]. split; assumption.
        -- simpl. f_equal. unfold flat, buf_vals, set_buf; simpl. rewrite Eb. reflexivity.
        -- reflexivity.
        -- rewrite !measure_cons. unfold msize, set_buf; simpl. rewrite Eb. lia.
    + destruct (IH Hr Hbr) as [[hs [Hh HF]]|[ss2 [Hh [Hok2 [Hfl [Hid Hm]]]]]].
      * left. exists (x :: hs). rewrite Hh. split; [reflexivity|].
        constructor; [|exact HF]. exists l, f. exact Eb.
      * right. exists (s :: ss2). rewrite Hh. split; [reflexivity|]. split; [|split; [|split]].
        -- constructor; assumption.
        -- simpl. congruence.
        -- simpl. congruence.
        -- rewrite !measure_cons. lia.
Qed.

(* ---- skip ---- *)
Lemma dropwhile_lt_split : forall t l, exists p, l = p ++ dropwhile_lt t l /\ Forall (fun a => a < t) p.
Proof.
  induction l as [|x r IH]; simpl.
  - exists []. split; [reflexivity | constructor].
  - destruct (x <? t) eqn:E.
    + destruct IH as [p [Hp Hall]]. exists (x :: p). split.
      * simpl. f_equal. exact Hp.
      * constructor; [apply N.ltb_lt; exact E | exact Hall].
    + exists []. split; [reflexivity | constructor].
Qed.

Lemma dropwhile_lt_head_lt : forall t x l, x < t -> (length (dropwhile_lt t (x :: l)) < length (x :: l))%nat.
Proof.
  intros t x l Hx. simpl. apply N.ltb_lt in Hx. rewrite Hx.
  destruct (dropwhile_lt_split t l) as [p [Hp _]].
  rewrite Hp at 2. rewrite app_length. lia.
Qed.

Lemma skip_ok : forall t s, sst_ok s ->
  exists s', skip t s = Some s' /\ sst_ok s' /\ idx s' = idx s /\
             (exists p, flat s = p ++ flat s' /\ Forall (fun a => a < t) p) /\
             (msize s' <= msize s)%nat /\
             (forall h, headed s h -> h < t -> (msize s' < msize s)%nat).
Proof.
  intros t s Hok. pose proof Hok as [Hb [Hc Hcl]]. unfold skip.
  destruct (buf s) as [[l f]|] eqn:Eb.
  - destruct f; [contradiction|].
    destruct (dropwhile_lt_split t l) as [p [Hp Hall]].
    assert (Hlen : length l = (length p + length (dropwhile_lt t l))%nat).
    { rewrite Hp at 1. apply app_length. }
    destruct (dropwhile_lt t l) as [|y l'] eqn:Ed.
    + eexists. split; [reflexivity|]. unfold sst_ok, set_buf, flat, buf_vals, msize; simpl. rewrite Eb.
      split; [split; [exact I|split; assumption]|].
      split; [reflexivity|].
      split.
      { exists p. rewrite app_nil_r in Hp. subst l. split; [reflexivity | exact Hall]. }
      split; [lia|]. intros h _ _. lia.
    + eexists. split; [reflexivity|]. unfold sst_ok, set_buf, flat, buf_vals, msize; simpl. rewrite Eb.
      split; [split; [exact I|split; assumption]|].
      split; [reflexivity|].
      split.
      { exists p. split; [|exact Hall]. rewrite Hp. rewrite <- app_assoc. reflexivity. }
      split; [simpl in Hlen; lia|].
      intros h [l0 [f0 Hh]] Hlt. rewrite Eb in Hh. injection Hh as Hl Hf.
      pose proof (dropwhile_lt_head_lt t h l0 Hlt) as Hd. rewrite <- Hl, Ed in Hd. simpl in *. lia.
  - exists s. split; [reflexivity|]. split; [exact Hok|]. split; [reflexivity|].
    split.
    { exists []. split; [reflexivity | constructor]. }
    split; [lia|].
    intros h [l0 [f0 Hh]]. rewrite Eb in Hh. discriminate.
Qed.

(* ---- initial states ---- *)
Lemma mk_stream_ok : forall i cs, stream_clean cs = true -> sst_ok (mk_stream i cs) /\ flat (mk_stream i cs) = cvals cs.
Proof.
  intros i cs H. unfold sst_ok, flat, buf_vals, mk_stream; simpl.
  split; [|reflexivity]. split; [exact I|]. split; [exact H|discriminate].
Qed.

Lemma csize_le_stream_size : forall cs, (csize cs + 3 <= stream_size cs)%nat.
Proof.
  induction cs as [|c r IH]; simpl; [lia|].
  unfold stream_size in *. simpl. destruct c; simpl; lia.
Qed.

Lemma mk_streams_props : forall css i, Forall (fun cs => stream_clean cs = true) css ->
  Forall sst_ok (mk_streams i css) /\ map flat (mk_streams i css) = map cvals css /\
  (measure (mk_streams i css) + 2 <= streams_size css)%nat /\ length (mk_streams i css) = length css.
Proof.
  induction css as [|cs r IH]; intros i Hall; simpl.
  - split; [constructor|]. split; [reflexivity|]. split; [|reflexivity]. unfold streams_size. simpl. lia.
  - inversion Hall as [|? ? Hc Hr]; subst.
    destruct (IH (S i) Hr) as [H1 [H2 [H3 H4]]].
    destruct (mk_stream_ok i cs Hc) as [Hok Hfl].
    split; [constructor; assumption|].
    split; [simpl; congruence|].
    split.
    + unfold streams_size in *. simpl. unfold msize, mk_stream; simpl.
      pose proof (csize_le_stream_size cs). lia.
    + simpl. congruence.
Qed.

(* ---- output ---- *)
Lemma finish_emit_many : forall xs ob, finish (emit_many xs ob) = finish ob ++ xs.
Proof.
  intros xs [o b]. unfold emit_many, finish; simpl.
  destruct (Nat.ltb thr (length (b ++ xs))); simpl; rewrite ?app_nil_r, ?app_assoc; reflexivity.
Qed.

Lemma finish_emit : forall x ob, finish (emit x ob) = finish ob ++ [x].
Proof. intros. apply finish_emit_many. Qed.

(* ---- more about clean_done: nothing is dropped when the number of streams is unchanged ---- *)
Lemma filter_len_le : forall (A : Type) (f : A -> bool) (l : list A), (length (filter f l) <= length l)%nat.
Proof. induction l as [|x r IH]; simpl; [lia|]. destruct (f x); simpl; lia. Qed.

Lemma filter_same_length : forall (A : Type) (f : A -> bool) (l : list A),
  length (filter f l) = length l -> filter f l = l.
Proof.
  induction l as [|x r IH]; simpl; intros H; [reflexivity|].
  destruct (f x); simpl in *.
  - f_equal. apply IH. lia.
  - pose proof (filter_len_le A f r). lia.
Qed.

Lemma clean_done_same_len : forall ss ss1, Forall sst_ok ss -> clean_done ss = Some ss1 ->
  length ss1 = length ss -> map flat ss1 = map flat ss /\ map idx ss1 = map idx ss.
Proof.
  intros ss ss1 Hok Hcd Hlen.
  destruct (fetch_all_ok ss Hok) as [ss' [Hfa [_ [Hfl [Hid _]]]]].
  unfold clean_done in Hcd. rewrite Hfa in Hcd. injection Hcd as Hcd. subst ss1.
  assert (Hl : length ss' = length ss).
  { rewrite <- (map_length flat ss'), Hfl, map_length. reflexivity. }
  rewrite filter_same_length; [split; assumption | lia].
Qed.
