(* Algorithm model of the default Check engine (internal/graph/check.go, default_resolver.go,
   ConditionsFilteredTupleKeyIterator, validation.ValidateTupleForRead) with the planner forced
   to the "default" strategy.  Faithful to the code, including its defects:
     - path-based cycle cut (VisitedPaths) returning Allowed=false + CycleDetected;
     - `exclusion` treating CycleDetected in the subtract branch as "subtract holds" (F1);
     - the condition filter dropping evaluation errors once another tuple passed (F2);
     - errors are not Kleene-combined inside a tuple list (error only when nothing passed);
     - depth counter incremented per dispatch, not per computed userset.
   The Go reducers receive child results in scheduler order; where that order is observable
   (which child's CycleDetected flag / which error is reported) the model returns the SET of
   possible outcomes. *)
From OFGA Require Export Sem.Semantics.
Open Scope N_scope.

Inductive aout :=
| AT            (* allowed *)
| AFn           (* denied, CycleDetected = false *)
| AFc           (* denied, CycleDetected = true *)
| AEc           (* error: condition could not be evaluated *)
| AEd           (* error: resolution depth exceeded *)
| AEo           (* error: other (undefined relation) *)
| AFuel.        (* model ran out of fuel: excluded by theorems, reported by the oracle *)

Definition aout_eqb (a b : aout) : bool :=
  match a, b with
  | AT, AT | AFn, AFn | AFc, AFc | AEc, AEc | AEd, AEd | AEo, AEo | AFuel, AFuel => true
  | _, _ => false
  end.

Definition oset := list aout.
Definition omem (a : aout) (s : oset) : bool := existsb (aout_eqb a) s.
Definition oadd (a : aout) (s : oset) : oset := if omem a s then s else s ++ [a].
Definition ounion (s t : oset) : oset := fold_left (fun acc a => oadd a acc) t s.

Definition is_false (a : aout) : bool := match a with AFn | AFc => true | _ => false end.
Definition is_err (a : aout) : bool := match a with AEc | AEd | AEo | AFuel => true | _ => false end.

(* union reducer / consumeDispatches, two children *)
Definition union2 (a b : aout) : oset :=
  match a, b with
  | AT, _ | _, AT => [AT]
  | _, _ =>
      if is_err a && is_err b then oadd b [a]
      else if is_err a then [a]
      else if is_err b then [b]
      else match a, b with AFc, _ | _, AFc => [AFc] | _, _ => [AFn] end
  end.

(* intersection reducer, two children *)
Definition inter2 (a b : aout) : oset :=
  if is_false a && is_false b then oadd b [a]
  else if is_false a then [a]
  else if is_false b then [b]
  else if is_err a && is_err b then oadd b [a]
  else if is_err a then [a]
  else if is_err b then [b]
  else [AT].

(* exclusion reducer: base a, subtract b *)
Definition excl2 (a b : aout) : oset :=
  let s1 := if is_false a then [a] else [] in
  let s2 := match b with AT => oadd AFn s1 | AFc => oadd AFc s1 | _ => s1 end in
  match s2 with
  | _ :: _ => s2
  | [] => if is_err a then [a] else if is_err b then [b] else [AT]
  end.

Definition lift2 (op : aout -> aout -> oset) (A B : oset) : oset :=
  fold_left (fun acc a => fold_left (fun acc' b => ounion acc' (op a b)) B acc) A [].

Record trig := { tr_excl_sub_cycle : bool; tr_swallow : bool }.
Definition notrig : trig := {| tr_excl_sub_cycle := false; tr_swallow := false |}.
Definition tor (x y : trig) : trig :=
  {| tr_excl_sub_cycle := tr_excl_sub_cycle x || tr_excl_sub_cycle y;
     tr_swallow := tr_swallow x || tr_swallow y |}.

Definition res := (oset * trig)%type.

Definition is_just_true (s : oset) : bool := match s with [AT] => true | _ => false end.

Section V1.
  Variable m : model.
  Variable conds : list cid.
  Variable store : list tuple.
  Variable subj : subject.
  Variable pathx : list (tid * rid).   (* (object type, relation) pairs for which typesys.PathExists holds for this user *)
  Variable maxdepth : nat.

  Definition path_exists (t : tid) (r : rid) : bool :=
    existsb (fun p => N.eqb (fst p) t && N.eqb (snd p) r) pathx.

  Definition valid (t : tuple) : bool := valid_for_read m conds t.

  (* the tuples a datastore read of (object, relation) returns, in store order *)
  Definition raw_of (o : obj) (r : rid) : list tuple :=
    filter (fun t => obj_eqb (t_obj t) o && N.eqb (t_rel t) r) store.

  (* ConditionsFilteredTupleKeyIterator drained: passing tuples; "an evaluation error occurred" *)
  Definition passing (ts : list tuple) : list tuple :=
    filter (fun t => match t_ceval t with T => true | _ => false end) ts.
  Definition has_err (ts : list tuple) : bool :=
    existsb (fun t => match t_ceval t with E => true | _ => false end) ts.

  (* children are evaluated left to right; a child that can only be `allowed` ends a union early
     (union2 absorbs everything into [AT], so this is an optimisation of the model only) *)
  Fixpoint union_all (hs : list (unit -> res)) : res :=
    match hs with
    | [] => ([AFn], notrig)
    | h :: hs' =>
        let '(s, t) := h tt in
        if is_just_true s then ([AT], t)
        else let '(s', t') := union_all hs' in (lift2 union2 s s', tor t t')
    end.

  Fixpoint inter_all (hs : list (unit -> res)) : res :=
    match hs with
    | [] => ([AT], notrig)
    | h :: hs' =>
        let '(s, t) := h tt in
        let '(s', t') := inter_all hs' in (lift2 inter2 s s', tor t t')
    end.

  (* IsDirectlyRelated(target, source) with source built from the request user *)
  Definition directly_related (rs : list restriction) : bool :=
    existsb (fun d => N.eqb (r_type d) (subject_type subj) &&
                      match subj, r_kind d with
                      | SSet _ r, RSet r' => N.eqb r r'
                      | SSet _ _, _ => false
                      | _, RObj => true
                      | _, _ => false
                      end) rs.

  Definition publicly_assignable (rs : list restriction) : bool :=
    match subj with
    | SSet _ _ => false
    | _ => existsb (fun d => N.eqb (r_type d) (subject_type subj) &&
                             match r_kind d with RWild => true | _ => false end) rs
    end.

  Definition has_userset_restr (rs : list restriction) : bool :=
    existsb (fun d => match r_kind d with RSet _ => true | _ => false end) rs.

  Definition in_userset_restr (rs : list restriction) (s : subject) : bool :=
    match s with
    | SSet o r => existsb (fun d => N.eqb (r_type d) (otype o) &&
                                    match r_kind d with RSet r' => N.eqb r r' | _ => false end) rs
    | _ => false
    end.

  (* checkDirectUserTuple *)
  Definition direct_user_tuple (o : obj) (r : rid) : res :=
    match find (fun t => subject_eqb (t_sub t) subj) (raw_of o r) with
    | None => ([AFn], notrig)
    | Some t =>
        if negb (valid t) then ([AFn], notrig)
        else match t_ceval t with
             | T => ([AT], notrig)
             | F => ([AFn], notrig)
             | E => ([AEc], notrig)
             end
    end.

  (* checkPublicAssignable *)
  Definition public_assignable (o : obj) (r : rid) : res :=
    let ts := filter (fun t => valid t && subject_eqb (t_sub t) (SWild (subject_type subj))) (raw_of o r) in
    match passing ts with
    | _ :: _ => ([AT], {| tr_excl_sub_cycle := false; tr_swallow := has_err ts |})
    | [] => if has_err ts then ([AEc], notrig) else ([AFn], notrig)
    end.

  Fixpoint check (fuel : nat) (depth : nat) (visited : list atom) (o : obj) (r : rid) {struct fuel} : res :=
    match fuel with
    | O => ([AFuel], notrig)
    | S f =>
        if Nat.eqb depth maxdepth then ([AEd], notrig)
        else if existsb (atom_eqb (o, r)) visited then ([AFc], notrig)
        else if subject_eqb subj (SSet o r) then ([AT], notrig)
        else
          match get_relation m (otype o) r with
          | None => ([AEo], notrig)
          | Some rd =>
              if negb (path_exists (otype o) r) then ([AFn], notrig)
              else
                let visited' := (o, r) :: visited in
                let dispatch (o' : obj) (r' : rid) : unit -> res :=
                    fun _ => check f (S depth) visited' o' r' in
                (fix eval (rw : rewrite) : res :=
                   match rw with
                   | This =>
                       let rs := rd_restr rd in
                       union_all (
                         (if directly_related rs then [fun _ => direct_user_tuple o r] else []) ++
                         (if publicly_assignable rs then [fun _ => public_assignable o r] else []) ++
                         (if has_userset_restr rs then
                            [fun _ =>
                               let ts := filter (fun t => valid t && in_userset_restr rs (t_sub t)) (raw_of o r) in
                               match passing ts with
                               | [] => if has_err ts then ([AEc], notrig) else ([AFn], notrig)
                               | ps =>
                                   let '(s, t) := union_all (flat_map (fun t => match t_sub t with
                                                                                | SSet o' r' => [dispatch o' r']
                                                                                | _ => [] end) ps) in
                                   (s, tor t {| tr_excl_sub_cycle := false; tr_swallow := has_err ts |})
                               end]
                          else []))
                   | Computed r' => check f depth visited' o r'
                   | TTU ts c =>
                       let tl := filter valid (raw_of o ts) in
                       match passing tl with
                       | [] => if has_err tl then ([AEc], notrig) else ([AFn], notrig)
                       | ps =>
                           let '(s, t) := union_all (flat_map (fun t => match t_sub t with
                                                                        | SObj o' => if rel_defined m (otype o') c
                                                                                     then [dispatch o' c] else []
                                                                        | _ => [] end) ps) in
                           (s, tor t {| tr_excl_sub_cycle := false; tr_swallow := has_err tl |})
                       end
                   | Union l =>
                       union_all ((fix go (l : list rewrite) : list (unit -> res) :=
                                     match l with [] => [] | x :: l' => (fun _ => eval x) :: go l' end) l)
                   | Inter l =>
                       inter_all ((fix go (l : list rewrite) : list (unit -> res) :=
                                     match l with [] => [] | x :: l' => (fun _ => eval x) :: go l' end) l)
                   | Diff b s =>
                       let '(sb, tb) := eval b in
                       let '(ss, ts) := eval s in
                       (lift2 excl2 sb ss,
                        tor (tor tb ts) {| tr_excl_sub_cycle := omem AFc ss; tr_swallow := false |})
                   end) (rd_rw rd)
          end
    end.

  (* the top-level request: depth 0, empty path *)
  Definition check_top (fuel : nat) (o : obj) (r : rid) : res := check fuel O [] o r.
End V1.
