(* Variants of the reference semantics that encode, one switch each, the ways in which the
   weighted-graph engine is KNOWN to deviate (documented breaking change or reproduced defect).
   The oracle uses them to NAME a deviation: an observed v2 answer that differs from Sem.holds3
   is attributed to a switch set only when it EQUALS the semantics with exactly those switches.
   With every switch off the evaluator is Sem.holds3 (V2Proofs.holds3q_noquirks).

   q_noreflex : a userset subject o#r is not a member of o#r by definition (the documented
                v1 -> v2 change behind the four userset shapes of v2breaking).
   q_noexpand : check.specificTypeAndRelation — when the subject is a userset of type T#R and a
                tuple's user is some o'#R of that same type T#R, the engine only looks for the
                exact tuple (ReadUserTuple) and does NOT expand o'#R, unless the weighted graph
                marks the edge recursive or part of a tuple cycle (the list `cyc`, taken from the
                real graph: edge/weight semantics of openfga/language are not re-derived).
   Store / model transformations:
   keep_last_recursive : modelgraph.canApplyRecursiveOptimization keeps only the LAST recursive
                edge of a relation and ResolveRecursive drops every recursive edge from the rest:
                a relation with two recursive edges loses all but the last one (object and
                wildcard subjects only: the recursion path is not taken for userset subjects).
   Definitions only. *)
From OFGA Require Export Sem.Semantics.
Open Scope N_scope.

Record quirks := {
  q_noreflex : bool;
  q_noexpand : bool;
  q_ttuwin : list (obj * rid);   (* see ttu_lost *)
  q_poison : list subject        (* see poisoned *)
}.
Definition noquirks : quirks := {| q_noreflex := false; q_noexpand := false; q_ttuwin := []; q_poison := [] |}.

Definition edge4 := (tid * rid * tid * rid)%type.
Definition edge4_eqb (a b : edge4) : bool :=
  let '(a1, a2, a3, a4) := a in
  let '(b1, b2, b3, b4) := b in
  N.eqb a1 b1 && N.eqb a2 b2 && N.eqb a3 b3 && N.eqb a4 b4.

Section V2Sem.
  Variable q : quirks.
  Variable cyc : list edge4.     (* (object type, relation, userset type, userset relation) *)
  Variable cyc_ttu : list edge4. (* (object type, relation, parent type, computed relation): TTU edges marked recursive / tuple cycle *)
  Variable m : model.
  Variable conds : list cid.
  Variable store : list tuple.
  Variable subj : subject.

  Definition atomval_q (v : valuation) (o : obj) (r : rid) : b3 :=
    if negb (q_noreflex q) && subject_eqb subj (SSet o r) then T else vget v (o, r).

  (* the tuple's userset has the subject's own type#relation and the edge is not expanded *)
  Definition not_expanded (t : tuple) (o' : obj) (r' : rid) : bool :=
    q_noexpand q &&
    match subj with
    | SSet so sr =>
        N.eqb (otype so) (otype o') && N.eqb sr r' &&
        negb (existsb (edge4_eqb (otype (t_obj t), t_rel t, otype o', r')) cyc)
    | _ => false
    end.

  (* check.buildIterator puts the shared-visited filter BEFORE the condition filter: on the edges
     that carry the visited set (recursive / tuple cycle) a tuple whose condition is not met still
     marks its user as visited, and that user is then never expanded through another tuple.
     q_poison lists the users this happened to (which ones depends on the read order). *)
  Definition poisoned (t : tuple) : bool :=
    match q_poison q with
    | [] => false
    | ps => existsb (subject_eqb (t_sub t)) ps
    end.

  Definition direct1_q (v : valuation) (t : tuple) : b3 :=
    if subject_eqb (t_sub t) subj then t_ceval t
    else match t_sub t with
         | SWild ty => match subj with
                       | SObj so => if N.eqb (otype so) ty then t_ceval t else F
                       | _ => F
                       end
         | SSet o' r' =>
             if not_expanded t o' r' then F
             else if poisoned t && existsb (edge4_eqb (otype (t_obj t), t_rel t, otype o', r')) cyc then F
             else and3 (t_ceval t) (atomval_q v o' r')
         | SObj _ => F
         end.

  (* check.ttu builds the visited key of a tupleset tuple from its user alone (the parent object,
     without the computed relation): of two TTU edges over the same parent that both carry the
     visited set, only the one that reads the parent first follows it.  q_ttuwin says, per
     parent object, which computed relation won. *)
  Definition ttu_lost (r c : rid) (t : tuple) (o' : obj) : bool :=
    match find (fun p => obj_eqb (fst p) o') (q_ttuwin q) with
    | None => false
    | Some p => negb (N.eqb (snd p) c) && existsb (edge4_eqb (otype (t_obj t), r, otype o', c)) cyc_ttu
    end.

  Definition ttu1_q (v : valuation) (r c : rid) (t : tuple) : b3 :=
    match t_sub t with
    | SObj o' =>
        if rel_defined m (otype o') c
        then (if ttu_lost r c t o' then F
              else if poisoned t && existsb (edge4_eqb (otype (t_obj t), r, otype o', c)) cyc_ttu then F
              else and3 (t_ceval t) (atomval_q v o' c))
        else F
    | _ => F
    end.

  Fixpoint eval_rw_q (v : valuation) (o : obj) (r : rid) (rw : rewrite) : b3 :=
    match rw with
    | This => or3_list (map (direct1_q v) (tuples_of m conds store o r))
    | Computed r' => atomval_q v o r'
    | TTU ts c => or3_list (map (ttu1_q v r c) (tuples_of m conds store o ts))
    | Union l => or3_list ((fix go (l : list rewrite) := match l with [] => [] | x :: l' => eval_rw_q v o r x :: go l' end) l)
    | Inter l => and3_list ((fix go (l : list rewrite) := match l with [] => [] | x :: l' => eval_rw_q v o r x :: go l' end) l)
    | Diff b s => diff3 (eval_rw_q v o r b) (eval_rw_q v o r s)
    end.

  Definition eval_atom_q (v : valuation) (a : atom) : b3 :=
    match get_relation m (otype (fst a)) (snd a) with
    | Some rd => eval_rw_q v (fst a) (snd a) (rd_rw rd)
    | None => F
    end.

  Variable atoms : list atom.

  Definition step_at_q (k : nat) (v : valuation) : valuation :=
    map (fun a => (a, eval_atom_q v a)) (atoms_at m atoms k) ++
    filter (fun p => negb (existsb (atom_eqb (fst p)) (atoms_at m atoms k))) v.

  Fixpoint lfp_at_q (k : nat) (fuel : nat) (v : valuation) : valuation * bool :=
    match fuel with
    | O => (v, false)
    | S f => let v' := step_at_q k v in
             if val_eqb_on (atoms_at m atoms k) v v' then (v', true) else lfp_at_q k f v'
    end.

  Fixpoint run_strata_q (k : nat) (todo : nat) (fuel : nat) (v : valuation) : valuation * bool :=
    match todo with
    | O => (v, true)
    | S n => let '(v', ok) := lfp_at_q k fuel v in
             let '(v'', ok') := run_strata_q (S k) n fuel v' in
             (v'', ok && ok')
    end.

  Definition lfp_q : valuation * bool := run_strata_q O (S (max_level m)) (round_fuel atoms) [].
  Definition holds3_q (o : obj) (r : rid) : b3 := atomval_q (fst lfp_q) o r.
End V2Sem.

(* ---- keep_last_recursive ---- *)
(* recursive leaves of relation t#r, in the order of the weighted graph's edges: the rewrite's
   union structure left to right; a direct assignment contributes its self-referential userset
   restriction t#r, a TTU `r from ts` is recursive when ts allows objects of type t *)
Definition self_restr (t : tid) (r : rid) (d : restriction) : bool :=
  N.eqb (r_type d) t && match r_kind d with RSet x => N.eqb x r | _ => false end.

Definition ttu_recursive (m : model) (t : tid) (r : rid) (ts c : rid) : bool :=
  N.eqb c r &&
  match get_relation m t ts with
  | Some tsd => existsb (fun d => N.eqb (r_type d) t && match r_kind d with RObj => true | _ => false end) (rd_restr tsd)
  | None => false
  end.

Fixpoint count_rec (m : model) (t : tid) (self : reldef) (rw : rewrite) : nat :=
  match rw with
  | This => if existsb (self_restr t (rd_rel self)) (rd_restr self) then 1%nat else 0%nat
  | TTU ts c => if ttu_recursive m t (rd_rel self) ts c then 1%nat else 0%nat
  | Union l => (fix go (l : list rewrite) := match l with [] => 0%nat | x :: l' => (count_rec m t self x + go l')%nat end) l
  | _ => 0%nat
  end.

Definition two_recursive (m : model) (t : tid) (rd : reldef) : bool :=
  Nat.leb 2 (count_rec m t rd (rd_rw rd)).

Definition has_two_recursive (m : model) : bool :=
  existsb (fun d => existsb (two_recursive m (td_type d)) (td_rels d)) m.

(* remove every recursive leaf but the last one: `skip` = number of recursive leaves still to
   remove; returns the rewrite, whether the self-referential restriction must go, and the rest *)
Definition dead : rewrite := Union [].

Fixpoint prune_rec (m : model) (t : tid) (self : reldef) (rw : rewrite) (skip : nat) : rewrite * bool * nat :=
  match rw with
  | This =>
      if existsb (self_restr t (rd_rel self)) (rd_restr self)
      then match skip with O => (This, false, O) | S k => (This, true, k) end
      else (This, false, skip)
  | TTU ts c =>
      if ttu_recursive m t (rd_rel self) ts c
      then match skip with
           | O => (rw, false, O)
           | S k => (Inter [rw; dead], false, k)    (* always false, `ts` stays a tupleset relation *)
           end
      else (rw, false, skip)
  | Union l =>
      let '(l', drop, k) :=
        (fix go (l : list rewrite) (skip : nat) : list rewrite * bool * nat :=
           match l with
           | [] => ([], false, skip)
           | x :: rest =>
               let '(x', d1, k1) := prune_rec m t self x skip in
               let '(rest', d2, k2) := go rest k1 in
               (x' :: rest', d1 || d2, k2)
           end) l skip in
      (Union l', drop, k)
  | _ => (rw, false, skip)
  end.

Definition keep_last_reldef (m : model) (t : tid) (rd : reldef) : reldef :=
  let n := count_rec m t rd (rd_rw rd) in
  if Nat.leb 2 n then
    let '(rw', drop, _) := prune_rec m t rd (rd_rw rd) (Nat.pred n) in
    {| rd_rel := rd_rel rd; rd_rw := rw';
       rd_restr := if drop then filter (fun d => negb (self_restr t (rd_rel rd) d)) (rd_restr rd) else rd_restr rd |}
  else rd.

Definition keep_last_recursive (m : model) : model :=
  map (fun d => {| td_type := td_type d; td_rels := map (keep_last_reldef m (td_type d)) (td_rels d) |}) m.

(* ---- swallow ---- *)
(* internal/iterator/filter.go (the weighted-graph engine's own condition filter) has the same
   `onceValid` rule as the default engine's ConditionsFilteredTupleKeyIterator (C01 finding
   cond_err_swallowed): an evaluation error is dropped as soon as ANOTHER tuple of the same
   filtered iterator passed.  Which tuples share an iterator depends on the strategy:
   object-side reads (default strategy: tuples of one object#relation with one user type) or
   user-side reads (weight2 / recursive: tuples of one user on one object type#relation). *)
Definition same_user_group (a b : subject) : bool :=
  match a, b with
  | SObj x, SObj y => N.eqb (otype x) (otype y)
  | SWild x, SWild y => N.eqb x y
  | SSet x r, SSet y s => N.eqb (otype x) (otype y) && N.eqb r s
  | _, _ => false
  end.

Definition same_iter (by_obj by_user : bool) (a b : tuple) : bool :=
  N.eqb (t_rel a) (t_rel b) && N.eqb (otype (t_obj a)) (otype (t_obj b)) &&
  ((by_obj && obj_eqb (t_obj a) (t_obj b) && same_user_group (t_sub a) (t_sub b)) ||
   (by_user && subject_eqb (t_sub a) (t_sub b))).

Definition swallow (m : model) (conds : list cid) (by_obj by_user : bool) (store : list tuple) : list tuple :=
  let vs := filter (valid_for_read m conds) store in
  map (fun t =>
         match t_ceval t with
         | E =>
             if valid_for_read m conds t &&
                existsb (fun t' => match t_ceval t' with T => same_iter by_obj by_user t t' | _ => false end) vs
             then {| t_obj := t_obj t; t_rel := t_rel t; t_sub := t_sub t; t_cond := t_cond t; t_ceval := F |}
             else t
         | _ => t
         end) store.

(* ---- strip_ttu_userset ---- *)
(* check.ttu / resolveRecursiveTTU read the tupleset relation with the user filter "<type>:" (a
   prefix) and map every returned user through SplitObjectRelation: a leftover tuple
   object#tupleset@type:id#rel (not writable under the current model) is used as
   object#tupleset@type:id. *)
Definition strip_ttu_userset (m : model) (store : list tuple) : list tuple :=
  map (fun t =>
         match t_sub t with
         | SSet o' _ =>
             if is_tupleset m (otype (t_obj t)) (t_rel t)
             then {| t_obj := t_obj t; t_rel := t_rel t; t_sub := SObj o'; t_cond := t_cond t; t_ceval := t_ceval t |}
             else t
         | _ => t
         end) store.

Definition has_ttu_userset (m : model) (store : list tuple) : bool :=
  existsb (fun t => match t_sub t with SSet _ _ => is_tupleset m (otype (t_obj t)) (t_rel t) | _ => false end) store.

(* ---- strict_cond ---- *)
(* validation.validateCondition (default engine, AS CODED, Sem/Valid.v cond_ok) accepts a
   conditioned tuple when ANY restriction of the user's type carries the condition (C18 finding);
   the weighted graph keeps the conditions per edge, i.e. per restriction KIND: the weighted-graph
   engine only accepts the tuple when a restriction of the same kind carries the condition. *)
Definition strictly_conditioned (m : model) (t : tuple) : bool :=
  N.eqb (t_cond t) 0 ||
  match get_relation m (otype (t_obj t)) (t_rel t) with
  | Some rd =>
      existsb (fun d => N.eqb (r_type d) (subject_type (t_sub t)) && kind_eqb (r_kind d) (subject_kind (t_sub t))
                        && N.eqb (r_cond d) (t_cond t)) (rd_restr rd)
  | None => false
  end.

Definition strict_cond (m : model) (conds : list cid) (store : list tuple) : list tuple :=
  filter (fun t => negb (valid_for_read m conds t) || strictly_conditioned m t) store.

Definition has_lax_cond (m : model) (conds : list cid) (store : list tuple) : bool :=
  existsb (fun t => valid_for_read m conds t && negb (strictly_conditioned m t)) store.
