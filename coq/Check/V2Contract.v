(* The C03 contract as a decidable relation over what is observed for ONE request:
     subject kind, value of the reference semantics (Sem.holds3), outcome of the default engine,
     outcome of the weighted-graph engine (decision or error class), the reason the
     breaking-change detector reports for the request, whether the fallback-enabled
     configuration fell back, and that configuration's final answer.
   Definitions only; V2Proofs.c03_ok_iff_statement relates c03_ok to the three clauses. *)
From OFGA Require Export Check.V2Breaking.
Open Scope N_scope.

Record obs := {
  ob_kind : skind;
  ob_spec : b3;
  ob_v1 : dec;
  ob_v2 : v2out;
  ob_reason : reason;
  ob_fallback : bool;
  ob_final : dec
}.

Definition dec_eqb (a b : dec) : bool :=
  match a, b with DT, DT | DF, DF | DE, DE => true | _, _ => false end.

Definition is_kobj (k : skind) : bool := match k with KObj => true | _ => false end.

(* clause 1: object subject, v2 decided => the decision is the reference semantics *)
Definition clause1 (x : obs) : bool :=
  if is_kobj (ob_kind x) then
    match ob_v2 x with
    | V2T => b3_eqb (ob_spec x) T
    | V2F => b3_eqb (ob_spec x) F
    | V2E _ => true
    end
  else true.

(* clause 2: userset / wildcard subject, both engines decided and differ => a reason is reported *)
Definition clause2 (x : obs) : bool :=
  if is_kobj (ob_kind x) then true
  else match ob_v1 x, ob_v2 x with
       | DT, V2F | DF, V2T => negb (is_none (ob_reason x))
       | _, _ => true
       end.

(* clause 3: a v2 error is a documented request-shape error or the fallback was taken; and when
   the fallback was taken the final answer is the default engine's *)
Definition clause3 (x : obs) : bool :=
  match ob_v2 x with
  | V2E e => documented_error e || ob_fallback x
  | _ => true
  end &&
  (if ob_fallback x then dec_eqb (ob_final x) (ob_v1 x) else true).

Definition c03_ok (x : obs) : bool := clause1 x && clause2 x && clause3 x.

(* the same three clauses as propositions (the statement of the property) *)
Definition v2_decided (x : obs) (b : bool) : Prop :=
  ob_v2 x = (if b then V2T else V2F).
Definition v1_decided (x : obs) (b : bool) : Prop :=
  ob_v1 x = (if b then DT else DF).

Definition P1 (x : obs) : Prop :=
  ob_kind x = KObj -> forall b, v2_decided x b -> ob_spec x = of_bool b.

Definition P2 (x : obs) : Prop :=
  ob_kind x <> KObj -> forall a b, v1_decided x a -> v2_decided x b -> a <> b -> ob_reason x <> RNone.

Definition P3 (x : obs) : Prop :=
  (forall e, ob_v2 x = V2E e -> documented_error e = true \/ ob_fallback x = true) /\
  (ob_fallback x = true -> ob_final x = ob_v1 x).
