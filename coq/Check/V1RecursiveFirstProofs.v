(* Proofs about the first level of the recursive strategy (Check/V1RecursiveFirst.v: the `select`
   loop that merges the object side with the user side before the breadth-first search starts):

   - first_level_terminates            the fuel of first_level always suffices
   - first_level_matched_iff           a first-level hit is answered exactly when the two sides
                                       have a common element, for EVERY schedule
   - first_level_nouser_iff            FLNoUser is answered exactly when one side is empty
   - first_level_search_sets           when the search starts the two sets are complete
   - first_level_order_irrelevant      the class of the answer does not depend on the schedule
   - first_level_agrees_with_rec_fast  ... and is the set-wise test of V1Recursive.rec_fast
   - non-vacuity examples *)
From Coq Require Import List NArith Bool Arith Lia.
From OFGA Require Import Check.V1Weight2 Check.V1Recursive Check.V1RecursiveFirst.
Import ListNotations.

(* ------------------------------------------------------------------------------------------ *)
(* membership *)

Lemma fl_memN_In : forall x l, memN x l = true <-> In x l.
Proof.
  intros x l. unfold memN. rewrite existsb_exists. split.
  - intros [y [Hin Heq]]. apply N.eqb_eq in Heq. subst y. exact Hin.
  - intros Hin. exists x. split; [exact Hin | apply N.eqb_refl].
Qed.

Lemma fl_memN_false_In : forall x l, memN x l = false -> In x l -> False.
Proof.
  intros x l Hm Hin. apply fl_memN_In in Hin. rewrite Hin in Hm. discriminate.
Qed.

Lemma fl_intersects_iff : forall a b, intersects a b = true <-> exists x, In x a /\ In x b.
Proof.
  intros a b. unfold intersects. rewrite existsb_exists.
  split; intros [x [H1 H2]]; exists x; (split; [exact H1 | apply fl_memN_In; exact H2]).
Qed.

Lemma fl_in_mid : forall (z x : N) a b, In z ((x :: a) ++ b) <-> In z (a ++ x :: b).
Proof.
  intros z x a b. simpl. rewrite !in_app_iff. simpl. tauto.
Qed.

Lemma fl_nil_ext : forall (a b : list N), (forall x, In x a <-> In x b) -> a = [] -> b = [].
Proof.
  intros a b Heq Ha. subst a. destruct b as [|y b']; [reflexivity|].
  exfalso. apply (Heq y). left. reflexivity.
Qed.

(* ------------------------------------------------------------------------------------------ *)
(* one step of the loop *)

Lemma fl_loop_S : forall f sched user obj uopen oopen uset oset,
  fl_loop (S f) sched user obj uopen oopen uset oset =
  if negb (uopen || oopen) then Some (FLSearch uset oset)
  else
    if (if uopen then ((match sched with b :: _ => b | [] => true end) || negb oopen) else false)
    then
      match user with
      | [] => match uset with
              | [] => Some FLNoUser
              | _ => fl_loop f (tl sched) user obj false oopen uset oset
              end
      | x :: user' =>
          if memN x oset then Some FLMatched
          else fl_loop f (tl sched) user' obj uopen oopen (x :: uset) oset
      end
    else
      match obj with
      | [] => fl_loop f (tl sched) user obj uopen false uset oset
      | y :: obj' =>
          if memN y uset then Some FLMatched
          else fl_loop f (tl sched) user obj' uopen oopen uset (y :: oset)
      end.
Proof. reflexivity. Qed.

Lemma fl_take_user_true : forall (uopen oopen pick : bool),
  (if uopen then (pick || negb oopen) else false) = true -> uopen = true.
Proof. intros uopen oopen pick H. destruct uopen; [reflexivity | discriminate]. Qed.

Lemma fl_take_user_false : forall (uopen oopen pick : bool),
  negb (uopen || oopen) = false ->
  (if uopen then (pick || negb oopen) else false) = false -> oopen = true.
Proof.
  intros uopen oopen pick Hn H. destruct uopen, oopen, pick; simpl in *;
    try reflexivity; discriminate.
Qed.

(* ------------------------------------------------------------------------------------------ *)
(* 1. termination *)

Definition fl_b2n (b : bool) : nat := if b then 1%nat else 0%nat.

Lemma fl_loop_terminates : forall fuel sched user obj uopen oopen uset oset,
  (length user + length obj + fl_b2n uopen + fl_b2n oopen < fuel)%nat ->
  fl_loop fuel sched user obj uopen oopen uset oset <> None.
Proof.
  induction fuel as [|f IH]; intros sched user obj uopen oopen uset oset Hm.
  - lia.
  - rewrite fl_loop_S.
    destruct (negb (uopen || oopen)) eqn:Hn; [discriminate|].
    destruct (if uopen then _ else false) eqn:Htake.
    + apply fl_take_user_true in Htake. subst uopen.
      destruct user as [|x user'].
      * destruct uset as [|a uset0]; [discriminate|].
        apply IH. simpl in *. lia.
      * destruct (memN x oset); [discriminate|].
        apply IH. simpl in *. lia.
    + apply (fl_take_user_false _ _ _ Hn) in Htake. subst oopen.
      destruct obj as [|y obj'].
      * apply IH. simpl in *. lia.
      * destruct (memN y uset); [discriminate|].
        apply IH. simpl in *. lia.
Qed.

Theorem first_level_terminates : forall sched user obj, first_level sched user obj <> None.
Proof.
  intros sched user obj. unfold first_level.
  destruct obj as [|y obj']; [discriminate|].
  apply fl_loop_terminates. simpl. lia.
Qed.

(* ------------------------------------------------------------------------------------------ *)
(* the loop invariant: what an answer says about everything the user side (U) and the object side
   (O) have delivered and will deliver *)

Definition fl_post (U O : list N) (r : flres) : Prop :=
  match r with
  | FLMatched => exists x, In x U /\ In x O
  | FLNoUser => U = []
  | FLSearch us os =>
      (forall x, In x us <-> In x U) /\ (forall x, In x os <-> In x O) /\
      U <> [] /\ ~ (exists x, In x U /\ In x O)
  end.

Lemma fl_post_ext : forall U O U' O' r,
  (forall x, In x U <-> In x U') -> (forall x, In x O <-> In x O') ->
  fl_post U O r -> fl_post U' O' r.
Proof.
  intros U O U' O' r HU HO Hp. destruct r as [| |us os]; simpl in *.
  - destruct Hp as [x [Hx1 Hx2]]. exists x. split; [apply HU; exact Hx1 | apply HO; exact Hx2].
  - exact (fl_nil_ext _ _ HU Hp).
  - destruct Hp as [Hus [Hos [Hne Hno]]]. split; [|split; [|split]].
    + intros x. rewrite (Hus x). apply HU.
    + intros x. rewrite (Hos x). apply HO.
    + intros HU'. apply Hne.
      apply (fl_nil_ext U' U); [|exact HU']. intros x. symmetry. apply HU.
    + intros [x [Hx1 Hx2]]. apply Hno. exists x.
      split; [apply HU; exact Hx1 | apply HO; exact Hx2].
Qed.

Lemma fl_loop_spec : forall fuel sched user obj uopen oopen uset oset r,
  (uopen = false -> user = [] /\ uset <> []) ->
  (oopen = false -> obj = []) ->
  (forall x, In x uset -> In x oset -> False) ->
  fl_loop fuel sched user obj uopen oopen uset oset = Some r ->
  fl_post (uset ++ user) (oset ++ obj) r.
Proof.
  induction fuel as [|f IH];
    intros sched user obj uopen oopen uset oset r Huc Hoc Hdisj Hrun.
  - simpl in Hrun. discriminate.
  - rewrite fl_loop_S in Hrun.
    destruct (negb (uopen || oopen)) eqn:Hn.
    { (* both channels closed *)
      inversion Hrun; subst r.
      destruct uopen; [simpl in Hn; discriminate|].
      destruct oopen; [simpl in Hn; discriminate|].
      destruct (Huc eq_refl) as [Hu Hne]. rewrite Hu, (Hoc eq_refl), !app_nil_r.
      simpl. split; [|split; [|split]].
      - intros x. tauto.
      - intros x. tauto.
      - exact Hne.
      - intros [x [Hx1 Hx2]]. exact (Hdisj x Hx1 Hx2). }
    destruct (if uopen then _ else false) eqn:Htake.
    + apply fl_take_user_true in Htake. subst uopen.
      destruct user as [|x user'].
      * destruct uset as [|a uset0].
        -- inversion Hrun; subst r. simpl. reflexivity.
        -- assert (Huc' : false = false -> @nil N = [] /\ a :: uset0 <> []).
           { intros _. split; [reflexivity | discriminate]. }
           exact (IH _ _ _ _ _ _ _ _ Huc' Hoc Hdisj Hrun).
      * destruct (memN x oset) eqn:Hmem.
        -- inversion Hrun; subst r. simpl. exists x. split.
           ++ apply in_or_app. right. left. reflexivity.
           ++ apply in_or_app. left. apply fl_memN_In. exact Hmem.
        -- assert (Huc' : true = false -> user' = [] /\ x :: uset <> []).
           { intros Hf. discriminate. }
           assert (Hdisj' : forall z, In z (x :: uset) -> In z oset -> False).
           { intros z [Hz|Hz] Hz2.
             - subst z. exact (fl_memN_false_In _ _ Hmem Hz2).
             - exact (Hdisj z Hz Hz2). }
           apply (fl_post_ext ((x :: uset) ++ user') (oset ++ obj)).
           ++ intros z. apply fl_in_mid.
           ++ intros z. tauto.
           ++ exact (IH _ _ _ _ _ _ _ _ Huc' Hoc Hdisj' Hrun).
    + apply (fl_take_user_false _ _ _ Hn) in Htake. subst oopen.
      destruct obj as [|y obj'].
      * exact (IH _ _ _ _ _ _ _ _ Huc (fun _ => eq_refl) Hdisj Hrun).
      * destruct (memN y uset) eqn:Hmem.
        -- inversion Hrun; subst r. simpl. exists y. split.
           ++ apply in_or_app. left. apply fl_memN_In. exact Hmem.
           ++ apply in_or_app. right. left. reflexivity.
        -- assert (Hoc' : true = false -> obj' = []).
           { intros Hf. discriminate. }
           assert (Hdisj' : forall z, In z uset -> In z (y :: oset) -> False).
           { intros z Hz1 [Hz2|Hz2].
             - subst z. exact (fl_memN_false_In _ _ Hmem Hz1).
             - exact (Hdisj z Hz1 Hz2). }
           apply (fl_post_ext (uset ++ user) ((y :: oset) ++ obj')).
           ++ intros z. tauto.
           ++ intros z. apply fl_in_mid.
           ++ exact (IH _ _ _ _ _ _ _ _ Huc Hoc' Hdisj' Hrun).
Qed.

(* the whole first level *)
Lemma first_level_spec : forall sched user obj r,
  first_level sched user obj = Some r ->
  (obj = [] /\ r = FLNoUser) \/ (obj <> [] /\ fl_post user obj r).
Proof.
  intros sched user obj r Hrun. unfold first_level in Hrun.
  destruct obj as [|y obj'].
  - left. inversion Hrun. split; reflexivity.
  - right. split; [discriminate|].
    assert (Huc : true = false -> user = [] /\ @nil N <> []) by (intros Hf; discriminate).
    assert (Hoc : true = false -> obj' = []) by (intros Hf; discriminate).
    assert (Hdisj : forall x, In x (@nil N) -> In x [y] -> False) by (intros x []).
    exact (fl_loop_spec _ _ _ _ _ _ _ _ _ Huc Hoc Hdisj Hrun).
Qed.

(* ------------------------------------------------------------------------------------------ *)
(* 2. a first-level hit is found exactly when the two sides have a common element *)

Theorem first_level_matched_iff : forall sched user obj r,
  first_level sched user obj = Some r ->
  (r = FLMatched <-> exists x, In x user /\ In x obj).
Proof.
  intros sched user obj r Hrun.
  destruct (first_level_spec _ _ _ _ Hrun) as [[Ho Hr]|[Ho Hp]].
  - subst obj r. split; [intros Hf; discriminate|].
    intros [x [_ Hx]]. destruct Hx.
  - destruct r as [| |us os]; simpl in Hp.
    + split; [intros _; exact Hp | intros _; reflexivity].
    + subst user. split; [intros Hf; discriminate|].
      intros [x [Hx _]]. destruct Hx.
    + destruct Hp as [_ [_ [_ Hno]]]. split; [intros Hf; discriminate|].
      intros Hex. exfalso. exact (Hno Hex).
Qed.

(* ------------------------------------------------------------------------------------------ *)
(* 3. FLNoUser is answered exactly when one of the sides is empty *)

Theorem first_level_nouser_iff : forall sched user obj r,
  first_level sched user obj = Some r ->
  (r = FLNoUser <-> (obj = [] \/ user = [])).
Proof.
  intros sched user obj r Hrun.
  destruct (first_level_spec _ _ _ _ Hrun) as [[Ho Hr]|[Ho Hp]].
  - subst obj r. split; [intros _; left; reflexivity | intros _; reflexivity].
  - destruct r as [| |us os]; simpl in Hp.
    + split; [intros Hf; discriminate|].
      destruct Hp as [x [Hx1 Hx2]]. intros [He|He]; subst; destruct Hx1 || destruct Hx2.
    + split; [intros _; right; exact Hp | intros _; reflexivity].
    + destruct Hp as [_ [_ [Hne _]]]. split; [intros Hf; discriminate|].
      intros [He|He]; [exfalso; exact (Ho He) | exfalso; exact (Hne He)].
Qed.

(* ------------------------------------------------------------------------------------------ *)
(* 4. when the search starts, the two sets are complete *)

Theorem first_level_search_sets : forall sched user obj us os,
  first_level sched user obj = Some (FLSearch us os) ->
  (forall x, In x us <-> In x user) /\ (forall x, In x os <-> In x obj) /\
  user <> [] /\ ~ (exists x, In x user /\ In x obj).
Proof.
  intros sched user obj us os Hrun.
  destruct (first_level_spec _ _ _ _ Hrun) as [[Ho Hr]|[Ho Hp]].
  - discriminate.
  - exact Hp.
Qed.

(* ------------------------------------------------------------------------------------------ *)
(* 5. the class of the answer, computed without the schedule *)

Definition fl_class_of (user obj : list N) : N :=
  match obj with
  | [] => 1%N
  | _ :: _ =>
      match user with
      | [] => 1%N
      | _ :: _ => if intersects user obj then 0%N else 2%N
      end
  end.

Lemma first_level_class : forall sched user obj,
  fl_class (first_level sched user obj) = fl_class_of user obj.
Proof.
  intros sched user obj.
  destruct (first_level sched user obj) as [r|] eqn:Hrun.
  - pose proof (first_level_matched_iff _ _ _ _ Hrun) as Hm.
    pose proof (first_level_nouser_iff _ _ _ _ Hrun) as Hn.
    unfold fl_class_of.
    destruct obj as [|y obj'].
    + assert (Hr : r = FLNoUser) by (apply Hn; left; reflexivity).
      subst r. reflexivity.
    + destruct user as [|x user'].
      * assert (Hr : r = FLNoUser) by (apply Hn; right; reflexivity).
        subst r. reflexivity.
      * destruct (intersects (x :: user') (y :: obj')) eqn:Hi.
        -- apply fl_intersects_iff in Hi. apply Hm in Hi. subst r. reflexivity.
        -- destruct r as [| |us os].
           ++ exfalso. assert (Hex : exists z, In z (x :: user') /\ In z (y :: obj')).
              { apply Hm. reflexivity. }
              apply fl_intersects_iff in Hex. rewrite Hex in Hi. discriminate.
           ++ exfalso. assert (Hor : y :: obj' = [] \/ x :: user' = []).
              { apply Hn. reflexivity. }
              destruct Hor as [Hor|Hor]; discriminate.
           ++ reflexivity.
  - exfalso. exact (first_level_terminates _ _ _ Hrun).
Qed.

Theorem first_level_order_irrelevant : forall s1 s2 user obj,
  fl_class (first_level s1 user obj) = fl_class (first_level s2 user obj).
Proof.
  intros s1 s2 user obj. rewrite !first_level_class. reflexivity.
Qed.

(* ------------------------------------------------------------------------------------------ *)
(* 6. the set-wise test of V1Recursive.rec_fast (targets = user, first = obj) *)

Lemma fl_existsb_swap : forall user obj,
  existsb (fun y => memN y user) obj = intersects user obj.
Proof.
  intros user obj. apply eq_true_iff_eq. rewrite fl_intersects_iff, existsb_exists.
  split.
  - intros [y [Hy1 Hy2]]. exists y. split; [apply fl_memN_In; exact Hy2 | exact Hy1].
  - intros [y [Hy1 Hy2]]. exists y. split; [exact Hy2 | apply fl_memN_In; exact Hy1].
Qed.

Theorem first_level_agrees_with_rec_fast : forall sched user obj,
  fl_class (first_level sched user obj) = 0%N <->
  (obj <> [] /\ user <> [] /\ existsb (fun y => memN y user) obj = true).
Proof.
  intros sched user obj. rewrite first_level_class, fl_existsb_swap. unfold fl_class_of.
  destruct obj as [|y obj'].
  - split; [intros Hf; discriminate | intros [Hf _]; exfalso; apply Hf; reflexivity].
  - destruct user as [|x user'].
    + split; [intros Hf; discriminate | intros [_ [Hf _]]; exfalso; apply Hf; reflexivity].
    + destruct (intersects (x :: user') (y :: obj')).
      * split; [intros _ | intros _; reflexivity].
        split; [discriminate | split; [discriminate | reflexivity]].
      * split; [intros Hf; discriminate | intros [_ [_ Hf]]; discriminate].
Qed.

(* ------------------------------------------------------------------------------------------ *)
(* 7. non-vacuity *)

(* the user side arrives before the matching object-side userset ... *)
Example first_level_ex_matched_user_first :
  first_level [true; true; true] [2%N] [1%N; 2%N] = Some FLMatched.
Proof. vm_compute. reflexivity. Qed.

(* ... and after it *)
Example first_level_ex_matched_object_first :
  first_level [false; false; false] [2%N] [1%N; 2%N] = Some FLMatched.
Proof. vm_compute. reflexivity. Qed.

(* the hit on the FIRST object-side message (read before the loop starts) is not lost *)
Example first_level_ex_matched_first_message :
  first_level [false; false; false] [1%N] [1%N; 2%N] = Some FLMatched.
Proof. vm_compute. reflexivity. Qed.

Example first_level_ex_nouser :
  first_level [false; false; false; false] [] [1%N; 2%N] = Some FLNoUser.
Proof. vm_compute. reflexivity. Qed.

Example first_level_ex_noobject :
  first_level [] [3%N] [] = Some FLNoUser.
Proof. vm_compute. reflexivity. Qed.

Example first_level_ex_search :
  first_level [true; false] [3%N; 4%N] [1%N; 2%N] = Some (FLSearch [4%N; 3%N] [2%N; 1%N]).
Proof. vm_compute. reflexivity. Qed.

Example first_level_ex_search_other_order :
  first_level [false; false; false; true] [3%N; 4%N] [1%N; 2%N]
  = Some (FLSearch [4%N; 3%N] [2%N; 1%N]).
Proof. vm_compute. reflexivity. Qed.
