(* Algorithm model of the recursive strategy of the Check engine
   (internal/graph/recursive_resolver.go), definitions only.

   recursiveFastPath: `usersetFromObject` = the objects one recursive edge away from the
   request's object (first level), `usersetFromUser` = the objects the user is related to through
   the non-recursive operands (terminal set, produced by object_providers.go with the fast-path
   set operations of V1Weight2.v).  If the two sets meet the answer is `allowed`; otherwise
   breadthFirstRecursiveMatch expands the first level breadth first: per level the resolution
   depth is incremented and compared with the limit, nodes already expanded (`visitedUserset`) are
   skipped, every new node's edges are read and compared with the terminal set, the edges found
   form the next level.  Within a level the reads run concurrently; the outcome does not depend
   on their order: a match anywhere in the level wins over every error (recursiveMatchUserUserset
   resets finalErr on `Allowed`), an error is kept only when no later level finds a match, the
   depth error comes last. *)
From Coq Require Import List NArith Bool Arith.
From OFGA Require Export Check.V1Weight2.
Import ListNotations.
Open Scope N_scope.

Fixpoint nodupN (l : list N) : list N :=
  match l with
  | [] => []
  | x :: r => if memN x r then nodupN r else x :: nodupN r
  end.

Inductive bres :=
| BTrue        (* allowed *)
| BFalse       (* not allowed *)
| BErr         (* a read failed and no match was found *)
| BDepth       (* ErrResolutionDepthExceeded *)
| BFuel.       (* model out of fuel: excluded by bfs_terminates *)

Section BFS.
  Variable succ : N -> list N.      (* the edges delivered by the read of a node *)
  Variable failing : N -> bool.     (* that read ended with an error *)
  Variable targets : list N.        (* usersetFromUser *)
  Variable maxdepth : nat.          (* LocalChecker.maxResolutionDepth *)

  (* breadthFirstRecursiveMatch; `depth` = req.RequestMetadata.Depth before the increment *)
  Fixpoint bfs (fuel depth : nat) (visited frontier : list N) (err : bool) : bres :=
    match fuel with
    | O => BFuel
    | S f =>
        if Nat.eqb (S depth) maxdepth then BDepth
        else
          match frontier with
          | [] => if err then BErr else BFalse
          | _ =>
              let todo := nodupN (filter (fun x => negb (memN x visited)) frontier) in
              let next := flat_map succ todo in
              if existsb (fun y => memN y targets) next then BTrue
              else bfs f (S depth) (todo ++ visited) next (err || existsb failing todo)
          end
    end.

  (* recursiveFastPath without read failures on the first level: `first` = usersetFromObject *)
  Definition rec_fast (fuel depth : nat) (first : list N) : bres :=
    match first with
    | [] => BFalse                                  (* no recursive edge at all *)
    | _ =>
        match targets with
        | [] => BFalse                              (* usersetFromUser.Size() == 0 *)
        | _ =>
            if existsb (fun y => memN y targets) first then BTrue
            else bfs fuel depth [] first false
        end
    end.
End BFS.

(* finite graphs given as edge lists (what the oracle builds from the tuples) *)
Definition succ_of (edges : list (N * N)) (x : N) : list N :=
  map snd (filter (fun e => N.eqb (fst e) x) edges).

Definition nodes_of (edges : list (N * N)) (extra : list N) : list N :=
  nodupN (map fst edges ++ map snd edges ++ extra).

(* fuel that always suffices for a graph whose nodes are all in `nodes` *)
Definition bfs_fuel (nodes : list N) : nat := S (S (S (length nodes))).

(* the recursive strategy for  object#rel@user  at Check level on an error-free store:
   union(direct tuple, recursive userset) *)
Definition rec_check (edges : list (N * N)) (direct : list N) (maxdepth : nat) (x : N) : bres :=
  if memN x direct then BTrue
  else rec_fast (succ_of edges) (fun _ => false) direct maxdepth
                (bfs_fuel (nodes_of edges (x :: direct))) 0 (succ_of edges x).
