(* C01, second part: every DECISION of the default Check engine is the reference semantics'
   decision.

   A. The stratified reference valuation (Sem.lfp) of a stratified, converged model over an
      adequate universe is a fixpoint of the one-step operator on ALL atoms (the strata are
      computed one after the other; an atom's rewrite only reads atoms of its own or lower
      strata -- deps_level -- so later strata do not disturb earlier ones).
   B. Definite outcomes -- `allowed` (AT) and `denied without cycle flag` (AFn) -- of Check/V1.check
      are sound with respect to EVERY total fixpoint of the one-step operator, for every model
      (union, intersection, exclusion, conditions), fuel, depth limit and visited path, provided
      the run did not drop a condition error (tr_swallow = false, the F2 trigger), the store has
      unique tuple keys and PathExists pruning is sound (e.g. pathx_full).  The F1 trigger is
      irrelevant here: a cycle cut yields AFc, which is not a definite outcome, and every reducer
      keeps the cycle flag apart from a definite denial.
   C. Together: check_exact_partial, C01_decision_correct_partial.
   D. Top-level "denied with cycle flag" (AFc): what the path-cut completeness theorem of
      Check/QueryCacheProofs.v (unfoldB_le_checkB) gives.
   E. Errors: a condition error comes from a valid tuple whose condition cannot be evaluated. *)
From Coq Require Import List Bool Arith NArith Lia Permutation.
From OFGA Require Import Sem.B3 Sem.B3Proofs Sem.Vocab Sem.Valid Sem.Semantics Sem.SemProofs
  Check.V1 Check.V1Proofs Check.QueryCache Check.QueryCacheProofs.
Import ListNotations.
Open Scope N_scope.

(* ================================================================== *)
(* A. the stratified valuation is a total fixpoint                     *)
(* ================================================================== *)

Section Strata.
  Variable m : model.

  Local Notation Lv := (final_levels m).

  Definition lvl_of (L : levels) (t : tid) (rd : reldef) : nat :=
    fold_right Nat.max O
      (map (fun d : tid * rid * bool => let '(t', r', neg) := d in
              (lvl_get L t' r' + (if neg then 1 else 0))%nat)
           (deps m t rd false (rd_rw rd))).

  Lemma lvl_step_map : forall L,
    lvl_step m L = map (fun p : tid * reldef => (fst p, rd_rel (snd p), lvl_of L (fst p) (snd p))) (all_rels m).
  Proof.
    intro L. unfold lvl_step. apply map_ext. intros [t rd]. reflexivity.
  Qed.

  Lemma lvl_get_app_skip : forall l1 l2 t r,
    (forall p, In p l1 -> fst (fst p) <> t) -> lvl_get (l1 ++ l2) t r = lvl_get l2 t r.
  Proof.
    induction l1 as [|[[t' r'] n] l1 IH]; intros l2 t r H; simpl; [reflexivity|].
    assert (Hne : t' <> t) by (apply (H (t', r', n)); left; reflexivity).
    destruct (N.eqb t t') eqn:He; [apply N.eqb_eq in He; congruence|]. simpl.
    apply IH. intros p Hp. apply H. right. exact Hp.
  Qed.

  Lemma lvl_get_rels : forall (G : tid * reldef -> nat) t rels rest r rd,
    find_rel rels r = Some rd ->
    lvl_get (map (fun p : tid * reldef => (fst p, rd_rel (snd p), G p)) (map (fun x => (t, x)) rels) ++ rest) t r
    = G (t, rd).
  Proof.
    intros G t rels rest r rd. induction rels as [|x rels IH]; simpl; intro H; [discriminate H|].
    rewrite N.eqb_refl. simpl.
    destruct (N.eqb (rd_rel x) r) eqn:He.
    - inversion H; subst. apply N.eqb_eq in He. rewrite He, N.eqb_refl. reflexivity.
    - rewrite N.eqb_sym, He. apply IH. exact H.
  Qed.

  Lemma lvl_get_all_rels : forall (G : tid * reldef -> nat) t r rd,
    get_relation m t r = Some rd ->
    lvl_get (map (fun p : tid * reldef => (fst p, rd_rel (snd p), G p)) (all_rels m)) t r = G (t, rd).
  Proof.
    intros G t r rd. unfold get_relation, all_rels.
    induction m as [|d m' IH]; simpl; intro H; [discriminate H|].
    rewrite map_app. destruct (N.eqb (td_type d) t) eqn:He.
    - apply N.eqb_eq in He. subst t. apply lvl_get_rels. exact H.
    - rewrite lvl_get_app_skip; [apply IH; exact H|].
      intros p Hp. apply in_map_iff in Hp. destruct Hp as [q [Hq Hin]]. subst p.
      apply in_map_iff in Hin. destruct Hin as [x [Hx _]]. subst q. simpl.
      apply N.eqb_neq. exact He.
  Qed.

  Lemma iter_lvl_S : forall n L, iter_lvl m (S n) L = lvl_step m (iter_lvl m n L).
  Proof. induction n as [|n IH]; intro L; [reflexivity|]. simpl in *. rewrite <- IH. reflexivity. Qed.

  Hypothesis Hstrat : stratified m = true.

  (* the level of a defined relation is the maximum over its dependencies *)
  Lemma level_eq : forall t r rd,
    get_relation m t r = Some rd -> lvl_get Lv t r = lvl_of Lv t rd.
  Proof.
    intros t r rd H.
    assert (Hfin : Lv = lvl_step m (iter_lvl m (nrels m) [])).
    { unfold final_levels. apply iter_lvl_S. }
    set (X := iter_lvl m (nrels m) []) in *.
    assert (H1 : lvl_get Lv t r = lvl_of X t rd).
    { rewrite Hfin, lvl_step_map. rewrite (lvl_get_all_rels _ t r rd H). reflexivity. }
    assert (H2 : lvl_get (lvl_step m Lv) t r = lvl_of Lv t rd).
    { rewrite lvl_step_map. rewrite (lvl_get_all_rels _ t r rd H). reflexivity. }
    assert (Hin : In (t, r, lvl_of X t rd) Lv).
    { rewrite Hfin, lvl_step_map. apply in_map_iff. exists (t, rd). split.
      - simpl. unfold get_relation in H. destruct (find_type m t); [|discriminate H].
        apply find_rel_In in H. destruct H as [_ Hr]. rewrite Hr. reflexivity.
      - eapply get_relation_all_rels; exact H. }
    unfold stratified, levels_eqb in Hstrat. rewrite forallb_forall in Hstrat.
    specialize (Hstrat _ Hin). simpl in Hstrat. apply Nat.eqb_eq in Hstrat.
    rewrite H1, <- Hstrat, H2. reflexivity.
  Qed.

  Lemma fold_max_ge : forall l x, In x l -> (x <= fold_right Nat.max O l)%nat.
  Proof.
    induction l as [|y l IH]; simpl; intros x H; [destruct H|].
    destruct H as [H|H]; [subst; lia | specialize (IH x H); lia].
  Qed.

  (* no dependency is above its user; a dependency under a subtract is strictly below *)
  Lemma deps_level : forall t r rd t' r' neg,
    get_relation m t r = Some rd ->
    In (t', r', neg) (deps m t rd false (rd_rw rd)) ->
    (lvl_get Lv t' r' + (if neg then 1 else 0) <= lvl_get Lv t r)%nat.
  Proof.
    intros t r rd t' r' neg H Hd. rewrite (level_eq t r rd H). unfold lvl_of.
    apply fold_max_ge. apply in_map_iff. exists (t', r', neg). split; [reflexivity | exact Hd].
  Qed.

  Lemma lvl_get_le_max : forall t r, (lvl_get Lv t r <= max_level m)%nat.
  Proof.
    intros t r. unfold max_level. generalize Lv. intro L.
    induction L as [|[[t' r'] n] L IH]; simpl; [lia|].
    destruct (N.eqb t t' && N.eqb r r'); lia.
  Qed.
End Strata.

(* eval_rw reads the valuation only at the atoms listed by deps *)
Section DepsExt.
  Variable m : model.
  Variable conds : list cid.
  Variable store : list tuple.
  Variable subj : subject.

  Lemma kind_eqb_eq : forall a b, kind_eqb a b = true -> a = b.
  Proof.
    intros a b H; destruct a, b; simpl in H; try discriminate H; try reflexivity.
    apply N.eqb_eq in H. subst. reflexivity.
  Qed.

  (* what validity of a tuple says about its relation's restrictions *)
  Lemma valid_restr : forall t rd,
    valid_for_read m conds t = true ->
    get_relation m (otype (t_obj t)) (t_rel t) = Some rd ->
    exists d, In d (rd_restr rd) /\ r_type d = subject_type (t_sub t) /\ r_kind d = subject_kind (t_sub t).
  Proof.
    intros t rd Hv Hr. unfold valid_for_read in Hv. rewrite Hr in Hv.
    apply andb_true_iff in Hv. destruct Hv as [Hv _].
    apply andb_true_iff in Hv. destruct Hv as [_ Hv].
    unfold type_restr_ok in Hv. apply existsb_exists in Hv. destruct Hv as [d [Hin Hd]].
    apply andb_true_iff in Hd. destruct Hd as [H1 H2].
    apply N.eqb_eq in H1. apply kind_eqb_eq in H2. exists d. auto.
  Qed.

  Lemma tuples_of_valid : forall t o r,
    In t (tuples_of m conds store o r) ->
    In t store /\ valid_for_read m conds t = true /\ t_obj t = o /\ t_rel t = r.
  Proof.
    intros t o r H. unfold tuples_of, vtuples in H. apply filter_In in H. destruct H as [H1 H2].
    apply filter_In in H1. destruct H1 as [H0 H1].
    apply andb_true_iff in H2. destruct H2 as [H2 H3].
    apply obj_eqb_eq in H2. apply N.eqb_eq in H3. auto.
  Qed.

  Lemma deps_Union_in : forall t self neg l x d,
    In x l -> In d (deps m t self neg x) -> In d (deps m t self neg (Union l)).
  Proof.
    intros t self neg l x d Hx Hd. simpl. induction l as [|y l IHl]; [destruct Hx|].
    apply in_or_app. destruct Hx as [Hx|Hx]; [subst y; left; exact Hd | right; apply IHl; exact Hx].
  Qed.
  Lemma deps_Inter_in : forall t self neg l x d,
    In x l -> In d (deps m t self neg x) -> In d (deps m t self neg (Inter l)).
  Proof.
    intros t self neg l x d Hx Hd. simpl. induction l as [|y l IHl]; [destruct Hx|].
    apply in_or_app. destruct Hx as [Hx|Hx]; [subst y; left; exact Hd | right; apply IHl; exact Hx].
  Qed.

  Lemma eval_rw_deps_ext : forall v w o r self,
    get_relation m (otype o) r = Some self ->
    forall rw neg,
      (forall o' r' neg', In (otype o', r', neg') (deps m (otype o) self neg rw) ->
                          vget v (o', r') = vget w (o', r')) ->
      eval_rw m conds store subj v o r rw = eval_rw m conds store subj w o r rw.
  Proof.
    intros v w o r self Hself rw.
    induction rw as [|r'|ts c|l IH|l IH|b s IHb IHs] using rewrite_ind'; intros neg H.
    - simpl. f_equal. apply map_ext_in. intros t Ht.
      apply tuples_of_valid in Ht. destruct Ht as [_ [Hv [Ho Hr]]].
      unfold direct1. destruct (subject_eqb (t_sub t) subj); [reflexivity|].
      destruct (t_sub t) as [x|x|o' r'] eqn:Hs; try reflexivity.
      f_equal. unfold atomval. destruct (subject_eqb subj (SSet o' r')); [reflexivity|].
      apply (H o' r' neg). simpl.
      assert (Hr' : get_relation m (otype (t_obj t)) (t_rel t) = Some self) by (rewrite Ho, Hr; exact Hself).
      destruct (valid_restr t self Hv Hr') as [d [Hin [Hty Hk]]]. rewrite Hs in Hty, Hk. simpl in Hty, Hk.
      apply in_map_iff. exists (otype o', r'). split; [reflexivity|].
      unfold restr_usersets. apply in_flat_map. exists d. split; [exact Hin|].
      rewrite Hk, Hty. left; reflexivity.
    - simpl. unfold atomval. destruct (subject_eqb subj (SSet o r')); [reflexivity|].
      apply (H o r' neg). simpl. left; reflexivity.
    - simpl. f_equal. apply map_ext_in. intros t Ht.
      apply tuples_of_valid in Ht. destruct Ht as [_ [Hv [Ho Hr]]].
      unfold ttu1. destruct (t_sub t) as [o'|x|x y] eqn:Hs; try reflexivity.
      destruct (rel_defined m (otype o') c) eqn:Hd; [|reflexivity].
      f_equal. unfold atomval. destruct (subject_eqb subj (SSet o' c)); [reflexivity|].
      apply (H o' c neg). simpl.
      unfold valid_for_read in Hv. rewrite Ho, Hr in Hv.
      destruct (get_relation m (otype o) ts) as [tsd|] eqn:Hts; [|discriminate Hv].
      assert (Hv' : valid_for_read m conds t = true).
      { unfold valid_for_read. rewrite Ho, Hr, Hts. exact Hv. }
      assert (Hr' : get_relation m (otype (t_obj t)) (t_rel t) = Some tsd) by (rewrite Ho, Hr; exact Hts).
      destruct (valid_restr t tsd Hv' Hr') as [d [Hin [Hty Hk]]]. rewrite Hs in Hty, Hk. simpl in Hty, Hk.
      apply in_flat_map. exists (otype o'). split.
      + unfold restr_objtypes. apply in_flat_map. exists d. split; [exact Hin|].
        rewrite Hk, Hty. left; reflexivity.
      + rewrite Hd. left; reflexivity.
    - rewrite !eval_rw_Union. f_equal. apply map_ext_in. intros x Hx.
      rewrite Forall_forall in IH. apply (IH x Hx neg).
      intros o' r' neg' Hin. apply (H o' r' neg'). eapply deps_Union_in; eassumption.
    - rewrite !eval_rw_Inter. f_equal. apply map_ext_in. intros x Hx.
      rewrite Forall_forall in IH. apply (IH x Hx neg).
      intros o' r' neg' Hin. apply (H o' r' neg'). eapply deps_Inter_in; eassumption.
    - simpl. rewrite (IHb neg), (IHs true); [reflexivity | |].
      + intros o' r' neg' Hin. apply (H o' r' neg'). simpl. apply in_or_app. right. exact Hin.
      + intros o' r' neg' Hin. apply (H o' r' neg'). simpl. apply in_or_app. left. exact Hin.
  Qed.

  Definition alevel (a : atom) : nat := lvl_get (final_levels m) (otype (fst a)) (snd a).

  Hypothesis Hstrat : stratified m = true.

  (* an atom's one-step value only depends on atoms of its own or lower strata *)
  Lemma eval_atom_level_ext : forall v w a,
    (forall b, (alevel b <= alevel a)%nat -> vget v b = vget w b) ->
    eval_atom m conds store subj v a = eval_atom m conds store subj w a.
  Proof.
    intros v w [o r] H. unfold eval_atom. simpl.
    destruct (get_relation m (otype o) r) as [rd|] eqn:Hr; [|reflexivity].
    apply (eval_rw_deps_ext v w o r rd Hr (rd_rw rd) false).
    intros o' r' neg' Hin. apply H. unfold alevel. simpl.
    pose proof (deps_level m Hstrat (otype o) r rd (otype o') r' neg' Hr Hin). lia.
  Qed.
End DepsExt.

Section StrataRun.
  Variable m : model.
  Variable conds : list cid.
  Variable store : list tuple.
  Variable subj : subject.
  Variable atoms : list atom.
  Hypothesis Hstrat : stratified m = true.

  Local Notation evala := (eval_atom m conds store subj).

  Lemma In_atoms_at : forall a k, In a (atoms_at m atoms k) <-> In a atoms /\ alevel m a = k.
  Proof.
    intros a k. unfold atoms_at, alevel. rewrite filter_In, Nat.eqb_eq. reflexivity.
  Qed.

  Lemma lfp_at_outside' : forall k fuel v a,
    ~ In a (atoms_at m atoms k) ->
    vget (fst (lfp_at m conds store subj atoms k fuel v)) a = vget v a.
  Proof.
    intros k fuel v a H. apply lfp_at_outside.
    destruct (existsb (atom_eqb a) (atoms_at m atoms k)) eqn:He; [|reflexivity].
    apply existsb_atom_In in He. contradiction.
  Qed.

  Lemma run_strata_spec : forall todo k fuel v v' ,
    run_strata m conds store subj atoms k todo fuel v = (v', true) ->
    (forall a, ~ (In a atoms /\ (k <= alevel m a < k + todo)%nat) -> vget v' a = vget v a) /\
    (forall a, In a atoms -> (k <= alevel m a < k + todo)%nat -> evala v' a = vget v' a).
  Proof.
    induction todo as [|n IH]; intros k fuel v v' H; simpl in H.
    - inversion H; subst. split; [reflexivity | intros a _ Hl; lia].
    - destruct (lfp_at m conds store subj atoms k fuel v) as [v1 ok1] eqn:H1.
      destruct (run_strata m conds store subj atoms (S k) n fuel v1) as [v2 ok2] eqn:H2.
      assert (Hv2 : v2 = v') by (inversion H; reflexivity).
      assert (Hok : ok1 && ok2 = true) by (inversion H; reflexivity).
      clear H. subst v'. apply andb_true_iff in Hok. destruct Hok as [Hok1 Hok2]. subst ok1 ok2.
      destruct (IH _ _ _ _ H2) as [IHa IHb]. clear IH.
      assert (Hout1 : forall a, ~ In a (atoms_at m atoms k) -> vget v1 a = vget v a).
      { intros a Ha. pose proof (lfp_at_outside' k fuel v a Ha) as Ho. rewrite H1 in Ho. exact Ho. }
      split.
      + intros a Ha. rewrite IHa; [apply Hout1|].
        * intro Hin. apply In_atoms_at in Hin. apply Ha. destruct Hin as [Hin Hl]. split; [exact Hin | lia].
        * intros [Hin Hl]. apply Ha. split; [exact Hin | lia].
      + intros a Hin Hl. destruct (Nat.eq_dec (alevel m a) k) as [He|Hne].
        * assert (Hat : In a (atoms_at m atoms k)) by (apply In_atoms_at; auto).
          pose proof (lfp_at_fixpoint_eval m conds store subj atoms k fuel v v1 H1 a Hat) as Hfix.
          rewrite (IHa a) by (intros [_ Hl']; lia). rewrite <- Hfix.
          apply eval_atom_level_ext; [exact Hstrat|].
          intros b Hb. apply IHa. intros [_ Hl']. lia.
        * apply IHb; [exact Hin | lia].
  Qed.

  Hypothesis Hconv : converged m conds store subj atoms = true.
  Hypothesis Hu : universe_ok m conds store subj atoms = true.
  Hypothesis Hne : no_empty_inter_model m = true.

  (* the reference valuation satisfies  v a = eval_atom v a  for EVERY atom *)
  Theorem stratified_lfp_fixpoint_all : forall a,
    evala (fst (lfp m conds store subj atoms)) a = vget (fst (lfp m conds store subj atoms)) a.
  Proof.
    intro a. unfold converged in Hconv.
    destruct (lfp m conds store subj atoms) as [v ok] eqn:Hl. simpl in *. subst ok.
    unfold lfp in Hl. destruct (run_strata_spec _ _ _ _ _ Hl) as [Ha Hb].
    destruct (existsb (atom_eqb a) atoms) eqn:Hin.
    - apply existsb_atom_In in Hin. apply Hb; [exact Hin|].
      pose proof (lvl_get_le_max m (otype (fst a)) (snd a)). unfold alevel. lia.
    - assert (Hnin : forall b, ~ In b atoms -> vget v b = F).
      { intros b Hb'. rewrite Ha; [reflexivity | intros [Hi _]; contradiction]. }
      assert (Hna : ~ In a atoms).
      { intro Hi. apply existsb_atom_In in Hi. rewrite Hi in Hin. discriminate Hin. }
      rewrite (Hnin a Hna). apply (outside_eval_atom m conds store subj atoms Hu Hne v a Hnin Hna).
  Qed.
End StrataRun.

(* ================================================================== *)
(* B. definite outcomes are sound in every total fixpoint              *)
(* ================================================================== *)

(* the run did not drop a condition-evaluation error (F2 trigger not raised) *)
Definition swf (x : res) : Prop := tr_swallow (snd x) = false.

(* the two definite outcomes of an outcome set agree with a Kleene value *)
Definition sound_set (s : oset) (t : b3) : Prop := (In AT s -> t = T) /\ (In AFn s -> t = F).

(* (object, relation, user) is a key of the tuple store *)
Definition keys_unique (store : list tuple) : Prop :=
  forall t1 t2, In t1 store -> In t2 store ->
    t_obj t1 = t_obj t2 -> t_rel t1 = t_rel t2 -> t_sub t1 = t_sub t2 -> t1 = t2.

Definition same_key (a b : tuple) : bool :=
  obj_eqb (t_obj a) (t_obj b) && N.eqb (t_rel a) (t_rel b) && subject_eqb (t_sub a) (t_sub b).

Fixpoint keys_ok (l : list tuple) : bool :=
  match l with
  | [] => true
  | t :: l' => negb (existsb (same_key t) l') && keys_ok l'
  end.

Lemma same_key_true : forall a b,
  t_obj a = t_obj b -> t_rel a = t_rel b -> t_sub a = t_sub b -> same_key a b = true.
Proof.
  intros a b H1 H2 H3. unfold same_key. rewrite H1, H2, H3.
  rewrite obj_eqb_refl, N.eqb_refl, subject_eqb_refl. reflexivity.
Qed.

Lemma keys_ok_unique : forall l, keys_ok l = true -> keys_unique l.
Proof.
  induction l as [|t l IH]; intros H t1 t2 H1 H2 Ho Hr Hs; [destruct H1|].
  simpl in H. apply andb_true_iff in H. destruct H as [Hn Hk]. apply negb_true_iff in Hn.
  assert (Hno : forall x, In x l -> same_key t x = false).
  { intros x Hx. destruct (same_key t x) eqn:He; [|reflexivity].
    assert (Hex : existsb (same_key t) l = true) by (apply existsb_exists; exists x; auto).
    rewrite Hex in Hn. discriminate Hn. }
  destruct H1 as [H1|H1]; destruct H2 as [H2|H2].
  - subst; reflexivity.
  - subst t1. assert (Hk' : same_key t t2 = true) by (apply same_key_true; auto).
    rewrite (Hno t2 H2) in Hk'. discriminate Hk'.
  - subst t2. assert (Hk' : same_key t t1 = true) by (apply same_key_true; auto).
    rewrite (Hno t1 H1) in Hk'. discriminate Hk'.
  - apply IH; assumption.
Qed.

Lemma sound_set_bot : forall s t, ~ In AT s -> ~ In AFn s -> sound_set s t.
Proof. intros s t H1 H2; split; intro H; contradiction. Qed.

Lemma swf_tor : forall x y, tr_swallow (tor x y) = false <-> tr_swallow x = false /\ tr_swallow y = false.
Proof. intros x y. unfold tor; simpl. apply orb_false_iff. Qed.

Lemma snd_let_pair : forall (A B C : Type) (x : A * B) (g : B -> C),
  snd (let '(s, t) := x in (s, g t)) = g (snd x).
Proof. intros A B C [s t] g; reflexivity. Qed.

(* which children a definite outcome of a union / intersection comes from, with their flags *)
Lemma union_all_AT_swf : forall hs,
  swf (union_all hs) -> In AT (fst (union_all hs)) ->
  exists h, In h hs /\ In AT (fst (h tt)) /\ swf (h tt).
Proof.
  induction hs as [|h hs IH]; unfold swf; simpl; intros Hf H.
  - destruct H as [H|[]]; discriminate H.
  - destruct (h tt) as [s t] eqn:Hh. destruct (is_just_true s) eqn:Hj.
    + apply is_just_true_eq in Hj. subst s. exists h. rewrite Hh. simpl in *. auto.
    + destruct (union_all hs) as [s' t'] eqn:Hu. unfold swf in IH. simpl in *.
      apply swf_tor in Hf. destruct Hf as [Hf1 Hf2].
      apply In_lift2 in H. destruct H as [a [b [Ha [Hb Hx]]]].
      apply union2_AT_iff in Hx. destruct Hx as [Hx|Hx]; subst.
      * exists h. rewrite Hh. simpl. auto.
      * destruct (IH Hf2 Hb) as [h' [Hin [Hat Hs]]]. exists h'. auto.
Qed.

Lemma union_all_AFn_swf : forall hs,
  swf (union_all hs) -> In AFn (fst (union_all hs)) ->
  forall h, In h hs -> In AFn (fst (h tt)) /\ swf (h tt).
Proof.
  induction hs as [|h hs IH]; unfold swf; simpl; intros Hf H h' Hin; [destruct Hin|].
  destruct (h tt) as [s t] eqn:Hh. destruct (is_just_true s) eqn:Hj.
  - simpl in H. destruct H as [H|[]]. discriminate H.
  - destruct (union_all hs) as [s' t'] eqn:Hu. unfold swf in IH. simpl in *.
    apply swf_tor in Hf. destruct Hf as [Hf1 Hf2].
    apply In_lift2 in H. destruct H as [a [b [Ha [Hb Hx]]]].
    apply union2_AFn_iff in Hx. destruct Hx as [Hxa Hxb]; subst.
    destruct Hin as [Hin|Hin].
    + subst h'. rewrite Hh. simpl. auto.
    + apply IH; assumption.
Qed.

Lemma inter_all_AT_swf : forall hs,
  swf (inter_all hs) -> In AT (fst (inter_all hs)) ->
  forall h, In h hs -> In AT (fst (h tt)) /\ swf (h tt).
Proof.
  induction hs as [|h hs IH]; unfold swf; simpl; intros Hf H h' Hin; [destruct Hin|].
  destruct (h tt) as [s t] eqn:Hh. destruct (inter_all hs) as [s' t'] eqn:Hu. unfold swf in IH. simpl in *.
  apply swf_tor in Hf. destruct Hf as [Hf1 Hf2].
  apply In_lift2 in H. destruct H as [a [b [Ha [Hb Hx]]]].
  apply inter2_AT_iff in Hx. destruct Hx as [Hxa Hxb]; subst.
  destruct Hin as [Hin|Hin].
  - subst h'. rewrite Hh. simpl. auto.
  - apply IH; assumption.
Qed.

Lemma inter_all_AFn_swf : forall hs,
  swf (inter_all hs) -> In AFn (fst (inter_all hs)) ->
  exists h, In h hs /\ In AFn (fst (h tt)) /\ swf (h tt).
Proof.
  induction hs as [|h hs IH]; unfold swf; simpl; intros Hf H.
  - destruct H as [H|[]]; discriminate H.
  - destruct (h tt) as [s t] eqn:Hh. destruct (inter_all hs) as [s' t'] eqn:Hu. unfold swf in IH. simpl in *.
    apply swf_tor in Hf. destruct Hf as [Hf1 Hf2].
    apply In_lift2 in H. destruct H as [a [b [Ha [Hb Hx]]]].
    apply inter2_AFn_iff in Hx. destruct Hx as [Hx|Hx]; subst.
    + exists h. rewrite Hh. simpl. auto.
    + destruct (IH Hf2 Hb) as [h' [Hin [Hat Hs]]]. exists h'. auto.
Qed.

Lemma passing_none_all_F : forall ts t,
  passing ts = [] -> has_err ts = false -> In t ts -> t_ceval t = F.
Proof.
  intros ts t Hp He Hin. destruct (t_ceval t) eqn:Hc; [| reflexivity |].
  - assert (Hin' : In t (passing ts)) by (unfold passing; apply filter_In; rewrite Hc; auto).
    rewrite Hp in Hin'. destruct Hin'.
  - assert (Hex : has_err ts = true) by (unfold has_err; apply existsb_exists; exists t; rewrite Hc; auto).
    rewrite Hex in He. discriminate He.
Qed.

Lemma no_err_TF : forall ts t, has_err ts = false -> In t ts -> t_ceval t = T \/ t_ceval t = F.
Proof.
  intros ts t He Hin. destruct (t_ceval t) eqn:Hc; auto.
  assert (Hex : has_err ts = true) by (unfold has_err; apply existsb_exists; exists t; rewrite Hc; auto).
  rewrite Hex in He. discriminate He.
Qed.

Lemma In_passing_intro : forall ts t, In t ts -> t_ceval t = T -> In t (passing ts).
Proof. intros ts t Hin Hc. unfold passing. apply filter_In. rewrite Hc. auto. Qed.

Lemma subject_case : forall s : subject,
  (exists so, s = SObj so) \/ (exists ty, s = SWild ty) \/ (exists so sr, s = SSet so sr).
Proof. intros [so|ty|so sr]; [left; eauto | right; left; eauto | right; right; eauto]. Qed.

Lemma direct1_T_wild' : forall subj v t,
  (forall o r, subj <> SSet o r) ->
  t_sub t = SWild (subject_type subj) -> t_ceval t = T -> direct1 subj v t = T.
Proof.
  intros subj v t Hns Hs Hc. unfold direct1. rewrite Hs.
  destruct subj as [so|st|so sr]; simpl.
  - rewrite N.eqb_refl. exact Hc.
  - rewrite N.eqb_refl. exact Hc.
  - exfalso. apply (Hns so sr). reflexivity.
Qed.

Section Definite.
  Variable m : model.
  Variable conds : list cid.
  Variable store : list tuple.
  Variable subj : subject.
  Variable pathx : list (tid * rid).
  Variable maxdepth : nat.
  Variable v : valuation.

  Hypothesis Hfix : forall a, eval_atom m conds store subj v a = vget v a.
  Hypothesis Hkeys : keys_unique store.
  Hypothesis Hprune : forall o r,
    rel_defined m (otype o) r = true -> path_exists pathx (otype o) r = false -> atomval subj v o r = F.

  Local Notation chk := (check m conds store subj pathx maxdepth).
  Local Notation av := (atomval subj v).

  Section OneCallD.
    Variable rd : reldef.
    Variable o : obj.
    Variable r : rid.
    Hypothesis Hrd : get_relation m (otype o) r = Some rd.
    Variable dispatch : obj -> rid -> unit -> res.
    Variable computed : rid -> res.
    Hypothesis Hdisp : forall o' r', swf (dispatch o' r' tt) -> sound_set (fst (dispatch o' r' tt)) (av o' r').
    Hypothesis Hcomp : forall r', swf (computed r') -> sound_set (fst (computed r')) (av o r').

    (* a valid tuple of (o, r): where it sits and what its restriction is *)
    Lemma tuple_facts : forall t,
      In t (tuples_of m conds store o r) ->
      In t store /\ In t (raw_of store o r) /\ V1.valid m conds t = true /\
      exists d, In d (rd_restr rd) /\ r_type d = subject_type (t_sub t) /\ r_kind d = subject_kind (t_sub t).
    Proof.
      intros t Ht. destruct (tuples_of_valid m conds store t o r Ht) as [Hin [Hv [Ho Hr]]].
      split; [exact Hin|]. split.
      { unfold raw_of. apply filter_In. split; [exact Hin|].
        rewrite Ho, Hr, obj_eqb_refl, N.eqb_refl. reflexivity. }
      split; [exact Hv|].
      apply (valid_restr m conds t rd); [exact Hv | rewrite Ho, Hr; exact Hrd].
    Qed.

    Lemma directly_related_of_valid : forall t,
      In t (tuples_of m conds store o r) -> t_sub t = subj -> (forall ty, subj <> SWild ty) ->
      directly_related subj (rd_restr rd) = true.
    Proof.
      intros t Ht Hs Hnw. destruct (tuple_facts t Ht) as [_ [_ [_ [d [Hin [Hty Hk]]]]]].
      rewrite Hs in Hty, Hk. unfold directly_related. apply existsb_exists. exists d. split; [exact Hin|].
      rewrite Hty, N.eqb_refl. simpl.
      destruct (subject_case subj) as [[so Hsubj]|[[ty Hsubj]|[so [sr Hsubj]]]].
      - rewrite Hsubj in Hk |- *. simpl in Hk. rewrite Hk. reflexivity.
      - exfalso. apply (Hnw ty). exact Hsubj.
      - rewrite Hsubj in Hk |- *. simpl in Hk. rewrite Hk. apply N.eqb_refl.
    Qed.

    Lemma publicly_assignable_of_valid : forall t,
      In t (tuples_of m conds store o r) -> t_sub t = SWild (subject_type subj) ->
      (forall so sr, subj <> SSet so sr) ->
      publicly_assignable subj (rd_restr rd) = true.
    Proof.
      intros t Ht Hs Hns. destruct (tuple_facts t Ht) as [_ [_ [_ [d [Hin [Hty Hk]]]]]].
      rewrite Hs in Hty, Hk. simpl in Hty, Hk. unfold publicly_assignable.
      assert (Hex : existsb (fun d => N.eqb (r_type d) (subject_type subj) &&
                                      match r_kind d with RWild => true | _ => false end) (rd_restr rd) = true).
      { apply existsb_exists. exists d. split; [exact Hin|]. rewrite Hty, Hk, N.eqb_refl. reflexivity. }
      destruct (subject_case subj) as [[so Hsubj]|[[ty Hsubj]|[so [sr Hsubj]]]].
      - rewrite Hsubj in Hex |- *. exact Hex.
      - rewrite Hsubj in Hex |- *. exact Hex.
      - exfalso. apply (Hns so sr). exact Hsubj.
    Qed.

    Lemma userset_restr_of_valid : forall t o' r',
      In t (tuples_of m conds store o r) -> t_sub t = SSet o' r' ->
      has_userset_restr (rd_restr rd) = true /\ in_userset_restr (rd_restr rd) (SSet o' r') = true.
    Proof.
      intros t o' r' Ht Hs. destruct (tuple_facts t Ht) as [_ [_ [_ [d [Hin [Hty Hk]]]]]].
      rewrite Hs in Hty, Hk. simpl in Hty, Hk. split.
      - unfold has_userset_restr. apply existsb_exists. exists d. rewrite Hk. auto.
      - unfold in_userset_restr. apply existsb_exists. exists d. rewrite Hk, Hty, !N.eqb_refl. auto.
    Qed.

    (* the three handlers of a direct assignment *)
    Let hs := this_handlers m conds store subj rd o r dispatch.

    Lemma direct_handler_in : directly_related subj (rd_restr rd) = true ->
      In (fun _ : unit => direct_user_tuple m conds store subj o r) hs.
    Proof. intro H. unfold hs, this_handlers. rewrite H. apply in_or_app. left. left. reflexivity. Qed.
    Lemma public_handler_in : publicly_assignable subj (rd_restr rd) = true ->
      In (fun _ : unit => public_assignable m conds store subj o r) hs.
    Proof.
      intro H. unfold hs, this_handlers. rewrite H. apply in_or_app. right. apply in_or_app. left. left. reflexivity.
    Qed.
    Lemma userset_handler_in : has_userset_restr (rd_restr rd) = true ->
      In (userset_handler m conds store rd o r dispatch) hs.
    Proof.
      intro H. unfold hs, this_handlers. rewrite H. apply in_or_app. right. apply in_or_app. right. left. reflexivity.
    Qed.

    Lemma direct_handler_AFn : forall t,
      In t (tuples_of m conds store o r) -> t_sub t = subj ->
      In AFn (fst (direct_user_tuple m conds store subj o r)) -> t_ceval t = F.
    Proof.
      intros t Ht Hs H. destruct (tuple_facts t Ht) as [Hin [Hraw [Hv _]]].
      unfold direct_user_tuple in H.
      destruct (find (fun t => subject_eqb (t_sub t) subj) (raw_of store o r)) as [t0|] eqn:Hf.
      - apply find_some in Hf. destruct Hf as [Hin0 Hs0]. apply subject_eqb_eq in Hs0.
        assert (He : t0 = t).
        { unfold raw_of in Hin0, Hraw. apply filter_In in Hin0. apply filter_In in Hraw.
          destruct Hin0 as [Hi0 Hp0]. destruct Hraw as [_ Hp].
          apply andb_true_iff in Hp0. apply andb_true_iff in Hp.
          destruct Hp0 as [Ho0 Hr0]. destruct Hp as [Ho1 Hr1].
          apply obj_eqb_eq in Ho0. apply obj_eqb_eq in Ho1. apply N.eqb_eq in Hr0. apply N.eqb_eq in Hr1.
          apply Hkeys; try assumption; congruence. }
        subst t0. rewrite Hv in H. simpl in H.
        destruct (t_ceval t); simpl in H; destruct H as [H|[]]; try discriminate H. reflexivity.
      - exfalso. pose proof (find_none _ _ Hf t Hraw) as Hn. simpl in Hn.
        rewrite Hs, subject_eqb_refl in Hn. discriminate Hn.
    Qed.

    Lemma public_handler_AFn : forall t,
      In t (tuples_of m conds store o r) -> t_sub t = SWild (subject_type subj) ->
      In AFn (fst (public_assignable m conds store subj o r)) -> t_ceval t = F.
    Proof.
      intros t Ht Hs H. destruct (tuple_facts t Ht) as [_ [Hraw [Hv _]]].
      unfold public_assignable in H.
      match type of H with context [passing ?X] => set (ts := X) in * end.
      assert (Hts : In t ts).
      { unfold ts. apply filter_In. split; [exact Hraw|]. rewrite Hv, Hs, subject_eqb_refl. reflexivity. }
      destruct (passing ts) as [|p ps] eqn:Hp.
      - destruct (has_err ts) eqn:He; simpl in H; destruct H as [H|[]]; try discriminate H.
        eapply passing_none_all_F; eassumption.
      - simpl in H. destruct H as [H|[]]. discriminate H.
    Qed.

    Lemma userset_handler_AFn : forall t o' r',
      In t (tuples_of m conds store o r) -> t_sub t = SSet o' r' ->
      swf (userset_handler m conds store rd o r dispatch tt) ->
      In AFn (fst (userset_handler m conds store rd o r dispatch tt)) ->
      and3 (t_ceval t) (av o' r') = F.
    Proof.
      intros t o' r' Ht Hs Hf H. destruct (tuple_facts t Ht) as [_ [Hraw [Hv _]]].
      destruct (userset_restr_of_valid t o' r' Ht Hs) as [_ Hiu].
      unfold userset_handler, swf in *.
      match type of H with context [passing ?X] => set (ts := X) in * end.
      assert (Hts : In t ts).
      { unfold ts. apply filter_In. split; [exact Hraw|]. rewrite Hv, Hs, Hiu. reflexivity. }
      destruct (passing ts) as [|p ps] eqn:Hp.
      - destruct (has_err ts) eqn:He; simpl in H; destruct H as [H|[]]; try discriminate H.
        rewrite (passing_none_all_F ts t Hp He Hts). reflexivity.
      - rewrite <- Hp in *. clear Hp p ps.
        rewrite fst_let_pair in H. rewrite snd_let_pair in Hf.
        apply swf_tor in Hf. destruct Hf as [Hf1 Hf2]. simpl in Hf2.
        destruct (no_err_TF ts t Hf2 Hts) as [Hc|Hc]; [|rewrite Hc; reflexivity].
        rewrite Hc. simpl.
        assert (Hd : In (dispatch o' r')
                       (flat_map (fun t => match t_sub t with SSet o' r' => [dispatch o' r'] | _ => [] end)
                                 (passing ts))).
        { apply in_flat_map. exists t. split; [apply In_passing_intro; assumption|]. rewrite Hs. left; reflexivity. }
        destruct (union_all_AFn_swf _ Hf1 H _ Hd) as [Ha Hsw].
        destruct (Hdisp o' r' Hsw) as [_ HF]. rewrite (HF Ha). reflexivity.
    Qed.

    Lemma this_definite :
      swf (union_all hs) -> sound_set (fst (union_all hs)) (or3_list (map (direct1 subj v) (tuples_of m conds store o r))).
    Proof.
      intro Hf. split; intro H.
      - (* allowed *)
        destruct (union_all_AT_swf _ Hf H) as [h [Hin [Hat Hsw]]].
        unfold hs, this_handlers in Hin. apply in_app_iff in Hin. destruct Hin as [Hin|Hin].
        { destruct (directly_related subj (rd_restr rd)); [|destruct Hin].
          destruct Hin as [Hin|[]]. subst h. cbv beta in Hat.
          apply (direct_user_tuple_AT m conds store subj o r) in Hat. destruct Hat as [t [Ht [Hs Hc]]].
          eapply or3_list_map_T; [exact Ht | apply direct1_T_subject; assumption]. }
        apply in_app_iff in Hin. destruct Hin as [Hin|Hin].
        { destruct (publicly_assignable subj (rd_restr rd)) eqn:Hpa; [|destruct Hin].
          destruct Hin as [Hin|[]]. subst h. cbv beta in Hat.
          apply (public_assignable_AT m conds store subj o r) in Hat. destruct Hat as [t [Ht [Hs Hc]]].
          eapply or3_list_map_T; [exact Ht|]. apply direct1_T_wild'; try assumption.
          intros so sr He. unfold publicly_assignable in Hpa. rewrite He in Hpa. discriminate Hpa. }
        destruct (has_userset_restr (rd_restr rd)); [|destruct Hin].
        destruct Hin as [Hin|[]]. subst h. unfold userset_handler, swf in Hat, Hsw.
        match type of Hat with context [passing ?X] => set (ts := X) in * end.
        destruct (passing ts) as [|t0 ps] eqn:Hp.
        { destruct (has_err ts); simpl in Hat; destruct Hat as [Hat|[]]; discriminate Hat. }
        rewrite <- Hp in *. rewrite fst_let_pair in Hat. rewrite snd_let_pair in Hsw.
        apply swf_tor in Hsw. destruct Hsw as [Hsw1 _].
        destruct (union_all_AT_swf _ Hsw1 Hat) as [h [Hin [Hat' Hsw']]].
        apply in_flat_map in Hin. destruct Hin as [t [Htp Hh]].
        apply In_passing in Htp. destruct Htp as [Hts Hc].
        unfold ts in Hts. apply filter_In in Hts. destruct Hts as [Hraw Hv].
        apply andb_true_iff in Hv. destruct Hv as [Hv _].
        remember (t_sub t) as st eqn:Hs. symmetry in Hs.
        destruct st as [x|x|o' r']; try (destruct Hh; fail).
        destruct Hh as [Hh|[]]. subst h.
        eapply or3_list_map_T; [apply raw_valid_tuples_of; eassumption|].
        eapply direct1_T_userset; [exact Hs | exact Hc |]. destruct (Hdisp o' r' Hsw') as [HT _]. exact (HT Hat').
      - (* denied without cycle flag: every valid tuple contributes F *)
        apply or3_list_F_iff. intros x Hx. apply in_map_iff in Hx. destruct Hx as [t [Hx Ht]]. subst x.
        pose proof (union_all_AFn_swf _ Hf H) as Hall.
        unfold direct1. destruct (subject_eqb (t_sub t) subj) eqn:Hse.
        + apply subject_eqb_eq in Hse.
          destruct (subject_case subj) as [[so Hsubj]|[[ty Hsubj]|[so [sr Hsubj]]]].
          * assert (Hdr : directly_related subj (rd_restr rd) = true).
            { apply (directly_related_of_valid t Ht Hse). intros ty' He. rewrite He in Hsubj. discriminate Hsubj. }
            destruct (Hall _ (direct_handler_in Hdr)) as [Ha _].
            apply (direct_handler_AFn t Ht Hse Ha).
          * assert (Hs' : t_sub t = SWild (subject_type subj)).
            { rewrite Hse. rewrite Hsubj. reflexivity. }
            assert (Hpa : publicly_assignable subj (rd_restr rd) = true).
            { apply (publicly_assignable_of_valid t Ht Hs'). intros so sr He. rewrite He in Hsubj. discriminate Hsubj. }
            destruct (Hall _ (public_handler_in Hpa)) as [Ha _].
            apply (public_handler_AFn t Ht Hs' Ha).
          * assert (Hdr : directly_related subj (rd_restr rd) = true).
            { apply (directly_related_of_valid t Ht Hse). intros ty' He. rewrite He in Hsubj. discriminate Hsubj. }
            destruct (Hall _ (direct_handler_in Hdr)) as [Ha _].
            apply (direct_handler_AFn t Ht Hse Ha).
        + destruct (t_sub t) as [x|ty|o' r'] eqn:Hs; [reflexivity | |].
          * destruct (subject_case subj) as [[so Hsubj]|[[ty' Hsubj]|[so [sr Hsubj]]]];
              rewrite Hsubj; try reflexivity.
            destruct (N.eqb (otype so) ty) eqn:Hty; [|reflexivity].
            apply N.eqb_eq in Hty.
            assert (Hs' : t_sub t = SWild (subject_type subj)).
            { rewrite Hs, Hsubj. simpl. rewrite Hty. reflexivity. }
            assert (Hpa : publicly_assignable subj (rd_restr rd) = true).
            { apply (publicly_assignable_of_valid t Ht Hs'). intros so' sr' He. rewrite He in Hsubj. discriminate Hsubj. }
            destruct (Hall _ (public_handler_in Hpa)) as [Ha _].
            apply (public_handler_AFn t Ht Hs' Ha).
          * destruct (userset_restr_of_valid t o' r' Ht Hs) as [Hhu _].
            destruct (Hall _ (userset_handler_in Hhu)) as [Ha Hsw].
            apply (userset_handler_AFn t o' r' Ht Hs Hsw Ha).
    Qed.

    Lemma ttu_definite : forall ts c,
      swf (ttu_eval m conds store o ts c dispatch) ->
      sound_set (fst (ttu_eval m conds store o ts c dispatch))
                (or3_list (map (ttu1 m subj v c) (tuples_of m conds store o ts))).
    Proof.
      intros ts c Hf. unfold ttu_eval, swf in *.
      match type of Hf with context [passing ?X] => set (tl := X) in * end.
      assert (Htl : forall t, In t (tuples_of m conds store o ts) -> In t tl).
      { intros t Ht. destruct (tuples_of_valid m conds store t o ts Ht) as [Hin [Hv [Ho Hr]]].
        unfold tl. apply filter_In. split; [|exact Hv].
        unfold raw_of. apply filter_In. split; [exact Hin|].
        rewrite Ho, Hr, obj_eqb_refl, N.eqb_refl. reflexivity. }
      destruct (passing tl) as [|t0 ps] eqn:Hp.
      - destruct (has_err tl) eqn:He; simpl.
        + apply sound_set_bot; intros [H|[]]; discriminate H.
        + split; intros [H|[]]; try discriminate H.
          apply or3_list_F_iff. intros x Hx. apply in_map_iff in Hx. destruct Hx as [t [Hx Ht]]. subst x.
          unfold ttu1. rewrite (passing_none_all_F tl t Hp He (Htl t Ht)).
          destruct (t_sub t) as [o'|x|x y]; try reflexivity. destruct (rel_defined m (otype o') c); reflexivity.
      - rewrite <- Hp in *. clear Hp t0 ps.
        rewrite fst_let_pair. rewrite snd_let_pair in Hf.
        apply swf_tor in Hf. destruct Hf as [Hf1 Hf2]. simpl in Hf2. split; intro H.
        + destruct (union_all_AT_swf _ Hf1 H) as [h [Hin [Hat Hsw]]].
          apply in_flat_map in Hin. destruct Hin as [t [Htp Hh]].
          apply In_passing in Htp. destruct Htp as [Hts Hc].
          unfold tl in Hts. apply filter_In in Hts. destruct Hts as [Hraw Hv].
          remember (t_sub t) as st eqn:Hs. symmetry in Hs.
          destruct st as [o'|x|x r']; try (destruct Hh; fail).
          destruct (rel_defined m (otype o') c) eqn:Hd; [|destruct Hh].
          destruct Hh as [Hh|[]]. subst h.
          eapply or3_list_map_T; [apply raw_valid_tuples_of; eassumption|].
          destruct (Hdisp o' c Hsw) as [HT _].
          unfold ttu1. rewrite Hs, Hd, Hc, (HT Hat). reflexivity.
        + apply or3_list_F_iff. intros x Hx. apply in_map_iff in Hx. destruct Hx as [t [Hx Ht]]. subst x.
          pose proof (Htl t Ht) as Hin.
          unfold ttu1. destruct (t_sub t) as [o'|x|x y] eqn:Hs; try reflexivity.
          destruct (rel_defined m (otype o') c) eqn:Hd; [|reflexivity].
          destruct (no_err_TF tl t Hf2 Hin) as [Hc|Hc]; [|rewrite Hc; reflexivity].
          rewrite Hc. simpl.
          assert (Hdin : In (dispatch o' c)
                           (flat_map (fun t => match t_sub t with
                                               | SObj o' => if rel_defined m (otype o') c then [dispatch o' c] else []
                                               | _ => [] end) (passing tl))).
          { apply in_flat_map. exists t. split; [apply In_passing_intro; assumption|].
            rewrite Hs, Hd. left; reflexivity. }
          destruct (union_all_AFn_swf _ Hf1 H _ Hdin) as [Ha Hsw].
          destruct (Hdisp o' c Hsw) as [_ HF]. rewrite (HF Ha). reflexivity.
    Qed.

    Lemma eval_with_definite : forall rw,
      swf (eval_with m conds store subj rd o r dispatch computed rw) ->
      sound_set (fst (eval_with m conds store subj rd o r dispatch computed rw))
                (eval_rw m conds store subj v o r rw).
    Proof.
      intro rw. induction rw as [|r'|ts c|l IH|l IH|b s IHb IHs] using rewrite_ind'; intro Hf.
      - exact (this_definite Hf).
      - exact (Hcomp r' Hf).
      - exact (ttu_definite ts c Hf).
      - cbn [eval_with] in *. rewrite eval_rw_Union. rewrite Forall_forall in IH. split; intro H.
        + destruct (union_all_AT_swf _ Hf H) as [h [Hin [Hat Hsw]]].
          apply in_map_iff in Hin. destruct Hin as [x [Hh Hx]]. subst h.
          apply or3_list_T_iff. apply in_map_iff. exists x. split; [|exact Hx].
          destruct (IH x Hx Hsw) as [HT _]. exact (HT Hat).
        + apply or3_list_F_iff. intros y Hy. apply in_map_iff in Hy. destruct Hy as [x [Hy Hx]]. subst y.
          assert (Hin : In (fun _ : unit => eval_with m conds store subj rd o r dispatch computed x)
                           (map (fun x => fun _ : unit => eval_with m conds store subj rd o r dispatch computed x) l)).
          { apply in_map_iff. exists x. auto. }
          destruct (union_all_AFn_swf _ Hf H _ Hin) as [Ha Hsw].
          destruct (IH x Hx Hsw) as [_ HF]. exact (HF Ha).
      - cbn [eval_with] in *. rewrite eval_rw_Inter. rewrite Forall_forall in IH. split; intro H.
        + apply and3_list_T_iff. intros y Hy. apply in_map_iff in Hy. destruct Hy as [x [Hy Hx]]. subst y.
          assert (Hin : In (fun _ : unit => eval_with m conds store subj rd o r dispatch computed x)
                           (map (fun x => fun _ : unit => eval_with m conds store subj rd o r dispatch computed x) l)).
          { apply in_map_iff. exists x. auto. }
          destruct (inter_all_AT_swf _ Hf H _ Hin) as [Ha Hsw].
          destruct (IH x Hx Hsw) as [HT _]. exact (HT Ha).
        + destruct (inter_all_AFn_swf _ Hf H) as [h [Hin [Hat Hsw]]].
          apply in_map_iff in Hin. destruct Hin as [x [Hh Hx]]. subst h.
          apply and3_list_F_iff. apply in_map_iff. exists x. split; [|exact Hx].
          destruct (IH x Hx Hsw) as [_ HF]. exact (HF Hat).
      - cbn [eval_with] in *. unfold swf in *.
        destruct (eval_with m conds store subj rd o r dispatch computed b) as [sb tb].
        destruct (eval_with m conds store subj rd o r dispatch computed s) as [ss ts].
        simpl in *. apply orb_false_iff in Hf. destruct Hf as [Hf _].
        apply orb_false_iff in Hf. destruct Hf as [Hfb Hfs].
        destruct (IHb Hfb) as [HbT HbF]. destruct (IHs Hfs) as [HsT HsF].
        split; intro H; apply In_lift2 in H; destruct H as [a [b' [Ha [Hb Hx]]]].
        + apply excl2_AT_iff in Hx. destruct Hx; subst. rewrite (HbT Ha), (HsF Hb). reflexivity.
        + apply excl2_AFn_iff in Hx. destruct Hx as [Hx|Hx]; subst.
          * rewrite (HbF Ha). reflexivity.
          * rewrite (HsT Hb). destruct (eval_rw m conds store subj v o r b); reflexivity.
    Qed.
  End OneCallD.

  (* the core: for EVERY model, fuel, depth limit, depth and visited path *)
  Theorem check_definite_sound : forall fuel depth visited o r,
    swf (chk fuel depth visited o r) -> sound_set (fst (chk fuel depth visited o r)) (av o r).
  Proof.
    induction fuel as [|f IH]; intros depth visited o r Hf.
    - apply sound_set_bot; intros [H|[]]; discriminate H.
    - rewrite check_unfold in *.
      destruct (Nat.eqb depth maxdepth); [apply sound_set_bot; intros [H|[]]; discriminate H|].
      destruct (existsb (atom_eqb (o, r)) visited); [apply sound_set_bot; intros [H|[]]; discriminate H|].
      unfold atomval. destruct (subject_eqb subj (SSet o r)) eqn:Hs.
      { split; intros [H|[]]; [reflexivity | discriminate H]. }
      destruct (get_relation m (otype o) r) as [rd|] eqn:Hr;
        [|apply sound_set_bot; intros [H|[]]; discriminate H].
      destruct (negb (path_exists pathx (otype o) r)) eqn:Hp.
      { apply negb_true_iff in Hp. split; intros [H|[]]; [discriminate H|].
        assert (Hd : rel_defined m (otype o) r = true) by (unfold rel_defined; rewrite Hr; reflexivity).
        pose proof (Hprune o r Hd Hp) as Hv. unfold atomval in Hv. rewrite Hs in Hv. exact Hv. }
      rewrite <- (Hfix (o, r)). unfold eval_atom. simpl. rewrite Hr.
      apply eval_with_definite; [exact Hr | | | exact Hf].
      + intros o' r' Hsw. apply IH. exact Hsw.
      + intros r' Hsw. apply IH. exact Hsw.
  Qed.
End Definite.

(* ================================================================== *)
(* C. against holds3                                                   *)
(* ================================================================== *)

Lemma pathx_full_defined : forall m pathx t r,
  pathx_full m pathx = true -> rel_defined m t r = true -> path_exists pathx t r = true.
Proof.
  intros m pathx t r Hp Hd. unfold rel_defined in Hd.
  destruct (get_relation m t r) as [rd|] eqn:Hr; [|discriminate Hd].
  unfold pathx_full in Hp. rewrite forallb_forall in Hp.
  pose proof (Hp (t, rd) (get_relation_all_rels m t r rd Hr)) as H. simpl in H.
  unfold get_relation in Hr. destruct (find_type m t); [|discriminate Hr].
  apply find_rel_In in Hr. destruct Hr as [_ Hrr]. rewrite Hrr in H. exact H.
Qed.

(* the hypotheses under which the theorems below speak about holds3 *)
Definition C01_setting (m : model) (conds : list cid) (store : list tuple) (subj : subject)
           (pathx : list (tid * rid)) (atoms : list atom) : Prop :=
  stratified m = true /\
  converged m conds store subj atoms = true /\
  universe_ok m conds store subj atoms = true /\
  no_empty_inter_model m = true /\
  keys_ok store = true /\
  pathx_full m pathx = true.

(* check_exact_partial: for stratified models (union, intersection, exclusion, conditions), any
   fuel, depth limit, and any run that did not drop a condition error:
     allowed                  => the reference semantics grants        (holds3 = T)
     denied, no cycle flag    => the reference semantics denies        (holds3 = F).
   Fuel / depth exhaustion and condition errors are not decisions and need no hypothesis.
   The F1 trigger (tr_excl_sub_cycle) need not be excluded: it only ever produces AFc. *)
Theorem check_exact_partial :
  forall m conds store subj pathx atoms maxdepth fuel o r,
    C01_setting m conds store subj pathx atoms ->
    tr_swallow (snd (check_top m conds store subj pathx maxdepth fuel o r)) = false ->
    (In AT (fst (check_top m conds store subj pathx maxdepth fuel o r)) ->
       holds3 m conds store subj atoms o r = T) /\
    (In AFn (fst (check_top m conds store subj pathx maxdepth fuel o r)) ->
       holds3 m conds store subj atoms o r = F).
Proof.
  intros m conds store subj pathx atoms maxdepth fuel o r [Hs [Hc [Hu [Hne [Hk Hp]]]]] Hf.
  unfold holds3, check_top in *.
  apply (check_definite_sound m conds store subj pathx maxdepth (fst (lfp m conds store subj atoms))).
  - apply stratified_lfp_fixpoint_all; assumption.
  - apply keys_ok_unique; exact Hk.
  - intros o' r' Hd Hpe. rewrite (pathx_full_defined m pathx _ _ Hp Hd) in Hpe. discriminate Hpe.
  - exact Hf.
Qed.

(* every DECISION the default engine returns, outside the swallowed-condition-error finding, is
   the reference semantics' decision *)
Theorem C01_decision_correct_partial :
  forall m conds store subj pathx atoms maxdepth fuel o r,
    C01_setting m conds store subj pathx atoms ->
    tr_swallow (snd (check_top m conds store subj pathx maxdepth fuel o r)) = false ->
    (fst (check_top m conds store subj pathx maxdepth fuel o r) = [AT] ->
       holds3 m conds store subj atoms o r = T) /\
    (fst (check_top m conds store subj pathx maxdepth fuel o r) = [AFn] ->
       holds3 m conds store subj atoms o r = F).
Proof.
  intros m conds store subj pathx atoms maxdepth fuel o r Hset Hf.
  destruct (check_exact_partial m conds store subj pathx atoms maxdepth fuel o r Hset Hf) as [HT HF].
  split; intro H; [apply HT | apply HF]; rewrite H; left; reflexivity.
Qed.

(* ================================================================== *)
(* D. completeness of `allowed` for the positive fragment; the top-level cycle flag *)
(* ================================================================== *)
(* Built on Check/QueryCacheProofs.v: the definite part of V1.check is checkB (check_dv), bounded
   by the path-free unfolding unfoldB (checkB_le_unfoldB), and the path-based cycle cut loses no
   definite value on the empty path (unfoldB_le_checkB_top, the rank argument).  What is added
   here: for models without difference every T of the least fixpoint is a definite `allowed` of
   the unfolding (induction on the rounds of the fixpoint iteration), hence of Check. *)

Lemma or4_list_fst : forall l x, In x l -> fst x = true -> fst (or4_list l) = true.
Proof.
  induction l as [|y l IH]; intros x Hin Hx; [destruct Hin|].
  simpl. destruct Hin as [Hin|Hin]; [subst y; rewrite Hx; reflexivity|].
  rewrite (IH x Hin Hx). apply orb_true_r.
Qed.

Lemma and4_list_fst : forall l, (forall x, In x l -> fst x = true) -> fst (and4_list l) = true.
Proof.
  induction l as [|y l IH]; intro H; [reflexivity|].
  simpl. rewrite (H y (or_introl eq_refl)), IH; [reflexivity | intros x Hx; apply H; right; exact Hx].
Qed.

Section Complete.
  Variable m : model.
  Variable conds : list cid.
  Variable store : list tuple.
  Variable subj : subject.
  Variable pathx : list (tid * rid).
  Hypothesis Hkeys : keys_unique store.
  Hypothesis Hpathx : pathx_full m pathx = true.

  Section OneCallC.
    Variable v : valuation.
    Variable rd : reldef.
    Variable o : obj.
    Variable r : rid.
    Hypothesis Hrd : get_relation m (otype o) r = Some rd.
    Variable td : obj -> rid -> b4.
    Variable tc : rid -> b4.
    Hypothesis Htd : forall o' r', atomval subj v o' r' = T -> fst (td o' r') = true.
    Hypothesis Htc : forall r', atomval subj v o r' = T -> fst (tc r') = true.

    Lemma direct_user_tuple_T : forall t,
      In t (tuples_of m conds store o r) -> t_sub t = subj -> t_ceval t = T ->
      fst (dv (fst (direct_user_tuple m conds store subj o r))) = true.
    Proof.
      intros t Ht Hs Hc. destruct (tuples_of_valid m conds store t o r Ht) as [Hin [Hv [Ho Hr]]].
      assert (Hraw : In t (raw_of store o r)).
      { unfold raw_of. apply filter_In. split; [exact Hin|]. rewrite Ho, Hr, obj_eqb_refl, N.eqb_refl. reflexivity. }
      unfold direct_user_tuple.
      destruct (find (fun t => subject_eqb (t_sub t) subj) (raw_of store o r)) as [t0|] eqn:Hf.
      - apply find_some in Hf. destruct Hf as [Hin0 Hs0]. apply subject_eqb_eq in Hs0.
        assert (He : t0 = t).
        { unfold raw_of in Hin0. apply filter_In in Hin0. destruct Hin0 as [Hi0 Hp0].
          apply andb_true_iff in Hp0. destruct Hp0 as [Ho0 Hr0].
          apply obj_eqb_eq in Ho0. apply N.eqb_eq in Hr0.
          apply Hkeys; try assumption; congruence. }
        subst t0. unfold V1.valid. rewrite Hv, Hc. reflexivity.
      - exfalso. pose proof (find_none _ _ Hf t Hraw) as Hn. simpl in Hn.
        rewrite Hs, subject_eqb_refl in Hn. discriminate Hn.
    Qed.

    Lemma public_assignable_T : forall t,
      In t (tuples_of m conds store o r) -> t_sub t = SWild (subject_type subj) -> t_ceval t = T ->
      fst (dv (fst (public_assignable m conds store subj o r))) = true.
    Proof.
      intros t Ht Hs Hc. destruct (tuples_of_valid m conds store t o r Ht) as [Hin [Hv [Ho Hr]]].
      unfold public_assignable.
      match goal with |- context [passing ?X] => set (ts := X) end.
      assert (Hts : In t (passing ts)).
      { apply In_passing_intro; [|exact Hc]. unfold ts. apply filter_In. split.
        - unfold raw_of. apply filter_In. split; [exact Hin|]. rewrite Ho, Hr, obj_eqb_refl, N.eqb_refl. reflexivity.
        - unfold V1.valid. rewrite Hv, Hs, subject_eqb_refl. reflexivity. }
      destruct (passing ts) as [|p ps]; [destruct Hts | reflexivity].
    Qed.

    Lemma thisB_T_complete :
      or3_list (map (direct1 subj v) (tuples_of m conds store o r)) = T ->
      fst (thisB m conds store subj rd o r td) = true.
    Proof.
      intro H. apply or3_list_T_iff in H. apply in_map_iff in H. destruct H as [t [Hd Ht]].
      pose proof (tuple_facts m conds store rd o r Hrd t Ht) as [Hin [Hraw [Hv _]]].
      unfold thisB. unfold direct1 in Hd. destruct (subject_eqb (t_sub t) subj) eqn:Hse.
      - apply subject_eqb_eq in Hse.
        destruct (subject_case subj) as [[so Hsubj]|[[ty Hsubj]|[so [sr Hsubj]]]].
        + assert (Hdr : directly_related subj (rd_restr rd) = true).
          { apply (directly_related_of_valid m conds store subj rd o r Hrd t Ht Hse).
            intros ty' He. rewrite He in Hsubj. discriminate Hsubj. }
          rewrite Hdr. eapply or4_list_fst; [left; reflexivity|].
          apply (direct_user_tuple_T t Ht Hse Hd).
        + assert (Hs' : t_sub t = SWild (subject_type subj)) by (rewrite Hse, Hsubj; reflexivity).
          assert (Hpa : publicly_assignable subj (rd_restr rd) = true).
          { apply (publicly_assignable_of_valid m conds store subj rd o r Hrd t Ht Hs').
            intros so sr He. rewrite He in Hsubj. discriminate Hsubj. }
          rewrite Hpa. eapply or4_list_fst; [apply in_or_app; right; left; reflexivity|].
          apply (public_assignable_T t Ht Hs' Hd).
        + assert (Hdr : directly_related subj (rd_restr rd) = true).
          { apply (directly_related_of_valid m conds store subj rd o r Hrd t Ht Hse).
            intros ty' He. rewrite He in Hsubj. discriminate Hsubj. }
          rewrite Hdr. eapply or4_list_fst; [left; reflexivity|].
          apply (direct_user_tuple_T t Ht Hse Hd).
      - destruct (t_sub t) as [x|ty|o' r'] eqn:Hs; [discriminate Hd | |].
        + destruct (subject_case subj) as [[so Hsubj]|[[ty' Hsubj]|[so [sr Hsubj]]]];
            rewrite Hsubj in Hd; try discriminate Hd.
          destruct (N.eqb (otype so) ty) eqn:Hty; [|discriminate Hd]. apply N.eqb_eq in Hty.
          assert (Hs' : t_sub t = SWild (subject_type subj)).
          { rewrite Hs, Hsubj. simpl. rewrite Hty. reflexivity. }
          assert (Hpa : publicly_assignable subj (rd_restr rd) = true).
          { apply (publicly_assignable_of_valid m conds store subj rd o r Hrd t Ht Hs').
            intros so' sr' He. rewrite He in Hsubj. discriminate Hsubj. }
          rewrite Hpa. eapply or4_list_fst; [apply in_or_app; right; left; reflexivity|].
          apply (public_assignable_T t Ht Hs' Hd).
        + apply and3_T_iff in Hd. destruct Hd as [Hc Ha].
          destruct (userset_restr_of_valid m conds store rd o r Hrd t o' r' Ht Hs) as [Hhu Hiu].
          rewrite Hhu. eapply or4_list_fst; [apply in_or_app; right; apply in_or_app; right; left; reflexivity|].
          unfold usersetB.
          match goal with |- context [passing ?X] => set (ts := X) end.
          assert (Hts : In t (passing ts)).
          { apply In_passing_intro; [|exact Hc]. unfold ts. apply filter_In. split; [exact Hraw|].
            rewrite Hv, Hs, Hiu. reflexivity. }
          destruct (passing ts) as [|p ps] eqn:Hp; [destruct Hts|]. rewrite <- Hp in *.
          eapply or4_list_fst; [|apply (Htd o' r' Ha)].
          apply in_flat_map. exists t. split; [exact Hts|]. rewrite Hs. left; reflexivity.
    Qed.

    Lemma ttuB_T_complete : forall ts c,
      or3_list (map (ttu1 m subj v c) (tuples_of m conds store o ts)) = T ->
      fst (ttuB m conds store o ts c td) = true.
    Proof.
      intros ts c H. apply or3_list_T_iff in H. apply in_map_iff in H. destruct H as [t [Hd Ht]].
      destruct (tuples_of_valid m conds store t o ts Ht) as [Hin [Hv [Ho Hr]]].
      unfold ttu1 in Hd. destruct (t_sub t) as [o'|x|x y] eqn:Hs; try discriminate Hd.
      destruct (rel_defined m (otype o') c) eqn:Hdef; [|discriminate Hd].
      apply and3_T_iff in Hd. destruct Hd as [Hc Ha].
      unfold ttuB.
      match goal with |- context [passing ?X] => set (tl := X) end.
      assert (Hts : In t (passing tl)).
      { apply In_passing_intro; [|exact Hc]. unfold tl. apply filter_In. split; [|exact Hv].
        unfold raw_of. apply filter_In. split; [exact Hin|]. rewrite Ho, Hr, obj_eqb_refl, N.eqb_refl. reflexivity. }
      destruct (passing tl) as [|p ps] eqn:Hp; [destruct Hts|]. rewrite <- Hp in *.
      eapply or4_list_fst; [|apply (Htd o' c Ha)].
      apply in_flat_map. exists t. split; [exact Hts|]. rewrite Hs, Hdef. left; reflexivity.
    Qed.

    Lemma evalB_T_complete : forall rw,
      positive_rw rw = true ->
      eval_rw m conds store subj v o r rw = T ->
      fst (evalB m conds store subj rd o r td tc rw) = true.
    Proof.
      intro rw. induction rw as [|r'|ts c|l IH|l IH|b s IHb IHs] using rewrite_ind'; intros Hp H.
      - apply thisB_T_complete. exact H.
      - simpl in *. apply Htc. exact H.
      - apply ttuB_T_complete. exact H.
      - rewrite eval_rw_Union in H. rewrite positive_Union, forallb_forall in Hp.
        apply or3_list_T_iff in H. apply in_map_iff in H. destruct H as [x [Hx Hin]].
        cbn [evalB]. rewrite Forall_forall in IH.
        eapply or4_list_fst; [apply in_map_iff; exists x; split; [reflexivity | exact Hin]|].
        apply IH; [exact Hin | apply Hp; exact Hin | exact Hx].
      - rewrite eval_rw_Inter in H. rewrite positive_Inter, forallb_forall in Hp.
        cbn [evalB]. rewrite Forall_forall in IH.
        apply and4_list_fst. intros y Hy. apply in_map_iff in Hy. destruct Hy as [x [Hy Hin]]. subst y.
        apply IH; [exact Hin | apply Hp; exact Hin|].
        rewrite and3_list_T_iff in H. apply H. apply in_map_iff. exists x. auto.
      - discriminate Hp.
    Qed.
  End OneCallC.

  Hypothesis Hpos : positive_model m = true.
  Variable atoms : list atom.

  Local Notation uB := (unfoldB m conds store subj pathx).

  (* every T of the valuation is a definite `allowed` of the unfolding of height h *)
  Definition covered (v : valuation) (h : nat) : Prop :=
    forall o r, atomval subj v o r = T -> fst (uB h o r) = true.

  Lemma covered_mono : forall v h h', (h <= h')%nat -> covered v h -> covered v h'.
  Proof.
    intros v h h' Hle Hc o r Ht. destruct (unfoldB_mono m conds store subj pathx h h' o r Hle) as [H1 _].
    apply H1. apply Hc. exact Ht.
  Qed.

  Lemma covered_nil : covered [] 1.
  Proof.
    intros o r H. unfold atomval in H. cbn [unfoldB].
    destruct (subject_eqb subj (SSet o r)); [reflexivity | simpl in H; discriminate H].
  Qed.

  Lemma covered_step : forall k v h, covered v h -> covered (step_at m conds store subj atoms k v) (S h).
  Proof.
    intros k v h Hc o r Ht. unfold atomval in Ht. cbn [unfoldB].
    destruct (subject_eqb subj (SSet o r)) eqn:Hs; [reflexivity|].
    rewrite vget_step_at in Ht.
    destruct (existsb (atom_eqb (o, r)) (atoms_at m atoms k)).
    - unfold eval_atom in Ht. simpl in Ht.
      destruct (get_relation m (otype o) r) as [rd|] eqn:Hr; [|discriminate Ht].
      assert (Hd : rel_defined m (otype o) r = true) by (unfold rel_defined; rewrite Hr; reflexivity).
      rewrite (pathx_full_defined m pathx _ _ Hpathx Hd). simpl.
      apply (evalB_T_complete v rd o r Hr (fun o' r' => uB h o' r') (fun r' => uB h o r')).
      + intros o' r' Ha. apply Hc. exact Ha.
      + intros r' Ha. apply Hc. exact Ha.
      + eapply positive_model_rel; eassumption.
      + exact Ht.
    - assert (Hlow : fst (uB h o r) = true).
      { apply Hc. unfold atomval. rewrite Hs. exact Ht. }
      destruct (unfoldB_S_mono m conds store subj pathx h o r) as [H1 _].
      apply H1 in Hlow. cbn [unfoldB] in Hlow. rewrite Hs in Hlow. exact Hlow.
  Qed.

  Lemma covered_lfp_at : forall k fuel v h,
    covered v h -> covered (fst (lfp_at m conds store subj atoms k fuel v)) (h + fuel).
  Proof.
    intros k fuel; induction fuel as [|f IH]; intros v h Hc; simpl.
    - rewrite Nat.add_0_r. exact Hc.
    - pose proof (covered_step k v h Hc) as Hs.
      destruct (val_eqb_on (atoms_at m atoms k) v (step_at m conds store subj atoms k v)); simpl.
      + eapply covered_mono; [|exact Hs]. lia.
      + replace (h + S f)%nat with (S h + f)%nat by lia. apply IH. exact Hs.
  Qed.

  Theorem lfp_T_unfolded : forall o r,
    holds3 m conds store subj atoms o r = T ->
    fst (uB (S (round_fuel atoms)) o r) = true.
  Proof.
    intros o r H. unfold holds3 in H. rewrite (positive_lfp m Hpos) in H. cbn [fst] in H.
    apply (covered_lfp_at O (round_fuel atoms) [] 1 covered_nil o r H).
  Qed.

  (* the reference semantics grants => Check can answer `allowed` (and then, by consistency of
     the definite part, cannot answer `denied` without cycle flag) *)
  Theorem check_complete_allowed_positive : forall maxdepth fuel o r,
    (S (round_fuel atoms) <= fuel)%nat -> (S (round_fuel atoms) <= maxdepth)%nat ->
    holds3 m conds store subj atoms o r = T ->
    In AT (fst (check_top m conds store subj pathx maxdepth fuel o r)).
  Proof.
    intros maxdepth fuel o r Hf Hd H. apply omem_In.
    pose proof (lfp_T_unfolded o r H) as Hu.
    pose proof (unfoldB_le_checkB_top m conds store subj pathx maxdepth _ o r fuel Hf Hd) as [H1 _].
    unfold check_top. rewrite <- (check_dv m conds store subj pathx maxdepth fuel O [] o r) in H1.
    apply H1. exact Hu.
  Qed.
End Complete.

(* positive fragment: `allowed` is exact *)
Theorem C01_allowed_exact_positive :
  forall m conds store subj pathx atoms maxdepth fuel o r,
    C01_setting m conds store subj pathx atoms ->
    positive_model m = true ->
    (S (round_fuel atoms) <= fuel)%nat -> (S (round_fuel atoms) <= maxdepth)%nat ->
    (In AT (fst (check_top m conds store subj pathx maxdepth fuel o r)) <->
     holds3 m conds store subj atoms o r = T).
Proof.
  intros m conds store subj pathx atoms maxdepth fuel o r Hset Hpos Hf Hd.
  destruct Hset as [Hs [Hc [Hu [Hne [Hk Hp]]]]]. split.
  - apply check_sound_positive_holds3; assumption.
  - apply check_complete_allowed_positive; try assumption. apply keys_ok_unique; exact Hk.
Qed.

(* (3) the top-level cycle flag.  A top-level request starts on the empty path, so AFc at top
   level always comes from below.  For every model: if Check returns NO definite outcome (e.g.
   the outcome set is {AFc}), then no unfolding up to height min(fuel, maxdepth) determines the
   answer -- every derivation of a value for o#r of that height runs into a tuple cycle (or an
   error).  For models without difference and enough fuel/depth this means the reference
   semantics does not grant: "denied, cycle" is then a correct denial (the value is F, or E when
   a condition could not be evaluated). *)
Theorem top_no_decision_undetermined :
  forall m conds store subj pathx maxdepth fuel o r h,
    ~ In AT (fst (check_top m conds store subj pathx maxdepth fuel o r)) ->
    ~ In AFn (fst (check_top m conds store subj pathx maxdepth fuel o r)) ->
    (h <= fuel)%nat -> (h <= maxdepth)%nat ->
    unfoldB m conds store subj pathx h o r = bot4.
Proof.
  intros m conds store subj pathx maxdepth fuel o r h H1 H2 Hf Hd.
  apply le4_bot_inv.
  eapply le4_trans; [apply (unfoldB_le_checkB_top m conds store subj pathx maxdepth h o r fuel Hf Hd)|].
  rewrite <- check_dv. unfold check_top in *. unfold dv.
  destruct (omem AT _) eqn:Ha; [apply omem_In in Ha; contradiction|].
  destruct (omem AFn _) eqn:Hb; [apply omem_In in Hb; contradiction|].
  apply le4_refl.
Qed.

Theorem C01_cycle_denial_positive :
  forall m conds store subj pathx atoms maxdepth fuel o r,
    positive_model m = true -> keys_ok store = true -> pathx_full m pathx = true ->
    (S (round_fuel atoms) <= fuel)%nat -> (S (round_fuel atoms) <= maxdepth)%nat ->
    fst (check_top m conds store subj pathx maxdepth fuel o r) = [AFc] ->
    holds3 m conds store subj atoms o r <> T.
Proof.
  intros m conds store subj pathx atoms maxdepth fuel o r Hpos Hk Hp Hf Hd H Ht.
  pose proof (check_complete_allowed_positive m conds store subj pathx (keys_ok_unique _ Hk) Hp Hpos
                atoms maxdepth fuel o r Hf Hd Ht) as Hin.
  rewrite H in Hin. destruct Hin as [Hin|[]]. discriminate Hin.
Qed.

(* ================================================================== *)
(* E. where errors come from                                           *)
(* ================================================================== *)

Section Errors.
  Variable m : model.
  Variable conds : list cid.
  Variable store : list tuple.
  Variable subj : subject.
  Variable pathx : list (tid * rid).
  Variable maxdepth : nat.

  Local Notation chk := (check m conds store subj pathx maxdepth).

  (* some valid stored tuple has a condition that cannot be evaluated under the request context
     (the oracle's has_e) *)
  Definition has_cond_error : Prop :=
    exists t, In t store /\ valid_for_read m conds t = true /\ t_ceval t = E.

  Lemma has_err_witness : forall (p : tuple -> bool) o r,
    (forall t, p t = true -> valid_for_read m conds t = true) ->
    has_err (filter p (raw_of store o r)) = true -> has_cond_error.
  Proof.
    intros p o r Hp H. unfold has_err in H. apply existsb_exists in H. destruct H as [t [Hin Hc]].
    apply filter_In in Hin. destruct Hin as [Hraw Hpt]. unfold raw_of in Hraw. apply filter_In in Hraw.
    exists t. split; [tauto|]. split; [apply Hp; exact Hpt|]. destruct (t_ceval t); try discriminate Hc. reflexivity.
  Qed.

  Section OneCallE.
    Variable rd : reldef.
    Variable o : obj.
    Variable r : rid.
    Variable dispatch : obj -> rid -> unit -> res.
    Variable computed : rid -> res.
    Variable x : aout.
    Hypothesis HxT : x <> AT.
    Hypothesis HxF : x <> AFn.

    Definition from_below : Prop :=
      (x = AEc /\ has_cond_error) \/
      (exists o' r', In x (fst (dispatch o' r' tt))) \/ (exists r', In x (fst (computed r'))).

    Lemma singleton_mem : forall (a : aout) (t : trig), In x (fst ([a], t)) -> x = a.
    Proof. intros a t [H|[]]. symmetry; exact H. Qed.

    Lemma this_from_below :
      In x (fst (union_all (this_handlers m conds store subj rd o r dispatch))) -> from_below.
    Proof.
      intro H. apply union_all_mem in H. destruct H as [H|[h [Hin Hat]]]; [contradiction|].
      unfold this_handlers in Hin. apply in_app_iff in Hin. destruct Hin as [Hin|Hin].
      { destruct (directly_related subj (rd_restr rd)); [|destruct Hin].
        destruct Hin as [Hin|[]]. subst h. cbv beta in Hat. unfold direct_user_tuple in Hat.
        destruct (find (fun t => subject_eqb (t_sub t) subj) (raw_of store o r)) as [t|] eqn:Hf;
          [|apply singleton_mem in Hat; contradiction].
        destruct (negb (V1.valid m conds t)) eqn:Hv; [apply singleton_mem in Hat; contradiction|].
        apply negb_false_iff in Hv.
        destruct (t_ceval t) eqn:Hc; apply singleton_mem in Hat; try contradiction.
        left. split; [exact Hat|]. apply find_some in Hf. destruct Hf as [Hraw _].
        unfold raw_of in Hraw. apply filter_In in Hraw. exists t. tauto. }
      apply in_app_iff in Hin. destruct Hin as [Hin|Hin].
      { destruct (publicly_assignable subj (rd_restr rd)); [|destruct Hin].
        destruct Hin as [Hin|[]]. subst h. cbv beta in Hat. unfold public_assignable in Hat.
        match type of Hat with context [passing ?X] => set (ts := X) in * end.
        destruct (passing ts); [|apply singleton_mem in Hat; contradiction].
        destruct (has_err ts) eqn:He; apply singleton_mem in Hat; [|contradiction].
        left. split; [exact Hat|]. unfold ts in He. eapply has_err_witness; [|exact He].
        intros t Ht. apply andb_true_iff in Ht. tauto. }
      destruct (has_userset_restr (rd_restr rd)); [|destruct Hin].
      destruct Hin as [Hin|[]]. subst h. unfold userset_handler in Hat.
      match type of Hat with context [passing ?X] => set (ts := X) in * end.
      destruct (passing ts) as [|t0 ps] eqn:Hp.
      { destruct (has_err ts) eqn:He; apply singleton_mem in Hat; [|contradiction].
        left. split; [exact Hat|]. unfold ts in He. eapply has_err_witness; [|exact He].
        intros t Ht. apply andb_true_iff in Ht. tauto. }
      rewrite fst_let_pair in Hat. apply union_all_mem in Hat.
      destruct Hat as [Hat|[h [Hin Hat]]]; [contradiction|].
      apply in_flat_map in Hin. destruct Hin as [t [_ Hh]].
      destruct (t_sub t) as [y|y|o' r']; try (destruct Hh; fail).
      destruct Hh as [Hh|[]]. subst h. right. left. exists o', r'. exact Hat.
    Qed.

    Lemma ttu_from_below : forall ts c,
      In x (fst (ttu_eval m conds store o ts c dispatch)) -> from_below.
    Proof.
      intros ts c Hat. unfold ttu_eval in Hat.
      match type of Hat with context [passing ?X] => set (tl := X) in * end.
      destruct (passing tl) as [|t0 ps] eqn:Hp.
      { destruct (has_err tl) eqn:He; apply singleton_mem in Hat; [|contradiction].
        left. split; [exact Hat|]. unfold tl in He. eapply has_err_witness; [|exact He].
        intros t Ht. exact Ht. }
      rewrite fst_let_pair in Hat. apply union_all_mem in Hat.
      destruct Hat as [Hat|[h [Hin Hat]]]; [contradiction|].
      apply in_flat_map in Hin. destruct Hin as [t [_ Hh]].
      destruct (t_sub t) as [o'|y|y z]; try (destruct Hh; fail).
      destruct (rel_defined m (otype o') c); [|destruct Hh].
      destruct Hh as [Hh|[]]. subst h. right. left. exists o', c. exact Hat.
    Qed.

    Lemma eval_with_from_below : forall rw,
      In x (fst (eval_with m conds store subj rd o r dispatch computed rw)) -> from_below.
    Proof.
      intro rw. induction rw as [|r'|ts c|l IH|l IH|b s IHb IHs] using rewrite_ind'; intro Hat.
      - exact (this_from_below Hat).
      - right. right. exists r'. exact Hat.
      - exact (ttu_from_below ts c Hat).
      - cbn [eval_with] in Hat. apply union_all_mem in Hat.
        destruct Hat as [Hat|[h [Hin Hat]]]; [contradiction|].
        apply in_map_iff in Hin. destruct Hin as [y [Hh Hy]]. subst h.
        rewrite Forall_forall in IH. exact (IH y Hy Hat).
      - cbn [eval_with] in Hat. apply inter_all_mem in Hat.
        destruct Hat as [Hat|[h [Hin Hat]]]; [contradiction|].
        apply in_map_iff in Hin. destruct Hin as [y [Hh Hy]]. subst h.
        rewrite Forall_forall in IH. exact (IH y Hy Hat).
      - cbn [eval_with] in Hat.
        destruct (eval_with m conds store subj rd o r dispatch computed b) as [sb tb].
        destruct (eval_with m conds store subj rd o r dispatch computed s) as [ss ts].
        simpl in Hat, IHb, IHs. apply In_lift2 in Hat. destruct Hat as [a [b' [Ha [Hb Hx]]]].
        apply excl2_mem in Hx. destruct Hx as [Hx|[Hx|Hx]]; [subst a; exact (IHb Ha) | subst b'; exact (IHs Hb) | contradiction].
    Qed.
  End OneCallE.

  (* a condition error in the outcome set comes from a valid tuple whose condition cannot be
     evaluated (never from thin air) *)
  Theorem check_cond_error_witness : forall fuel depth visited o r,
    In AEc (fst (chk fuel depth visited o r)) -> has_cond_error.
  Proof.
    induction fuel as [|f IH]; intros depth visited o r H.
    - destruct H as [H|[]]; discriminate H.
    - rewrite check_unfold in H.
      destruct (Nat.eqb depth maxdepth); [destruct H as [H|[]]; discriminate H|].
      destruct (existsb (atom_eqb (o, r)) visited); [destruct H as [H|[]]; discriminate H|].
      destruct (subject_eqb subj (SSet o r)); [destruct H as [H|[]]; discriminate H|].
      destruct (get_relation m (otype o) r) as [rd|]; [|destruct H as [H|[]]; discriminate H].
      destruct (negb (path_exists pathx (otype o) r)); [destruct H as [H|[]]; discriminate H|].
      apply eval_with_from_below in H; try discriminate.
      destruct H as [[_ H]|[[o' [r' H]]|[r' H]]]; [exact H | eapply IH; exact H | eapply IH; exact H].
  Qed.

  (* a depth error means the engine really went down to the depth limit *)
  Theorem check_depth_error_reached : forall fuel depth visited o r,
    In AEd (fst (chk fuel depth visited o r)) -> (depth <= maxdepth /\ maxdepth - depth < fuel)%nat.
  Proof.
    induction fuel as [|f IH]; intros depth visited o r H.
    - destruct H as [H|[]]; discriminate H.
    - rewrite check_unfold in H.
      destruct (Nat.eqb depth maxdepth) eqn:Hd; [apply Nat.eqb_eq in Hd; lia|].
      destruct (existsb (atom_eqb (o, r)) visited); [destruct H as [H|[]]; discriminate H|].
      destruct (subject_eqb subj (SSet o r)); [destruct H as [H|[]]; discriminate H|].
      destruct (get_relation m (otype o) r) as [rd|]; [|destruct H as [H|[]]; discriminate H].
      destruct (negb (path_exists pathx (otype o) r)); [destruct H as [H|[]]; discriminate H|].
      apply eval_with_from_below in H; try discriminate.
      destruct H as [[H _]|[[o' [r' H]]|[r' H]]]; [discriminate H | |].
      + apply IH in H. lia.
      + apply IH in H. lia.
  Qed.
End Errors.

(* ================================================================== *)
(* F. the full statement, minus exactly the two findings               *)
(* ================================================================== *)
(* C01_full_statement (Check/V1Proofs.v, refuted) becomes a theorem when restricted to
   - outcomes other than "denied with cycle flag" (the only outcome F1 can make wrong), and
   - runs that did not drop a condition error (F2),
   plus the well-formedness hypotheses no_empty_inter_model and keys_ok.  Both restrictions are
   necessary: the F1 witness has x = AFc with tr_swallow = false, the F2 witness has x = AT with
   tr_swallow = true (C01_refuted_excl_sub_cycle, C01_refuted_cond_err_swallowed). *)
Theorem C01_full_partial :
  forall m conds store subj pathx atoms maxdepth fuel o r x,
    C01_setting m conds store subj pathx atoms ->
    tr_swallow (snd (check_top m conds store subj pathx maxdepth fuel o r)) = false ->
    x <> AFc ->
    In x (fst (check_top m conds store subj pathx maxdepth fuel o r)) ->
    decision_agrees x (holds3 m conds store subj atoms o r).
Proof.
  intros m conds store subj pathx atoms maxdepth fuel o r x Hset Hf Hx Hin.
  destruct (check_exact_partial m conds store subj pathx atoms maxdepth fuel o r Hset Hf) as [HT HF].
  destruct x; simpl; auto. exfalso. apply Hx. reflexivity.
Qed.

(* data for the examples: the F1 model (exclusion) with a store in which user:2 is blocked
   through group:1 and user:1 is not; no tuple cycle *)
Definition dx_store : list tuple :=
  [ mk_tuple (mk_obj 4 1) 2 (SObj (mk_obj 1 1)) 0 T;
    mk_tuple (mk_obj 4 1) 2 (SObj (mk_obj 1 2)) 0 T;
    mk_tuple (mk_obj 4 1) 3 (SSet (mk_obj 3 1) 1) 0 T;
    mk_tuple (mk_obj 3 1) 1 (SObj (mk_obj 1 2)) 0 T ].
Definition dx_atoms : list atom :=
  [(mk_obj 4 1, 2); (mk_obj 4 1, 3); (mk_obj 4 1, 4); (mk_obj 3 1, 1)].
Definition dx_subj1 : subject := SObj (mk_obj 1 1).
Definition dx_subj2 : subject := SObj (mk_obj 1 2).

Lemma C01_setting_intro : forall m conds store subj pathx atoms,
  stratified m && converged m conds store subj atoms && universe_ok m conds store subj atoms &&
  no_empty_inter_model m && keys_ok store && pathx_full m pathx = true ->
  C01_setting m conds store subj pathx atoms.
Proof.
  intros m conds store subj pathx atoms H.
  apply andb_true_iff in H. destruct H as [H H6].
  apply andb_true_iff in H. destruct H as [H H5].
  apply andb_true_iff in H. destruct H as [H H4].
  apply andb_true_iff in H. destruct H as [H H3].
  apply andb_true_iff in H. destruct H as [H1 H2].
  unfold C01_setting. repeat split; assumption.
Qed.
