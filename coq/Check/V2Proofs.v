(* Proofs for C03 (see Props/C03.v for the statements that are claimed):
   - c03_ok_iff_statement: the boolean contract checker IS the three clauses of the property;
   - check_reason_total_on_shapes / excl_reason_total_on_userset_shape /
     excl_reason_total_on_wildcard_shape_partial: every documented breaking shape, defined
     independently as a predicate on the model, makes the detector model non-empty;
   - detector_never_misses_refuted: the claim "never misses a real divergence" is false (witness);
   - visited_dfs_spec: DFS with a visited set SHARED by the whole request computes reachability
     for the ROOT query, on every finite union-only graph (closure argument; the search cannot
     run out of fuel because every call marks a node that was unvisited);
   - visited_dfs_inner_refuted: an INNER node's result under the shared set is not its own
     truth value (root cause of the C08 finding);
   - holds3q_noquirks: the deviation-naming evaluator with every switch off is Sem.holds3. *)
From OFGA Require Import Check.V2Dfs Check.V2Contract Check.V2Sem.
From Coq Require Import Lia.

Section DfsProofs.
  Variable succ : N -> list N.
  Variable leaf : N -> bool.

  Lemma nmem_In : forall n V, nmem n V = true <-> In n V.
  Proof.
    intros n V. unfold nmem. rewrite existsb_exists. split.
    - intros [x [Hin Heq]]. apply N.eqb_eq in Heq. subst. exact Hin.
    - intros Hin. exists n. split; [exact Hin | apply N.eqb_refl].
  Qed.

  Lemma nmem_false : forall n V, nmem n V = false <-> ~ In n V.
  Proof.
    intros n V. rewrite <- nmem_In. destruct (nmem n V); split; intro H.
    - discriminate.
    - exfalso. apply H. reflexivity.
    - intro H0. discriminate.
    - reflexivity.
  Qed.

  (* ---- soundness: a `true` comes from a reachable leaf ---- *)
  Lemma scan_sound : forall rec,
      (forall V s V', rec V s = (Some true, V') -> reach succ leaf s) ->
      forall l V V', scan rec l V = (Some true, V') -> exists s, In s l /\ reach succ leaf s.
  Proof.
    intros rec Hrec l. induction l as [|s l IH]; intros V V' H; simpl in H.
    - discriminate.
    - destruct (nmem s V).
      + destruct (IH _ _ H) as [x [Hin Hr]]. exists x. split; [right; exact Hin | exact Hr].
      + destruct (rec (s :: V) s) as [[[|]|] V1] eqn:E.
        * exists s. split; [left; reflexivity | eapply Hrec; exact E].
        * destruct (IH _ _ H) as [x [Hin Hr]]. exists x. split; [right; exact Hin | exact Hr].
        * discriminate.
  Qed.

  Lemma dfs_sound : forall f V n V', dfs succ leaf f V n = (Some true, V') -> reach succ leaf n.
  Proof.
    induction f as [|f IH]; intros V n V' H; simpl in H.
    - discriminate.
    - destruct (leaf n) eqn:L.
      + apply reach_leaf. exact L.
      + destruct (scan_sound (dfs succ leaf f) (fun V s V' => IH V s V') _ _ _ H) as [s [Hin Hr]].
        eapply reach_step; eauto.
  Qed.

  (* ---- closure: after a `false`, everything that was marked is fully explored ---- *)
  Definition closed_in (V' : list N) (x : N) : Prop :=
    leaf x = false /\ forall s, In s (succ x) -> In s V'.

  Lemma closed_in_mono : forall V1 V2 x, incl V1 V2 -> closed_in V1 x -> closed_in V2 x.
  Proof. intros V1 V2 x Hi [Hl Hs]. split; [exact Hl | intros s Hin; apply Hi, Hs, Hin]. Qed.

  Definition false_post (V : list N) (V' : list N) : Prop :=
    incl V V' /\ forall x, In x V' -> In x V \/ closed_in V' x.

  Lemma scan_closure : forall rec,
      (forall V s V', rec V s = (Some false, V') -> false_post V V' /\ closed_in V' s) ->
      forall l V V', scan rec l V = (Some false, V') ->
                     false_post V V' /\ forall s, In s l -> In s V'.
  Proof.
    intros rec Hrec l. induction l as [|s l IH]; intros V V' H; simpl in H.
    - inversion H; subst. split; [split; [apply incl_refl | intros x Hx; left; exact Hx] | intros s []].
    - destruct (nmem s V) eqn:M.
      + destruct (IH _ _ H) as [[Hi Hc] Hl]. split; [split; assumption|].
        intros x [Hx|Hx]; [subst; apply Hi, nmem_In, M | apply Hl, Hx].
      + destruct (rec (s :: V) s) as [[[|]|] V1] eqn:E; try discriminate.
        destruct (Hrec _ _ _ E) as [[Hi1 Hc1] Hcs].
        destruct (IH _ _ H) as [[Hi2 Hc2] Hl].
        split; [split|].
        * intros x Hx. apply Hi2, Hi1. right. exact Hx.
        * intros x Hx. destruct (Hc2 x Hx) as [Hx1|Hx1]; [|right; exact Hx1].
          destruct (Hc1 x Hx1) as [[Hx0|Hx0]|Hx0].
          -- subst x. right. apply (closed_in_mono V1 V'); assumption.
          -- left. exact Hx0.
          -- right. apply (closed_in_mono V1 V'); assumption.
        * intros x [Hx|Hx]; [subst; apply Hi2, Hi1; left; reflexivity | apply Hl, Hx].
  Qed.

  Lemma dfs_closure : forall f V n V',
      dfs succ leaf f V n = (Some false, V') -> false_post V V' /\ closed_in V' n.
  Proof.
    induction f as [|f IH]; intros V n V' H; simpl in H.
    - discriminate.
    - destruct (leaf n) eqn:L; [discriminate|].
      destruct (scan_closure (dfs succ leaf f) (fun V s V' => IH V s V') _ _ _ H) as [Hp Hl].
      split; [exact Hp | split; [exact L | exact Hl]].
  Qed.

  Lemma closed_no_reach : forall V', (forall x, In x V' -> closed_in V' x) ->
                                     forall x, reach succ leaf x -> In x V' -> False.
  Proof.
    intros V' Hc x Hr. induction Hr as [n Hl | n s Hin Hr IH]; intros Hx.
    - destruct (Hc n Hx) as [Hl' _]. congruence.
    - destruct (Hc n Hx) as [_ Hs]. apply IH, Hs, Hin.
  Qed.

  Lemma dfs_root_false_complete : forall f root V',
      dfs succ leaf f [root] root = (Some false, V') -> ~ reach succ leaf root.
  Proof.
    intros f root V' H Hr. destruct (dfs_closure _ _ _ _ H) as [[Hi Hc] Hroot].
    apply (closed_no_reach V') with (x := root); [|exact Hr|apply Hi; left; reflexivity].
    intros x Hx. destruct (Hc x Hx) as [[Hx0|[]]|Hx0]; [subst; exact Hroot | exact Hx0].
  Qed.

  (* ---- the search never runs out of fuel: every call marks a new node ---- *)
  Variable nodes : list N.
  Hypothesis nodes_closed : forall n, In n nodes -> incl (succ n) nodes.

  Lemma unvisited_mono_gen : forall (l : list N) V V', incl V V' -> (unvisited l V' <= unvisited l V)%nat.
  Proof.
    intros l V V' Hi. unfold unvisited. induction l as [|x l IH]; simpl; [lia|].
    destruct (nmem x V') eqn:M'; destruct (nmem x V) eqn:M; simpl; try lia.
    apply nmem_In in M. apply Hi in M. apply nmem_In in M. congruence.
  Qed.

  Lemma unvisited_lt_gen : forall (l : list N) V s, In s l -> ~ In s V -> (unvisited l (s :: V) < unvisited l V)%nat.
  Proof.
    intros l V s Hs Hn. induction l as [|x l IH]; [destruct Hs|].
    assert (Hle : (unvisited l (s :: V) <= unvisited l V)%nat).
    { apply unvisited_mono_gen. intros y Hy. right. exact Hy. }
    unfold unvisited in *. simpl in *.
    apply nmem_false in Hn.
    destruct (N.eqb x s) eqn:E; simpl.
    - apply N.eqb_eq in E. subst x. rewrite Hn. simpl. lia.
    - destruct Hs as [Hs|Hs]; [subst x; rewrite N.eqb_refl in E; discriminate|].
      specialize (IH Hs). destruct (nmem x V); simpl; lia.
  Qed.

  Lemma unvisited_mono : forall V V', incl V V' -> (unvisited nodes V' <= unvisited nodes V)%nat.
  Proof. intros. apply unvisited_mono_gen. assumption. Qed.

  Lemma unvisited_lt : forall V s, In s nodes -> ~ In s V -> (unvisited nodes (s :: V) < unvisited nodes V)%nat.
  Proof. intros. apply unvisited_lt_gen; assumption. Qed.

  Lemma scan_incl : forall rec, (forall V s, incl V (snd (rec V s))) ->
                                forall l V, incl V (snd (scan rec l V)).
  Proof.
    intros rec Hrec l. induction l as [|s l IH]; intros V; simpl.
    - apply incl_refl.
    - destruct (nmem s V); [apply IH|].
      specialize (Hrec (s :: V) s). destruct (rec (s :: V) s) as [[[|]|] V1]; simpl in *.
      + intros x Hx. apply Hrec. right. exact Hx.
      + intros x Hx. apply IH, Hrec. right. exact Hx.
      + intros x Hx. apply Hrec. right. exact Hx.
  Qed.

  Lemma dfs_incl : forall f V n, incl V (snd (dfs succ leaf f V n)).
  Proof.
    induction f as [|f IH]; intros V n; simpl; [apply incl_refl|].
    destruct (leaf n); simpl; [apply incl_refl|].
    apply scan_incl. intros V0 s. apply IH.
  Qed.

  Lemma scan_nofuel : forall (f : nat) rec,
      (forall V s, In s nodes -> (f > unvisited nodes V)%nat -> fst (rec V s) <> None) ->
      (forall V s, incl V (snd (rec V s))) ->
      forall l V, incl l nodes -> (f >= unvisited nodes V)%nat -> fst (scan rec l V) <> None.
  Proof.
    intros f rec Hrec Hinc l. induction l as [|s l IH]; intros V Hl Hf; simpl.
    - discriminate.
    - assert (Hs : In s nodes) by (apply Hl; left; reflexivity).
      assert (Hl' : incl l nodes) by (intros y Hy; apply Hl; right; exact Hy).
      destruct (nmem s V) eqn:M; [apply IH; assumption|].
      apply nmem_false in M.
      pose proof (unvisited_lt V s Hs M) as Hlt.
      assert (Hgt : (f > unvisited nodes (s :: V))%nat) by lia.
      specialize (Hrec (s :: V) s Hs Hgt). specialize (Hinc (s :: V) s).
      destruct (rec (s :: V) s) as [[[|]|] V1]; simpl in *.
      + discriminate.
      + apply IH; [exact Hl'|].
        pose proof (unvisited_mono (s :: V) V1 Hinc). lia.
      + congruence.
  Qed.

  Lemma dfs_nofuel : forall f V n, In n nodes -> (f > unvisited nodes V)%nat ->
                                   fst (dfs succ leaf f V n) <> None.
  Proof.
    induction f as [|f IH]; intros V n Hn Hf; [lia|]. simpl.
    destruct (leaf n); simpl; [discriminate|].
    apply (scan_nofuel f).
    - intros V0 s Hs Hg. apply IH; assumption.
    - intros V0 s. apply dfs_incl.
    - apply nodes_closed, Hn.
    - lia.
  Qed.

  Lemma unvisited_le_length_gen : forall (l : list N) V, (unvisited l V <= length l)%nat.
  Proof.
    intros l V. unfold unvisited. induction l as [|x l IH]; simpl; [lia|].
    destruct (negb (nmem x V)); simpl; lia.
  Qed.

  Lemma unvisited_le_length : forall V, (unvisited nodes V <= length nodes)%nat.
  Proof. intros V. apply unvisited_le_length_gen. Qed.

  (* DFS with a shared visited set computes reachability for the ROOT query *)
  Theorem visited_dfs_spec : forall root fuel,
      In root nodes -> (fuel > length nodes)%nat ->
      exists b, dfs_root succ leaf fuel root = Some b /\ (b = true <-> reach succ leaf root).
  Proof.
    intros root fuel Hr Hf. unfold dfs_root.
    pose proof (dfs_nofuel fuel [root] root Hr) as Hn.
    pose proof (unvisited_le_length [root]) as Hle.
    destruct (dfs succ leaf fuel [root] root) as [[[|]|] V'] eqn:E; simpl in *.
    - exists true. split; [reflexivity|]. split; [intros _; eapply dfs_sound; exact E | reflexivity].
    - exists false. split; [reflexivity|]. split; [discriminate|].
      intros Hreach. exfalso. eapply dfs_root_false_complete; eauto.
    - exfalso. apply Hn; [lia | reflexivity].
  Qed.
End DfsProofs.

(* ---- the contract checker is the statement ---- *)
Lemma clause1_iff : forall x, clause1 x = true <-> P1 x.
Proof.
  intros x. unfold clause1, P1, v2_decided. split.
  - intros H Hk b Hv. rewrite Hk in H. simpl in H. rewrite Hv in H.
    destruct b; destruct (ob_spec x); simpl in *; try discriminate; reflexivity.
  - intros H. destruct (ob_kind x) eqn:K; simpl; try reflexivity.
    destruct (ob_v2 x) eqn:V; try reflexivity.
    + rewrite (H eq_refl true eq_refl). reflexivity.
    + rewrite (H eq_refl false eq_refl). reflexivity.
Qed.

Lemma is_none_false : forall r, is_none r = false <-> r <> RNone.
Proof. intros r. destruct r; simpl; split; intros H; try reflexivity; try discriminate; try congruence. Qed.

Lemma clause2_iff : forall x, clause2 x = true <-> P2 x.
Proof.
  intros x. unfold clause2, P2, v1_decided, v2_decided. split.
  - intros H Hk a b Ha Hb Hab.
    destruct (ob_kind x) eqn:K; [congruence| |]; simpl in H; rewrite Ha, Hb in H;
      destruct a; destruct b; try congruence; simpl in H;
      apply is_none_false; destruct (is_none (ob_reason x)); simpl in H; congruence.
  - intros H. destruct (ob_kind x) eqn:K; simpl; try reflexivity;
      destruct (ob_v1 x) eqn:V1; destruct (ob_v2 x) eqn:V2; try reflexivity.
    + assert (Hr : ob_reason x <> RNone) by (apply (H ltac:(discriminate) true false); [reflexivity|reflexivity|discriminate]).
      apply is_none_false in Hr. rewrite Hr. reflexivity.
    + assert (Hr : ob_reason x <> RNone) by (apply (H ltac:(discriminate) false true); [reflexivity|reflexivity|discriminate]).
      apply is_none_false in Hr. rewrite Hr. reflexivity.
    + assert (Hr : ob_reason x <> RNone) by (apply (H ltac:(discriminate) true false); [reflexivity|reflexivity|discriminate]).
      apply is_none_false in Hr. rewrite Hr. reflexivity.
    + assert (Hr : ob_reason x <> RNone) by (apply (H ltac:(discriminate) false true); [reflexivity|reflexivity|discriminate]).
      apply is_none_false in Hr. rewrite Hr. reflexivity.
Qed.

Lemma dec_eqb_eq : forall a b, dec_eqb a b = true <-> a = b.
Proof. intros a b. destruct a; destruct b; simpl; split; intros H; try reflexivity; try discriminate. Qed.

Lemma clause3_iff : forall x, clause3 x = true <-> P3 x.
Proof.
  intros x. unfold clause3, P3. rewrite andb_true_iff. split.
  - intros [H1 H2]. split.
    + intros e He. rewrite He in H1. apply orb_true_iff in H1. exact H1.
    + intros Hf. rewrite Hf in H2. apply dec_eqb_eq. exact H2.
  - intros [H1 H2]. split.
    + destruct (ob_v2 x) eqn:V; try reflexivity. apply orb_true_iff. apply H1. reflexivity.
    + destruct (ob_fallback x) eqn:F; [|reflexivity]. apply dec_eqb_eq. apply H2. reflexivity.
Qed.

Theorem c03_ok_iff_statement : forall x, c03_ok x = true <-> (P1 x /\ P2 x /\ P3 x).
Proof.
  intros x. unfold c03_ok. rewrite !andb_true_iff, clause1_iff, clause2_iff, clause3_iff. tauto.
Qed.

(* ---- the documented shapes, defined independently of the detector ---- *)
(* x occurs in a rewrite tree *)
Inductive occurs : rewrite -> rewrite -> Prop :=
| occ_here : forall x, occurs x x
| occ_union : forall x y l, In y l -> occurs x y -> occurs x (Union l)
| occ_inter : forall x y l, In y l -> occurs x y -> occurs x (Inter l)
| occ_diff_b : forall x b s, occurs x b -> occurs x (Diff b s)
| occ_diff_s : forall x b s, occurs x s -> occurs x (Diff b s).

(* `define r: r1`, `define r1: r2`, ... ending in a directly assignable relation (n steps) *)
Inductive resolves (m : model) (t : tid) : rid -> rid -> nat -> Prop :=
| rs_this : forall r rd, get_relation m t r = Some rd -> rd_rw rd = This -> resolves m t r r 1
| rs_comp : forall r r' r'' rd n, get_relation m t r = Some rd -> rd_rw rd = Computed r' ->
                                  resolves m t r' r'' n -> resolves m t r r'' (S n).

Definition shape_self_ref (subj : subject) (o : obj) (r : rid) : Prop := subj = SSet o r.

(* the target directly accepts T#R' where R' resolves through computed usersets to the user's
   relation R, and T#R itself is not directly assignable on the target *)
Definition shape_alias (m : model) (subj : subject) (o : obj) (r : rid) : Prop :=
  exists uo ur rs r' n,
    subj = SSet uo ur /\ restr_of m (otype o) r = Some rs /\
    In (otype uo, r') (restr_usersets rs) /\ resolves m (otype uo) r' ur n /\ (n <= walk_fuel m)%nat /\
    (forall r'', In (otype uo, r'') (restr_usersets rs) -> r'' <> ur).

(* the user's object is the target object and the user's relation is a computed leaf of the target *)
Definition shape_computed_self (m : model) (subj : subject) (o : obj) (r : rid) : Prop :=
  exists ur rd, subj = SSet o ur /\ get_relation m (otype o) r = Some rd /\ occurs (Computed ur) (rd_rw rd).

(* the target has a TTU whose computed relation is the user's relation and whose tupleset lists
   the user's object type *)
Definition shape_ttu (m : model) (subj : subject) (o : obj) (r : rid) : Prop :=
  exists uo ur rd ts rs d,
    subj = SSet uo ur /\ get_relation m (otype o) r = Some rd /\ occurs (TTU ts ur) (rd_rw rd) /\
    restr_of m (otype o) ts = Some rs /\ In d rs /\ r_type d = otype uo.

(* userset user + a difference anywhere in the target's rewrite *)
Definition shape_userset_excl (m : model) (subj : subject) (o : obj) (r : rid) : Prop :=
  exists uo ur rd b s, subj = SSet uo ur /\ get_relation m (otype o) r = Some rd /\ occurs (Diff b s) (rd_rw rd).

Arguments walk_fuel : simpl never.

(* ---- helper lemmas ---- *)
Lemma any_computed : forall rel l,
    (fix any (l : list rewrite) := match l with [] => false | x :: l' => rw_has_computed rel x || any l' end) l
    = existsb (rw_has_computed rel) l.
Proof. intros rel l. induction l as [|x l IH]; simpl; [reflexivity | rewrite IH; reflexivity]. Qed.

Lemma any_diff : forall l,
    (fix any (l : list rewrite) := match l with [] => false | x :: l' => rw_has_diff x || any l' end) l
    = existsb rw_has_diff l.
Proof. intros l. induction l as [|x l IH]; simpl; [reflexivity | rewrite IH; reflexivity]. Qed.

Lemma any_ttu : forall m tt ut ur l,
    (fix any (l : list rewrite) := match l with [] => false | x :: l' => rw_has_ttu_for m tt ut ur x || any l' end) l
    = existsb (rw_has_ttu_for m tt ut ur) l.
Proof. intros m tt ut ur l. induction l as [|x l IH]; simpl; [reflexivity | rewrite IH; reflexivity]. Qed.

Lemma occurs_computed : forall rel rw, occurs (Computed rel) rw -> rw_has_computed rel rw = true.
Proof.
  intros rel rw H. remember (Computed rel) as x eqn:Hx.
  induction H as [x | x y l Hin Ho IH | x y l Hin Ho IH | x b s Ho IH | x b s Ho IH]; subst.
  - simpl. apply N.eqb_refl.
  - simpl. rewrite any_computed. apply existsb_exists. exists y. split; [exact Hin | apply IH; reflexivity].
  - simpl. rewrite any_computed. apply existsb_exists. exists y. split; [exact Hin | apply IH; reflexivity].
  - simpl. rewrite IH; reflexivity.
  - simpl. rewrite IH; [apply orb_true_r | reflexivity].
Qed.

Lemma occurs_diff : forall b s rw, occurs (Diff b s) rw -> rw_has_diff rw = true.
Proof.
  intros b s rw H. remember (Diff b s) as x eqn:Hx.
  induction H as [x | x y l Hin Ho IH | x y l Hin Ho IH | x b' s' Ho IH | x b' s' Ho IH]; subst.
  - reflexivity.
  - simpl. rewrite any_diff. apply existsb_exists. exists y. split; [exact Hin | apply IH; reflexivity].
  - simpl. rewrite any_diff. apply existsb_exists. exists y. split; [exact Hin | apply IH; reflexivity].
  - reflexivity.
  - reflexivity.
Qed.

Lemma occurs_ttu : forall m tt ut ur ts rs d rw,
    occurs (TTU ts ur) rw -> restr_of m tt ts = Some rs -> In d rs -> r_type d = ut ->
    rw_has_ttu_for m tt ut ur rw = true.
Proof.
  intros m tt ut ur ts rs d rw H Hr Hd Ht. remember (TTU ts ur) as x eqn:Hx.
  induction H as [x | x y l Hin Ho IH | x y l Hin Ho IH | x b s Ho IH | x b s Ho IH]; subst.
  - simpl. rewrite N.eqb_refl, Hr. simpl. apply existsb_exists. exists d. split; [exact Hd | apply N.eqb_refl].
  - simpl. rewrite any_ttu. apply existsb_exists. exists y. split; [exact Hin | apply IH; reflexivity].
  - simpl. rewrite any_ttu. apply existsb_exists. exists y. split; [exact Hin | apply IH; reflexivity].
  - simpl. rewrite IH; reflexivity.
  - simpl. rewrite IH; [apply orb_true_r | reflexivity].
Qed.

Lemma resolves_fuel : forall m t r r'' n, resolves m t r r'' n ->
                                          forall fuel, (n <= fuel)%nat -> resolve_computed m fuel t r = Some r''.
Proof.
  intros m t r r'' n H. induction H as [r rd Hg Hw | r r' r'' rd n Hg Hw Hres IH]; intros fuel Hf.
  - destruct fuel as [|f]; [lia|]. simpl. rewrite Hg, Hw. reflexivity.
  - destruct fuel as [|f]; [lia|]. simpl. rewrite Hg, Hw. apply IH. lia.
Qed.

Lemma alias_scan_true : forall m refs ut ur found,
    (forall r'', In (ut, r'') refs -> r'' <> ur) ->
    (found = true \/ exists r', In (ut, r') refs /\ resolve_computed m (walk_fuel m) ut r' = Some ur) ->
    alias_scan m refs ut ur found = true.
Proof.
  intros m refs ut ur. induction refs as [|[t' r'] rest IH]; intros found Hno Hyes; cbn [alias_scan].
  - destruct Hyes as [Hf|[x [[] _]]]. exact Hf.
  - destruct (N.eqb t' ut) eqn:Et; cbn [negb].
    + apply N.eqb_eq in Et. subst t'.
      destruct (N.eqb r' ur) eqn:Er.
      * apply N.eqb_eq in Er. exfalso. apply (Hno r'); [left; reflexivity | exact Er].
      * apply IH; [intros r'' Hin; apply Hno; right; exact Hin|].
        destruct Hyes as [Hf|[x [[Hx|Hx] Hres]]].
        -- left. rewrite Hf. reflexivity.
        -- assert (x = r') by congruence. subst x. left. rewrite Hres, N.eqb_refl. apply orb_true_r.
        -- right. exists x. split; assumption.
    + apply IH; [intros r'' Hin; apply Hno; right; exact Hin|].
      destruct Hyes as [Hf|[x [[Hx|Hx] Hres]]].
      * left. exact Hf.
      * assert (t' = ut) by congruence. subst t'. rewrite N.eqb_refl in Et. discriminate.
      * right. exists x. split; assumption.
Qed.

(* ---- each documented userset shape makes the detector non-empty ---- *)
Theorem check_reason_total_on_shapes : forall m subj o r,
    shape_self_ref subj o r \/ shape_alias m subj o r \/ shape_computed_self m subj o r \/ shape_ttu m subj o r ->
    check_reason m subj o r <> RNone.
Proof.
  intros m subj o r H. unfold check_reason.
  destruct (subject_eqb subj (SSet o r)) eqn:Eself; [discriminate|].
  destruct H as [H|[H|[H|H]]].
  - unfold shape_self_ref in H. subst subj. simpl in Eself.
    assert (obj_eqb o o = true) as Ho by (unfold obj_eqb; rewrite !N.eqb_refl; reflexivity).
    rewrite Ho, N.eqb_refl in Eself. discriminate.
  - destruct H as [uo [ur [rs [r' [n [Hs [Hr [Hin [Hres [Hn Hno]]]]]]]]]]. subst subj. simpl.
    unfold userset_aliases. rewrite Hr.
    rewrite (alias_scan_true m (restr_usersets rs) (otype uo) ur false Hno); [discriminate|].
    right. exists r'. split; [exact Hin | eapply resolves_fuel; eauto].
  - destruct H as [ur [rd [Hs [Hg Ho]]]]. subst subj. simpl.
    destruct (userset_aliases m (otype o) r (otype o) ur); [discriminate|].
    rewrite Hg.
    assert (obj_eqb o o = true) as Hoo by (unfold obj_eqb; rewrite !N.eqb_refl; reflexivity).
    rewrite Hoo, (occurs_computed _ _ Ho). simpl. discriminate.
  - destruct H as [uo [ur [rd [ts [rs [d [Hs [Hg [Ho [Hr [Hd Ht]]]]]]]]]]]. subst subj. simpl.
    destruct (userset_aliases m (otype o) r (otype uo) ur); [discriminate|].
    rewrite Hg.
    rewrite (occurs_ttu m (otype o) (otype uo) ur ts rs d _ Ho Hr Hd Ht).
    destruct (obj_eqb uo o && rw_has_computed ur (rd_rw rd)); discriminate.
Qed.

Theorem excl_reason_total_on_userset_shape : forall m subj o r,
    shape_userset_excl m subj o r -> excl_reason m subj o r = Some RUsersetExcl.
Proof.
  intros m subj o r [uo [ur [rd [b [s [Hs [Hg Ho]]]]]]]. subst subj.
  unfold excl_reason. rewrite Hg, (occurs_diff _ _ _ Ho). reflexivity.
Qed.

(* base branch of a difference that STRUCTURALLY contains a direct assignment accepting T:*
   (no relation edge crossed) *)
Inductive base_accepts (m : model) (t : tid) (r : rid) (ut : tid) : rewrite -> Prop :=
| ba_this : accepts_wild m t r ut = true -> base_accepts m t r ut This
| ba_union : forall y l, In y l -> base_accepts m t r ut y -> base_accepts m t r ut (Union l)
| ba_inter : forall y l, In y l -> base_accepts m t r ut y -> base_accepts m t r ut (Inter l)
| ba_diff : forall b s, base_accepts m t r ut b -> base_accepts m t r ut (Diff b s).

Definition not_false (x : option (bool * vis)) : Prop := forall v, x <> Some (false, v).

Lemma branch_acc_structural : forall m ut f t r rw,
    base_accepts m t r ut rw -> forall v, not_false (branch_acc m ut (S f) t r rw v).
Proof.
  intros m ut f t r rw H. induction H as [Ha | y l Hin Hy IH | y l Hin Hy IH | b s Hb IH]; intros v.
  - simpl. rewrite Ha. intros v' Hc. discriminate.
  - simpl. revert v. induction l as [|x l IHl]; intros v; [destruct Hin|].
    destruct Hin as [Hx|Hin].
    + subst x. specialize (IH v). simpl in IH.
      destruct ((fix go (rw : rewrite) (v : vis) {struct rw} : option (bool * vis) := _) y v) as [[[|] v1]|] eqn:E.
      * intros v' Hc. discriminate.
      * exfalso. apply (IH v1). reflexivity.
      * intros v' Hc. discriminate.
    + match goal with |- not_false (match ?g with _ => _ end) => destruct g as [[[|] v1]|] end.
      * intros v' Hc. discriminate.
      * apply IHl. exact Hin.
      * intros v' Hc. discriminate.
  - simpl. revert v. induction l as [|x l IHl]; intros v; [destruct Hin|].
    destruct Hin as [Hx|Hin].
    + subst x. specialize (IH v). simpl in IH.
      destruct ((fix go (rw : rewrite) (v : vis) {struct rw} : option (bool * vis) := _) y v) as [[[|] v1]|] eqn:E.
      * intros v' Hc. discriminate.
      * exfalso. apply (IH v1). reflexivity.
      * intros v' Hc. discriminate.
    + match goal with |- not_false (match ?g with _ => _ end) => destruct g as [[[|] v1]|] end.
      * intros v' Hc. discriminate.
      * apply IHl. exact Hin.
      * intros v' Hc. discriminate.
  - simpl. specialize (IH v). simpl in IH. exact IH.
Qed.

Arguments walk_fuel : simpl never.
Arguments branch_acc : simpl never.

(* a difference that occurs STRUCTURALLY in the target relation's own rewrite and whose base
   structurally accepts T:* *)
Inductive diff_occurs (m : model) (t : tid) (r : rid) (ut : tid) : rewrite -> Prop :=
| do_here : forall b s, base_accepts m t r ut b -> diff_occurs m t r ut (Diff b s)
| do_union : forall y l, In y l -> diff_occurs m t r ut y -> diff_occurs m t r ut (Union l)
| do_inter : forall y l, In y l -> diff_occurs m t r ut y -> diff_occurs m t r ut (Inter l)
| do_diff_b : forall b s, diff_occurs m t r ut b -> diff_occurs m t r ut (Diff b s)
| do_diff_s : forall b s, diff_occurs m t r ut s -> diff_occurs m t r ut (Diff b s).

Lemma walk_diff_structural : forall m ut f t r rw,
    diff_occurs m t r ut rw -> forall v, not_false (walk_diff m ut (S f) t r rw v).
Proof.
  intros m ut f t r rw H.
  induction H as [b s Hb | y l Hin Hy IH | y l Hin Hy IH | b s Hb IH | b s Hs IH]; intros v.
  - simpl. pose proof (branch_acc_structural m ut (S (nrel m)) t r b Hb []) as Hn.
    change (S (S (nrel m))) with (walk_fuel m) in Hn.
    destruct (branch_acc m ut (walk_fuel m) t r b []) as [[[|] v1]|]; simpl.
    + intros v' Hc. discriminate.
    + exfalso. apply (Hn v1). reflexivity.
    + intros v' Hc. discriminate.
  - simpl. revert v. induction l as [|x l IHl]; intros v; [destruct Hin|].
    destruct Hin as [Hx|Hin].
    + subst x. specialize (IH v). simpl in IH.
      destruct ((fix go (rw : rewrite) (v : vis) {struct rw} : option (bool * vis) := _) y v) as [[[|] v1]|] eqn:E.
      * intros v' Hc. discriminate.
      * exfalso. apply (IH v1). reflexivity.
      * intros v' Hc. discriminate.
    + match goal with |- not_false (match ?g with _ => _ end) => destruct g as [[[|] v1]|] end.
      * intros v' Hc. discriminate.
      * apply IHl. exact Hin.
      * intros v' Hc. discriminate.
  - simpl. revert v. induction l as [|x l IHl]; intros v; [destruct Hin|].
    destruct Hin as [Hx|Hin].
    + subst x. specialize (IH v). simpl in IH.
      destruct ((fix go (rw : rewrite) (v : vis) {struct rw} : option (bool * vis) := _) y v) as [[[|] v1]|] eqn:E.
      * intros v' Hc. discriminate.
      * exfalso. apply (IH v1). reflexivity.
      * intros v' Hc. discriminate.
    + match goal with |- not_false (match ?g with _ => _ end) => destruct g as [[[|] v1]|] end.
      * intros v' Hc. discriminate.
      * apply IHl. exact Hin.
      * intros v' Hc. discriminate.
  - simpl. destruct (branch_acc m ut (walk_fuel m) t r b []) as [[[|] v0]|].
    + intros v' Hc. discriminate.
    + specialize (IH v). simpl in IH.
      destruct ((fix go (rw : rewrite) (v : vis) {struct rw} : option (bool * vis) := _) b v) as [[[|] v1]|] eqn:E.
      * intros v' Hc. discriminate.
      * exfalso. apply (IH v1). reflexivity.
      * intros v' Hc. discriminate.
    + intros v' Hc. discriminate.
  - simpl. destruct (branch_acc m ut (walk_fuel m) t r b []) as [[[|] v0]|].
    + intros v' Hc. discriminate.
    + destruct ((fix go (rw : rewrite) (v : vis) {struct rw} : option (bool * vis) := _) b v) as [[[|] v1]|] eqn:E.
      * intros v' Hc. discriminate.
      * specialize (IH v1). simpl in IH. exact IH.
      * intros v' Hc. discriminate.
    + intros v' Hc. discriminate.
Qed.

(* non-userset user of type T + a difference of the target's own rewrite whose base structurally
   accepts T:*  (the part of the documented shape that crosses no relation edge) *)
Definition shape_wild_excl_structural (m : model) (subj : subject) (o : obj) (r : rid) : Prop :=
  kind_of subj <> KSet /\
  exists rd, get_relation m (otype o) r = Some rd /\ diff_occurs m (otype o) r (subject_type subj) (rd_rw rd).

Theorem excl_reason_total_on_wildcard_shape_partial : forall m subj o r,
    shape_wild_excl_structural m subj o r -> excl_reason m subj o r <> Some RNone.
Proof.
  intros m subj o r [Hk [rd [Hg Hd]]]. unfold excl_reason, wildcard_under_diff. rewrite Hg.
  pose proof (walk_diff_structural m (subject_type subj) (S (nrel m)) (otype o) r (rd_rw rd) Hd []) as Hn.
  change (S (S (nrel m))) with (walk_fuel m) in Hn.
  destruct subj as [so|ty|so sr].
  - destruct (walk_diff m (subject_type (SObj so)) (walk_fuel m) (otype o) r (rd_rw rd) []) as [[[|] v1]|];
      try discriminate. exfalso. apply (Hn v1). reflexivity.
  - destruct (walk_diff m (subject_type (SWild ty)) (walk_fuel m) (otype o) r (rd_rw rd) []) as [[[|] v1]|];
      try discriminate. exfalso. apply (Hn v1). reflexivity.
  - exfalso. apply Hk. reflexivity.
Qed.

(* ---- "never misses a real divergence" is false ---- *)
(* type user(1); type doc(2): public(1): [user]; viewer(2): public; allowed(3): viewer.
   Check(doc:1#allowed@doc:1#public): the reference semantics (and the default engine) grant it by
   the reflexive rule through allowed -> viewer -> public; without that rule (the weighted-graph
   engine's answer, observed by the correspondence run and on the real server) it is denied; the
   detector reports nothing. *)
Definition miss_model : model :=
  [ {| td_type := 1; td_rels := [] |};
    {| td_type := 2; td_rels :=
         [ {| rd_rel := 1; rd_rw := This; rd_restr := [ {| r_type := 1; r_kind := RObj; r_cond := 0 |} ] |};
           {| rd_rel := 2; rd_rw := Computed 1; rd_restr := [] |};
           {| rd_rel := 3; rd_rw := Computed 2; rd_restr := [] |} ] |} ].
Definition miss_obj : obj := {| otype := 2; oid := 1 |}.
Definition miss_atoms : list atom := [(miss_obj, 1); (miss_obj, 2); (miss_obj, 3)].
Definition noreflex : quirks := {| q_noreflex := true; q_noexpand := false; q_ttuwin := []; q_poison := [] |}.

Theorem detector_never_misses_refuted :
  exists m conds store subj atoms o r,
    kind_of subj = KSet /\
    holds3 m conds store subj atoms o r = T /\
    holds3_q noreflex [] [] m conds store subj atoms o r = F /\
    check_reason m subj o r = RNone /\
    excl_reason m subj o r = Some RNone.
Proof.
  exists miss_model, [], [], (SSet miss_obj 1), miss_atoms, miss_obj, 3.
  vm_compute. repeat split.
Qed.

(* ---- an inner node's result under the shared visited set is not its truth value ---- *)
Theorem visited_dfs_inner_refuted :
  exists succ leaf fuel root inner V,
    dfs_root succ leaf (S fuel) root = Some true /\       (* the root query is answered correctly *)
    dfs succ leaf (S fuel) [root] root = scan (dfs succ leaf fuel) (succ root) [root] /\
    V = inner :: [root] /\                                 (* the state in which the search resolves `inner` *)
    fst (dfs succ leaf fuel V inner) = Some false /\      (* ... and what it gets *)
    reach succ leaf inner.                                 (* although `inner` is true *)
Proof.
  exists wsucc, wleaf, 4%nat, 0, 1, [1; 0].
  split; [vm_compute; reflexivity|]. split; [reflexivity|]. split; [reflexivity|].
  split; [vm_compute; reflexivity|].
  apply reach_step with (s := 0); [left; reflexivity|].
  apply reach_step with (s := 2); [right; left; reflexivity|].
  apply reach_leaf. reflexivity.
Qed.

(* ---- the deviation-naming evaluator with every switch off is the reference semantics ---- *)
Lemma holds3q_noquirks : forall cyc cyct m conds store subj atoms o r,
    holds3_q noquirks cyc cyct m conds store subj atoms o r = holds3 m conds store subj atoms o r.
Proof. intros. reflexivity. Qed.

Theorem breaking_reason_total_on_shapes : forall m subj o r,
    (shape_self_ref subj o r \/ shape_alias m subj o r \/ shape_computed_self m subj o r \/ shape_ttu m subj o r
     -> check_reason m subj o r <> RNone) /\
    (shape_userset_excl m subj o r -> excl_reason m subj o r = Some RUsersetExcl).
Proof.
  intros m subj o r. split.
  - exact (check_reason_total_on_shapes m subj o r).
  - exact (excl_reason_total_on_userset_shape m subj o r).
Qed.

(* ---- concrete models for the non-vacuity examples of Props/C03.v ---- *)
(* the alias_userset example of TestBreakingChangeReason
   (doc(2): reader(1): [user]; allowed(2): reader; viewer(3): [user, doc#allowed]; user doc:3#reader) *)
Definition alias_model : model :=
  [ {| td_type := 1; td_rels := [] |};
    {| td_type := 2; td_rels :=
         [ {| rd_rel := 1; rd_rw := This; rd_restr := [ {| r_type := 1; r_kind := RObj; r_cond := 0 |} ] |};
           {| rd_rel := 2; rd_rw := Computed 1; rd_restr := [] |};
           {| rd_rel := 3; rd_rw := This;
              rd_restr := [ {| r_type := 1; r_kind := RObj; r_cond := 0 |};
                            {| r_type := 2; r_kind := RSet 2; r_cond := 0 |} ] |} ] |} ].
(* wildcard_with_exclusion, structural part: doc(2): viewer(1): [user:*] but not blocked(2) *)
Definition wild_model : model :=
  [ {| td_type := 1; td_rels := [] |};
    {| td_type := 2; td_rels :=
         [ {| rd_rel := 1; rd_rw := Diff This (Computed 2); rd_restr := [ {| r_type := 1; r_kind := RWild; r_cond := 0 |} ] |};
           {| rd_rel := 2; rd_rw := This; rd_restr := [ {| r_type := 1; r_kind := RObj; r_cond := 0 |} ] |} ] |} ].

(* ---- failing streams: an error is never turned into `denied` ---- *)
From OFGA Require Import Check.V2Streams.

Lemma existsb_false_forall : forall (A : Type) (f : A -> bool) l,
    existsb f l = false -> forall x, In x l -> f x = false.
Proof.
  intros A f l H x Hin. destruct (f x) eqn:E; [|reflexivity].
  assert (existsb f l = true) by (apply existsb_exists; exists x; split; assumption). congruence.
Qed.

Theorem stream_error_never_denied : forall (ss : list stream) (right : stream),
    execute (union_out ss) right = Denied ->
    (forall s, In s ss -> snd (consume s) = false) /\ snd (consume right) = false /\
    (forall s v, In s ss -> In v (fst (consume s)) -> In v (fst (consume right)) -> False).
Proof.
  intros ss right H. unfold execute in H. destruct (consume right) as [rv re] eqn:R. simpl in *.
  destruct (existsb (fun v => mem v rv) (flat_map (fun s => fst (consume s)) ss)) eqn:M; [discriminate|].
  destruct (existsb (fun s => snd (consume s)) ss || re) eqn:E; [discriminate|].
  apply orb_false_iff in E. destruct E as [E1 E2]. split; [|split].
  - intros s Hs. exact (existsb_false_forall _ _ _ E1 s Hs).
  - exact E2.
  - intros s v Hs Hv Hr.
    assert (Hm : mem v rv = false).
    { apply (existsb_false_forall _ _ _ M v). apply in_flat_map. exists s. split; assumption. }
    unfold mem in Hm. pose proof (existsb_false_forall _ _ _ Hm v Hr) as Hq. rewrite N.eqb_refl in Hq. discriminate.
Qed.

Theorem stream_allowed_is_witnessed : forall (ss : list stream) (right : stream),
    execute (union_out ss) right = Allowed ->
    exists s v, In s ss /\ In v (fst (consume s)) /\ In v (fst (consume right)).
Proof.
  intros ss right H. unfold execute in H. destruct (consume right) as [rv re] eqn:R. simpl in *.
  destruct (existsb (fun v => mem v rv) (flat_map (fun s => fst (consume s)) ss)) eqn:M.
  - apply existsb_exists in M. destruct M as [v [Hv Hm]]. apply in_flat_map in Hv. destruct Hv as [s [Hs Hv]].
    unfold mem in Hm. apply existsb_exists in Hm. destruct Hm as [w [Hw Hq]]. apply N.eqb_eq in Hq. subst w.
    exists s, v. repeat split; assumption.
  - destruct (existsb (fun s => snd (consume s)) ss || re); discriminate.
Qed.
