(* Proofs about the algorithm model of the default Check engine (Check/V1.v):
   A. the reducers against Kleene logic (and where `exclusion` deviates: F1);
   B. arrival-order irrelevance (commutativity / associativity up to set equality);
   C. the early exit of union_all;
   D. soundness of `allowed` for the positive fragment against every pre-fixpoint of the
      reference semantics' step operator, and against holds3;
   F. the model's fuel is sufficient; Check always has an outcome;
   E. the two reproduced defects as closed counterexamples to the full statement;
   G. data for the examples of Props/C01.v. *)
From Coq Require Import List Bool Arith NArith Lia Permutation.
From OFGA Require Import Sem.B3 Sem.B3Proofs Sem.Vocab Sem.Valid Sem.Semantics Sem.SemProofs Check.V1.
Import ListNotations.
Open Scope N_scope.

(* ================================================================== *)
(* A. outcome sets                                                     *)
(* ================================================================== *)

(* the Kleene value an outcome stands for *)
Definition val (a : aout) : b3 :=
  match a with
  | AT => T
  | AFn | AFc => F
  | AEc | AEd | AEo | AFuel => E
  end.

Definition seteq (A B : oset) : Prop := forall x, In x A <-> In x B.

Lemma seteq_refl : forall A, seteq A A.
Proof. intros A x; split; auto. Qed.
Lemma seteq_sym : forall A B, seteq A B -> seteq B A.
Proof. intros A B H x; split; apply H. Qed.
Lemma seteq_trans : forall A B C, seteq A B -> seteq B C -> seteq A C.
Proof. intros A B C H1 H2 x; split; intro H; [apply H2, H1, H | apply H1, H2, H]. Qed.

Lemma aout_eqb_eq : forall a b, aout_eqb a b = true <-> a = b.
Proof. intros a b; destruct a, b; simpl; split; intro H; try reflexivity; discriminate H. Qed.

Lemma omem_In : forall a s, omem a s = true <-> In a s.
Proof.
  intros a s; unfold omem; rewrite existsb_exists; split.
  - intros [x [Hx He]]. apply aout_eqb_eq in He. subst x. exact Hx.
  - intro H. exists a. split; [exact H | apply aout_eqb_eq; reflexivity].
Qed.

Lemma In_oadd : forall x a s, In x (oadd a s) <-> x = a \/ In x s.
Proof.
  intros x a s; unfold oadd. destruct (omem a s) eqn:Hm.
  - apply omem_In in Hm. split; [auto | intros [H|H]; [subst; exact Hm | exact H]].
  - rewrite in_app_iff; simpl. split; [intros [H|[H|[]]]; auto | intros [H|H]; auto].
Qed.

Lemma In_ounion : forall x t s, In x (ounion s t) <-> In x s \/ In x t.
Proof.
  intros x t; unfold ounion; induction t as [|b t IH]; intro s; simpl.
  - split; [auto | intros [H|[]]; exact H].
  - rewrite IH, In_oadd. split.
    + intros [[H|H]|H]; auto.
    + intros [H|[H|H]]; auto.
Qed.

Lemma In_lift2_inner : forall (op : aout -> aout -> oset) a x B acc,
  In x (fold_left (fun acc' b => ounion acc' (op a b)) B acc) <->
  In x acc \/ exists b, In b B /\ In x (op a b).
Proof.
  intros op a x B; induction B as [|b B IH]; intro acc; simpl.
  - split; [auto | intros [H|[b [[] _]]]; exact H].
  - rewrite IH, In_ounion. split.
    + intros [[H|H]|[b' [Hb Hx]]]; [left; exact H | right; exists b; auto | right; exists b'; auto].
    + intros [H|[b' [[Hb|Hb] Hx]]]; [auto | subst b'; auto | right; exists b'; auto].
Qed.

Lemma In_lift2_acc : forall (op : aout -> aout -> oset) x B A acc,
  In x (fold_left (fun acc a => fold_left (fun acc' b => ounion acc' (op a b)) B acc) A acc) <->
  In x acc \/ exists a b, In a A /\ In b B /\ In x (op a b).
Proof.
  intros op x B A; induction A as [|a A IH]; intro acc; simpl.
  - split; [auto | intros [H|[a [b [[] _]]]]; exact H].
  - rewrite IH, In_lift2_inner. split.
    + intros [[H|[b [Hb Hx]]]|[a' [b [Ha [Hb Hx]]]]].
      * left; exact H.
      * right; exists a, b; auto.
      * right; exists a', b; auto.
    + intros [H|[a' [b [[Ha|Ha] [Hb Hx]]]]].
      * auto.
      * subst a'. left; right; exists b; auto.
      * right; exists a', b; auto.
Qed.

(* the outcome set of a binary reducer applied to two outcome SETS is the union over all pairs *)
Theorem In_lift2 : forall op x A B,
  In x (lift2 op A B) <-> exists a b, In a A /\ In b B /\ In x (op a b).
Proof.
  intros op x A B; unfold lift2; rewrite In_lift2_acc; simpl.
  split; [intros [[]|H]; exact H | auto].
Qed.

Lemma lift2_seteq : forall op A A' B B',
  seteq A A' -> seteq B B' -> seteq (lift2 op A B) (lift2 op A' B').
Proof.
  intros op A A' B B' HA HB x; rewrite !In_lift2; split;
    intros [a [b [Ha [Hb Hx]]]]; exists a, b; (split; [apply HA; exact Ha | split; [apply HB; exact Hb | exact Hx]]).
Qed.

(* every reducer returns at least one outcome *)
Lemma union2_nonempty : forall a b, union2 a b <> [].
Proof. intros a b; destruct a, b; discriminate. Qed.
Lemma inter2_nonempty : forall a b, inter2 a b <> [].
Proof. intros a b; destruct a, b; discriminate. Qed.
Lemma excl2_nonempty : forall a b, excl2 a b <> [].
Proof. intros a b; destruct a, b; discriminate. Qed.

Lemma lift2_nonempty : forall op A B,
  (forall a b, op a b <> []) -> A <> [] -> B <> [] -> lift2 op A B <> [].
Proof.
  intros op A B Hop HA HB H.
  destruct A as [|a A]; [apply HA; reflexivity|].
  destruct B as [|b B]; [apply HB; reflexivity|].
  destruct (op a b) as [|x l] eqn:Hx; [exact (Hop a b Hx)|].
  assert (Hin : In x (lift2 op (a :: A) (b :: B))).
  { apply In_lift2. exists a, b. rewrite Hx. simpl; auto. }
  rewrite H in Hin. destruct Hin.
Qed.

(* ================================================================== *)
(* A'. reducers versus Kleene                                           *)
(* ================================================================== *)

Ltac in_cases H :=
  repeat match type of H with
         | In _ (_ :: _) => destruct H as [H|H]
         | In _ [] => destruct H
         | _ \/ _ => destruct H as [H|H]
         | False => destruct H
         end.

Lemma union2_val : forall a b x, In x (union2 a b) -> val x = or3 (val a) (val b).
Proof. intros a b x H; destruct a, b; simpl in H; in_cases H; subst x; reflexivity. Qed.

Lemma inter2_val : forall a b x, In x (inter2 a b) -> val x = and3 (val a) (val b).
Proof. intros a b x H; destruct a, b; simpl in H; in_cases H; subst x; reflexivity. Qed.

(* F1: the statement "exclusion = Kleene difference" holds exactly when the subtract branch did
   not come back as "denied with CycleDetected". *)
Lemma excl2_val_partial : forall a b x,
  b <> AFc -> In x (excl2 a b) -> val x = diff3 (val a) (val b).
Proof.
  intros a b x Hb H; destruct a, b; try (exfalso; apply Hb; reflexivity);
    simpl in H; in_cases H; subst x; reflexivity.
Qed.

(* with a cycle flag in the subtract the base's own denial is still right *)
Lemma excl2_val_base_false : forall a b x,
  is_false a = true -> In x (excl2 a b) -> val x = diff3 (val a) (val b).
Proof.
  intros a b x Ha H; destruct a; try discriminate Ha; destruct b;
    simpl in H; in_cases H; subst x; reflexivity.
Qed.

(* the deviation itself: base allowed, subtract "denied (cycle)": Kleene says allowed *)
Lemma excl2_sub_cycle_refuted :
  exists a b x, In x (excl2 a b) /\ val x <> diff3 (val a) (val b).
Proof. exists AT, AFc, AFc. split; [simpl; auto | discriminate]. Qed.

(* and it is the only deviation *)
Lemma excl2_deviation_iff : forall a b,
  (exists x, In x (excl2 a b) /\ val x <> diff3 (val a) (val b)) <->
  (b = AFc /\ is_false a = false).
Proof.
  intros a b; split.
  - intros [x [Hx Hv]]. destruct a, b; simpl in Hx; in_cases Hx; subst x;
      try (exfalso; apply Hv; reflexivity); split; reflexivity.
  - intros [Hb Ha]; subst b. exists AFc. destruct a; try discriminate Ha; split;
      try (simpl; auto; fail); discriminate.
Qed.

(* the set-level statements: every outcome of the lifted reducer has the Kleene value of some
   pair of children, and every pair of children contributes an outcome *)
Theorem reducers_kleene_union : forall A B,
  (forall x, In x (lift2 union2 A B) -> exists a b, In a A /\ In b B /\ val x = or3 (val a) (val b)) /\
  (forall a b, In a A -> In b B -> exists x, In x (lift2 union2 A B) /\ val x = or3 (val a) (val b)).
Proof.
  intros A B; split.
  - intros x H. apply In_lift2 in H. destruct H as [a [b [Ha [Hb Hx]]]].
    exists a, b. repeat split; try assumption. apply union2_val; exact Hx.
  - intros a b Ha Hb. destruct (union2 a b) as [|x l] eqn:Hu; [exfalso; exact (union2_nonempty a b Hu)|].
    assert (Hx : In x (union2 a b)) by (rewrite Hu; simpl; auto).
    exists x. split; [apply In_lift2; exists a, b; auto | apply union2_val; exact Hx].
Qed.

Theorem reducers_kleene_inter : forall A B,
  (forall x, In x (lift2 inter2 A B) -> exists a b, In a A /\ In b B /\ val x = and3 (val a) (val b)) /\
  (forall a b, In a A -> In b B -> exists x, In x (lift2 inter2 A B) /\ val x = and3 (val a) (val b)).
Proof.
  intros A B; split.
  - intros x H. apply In_lift2 in H. destruct H as [a [b [Ha [Hb Hx]]]].
    exists a, b. repeat split; try assumption. apply inter2_val; exact Hx.
  - intros a b Ha Hb. destruct (inter2 a b) as [|x l] eqn:Hu; [exfalso; exact (inter2_nonempty a b Hu)|].
    assert (Hx : In x (inter2 a b)) by (rewrite Hu; simpl; auto).
    exists x. split; [apply In_lift2; exists a, b; auto | apply inter2_val; exact Hx].
Qed.

(* exclusion, under the hypothesis that excludes the F1 trigger (omem AFc B = false is exactly
   the negation of the tr_excl_sub_cycle flag the model raises at a Diff node) *)
Theorem excl2_kleene_partial : forall A B,
  omem AFc B = false ->
  (forall x, In x (lift2 excl2 A B) -> exists a b, In a A /\ In b B /\ val x = diff3 (val a) (val b)) /\
  (forall a b, In a A -> In b B -> exists x, In x (lift2 excl2 A B) /\ val x = diff3 (val a) (val b)).
Proof.
  intros A B Hc.
  assert (Hne : forall b, In b B -> b <> AFc).
  { intros b Hb He; subst b. apply omem_In in Hb. rewrite Hb in Hc; discriminate Hc. }
  split.
  - intros x H. apply In_lift2 in H. destruct H as [a [b [Ha [Hb Hx]]]].
    exists a, b. repeat split; try assumption. apply excl2_val_partial; [apply Hne; exact Hb | exact Hx].
  - intros a b Ha Hb. destruct (excl2 a b) as [|x l] eqn:Hu; [exfalso; exact (excl2_nonempty a b Hu)|].
    assert (Hx : In x (excl2 a b)) by (rewrite Hu; simpl; auto).
    exists x. split; [apply In_lift2; exists a, b; auto | apply excl2_val_partial; [apply Hne; exact Hb | exact Hx]].
Qed.

(* when all children agree on a Kleene value, so does the reducer's whole outcome set *)
Definition all_val (A : oset) (v : b3) : Prop := forall x, In x A -> val x = v.

Corollary lift2_union2_all_val : forall A B u v,
  all_val A u -> all_val B v -> all_val (lift2 union2 A B) (or3 u v).
Proof.
  intros A B u v HA HB x H. apply In_lift2 in H. destruct H as [a [b [Ha [Hb Hx]]]].
  rewrite (union2_val _ _ _ Hx), (HA a Ha), (HB b Hb); reflexivity.
Qed.
Corollary lift2_inter2_all_val : forall A B u v,
  all_val A u -> all_val B v -> all_val (lift2 inter2 A B) (and3 u v).
Proof.
  intros A B u v HA HB x H. apply In_lift2 in H. destruct H as [a [b [Ha [Hb Hx]]]].
  rewrite (inter2_val _ _ _ Hx), (HA a Ha), (HB b Hb); reflexivity.
Qed.
Corollary lift2_excl2_all_val_partial : forall A B u v,
  omem AFc B = false ->
  all_val A u -> all_val B v -> all_val (lift2 excl2 A B) (diff3 u v).
Proof.
  intros A B u v Hc HA HB x H. apply In_lift2 in H. destruct H as [a [b [Ha [Hb Hx]]]].
  assert (Hne : b <> AFc).
  { intro He; subst b. apply omem_In in Hb. rewrite Hb in Hc; discriminate Hc. }
  rewrite (excl2_val_partial _ _ _ Hne Hx), (HA a Ha), (HB b Hb); reflexivity.
Qed.

(* information order: children that report an error (or any undetermined outcome) in place of
   their true value never corrupt a decision of the reducer *)
Definition all_refine (A : oset) (t : b3) : Prop := forall x, In x A -> refines (val x) t.

Theorem lift2_union2_refines : forall A B ta tb,
  all_refine A ta -> all_refine B tb -> all_refine (lift2 union2 A B) (or3 ta tb).
Proof.
  intros A B ta tb HA HB x H. apply In_lift2 in H. destruct H as [a [b [Ha [Hb Hx]]]].
  rewrite (union2_val _ _ _ Hx). apply or3_refines; [apply HA; exact Ha | apply HB; exact Hb].
Qed.
Theorem lift2_inter2_refines : forall A B ta tb,
  all_refine A ta -> all_refine B tb -> all_refine (lift2 inter2 A B) (and3 ta tb).
Proof.
  intros A B ta tb HA HB x H. apply In_lift2 in H. destruct H as [a [b [Ha [Hb Hx]]]].
  rewrite (inter2_val _ _ _ Hx). apply and3_refines; [apply HA; exact Ha | apply HB; exact Hb].
Qed.
Theorem lift2_excl2_refines_partial : forall A B ta tb,
  omem AFc B = false ->
  all_refine A ta -> all_refine B tb -> all_refine (lift2 excl2 A B) (diff3 ta tb).
Proof.
  intros A B ta tb Hc HA HB x H. apply In_lift2 in H. destruct H as [a [b [Ha [Hb Hx]]]].
  assert (Hne : b <> AFc).
  { intro He; subst b. apply omem_In in Hb. rewrite Hb in Hc; discriminate Hc. }
  rewrite (excl2_val_partial _ _ _ Hne Hx). apply diff3_refines; [apply HA; exact Ha | apply HB; exact Hb].
Qed.

(* ================================================================== *)
(* B. arrival order                                                    *)
(* ================================================================== *)

Definition oset_subb (A B : oset) : bool := forallb (fun a => omem a B) A.
Definition oset_eqb (A B : oset) : bool := oset_subb A B && oset_subb B A.

Lemma oset_eqb_seteq : forall A B, oset_eqb A B = true -> seteq A B.
Proof.
  intros A B H. unfold oset_eqb in H. apply andb_true_iff in H. destruct H as [H1 H2].
  unfold oset_subb in *. rewrite forallb_forall in H1, H2.
  intro x; split; intro Hx; apply omem_In; [apply H1 | apply H2]; exact Hx.
Qed.

Lemma union2_comm : forall a b, seteq (union2 a b) (union2 b a).
Proof. intros a b; apply oset_eqb_seteq; destruct a, b; reflexivity. Qed.
Lemma inter2_comm : forall a b, seteq (inter2 a b) (inter2 b a).
Proof. intros a b; apply oset_eqb_seteq; destruct a, b; reflexivity. Qed.

Lemma union2_assoc : forall a b c,
  seteq (lift2 union2 (union2 a b) [c]) (lift2 union2 [a] (union2 b c)).
Proof. intros a b c; apply oset_eqb_seteq; destruct a, b, c; reflexivity. Qed.
Lemma inter2_assoc : forall a b c,
  seteq (lift2 inter2 (inter2 a b) [c]) (lift2 inter2 [a] (inter2 b c)).
Proof. intros a b c; apply oset_eqb_seteq; destruct a, b, c; reflexivity. Qed.

Section CommAssoc.
  Variable op : aout -> aout -> oset.
  Hypothesis op_comm : forall a b, seteq (op a b) (op b a).
  Hypothesis op_assoc : forall a b c, seteq (lift2 op (op a b) [c]) (lift2 op [a] (op b c)).

  Lemma lift2_comm_gen : forall A B, seteq (lift2 op A B) (lift2 op B A).
  Proof.
    intros A B x; rewrite !In_lift2; split; intros [a [b [Ha [Hb Hx]]]];
      exists b, a; (split; [exact Hb | split; [exact Ha | apply op_comm; exact Hx]]).
  Qed.

  Lemma lift2_assoc_gen : forall A B C,
    seteq (lift2 op (lift2 op A B) C) (lift2 op A (lift2 op B C)).
  Proof.
    intros A B C x; rewrite !In_lift2; split.
    - intros [y [c [Hy [Hc Hx]]]]. apply In_lift2 in Hy. destruct Hy as [a [b [Ha [Hb Hy]]]].
      assert (H : In x (lift2 op (op a b) [c])).
      { apply In_lift2. exists y, c. simpl; auto. }
      apply op_assoc in H. apply In_lift2 in H. destruct H as [a' [z [Ha' [Hz Hx']]]].
      destruct Ha' as [Ha'|[]]. subst a'.
      exists a, z. split; [exact Ha | split; [| exact Hx']].
      apply In_lift2. exists b, c; auto.
    - intros [a [z [Ha [Hz Hx]]]]. apply In_lift2 in Hz. destruct Hz as [b [c [Hb [Hc Hz]]]].
      assert (H : In x (lift2 op [a] (op b c))).
      { apply In_lift2. exists a, z. simpl; auto. }
      apply op_assoc in H. apply In_lift2 in H. destruct H as [y [c' [Hy [Hc' Hx']]]].
      destruct Hc' as [Hc'|[]]. subst c'.
      exists y, c. split; [| split; [exact Hc | exact Hx']].
      apply In_lift2. exists a, b; auto.
  Qed.

  (* n children, in any arrival order *)
  Variable unit_ : oset.
  Definition fold_op (l : list oset) : oset := fold_right (lift2 op) unit_ l.

  Lemma fold_op_perm : forall l l', Permutation l l' -> seteq (fold_op l) (fold_op l').
  Proof.
    intros l l' P; induction P as [|A l l' P IH|A B l|l l' l'' P1 IH1 P2 IH2]; simpl.
    - apply seteq_refl.
    - apply lift2_seteq; [apply seteq_refl | exact IH].
    - eapply seteq_trans; [apply seteq_sym, lift2_assoc_gen|].
      eapply seteq_trans; [|apply lift2_assoc_gen].
      apply lift2_seteq; [apply lift2_comm_gen | apply seteq_refl].
    - eapply seteq_trans; [exact IH1 | exact IH2].
  Qed.
End CommAssoc.

Theorem lift2_union2_comm : forall A B, seteq (lift2 union2 A B) (lift2 union2 B A).
Proof. apply lift2_comm_gen; exact union2_comm. Qed.
Theorem lift2_inter2_comm : forall A B, seteq (lift2 inter2 A B) (lift2 inter2 B A).
Proof. apply lift2_comm_gen; exact inter2_comm. Qed.
Theorem lift2_union2_assoc : forall A B C,
  seteq (lift2 union2 (lift2 union2 A B) C) (lift2 union2 A (lift2 union2 B C)).
Proof. apply lift2_assoc_gen; exact union2_assoc. Qed.
Theorem lift2_inter2_assoc : forall A B C,
  seteq (lift2 inter2 (lift2 inter2 A B) C) (lift2 inter2 A (lift2 inter2 B C)).
Proof. apply lift2_assoc_gen; exact inter2_assoc. Qed.

(* the outcome SET of an n-ary union / intersection does not depend on the order in which the
   children's results arrive *)
Theorem union_fold_perm : forall l l',
  Permutation l l' -> seteq (fold_op union2 [AFn] l) (fold_op union2 [AFn] l').
Proof. apply fold_op_perm; [exact union2_comm | exact union2_assoc]. Qed.
Theorem inter_fold_perm : forall l l',
  Permutation l l' -> seteq (fold_op inter2 [AT] l) (fold_op inter2 [AT] l').
Proof. apply fold_op_perm; [exact inter2_comm | exact inter2_assoc]. Qed.

(* and its Kleene value is the n-ary Kleene disjunction / conjunction of the children's values *)
Theorem union_fold_val : forall (l : list oset) (vs : list b3),
  Forall2 all_val l vs -> all_val (fold_op union2 [AFn] l) (or3_list vs).
Proof.
  intros l vs H; induction H as [|A v l vs HA Hl IH].
  - intros x [Hx|[]]; subst x; reflexivity.
  - rewrite or3_list_cons. simpl. apply lift2_union2_all_val; assumption.
Qed.
Theorem inter_fold_val : forall (l : list oset) (vs : list b3),
  Forall2 all_val l vs -> all_val (fold_op inter2 [AT] l) (and3_list vs).
Proof.
  intros l vs H; induction H as [|A v l vs HA Hl IH].
  - intros x [Hx|[]]; subst x; reflexivity.
  - rewrite and3_list_cons. simpl. apply lift2_inter2_all_val; assumption.
Qed.

(* ================================================================== *)
(* C. union_all / inter_all                                            *)
(* ================================================================== *)

Lemma union2_AT_inv : forall a b, In AT (union2 a b) -> a = AT \/ b = AT.
Proof. intros a b H; destruct a, b; simpl in H; in_cases H; try discriminate H; auto. Qed.
Lemma inter2_AT_inv : forall a b, In AT (inter2 a b) -> a = AT /\ b = AT.
Proof. intros a b H; destruct a, b; simpl in H; in_cases H; try discriminate H; auto. Qed.
Lemma excl2_AT_inv : forall a b, In AT (excl2 a b) -> a = AT /\ (b = AFn \/ is_err b = true).
Proof. intros a b H; destruct a, b; simpl in H; in_cases H; try discriminate H; auto. Qed.

Lemma is_just_true_eq : forall s, is_just_true s = true -> s = [AT].
Proof.
  intros s H. destruct s as [|a [|b s]]; try discriminate H.
  - destruct a; try discriminate H. reflexivity.
  - destruct a; discriminate H.
Qed.

(* `allowed` comes out of a union only if some child can return `allowed` *)
Lemma union_all_AT : forall hs,
  In AT (fst (union_all hs)) -> exists h, In h hs /\ In AT (fst (h tt)).
Proof.
  induction hs as [|h hs IH]; simpl; intro H.
  - destruct H as [H|[]]; discriminate H.
  - destruct (h tt) as [s t] eqn:Hh. destruct (is_just_true s) eqn:Hj.
    + apply is_just_true_eq in Hj. subst s. exists h. rewrite Hh. simpl; auto.
    + destruct (union_all hs) as [s' t'] eqn:Hu. simpl in H, IH.
      apply In_lift2 in H. destruct H as [a [b [Ha [Hb Hx]]]].
      apply union2_AT_inv in Hx. destruct Hx as [Hx|Hx]; subst.
      * exists h. rewrite Hh. simpl; auto.
      * destruct (IH Hb) as [h' [Hin Hat]]. exists h'. auto.
Qed.

(* ... out of an intersection only if every child can *)
Lemma inter_all_AT : forall hs,
  In AT (fst (inter_all hs)) -> forall h, In h hs -> In AT (fst (h tt)).
Proof.
  induction hs as [|h hs IH]; simpl; intros H h' Hin; [destruct Hin|].
  destruct (h tt) as [s t] eqn:Hh. destruct (inter_all hs) as [s' t'] eqn:Hu. simpl in H, IH.
  apply In_lift2 in H. destruct H as [a [b [Ha [Hb Hx]]]].
  apply inter2_AT_inv in Hx. destruct Hx as [Hxa Hxb]; subst.
  destruct Hin as [Hin|Hin].
  - subst h'. rewrite Hh. exact Ha.
  - apply IH; assumption.
Qed.

(* the model's early exit (a child that can only be `allowed` ends the union) is an optimisation
   of the model, not a behaviour: the full fold has the same outcome set *)
Fixpoint union_all_full (hs : list (unit -> res)) : res :=
  match hs with
  | [] => ([AFn], notrig)
  | h :: hs' =>
      let '(s, t) := h tt in
      let '(s', t') := union_all_full hs' in (lift2 union2 s s', tor t t')
  end.

Lemma union_all_full_nonempty : forall hs,
  (forall h, In h hs -> fst (h tt) <> []) -> fst (union_all_full hs) <> [].
Proof.
  induction hs as [|h hs IH]; simpl; intro H; [discriminate|].
  destruct (h tt) as [s t] eqn:Hh. destruct (union_all_full hs) as [s' t'] eqn:Hu. simpl.
  apply lift2_nonempty; [exact union2_nonempty | |].
  - specialize (H h (or_introl eq_refl)). rewrite Hh in H. exact H.
  - simpl in IH. apply IH. intros h' Hin; apply H; right; exact Hin.
Qed.

Theorem union_all_early_exit : forall hs,
  (forall h, In h hs -> fst (h tt) <> []) ->
  seteq (fst (union_all hs)) (fst (union_all_full hs)).
Proof.
  induction hs as [|h hs IH]; simpl; intro H; [apply seteq_refl|].
  assert (Hrest : forall h', In h' hs -> fst (h' tt) <> []) by (intros h' Hin; apply H; right; exact Hin).
  pose proof (union_all_full_nonempty hs Hrest) as Hne.
  specialize (IH Hrest).
  destruct (h tt) as [s t] eqn:Hh.
  destruct (union_all_full hs) as [s' t'] eqn:Hu. destruct (is_just_true s) eqn:Hj.
  - apply is_just_true_eq in Hj. subst s. simpl in *.
    intro x. rewrite In_lift2. split.
    + intros [Hx|[]]. subst x. destruct s' as [|b s']; [exfalso; apply Hne; reflexivity|].
      exists AT, b. simpl; auto.
    + intros [a [b [[Ha|[]] [Hb Hx]]]]. subst a. simpl in Hx. exact Hx.
  - destruct (union_all hs) as [s'' t''] eqn:Hu'. simpl in *.
    apply lift2_seteq; [apply seteq_refl | exact IH].
Qed.

(* ================================================================== *)
(* D. the rewrite evaluator of one ResolveCheck call, named             *)
(* ================================================================== *)

Lemma fst_let_pair : forall (A B C : Type) (x : A * B) (g : B -> C),
  fst (let '(s, t) := x in (s, g t)) = fst x.
Proof. intros A B C [s t] g; reflexivity. Qed.

Section Algo.
  Variable m : model.
  Variable conds : list cid.
  Variable store : list tuple.
  Variable subj : subject.
  Variable pathx : list (tid * rid).
  Variable maxdepth : nat.

  Definition userset_handler (rd : reldef) (o : obj) (r : rid)
             (dispatch : obj -> rid -> unit -> res) : unit -> res :=
    fun _ =>
      let rs := rd_restr rd in
      let ts := filter (fun t => valid m conds t && in_userset_restr rs (t_sub t)) (raw_of store o r) in
      match passing ts with
      | [] => if has_err ts then ([AEc], notrig) else ([AFn], notrig)
      | ps =>
          let '(s, t) := union_all (flat_map (fun t => match t_sub t with
                                                       | SSet o' r' => [dispatch o' r']
                                                       | _ => [] end) ps) in
          (s, tor t {| tr_excl_sub_cycle := false; tr_swallow := has_err ts |})
      end.

  Definition this_handlers (rd : reldef) (o : obj) (r : rid)
             (dispatch : obj -> rid -> unit -> res) : list (unit -> res) :=
    let rs := rd_restr rd in
    (if directly_related subj rs then [fun _ => direct_user_tuple m conds store subj o r] else []) ++
    (if publicly_assignable subj rs then [fun _ => public_assignable m conds store subj o r] else []) ++
    (if has_userset_restr rs then [userset_handler rd o r dispatch] else []).

  Definition ttu_eval (o : obj) (ts c : rid) (dispatch : obj -> rid -> unit -> res) : res :=
    let tl := filter (valid m conds) (raw_of store o ts) in
    match passing tl with
    | [] => if has_err tl then ([AEc], notrig) else ([AFn], notrig)
    | ps =>
        let '(s, t) := union_all (flat_map (fun t => match t_sub t with
                                                     | SObj o' => if rel_defined m (otype o') c
                                                                  then [dispatch o' c] else []
                                                     | _ => [] end) ps) in
        (s, tor t {| tr_excl_sub_cycle := false; tr_swallow := has_err tl |})
    end.

  Fixpoint eval_with (rd : reldef) (o : obj) (r : rid)
           (dispatch : obj -> rid -> unit -> res) (computed : rid -> res) (rw : rewrite) : res :=
    match rw with
    | This => union_all (this_handlers rd o r dispatch)
    | Computed r' => computed r'
    | TTU ts c => ttu_eval o ts c dispatch
    | Union l => union_all (map (fun x => fun _ : unit => eval_with rd o r dispatch computed x) l)
    | Inter l => inter_all (map (fun x => fun _ : unit => eval_with rd o r dispatch computed x) l)
    | Diff b s =>
        let '(sb, tb) := eval_with rd o r dispatch computed b in
        let '(ss, ts) := eval_with rd o r dispatch computed s in
        (lift2 excl2 sb ss,
         tor (tor tb ts) {| tr_excl_sub_cycle := omem AFc ss; tr_swallow := false |})
    end.

  Local Notation chk := (check m conds store subj pathx maxdepth).

  (* one unfolding of `check`, with the anonymous local evaluator replaced by eval_with *)
  Lemma check_unfold : forall f depth visited o r,
    chk (S f) depth visited o r =
    if Nat.eqb depth maxdepth then ([AEd], notrig)
    else if existsb (atom_eqb (o, r)) visited then ([AFc], notrig)
    else if subject_eqb subj (SSet o r) then ([AT], notrig)
    else match get_relation m (otype o) r with
         | None => ([AEo], notrig)
         | Some rd =>
             if negb (path_exists pathx (otype o) r) then ([AFn], notrig)
             else eval_with rd o r
                    (fun o' r' _ => chk f (S depth) ((o, r) :: visited) o' r')
                    (fun r' => chk f depth ((o, r) :: visited) o r')
                    (rd_rw rd)
         end.
  Proof.
    intros f depth visited o r. cbn [check].
    destruct (Nat.eqb depth maxdepth); [reflexivity|].
    destruct (existsb (atom_eqb (o, r)) visited); [reflexivity|].
    destruct (subject_eqb subj (SSet o r)); [reflexivity|].
    destruct (get_relation m (otype o) r) as [rd|]; [|reflexivity].
    destruct (negb (path_exists pathx (otype o) r)); [reflexivity|].
    generalize (rd_rw rd). intro rw.
    match goal with |- ?F rw = _ => set (ev := F) end.
    induction rw as [|r'|ts c|l IH|l IH|b s IHb IHs] using rewrite_ind'.
    - reflexivity.
    - reflexivity.
    - reflexivity.
    - change (ev (Union l)) with (union_all (map (fun x => fun _ : unit => ev x) l)).
      cbn [eval_with]. f_equal.
      induction IH as [|x l Hx Hl IHl]; [reflexivity|].
      cbn [map]. rewrite Hx, IHl. reflexivity.
    - change (ev (Inter l)) with (inter_all (map (fun x => fun _ : unit => ev x) l)).
      cbn [eval_with]. f_equal.
      induction IH as [|x l Hx Hl IHl]; [reflexivity|].
      cbn [map]. rewrite Hx, IHl. reflexivity.
    - change (ev (Diff b s)) with
        (let '(sb, tb) := ev b in
         let '(ss, ts) := ev s in
         (lift2 excl2 sb ss,
          tor (tor tb ts) {| tr_excl_sub_cycle := omem AFc ss; tr_swallow := false |})).
      cbn [eval_with]. rewrite IHb, IHs. reflexivity.
  Qed.

  (* ---- what a read hands to the evaluator ---- *)
  Lemma raw_valid_tuples_of : forall t o r,
    In t (raw_of store o r) -> valid m conds t = true -> In t (tuples_of m conds store o r).
  Proof.
    intros t o r H Hv. unfold raw_of in H. apply filter_In in H. destruct H as [H1 H2].
    unfold tuples_of, vtuples. apply filter_In. split; [|exact H2].
    apply filter_In. split; [exact H1 | exact Hv].
  Qed.

  Lemma In_passing : forall t ts, In t (passing ts) -> In t ts /\ t_ceval t = T.
  Proof.
    intros t ts H. unfold passing in H. apply filter_In in H. destruct H as [H1 H2].
    split; [exact H1|]. destruct (t_ceval t); try discriminate H2. reflexivity.
  Qed.

  Lemma direct_user_tuple_AT : forall o r,
    In AT (fst (direct_user_tuple m conds store subj o r)) ->
    exists t, In t (tuples_of m conds store o r) /\ t_sub t = subj /\ t_ceval t = T.
  Proof.
    intros o r H. unfold direct_user_tuple in H.
    destruct (find (fun t => subject_eqb (t_sub t) subj) (raw_of store o r)) as [t|] eqn:Hf.
    - apply find_some in Hf. destruct Hf as [Hin Hs]. apply subject_eqb_eq in Hs.
      destruct (valid m conds t) eqn:Hv; simpl in H.
      + destruct (t_ceval t) eqn:Hc; simpl in H; destruct H as [H|[]]; try discriminate H.
        exists t. split; [apply raw_valid_tuples_of; assumption | auto].
      + destruct H as [H|[]]; discriminate H.
    - simpl in H. destruct H as [H|[]]; discriminate H.
  Qed.

  Lemma public_assignable_AT : forall o r,
    In AT (fst (public_assignable m conds store subj o r)) ->
    exists t, In t (tuples_of m conds store o r) /\ t_sub t = SWild (subject_type subj) /\ t_ceval t = T.
  Proof.
    intros o r H. unfold public_assignable in H.
    match type of H with context [passing ?X] => set (ts := X) in * end.
    destruct (passing ts) as [|t ps] eqn:Hp.
    - destruct (has_err ts); simpl in H; destruct H as [H|[]]; discriminate H.
    - assert (Hin : In t (passing ts)) by (rewrite Hp; left; reflexivity).
      apply In_passing in Hin. destruct Hin as [Hin Hc].
      unfold ts in Hin. apply filter_In in Hin. destruct Hin as [Hraw Hv].
      apply andb_true_iff in Hv. destruct Hv as [Hv Hs]. apply subject_eqb_eq in Hs.
      exists t. split; [apply raw_valid_tuples_of; assumption | auto].
  Qed.
End Algo.

(* ================================================================== *)
(* D'. soundness of `allowed` for the positive fragment                 *)
(* ================================================================== *)
(* "Every `allowed` the algorithm can return is forced in every pre-fixpoint of the reference
   semantics' step operator": for a model without difference, AT in the outcome set of check
   (for ANY fuel, depth, visited path, PathExists oracle and depth limit, with conditional tuples
   whose condition is true / false / not evaluable) implies that object#relation has value T in
   every valuation v with eval_atom v a <= v a for all a.  The least fixpoint is such a
   valuation, hence the corollary about holds3 below. *)

Section Sound.
  Variable m : model.
  Variable conds : list cid.
  Variable store : list tuple.
  Variable subj : subject.
  Variable pathx : list (tid * rid).
  Variable maxdepth : nat.
  Variable v : valuation.

  Hypothesis Hpos : positive_model m = true.
  Hypothesis Hpre : forall a, le3 (eval_atom m conds store subj v a) (vget v a) = true.

  Local Notation chk := (check m conds store subj pathx maxdepth).
  Local Notation av := (atomval subj v).

  Lemma direct1_T_subject : forall t, t_sub t = subj -> t_ceval t = T -> direct1 subj v t = T.
  Proof.
    intros t Hs Hc. unfold direct1. rewrite Hs, subject_eqb_refl. exact Hc.
  Qed.

  Lemma direct1_T_wild : forall t,
    (forall o r, subj <> SSet o r) ->
    t_sub t = SWild (subject_type subj) -> t_ceval t = T -> direct1 subj v t = T.
  Proof.
    intros t Hns Hs Hc. unfold direct1. rewrite Hs.
    destruct subj as [so|st|so sr]; simpl.
    - rewrite N.eqb_refl. exact Hc.
    - rewrite N.eqb_refl. exact Hc.
    - exfalso. apply (Hns so sr). reflexivity.
  Qed.

  Lemma direct1_T_userset : forall t o' r',
    t_sub t = SSet o' r' -> t_ceval t = T -> av o' r' = T -> direct1 subj v t = T.
  Proof.
    intros t o' r' Hs Hc Ha. unfold direct1. rewrite Hs.
    destruct (subject_eqb (SSet o' r') subj); [exact Hc|]. rewrite Hc, Ha. reflexivity.
  Qed.

  Lemma or3_list_map_T : forall (f : tuple -> b3) l t, In t l -> f t = T -> or3_list (map f l) = T.
  Proof. intros f l t Hin Hf. apply or3_list_T_iff. apply in_map_iff. exists t; auto. Qed.

  Section OneCall.
    Variable rd : reldef.
    Variable o : obj.
    Variable r : rid.
    Variable dispatch : obj -> rid -> unit -> res.
    Variable computed : rid -> res.
    Hypothesis Hdisp : forall o' r', In AT (fst (dispatch o' r' tt)) -> av o' r' = T.
    Hypothesis Hcomp : forall r', In AT (fst (computed r')) -> av o r' = T.

    Lemma this_sound :
      In AT (fst (union_all (this_handlers m conds store subj rd o r dispatch))) ->
      or3_list (map (direct1 subj v) (tuples_of m conds store o r)) = T.
    Proof.
      intro H. apply union_all_AT in H. destruct H as [h [Hin Hat]].
      unfold this_handlers in Hin. apply in_app_iff in Hin. destruct Hin as [Hin|Hin].
      { destruct (directly_related subj (rd_restr rd)); [|destruct Hin].
        destruct Hin as [Hin|[]]. subst h.
        apply direct_user_tuple_AT in Hat. destruct Hat as [t [Ht [Hs Hc]]].
        eapply or3_list_map_T; [exact Ht | apply direct1_T_subject; assumption]. }
      apply in_app_iff in Hin. destruct Hin as [Hin|Hin].
      { destruct (publicly_assignable subj (rd_restr rd)) eqn:Hpa; [|destruct Hin].
        destruct Hin as [Hin|[]]. subst h.
        apply public_assignable_AT in Hat. destruct Hat as [t [Ht [Hs Hc]]].
        eapply or3_list_map_T; [exact Ht|]. apply direct1_T_wild; try assumption.
        intros so sr He. unfold publicly_assignable in Hpa. rewrite He in Hpa. discriminate Hpa. }
      destruct (has_userset_restr (rd_restr rd)); [|destruct Hin].
      destruct Hin as [Hin|[]]. subst h. unfold userset_handler in Hat.
      match type of Hat with context [passing ?X] => set (ts := X) in * end.
      destruct (passing ts) as [|t0 ps] eqn:Hp.
      { destruct (has_err ts); simpl in Hat; destruct Hat as [Hat|[]]; discriminate Hat. }
      rewrite fst_let_pair in Hat. apply union_all_AT in Hat. destruct Hat as [h [Hin Hat]].
      apply in_flat_map in Hin. destruct Hin as [t [Htp Hh]].
      rewrite <- Hp in Htp. apply In_passing in Htp. destruct Htp as [Hts Hc].
      unfold ts in Hts. apply filter_In in Hts. destruct Hts as [Hraw Hv].
      apply andb_true_iff in Hv. destruct Hv as [Hv _].
      remember (t_sub t) as st eqn:Hs. symmetry in Hs.
      destruct st as [x|x|o' r']; try (destruct Hh; fail).
      destruct Hh as [Hh|[]]. subst h.
      eapply or3_list_map_T; [apply raw_valid_tuples_of; eassumption|].
      eapply direct1_T_userset; [exact Hs | exact Hc | apply Hdisp; exact Hat].
    Qed.

    Lemma ttu_sound : forall ts c,
      In AT (fst (ttu_eval m conds store o ts c dispatch)) ->
      or3_list (map (ttu1 m subj v c) (tuples_of m conds store o ts)) = T.
    Proof.
      intros ts c Hat. unfold ttu_eval in Hat.
      match type of Hat with context [passing ?X] => set (tl := X) in * end.
      destruct (passing tl) as [|t0 ps] eqn:Hp.
      { destruct (has_err tl); simpl in Hat; destruct Hat as [Hat|[]]; discriminate Hat. }
      rewrite fst_let_pair in Hat. apply union_all_AT in Hat. destruct Hat as [h [Hin Hat]].
      apply in_flat_map in Hin. destruct Hin as [t [Htp Hh]].
      rewrite <- Hp in Htp. apply In_passing in Htp. destruct Htp as [Hts Hc].
      unfold tl in Hts. apply filter_In in Hts. destruct Hts as [Hraw Hv].
      remember (t_sub t) as st eqn:Hs. symmetry in Hs.
      destruct st as [o'|x|x r']; try (destruct Hh; fail).
      destruct (rel_defined m (otype o') c) eqn:Hd; [|destruct Hh].
      destruct Hh as [Hh|[]]. subst h.
      eapply or3_list_map_T; [apply raw_valid_tuples_of; eassumption|].
      unfold ttu1. rewrite Hs, Hd, Hc, (Hdisp o' c Hat). reflexivity.
    Qed.

    Lemma eval_with_sound : forall rw,
      positive_rw rw = true ->
      In AT (fst (eval_with m conds store subj rd o r dispatch computed rw)) ->
      eval_rw m conds store subj v o r rw = T.
    Proof.
      intro rw. induction rw as [|r'|ts c|l IH|l IH|b s IHb IHs] using rewrite_ind'; intros Hp Hat.
      - apply this_sound; exact Hat.
      - simpl. apply Hcomp. exact Hat.
      - apply ttu_sound; exact Hat.
      - rewrite eval_rw_Union. rewrite positive_Union, forallb_forall in Hp.
        cbn [eval_with] in Hat. apply union_all_AT in Hat. destruct Hat as [h [Hin Hat]].
        apply in_map_iff in Hin. destruct Hin as [x [Hh Hx]]. subst h.
        rewrite Forall_forall in IH.
        apply or3_list_T_iff. apply in_map_iff. exists x. split; [|exact Hx].
        apply IH; [exact Hx | apply Hp; exact Hx | exact Hat].
      - rewrite eval_rw_Inter. rewrite positive_Inter, forallb_forall in Hp.
        cbn [eval_with] in Hat. rewrite Forall_forall in IH.
        apply and3_list_T_iff. intros y Hy. apply in_map_iff in Hy. destruct Hy as [x [Hy Hx]]. subst y.
        apply IH; [exact Hx | apply Hp; exact Hx |].
        apply (inter_all_AT _ Hat (fun _ : unit => eval_with m conds store subj rd o r dispatch computed x)).
        apply in_map_iff. exists x. auto.
      - discriminate Hp.
    Qed.
  End OneCall.

  Theorem check_sound_positive : forall fuel depth visited o r,
    In AT (fst (chk fuel depth visited o r)) -> av o r = T.
  Proof.
    induction fuel as [|f IH]; intros depth visited o r H.
    - simpl in H. destruct H as [H|[]]; discriminate H.
    - rewrite check_unfold in H.
      destruct (Nat.eqb depth maxdepth); [simpl in H; destruct H as [H|[]]; discriminate H|].
      destruct (existsb (atom_eqb (o, r)) visited); [simpl in H; destruct H as [H|[]]; discriminate H|].
      unfold atomval. destruct (subject_eqb subj (SSet o r)) eqn:Hs; [reflexivity|].
      destruct (get_relation m (otype o) r) as [rd|] eqn:Hr;
        [|simpl in H; destruct H as [H|[]]; discriminate H].
      destruct (negb (path_exists pathx (otype o) r)); [simpl in H; destruct H as [H|[]]; discriminate H|].
      apply le3_T_l. rewrite <- (Hpre (o, r)). f_equal.
      unfold eval_atom. simpl. rewrite Hr. symmetry.
      eapply eval_with_sound; [| |eapply positive_model_rel; eassumption | exact H].
      + intros o' r' Hat. eapply IH; exact Hat.
      + intros r' Hat. eapply IH; exact Hat.
  Qed.
End Sound.

(* against the reference semantics itself: positive model, adequate universe *)
Theorem check_sound_positive_holds3 :
  forall m conds store subj pathx maxdepth atoms fuel o r,
    positive_model m = true ->
    no_empty_inter_model m = true ->
    universe_ok m conds store subj atoms = true ->
    In AT (fst (check_top m conds store subj pathx maxdepth fuel o r)) ->
    holds3 m conds store subj atoms o r = T.
Proof.
  intros m conds store subj pathx maxdepth atoms fuel o r Hpos Hne Hu H.
  unfold holds3, check_top in *.
  eapply check_sound_positive; [exact Hpos | | exact H].
  intro a. rewrite (positive_lfp_fixpoint_all m conds store subj atoms Hu Hne Hpos a). apply le3_refl.
Qed.

(* ================================================================== *)
(* F. the model's fuel is sufficient                                   *)
(* ================================================================== *)
(* Every nested call either dispatches (depth + 1, bounded by the depth limit) or follows a
   computed userset on the same object (a new defined relation of that object joins the visited
   path).  With R = the largest number of relations of a type, fuel >= (maxdepth+1) * (R+2)
   is enough: AFuel is never an outcome. *)

Lemma union2_mem : forall a b x, In x (union2 a b) -> x = a \/ x = b.
Proof. intros a b x H; destruct a, b; simpl in H; in_cases H; subst x; auto. Qed.
Lemma inter2_mem : forall a b x, In x (inter2 a b) -> x = a \/ x = b.
Proof. intros a b x H; destruct a, b; simpl in H; in_cases H; subst x; auto. Qed.
Lemma excl2_mem : forall a b x, In x (excl2 a b) -> x = a \/ x = b \/ x = AFn.
Proof. intros a b x H; destruct a, b; simpl in H; in_cases H; subst x; auto. Qed.

Lemma union_all_mem : forall hs x,
  In x (fst (union_all hs)) -> x = AFn \/ exists h, In h hs /\ In x (fst (h tt)).
Proof.
  induction hs as [|h hs IH]; simpl; intros x H.
  - destruct H as [H|[]]. left; symmetry; exact H.
  - destruct (h tt) as [s t] eqn:Hh. destruct (is_just_true s) eqn:Hj.
    + apply is_just_true_eq in Hj. subst s. right. exists h. rewrite Hh. auto.
    + destruct (union_all hs) as [s' t'] eqn:Hu. simpl in H, IH.
      apply In_lift2 in H. destruct H as [a [b [Ha [Hb Hx]]]].
      apply union2_mem in Hx. destruct Hx as [Hx|Hx]; subst x.
      * right. exists h. rewrite Hh. auto.
      * destruct (IH b Hb) as [He|[h' [Hin Hat]]]; [left; exact He | right; exists h'; auto].
Qed.

Lemma inter_all_mem : forall hs x,
  In x (fst (inter_all hs)) -> x = AT \/ exists h, In h hs /\ In x (fst (h tt)).
Proof.
  induction hs as [|h hs IH]; simpl; intros x H.
  - destruct H as [H|[]]. left; symmetry; exact H.
  - destruct (h tt) as [s t] eqn:Hh. destruct (inter_all hs) as [s' t'] eqn:Hu. simpl in H, IH.
    apply In_lift2 in H. destruct H as [a [b [Ha [Hb Hx]]]].
    apply inter2_mem in Hx. destruct Hx as [Hx|Hx]; subst x.
    + right. exists h. rewrite Hh. auto.
    + destruct (IH b Hb) as [He|[h' [Hin Hat]]]; [left; exact He | right; exists h'; auto].
Qed.

Lemma filter_length_le_gen : forall (A : Type) (p : A -> bool) l, (length (filter p l) <= length l)%nat.
Proof. intros A p l; induction l as [|x l IH]; simpl; [lia | destruct (p x); simpl; lia]. Qed.

Lemma filter_length_mono : forall (A : Type) (p q : A -> bool) l,
  (forall x, p x = true -> q x = true) -> (length (filter p l) <= length (filter q l))%nat.
Proof.
  intros A p q l H; induction l as [|x l IH]; simpl; [lia|].
  destruct (p x) eqn:Hp; [rewrite (H x Hp); simpl; lia | destruct (q x); simpl; lia].
Qed.

Lemma filter_length_lt : forall (A : Type) (p q : A -> bool) l a,
  (forall x, p x = true -> q x = true) -> In a l -> p a = false -> q a = true ->
  (length (filter p l) < length (filter q l))%nat.
Proof.
  intros A p q l a H; induction l as [|x l IH]; simpl; intros Hin Hp Hq; [destruct Hin|].
  destruct Hin as [Hin|Hin].
  - subst x. rewrite Hp, Hq. simpl. pose proof (filter_length_mono A p q l H). lia.
  - specialize (IH Hin Hp Hq). destruct (p x) eqn:Hpx; [rewrite (H x Hpx); simpl; lia | destruct (q x); simpl; lia].
Qed.

Section Fuel.
  Variable m : model.
  Variable conds : list cid.
  Variable store : list tuple.
  Variable subj : subject.
  Variable pathx : list (tid * rid).
  Variable maxdepth : nat.

  Local Notation chk := (check m conds store subj pathx maxdepth).

  Definition max_rels : nat := fold_right Nat.max O (map (fun d => length (td_rels d)) m).

  (* defined relations of o's type that are already on the visited path for o *)
  Definition cnt (visited : list atom) (o : obj) : nat :=
    length (filter (fun r' => existsb (atom_eqb (o, r')) visited) (defined_rels m (otype o))).

  Lemma defined_rels_length : forall t, (length (defined_rels m t) <= max_rels)%nat.
  Proof.
    intro t. unfold defined_rels, max_rels.
    destruct (find_type m t) as [d|] eqn:Hd; [|simpl; lia].
    apply find_type_In in Hd. destruct Hd as [Hin _]. rewrite map_length.
    induction m as [|d' m' IH]; [destruct Hin|]. simpl. destruct Hin as [Hin|Hin].
    - subst d'. lia.
    - specialize (IH Hin). lia.
  Qed.

  Lemma cnt_le : forall visited o, (cnt visited o <= max_rels)%nat.
  Proof.
    intros visited o. unfold cnt.
    eapply Nat.le_trans; [apply filter_length_le_gen | apply defined_rels_length].
  Qed.

  Lemma cnt_grow : forall visited o r,
    rel_defined m (otype o) r = true ->
    existsb (atom_eqb (o, r)) visited = false ->
    (cnt visited o < cnt ((o, r) :: visited) o)%nat.
  Proof.
    intros visited o r Hd Hv. unfold cnt. apply filter_length_lt with (a := r).
    - intros x Hx. simpl. rewrite Hx. apply orb_true_r.
    - apply rel_defined_In; exact Hd.
    - exact Hv.
    - simpl. rewrite atom_eqb_refl. reflexivity.
  Qed.

  Definition mu (depth : nat) (visited : list atom) (o : obj) : nat :=
    ((maxdepth - depth) * (max_rels + 2) + (max_rels - cnt visited o) + 1)%nat.

  Lemma direct_user_tuple_no_fuel : forall o r,
    ~ In AFuel (fst (direct_user_tuple m conds store subj o r)).
  Proof.
    intros o r H. unfold direct_user_tuple in H.
    destruct (find (fun t => subject_eqb (t_sub t) subj) (raw_of store o r)) as [t|].
    - destruct (negb (valid m conds t)); [|destruct (t_ceval t)];
        simpl in H; destruct H as [H|[]]; discriminate H.
    - simpl in H; destruct H as [H|[]]; discriminate H.
  Qed.

  Lemma public_assignable_no_fuel : forall o r,
    ~ In AFuel (fst (public_assignable m conds store subj o r)).
  Proof.
    intros o r H. unfold public_assignable in H.
    match type of H with context [passing ?X] => set (ts := X) in * end.
    destruct (passing ts); [destruct (has_err ts)|]; simpl in H; destruct H as [H|[]]; discriminate H.
  Qed.

  Section OneCallFuel.
    Variable rd : reldef.
    Variable o : obj.
    Variable r : rid.
    Variable dispatch : obj -> rid -> unit -> res.
    Variable computed : rid -> res.
    Hypothesis Hdisp : forall o' r', ~ In AFuel (fst (dispatch o' r' tt)).
    Hypothesis Hcomp : forall r', ~ In AFuel (fst (computed r')).

    Lemma this_no_fuel :
      ~ In AFuel (fst (union_all (this_handlers m conds store subj rd o r dispatch))).
    Proof.
      intro H. apply union_all_mem in H. destruct H as [H|[h [Hin Hat]]]; [discriminate H|].
      unfold this_handlers in Hin. apply in_app_iff in Hin. destruct Hin as [Hin|Hin].
      { destruct (directly_related subj (rd_restr rd)); [|destruct Hin].
        destruct Hin as [Hin|[]]. subst h. exact (direct_user_tuple_no_fuel o r Hat). }
      apply in_app_iff in Hin. destruct Hin as [Hin|Hin].
      { destruct (publicly_assignable subj (rd_restr rd)); [|destruct Hin].
        destruct Hin as [Hin|[]]. subst h. exact (public_assignable_no_fuel o r Hat). }
      destruct (has_userset_restr (rd_restr rd)); [|destruct Hin].
      destruct Hin as [Hin|[]]. subst h. unfold userset_handler in Hat.
      match type of Hat with context [passing ?X] => set (ts := X) in * end.
      destruct (passing ts) as [|t0 ps] eqn:Hp.
      { destruct (has_err ts); simpl in Hat; destruct Hat as [Hat|[]]; discriminate Hat. }
      rewrite fst_let_pair in Hat. apply union_all_mem in Hat.
      destruct Hat as [Hat|[h [Hin Hat]]]; [discriminate Hat|].
      apply in_flat_map in Hin. destruct Hin as [t [_ Hh]].
      destruct (t_sub t) as [x|x|o' r']; try (destruct Hh; fail).
      destruct Hh as [Hh|[]]. subst h. exact (Hdisp o' r' Hat).
    Qed.

    Lemma ttu_no_fuel : forall ts c,
      ~ In AFuel (fst (ttu_eval m conds store o ts c dispatch)).
    Proof.
      intros ts c Hat. unfold ttu_eval in Hat.
      match type of Hat with context [passing ?X] => set (tl := X) in * end.
      destruct (passing tl) as [|t0 ps] eqn:Hp.
      { destruct (has_err tl); simpl in Hat; destruct Hat as [Hat|[]]; discriminate Hat. }
      rewrite fst_let_pair in Hat. apply union_all_mem in Hat.
      destruct Hat as [Hat|[h [Hin Hat]]]; [discriminate Hat|].
      apply in_flat_map in Hin. destruct Hin as [t [_ Hh]].
      destruct (t_sub t) as [o'|x|x r']; try (destruct Hh; fail).
      destruct (rel_defined m (otype o') c); [|destruct Hh].
      destruct Hh as [Hh|[]]. subst h. exact (Hdisp o' c Hat).
    Qed.

    Lemma eval_with_no_fuel : forall rw,
      ~ In AFuel (fst (eval_with m conds store subj rd o r dispatch computed rw)).
    Proof.
      intro rw. induction rw as [|r'|ts c|l IH|l IH|b s IHb IHs] using rewrite_ind'; intro Hat.
      - exact (this_no_fuel Hat).
      - exact (Hcomp r' Hat).
      - exact (ttu_no_fuel ts c Hat).
      - cbn [eval_with] in Hat. apply union_all_mem in Hat.
        destruct Hat as [Hat|[h [Hin Hat]]]; [discriminate Hat|].
        apply in_map_iff in Hin. destruct Hin as [x [Hh Hx]]. subst h.
        rewrite Forall_forall in IH. exact (IH x Hx Hat).
      - cbn [eval_with] in Hat. apply inter_all_mem in Hat.
        destruct Hat as [Hat|[h [Hin Hat]]]; [discriminate Hat|].
        apply in_map_iff in Hin. destruct Hin as [x [Hh Hx]]. subst h.
        rewrite Forall_forall in IH. exact (IH x Hx Hat).
      - cbn [eval_with] in Hat.
        destruct (eval_with m conds store subj rd o r dispatch computed b) as [sb tb].
        destruct (eval_with m conds store subj rd o r dispatch computed s) as [ss ts].
        simpl in Hat, IHb, IHs. apply In_lift2 in Hat. destruct Hat as [a [b' [Ha [Hb Hx]]]].
        apply excl2_mem in Hx. destruct Hx as [Hx|[Hx|Hx]]; try discriminate Hx; subst.
        + exact (IHb Ha).
        + exact (IHs Hb).
    Qed.
  End OneCallFuel.

  Theorem check_no_fuel_gen : forall fuel depth visited o r,
    (depth <= maxdepth)%nat -> (mu depth visited o <= fuel)%nat ->
    ~ In AFuel (fst (chk fuel depth visited o r)).
  Proof.
    induction fuel as [|f IH]; intros depth visited o r Hd Hmu.
    - exfalso. unfold mu in Hmu. nia.
    - rewrite check_unfold.
      destruct (Nat.eqb depth maxdepth) eqn:Hdm; [simpl; intros [H|[]]; discriminate H|].
      apply Nat.eqb_neq in Hdm.
      destruct (existsb (atom_eqb (o, r)) visited) eqn:Hvis; [simpl; intros [H|[]]; discriminate H|].
      destruct (subject_eqb subj (SSet o r)); [simpl; intros [H|[]]; discriminate H|].
      destruct (get_relation m (otype o) r) as [rd|] eqn:Hr; [|simpl; intros [H|[]]; discriminate H].
      destruct (negb (path_exists pathx (otype o) r)); [simpl; intros [H|[]]; discriminate H|].
      assert (Hdef : rel_defined m (otype o) r = true) by (unfold rel_defined; rewrite Hr; reflexivity).
      pose proof (cnt_grow visited o r Hdef Hvis) as Hg.
      pose proof (cnt_le ((o, r) :: visited) o) as Hle.
      apply eval_with_no_fuel.
      + intros o' r'. apply IH; [lia|].
        pose proof (cnt_le ((o, r) :: visited) o') as Hle'.
        unfold mu in *.
        replace (maxdepth - depth)%nat with (S (maxdepth - S depth)) in Hmu by lia.
        simpl in Hmu. lia.
      + intros r'. apply IH; [exact Hd|]. unfold mu in *. lia.
  Qed.

  (* the top-level request *)
  Theorem check_no_fuel : forall fuel o r,
    ((maxdepth + 1) * (max_rels + 2) <= fuel)%nat ->
    ~ In AFuel (fst (check_top m conds store subj pathx maxdepth fuel o r)).
  Proof.
    intros fuel o r Hf. unfold check_top. apply check_no_fuel_gen; [lia|].
    unfold mu, cnt. simpl.
    assert (H0 : length (filter (fun _ : rid => false) (defined_rels m (otype o))) = O).
    { induction (defined_rels m (otype o)) as [|x l IHl]; simpl; [reflexivity | exact IHl]. }
    rewrite H0. rewrite Nat.sub_0_r, Nat.sub_0_r. lia.
  Qed.
End Fuel.

(* ================================================================== *)
(* F'. Check always has an outcome                                     *)
(* ================================================================== *)

Lemma union_all_nonempty : forall hs,
  (forall h, In h hs -> fst (h tt) <> []) -> fst (union_all hs) <> [].
Proof.
  intros hs H He. pose proof (union_all_early_exit hs H) as Hs.
  pose proof (union_all_full_nonempty hs H) as Hn.
  destruct (fst (union_all_full hs)) as [|x l] eqn:Hf; [apply Hn; reflexivity|].
  rewrite He in Hs. destruct (Hs x) as [_ Hx]. destruct (Hx (or_introl eq_refl)).
Qed.

Lemma inter_all_nonempty : forall hs,
  (forall h, In h hs -> fst (h tt) <> []) -> fst (inter_all hs) <> [].
Proof.
  induction hs as [|h hs IH]; simpl; intro H; [discriminate|].
  destruct (h tt) as [s t] eqn:Hh. destruct (inter_all hs) as [s' t'] eqn:Hu. simpl.
  apply lift2_nonempty; [exact inter2_nonempty | |].
  - specialize (H h (or_introl eq_refl)). rewrite Hh in H. exact H.
  - simpl in IH. apply IH. intros h' Hin; apply H; right; exact Hin.
Qed.

Section NonEmpty.
  Variable m : model.
  Variable conds : list cid.
  Variable store : list tuple.
  Variable subj : subject.
  Variable pathx : list (tid * rid).
  Variable maxdepth : nat.

  Local Notation chk := (check m conds store subj pathx maxdepth).

  Lemma direct_user_tuple_nonempty : forall o r,
    fst (direct_user_tuple m conds store subj o r) <> [].
  Proof.
    intros o r. unfold direct_user_tuple.
    destruct (find (fun t => subject_eqb (t_sub t) subj) (raw_of store o r)) as [t|]; [|discriminate].
    destruct (negb (valid m conds t)); [discriminate|]. destruct (t_ceval t); discriminate.
  Qed.

  Lemma public_assignable_nonempty : forall o r,
    fst (public_assignable m conds store subj o r) <> [].
  Proof.
    intros o r. unfold public_assignable.
    match goal with |- context [passing ?X] => set (ts := X) end.
    destruct (passing ts); [destruct (has_err ts)|]; discriminate.
  Qed.

  Section OneCallNE.
    Variable rd : reldef.
    Variable o : obj.
    Variable r : rid.
    Variable dispatch : obj -> rid -> unit -> res.
    Variable computed : rid -> res.
    Hypothesis Hdisp : forall o' r', fst (dispatch o' r' tt) <> [].
    Hypothesis Hcomp : forall r', fst (computed r') <> [].

    Lemma this_nonempty :
      fst (union_all (this_handlers m conds store subj rd o r dispatch)) <> [].
    Proof.
      apply union_all_nonempty. intros h Hin.
      unfold this_handlers in Hin. apply in_app_iff in Hin. destruct Hin as [Hin|Hin].
      { destruct (directly_related subj (rd_restr rd)); [|destruct Hin].
        destruct Hin as [Hin|[]]. subst h. apply direct_user_tuple_nonempty. }
      apply in_app_iff in Hin. destruct Hin as [Hin|Hin].
      { destruct (publicly_assignable subj (rd_restr rd)); [|destruct Hin].
        destruct Hin as [Hin|[]]. subst h. apply public_assignable_nonempty. }
      destruct (has_userset_restr (rd_restr rd)); [|destruct Hin].
      destruct Hin as [Hin|[]]. subst h. unfold userset_handler.
      match goal with |- context [passing ?X] => set (ts := X) end.
      destruct (passing ts) as [|t0 ps]; [destruct (has_err ts); discriminate|].
      rewrite fst_let_pair. apply union_all_nonempty. intros h Hin.
      apply in_flat_map in Hin. destruct Hin as [t [_ Hh]].
      destruct (t_sub t) as [x|x|o' r']; try (destruct Hh; fail).
      destruct Hh as [Hh|[]]. subst h. apply Hdisp.
    Qed.

    Lemma ttu_nonempty : forall ts c, fst (ttu_eval m conds store o ts c dispatch) <> [].
    Proof.
      intros ts c. unfold ttu_eval.
      match goal with |- context [passing ?X] => set (tl := X) end.
      destruct (passing tl) as [|t0 ps]; [destruct (has_err tl); discriminate|].
      rewrite fst_let_pair. apply union_all_nonempty. intros h Hin.
      apply in_flat_map in Hin. destruct Hin as [t [_ Hh]].
      destruct (t_sub t) as [o'|x|x r']; try (destruct Hh; fail).
      destruct (rel_defined m (otype o') c); [|destruct Hh].
      destruct Hh as [Hh|[]]. subst h. apply Hdisp.
    Qed.

    Lemma eval_with_nonempty : forall rw,
      fst (eval_with m conds store subj rd o r dispatch computed rw) <> [].
    Proof.
      intro rw. induction rw as [|r'|ts c|l IH|l IH|b s IHb IHs] using rewrite_ind'.
      - exact this_nonempty.
      - exact (Hcomp r').
      - exact (ttu_nonempty ts c).
      - cbn [eval_with]. apply union_all_nonempty. intros h Hin.
        apply in_map_iff in Hin. destruct Hin as [x [Hh Hx]]. subst h.
        rewrite Forall_forall in IH. exact (IH x Hx).
      - cbn [eval_with]. apply inter_all_nonempty. intros h Hin.
        apply in_map_iff in Hin. destruct Hin as [x [Hh Hx]]. subst h.
        rewrite Forall_forall in IH. exact (IH x Hx).
      - cbn [eval_with].
        destruct (eval_with m conds store subj rd o r dispatch computed b) as [sb tb].
        destruct (eval_with m conds store subj rd o r dispatch computed s) as [ss ts].
        simpl in *. apply lift2_nonempty; [exact excl2_nonempty | exact IHb | exact IHs].
    Qed.
  End OneCallNE.

  Theorem check_nonempty : forall fuel depth visited o r,
    fst (chk fuel depth visited o r) <> [].
  Proof.
    induction fuel as [|f IH]; intros depth visited o r; [discriminate|].
    rewrite check_unfold.
    destruct (Nat.eqb depth maxdepth); [discriminate|].
    destruct (existsb (atom_eqb (o, r)) visited); [discriminate|].
    destruct (subject_eqb subj (SSet o r)); [discriminate|].
    destruct (get_relation m (otype o) r) as [rd|]; [|discriminate].
    destruct (negb (path_exists pathx (otype o) r)); [discriminate|].
    apply eval_with_nonempty; intros; apply IH.
  Qed.
End NonEmpty.

(* ================================================================== *)
(* E. the full statement, and the two reproduced defects                *)
(* ================================================================== *)

(* PathExists is given to the model as a list; "no pruning" = every defined relation is listed *)
Definition pathx_full (m : model) (pathx : list (tid * rid)) : bool :=
  forallb (fun p : tid * reldef => path_exists pathx (fst p) (rd_rel (snd p))) (all_rels m).

(* an outcome of the algorithm agrees with the reference value: a decision must be the value;
   errors (condition / depth / undefined relation / model fuel) are not decisions *)
Definition decision_agrees (x : aout) (s : b3) : Prop :=
  match x with
  | AT => s = T
  | AFn | AFc => s = F
  | AEc | AEd | AEo | AFuel => True
  end.

(* C01, full strength, as it would hold of a defect-free engine: for every stratified model whose
   reference semantics converged, every store, subject, adequate universe, unpruned type graph,
   depth limit and fuel, EVERY possible outcome of Check that is a decision is the least-fixpoint
   value.  The faithful model refutes it (C01_full_refuted below): both witnesses raise their
   trigger flag.

   check_exact (NOT proved; the target for the fragment "no trigger raised"):
     stratified m, converged, universe_ok, pathx_full, snd (check_top ..) = notrig,
     AEd, AFuel not in fst (check_top ..)  ==>
       fst (check_top ..) = [AT]            <-> holds3 = T
       fst (check_top ..) subset {AFn, AFc} <-> holds3 = F
       AEc in fst (check_top ..)            ->  some valid tuple has t_ceval = E.
   Proved of it:  the "->" of the first line for models without difference
   (check_sound_positive_holds3; no hypothesis on triggers, pruning, depth or fuel is needed for
   that direction), the reducer layer of all lines (reducers_kleene_union,
   reducers_kleene_inter, excl2_kleene_partial, and in the information order -- an error in
   place of a child's true value never corrupts a decision -- lift2_union2_refines,
   lift2_inter2_refines, lift2_excl2_refines_partial), check_no_fuel (AFuel is excluded by
   fuel >= (maxdepth+1)*(max_rels+2)) and check_nonempty.
   Not proved: completeness of the path-based cycle cut (a denial / cycle outcome implies value F
   -- needs the minimal-derivation argument), hence also soundness of `allowed` under a
   difference (which needs the denial direction for the subtract branch), and the
   characterisation of condition errors. *)
Definition C01_full_statement : Prop :=
  forall m conds store subj pathx atoms maxdepth fuel o r x,
    stratified m = true ->
    converged m conds store subj atoms = true ->
    universe_ok m conds store subj atoms = true ->
    pathx_full m pathx = true ->
    forallb (valid_for_read m conds) store = true ->
    In x (fst (check_top m conds store subj pathx maxdepth fuel o r)) ->
    decision_agrees x (holds3 m conds store subj atoms o r).

Definition mk_obj (t i : N) : obj := {| otype := t; oid := i |}.
Definition mk_restr (t : N) (k : rkind) (c : N) : restriction := {| r_type := t; r_kind := k; r_cond := c |}.
Definition mk_rel (r : N) (rw : rewrite) (l : list restriction) : reldef := {| rd_rel := r; rd_rw := rw; rd_restr := l |}.
Definition mk_tuple (o : obj) (r : N) (s : subject) (c : N) (e : b3) : tuple :=
  {| t_obj := o; t_rel := r; t_sub := s; t_cond := c; t_ceval := e |}.

(* F1 (checks/C01.findings.json, excl_sub_cycle).
   types user=1 team=2 group=3 doc=4; relations member=1 owner=2 blocked=3 viewer=4.
     team.member: [user, group#member]   group.member: [user, team#member]
     doc.owner: [user]   doc.blocked: [group#member, team#member]
     doc.viewer: owner but not blocked
   tuples doc:1#owner@user:1, doc:1#blocked@group:1#member,
          group:1#member@team:2#member, team:2#member@group:1#member *)
Definition f1_model : model :=
  [ {| td_type := 1; td_rels := [] |};
    {| td_type := 2; td_rels := [mk_rel 1 This [mk_restr 1 RObj 0; mk_restr 3 (RSet 1) 0]] |};
    {| td_type := 3; td_rels := [mk_rel 1 This [mk_restr 1 RObj 0; mk_restr 2 (RSet 1) 0]] |};
    {| td_type := 4; td_rels := [mk_rel 2 This [mk_restr 1 RObj 0];
                                 mk_rel 3 This [mk_restr 3 (RSet 1) 0; mk_restr 2 (RSet 1) 0];
                                 mk_rel 4 (Diff (Computed 2) (Computed 3)) []] |} ].
Definition f1_store : list tuple :=
  [ mk_tuple (mk_obj 4 1) 2 (SObj (mk_obj 1 1)) 0 T;
    mk_tuple (mk_obj 4 1) 3 (SSet (mk_obj 3 1) 1) 0 T;
    mk_tuple (mk_obj 3 1) 1 (SSet (mk_obj 2 2) 1) 0 T;
    mk_tuple (mk_obj 2 2) 1 (SSet (mk_obj 3 1) 1) 0 T ].
Definition f1_subj : subject := SObj (mk_obj 1 1).
Definition f1_pathx : list (tid * rid) := [(4, 4); (4, 2); (4, 3); (3, 1); (2, 1)].
Definition f1_atoms : list atom :=
  [(mk_obj 4 1, 2); (mk_obj 4 1, 3); (mk_obj 4 1, 4); (mk_obj 3 1, 1); (mk_obj 2 2, 1)].

Theorem C01_refuted_excl_sub_cycle :
  exists m conds store subj pathx atoms o r,
    stratified m = true /\
    converged m conds store subj atoms = true /\
    universe_ok m conds store subj atoms = true /\
    pathx_full m pathx = true /\
    forallb (valid_for_read m conds) store = true /\
    check_top m conds store subj pathx 25 30 o r =
      ([AFc], {| tr_excl_sub_cycle := true; tr_swallow := false |}) /\
    holds3 m conds store subj atoms o r = T.
Proof.
  exists f1_model, [], f1_store, f1_subj, f1_pathx, f1_atoms, (mk_obj 4 1), 4.
  vm_compute. repeat split; reflexivity.
Qed.

(* F2 (cond_err_swallowed).
   types user=1 group=2 doc=3; relations member=1 viewer=2 blocked=3 allowed=4; condition c1=1.
     group.member: [user]   doc.viewer: [user]   doc.blocked: [group#member with c1]
     doc.allowed: viewer but not blocked
   tuples doc:1#blocked@group:1#member (c1 true), doc:1#blocked@group:2#member (c1 cannot be
          evaluated: parameter missing), group:2#member@user:1, doc:1#viewer@user:1 *)
Definition f2_model : model :=
  [ {| td_type := 1; td_rels := [] |};
    {| td_type := 2; td_rels := [mk_rel 1 This [mk_restr 1 RObj 0]] |};
    {| td_type := 3; td_rels := [mk_rel 2 This [mk_restr 1 RObj 0];
                                 mk_rel 3 This [mk_restr 2 (RSet 1) 1];
                                 mk_rel 4 (Diff (Computed 2) (Computed 3)) []] |} ].
Definition f2_store : list tuple :=
  [ mk_tuple (mk_obj 3 1) 3 (SSet (mk_obj 2 1) 1) 1 T;
    mk_tuple (mk_obj 3 1) 3 (SSet (mk_obj 2 2) 1) 1 E;
    mk_tuple (mk_obj 2 2) 1 (SObj (mk_obj 1 1)) 0 T;
    mk_tuple (mk_obj 3 1) 2 (SObj (mk_obj 1 1)) 0 T ].
Definition f2_subj : subject := SObj (mk_obj 1 1).
Definition f2_pathx : list (tid * rid) := [(3, 4); (3, 2); (3, 3); (2, 1)].
Definition f2_atoms : list atom :=
  [(mk_obj 3 1, 2); (mk_obj 3 1, 3); (mk_obj 3 1, 4); (mk_obj 2 1, 1); (mk_obj 2 2, 1)].

Theorem C01_refuted_cond_err_swallowed :
  exists m conds store subj pathx atoms o r,
    stratified m = true /\
    converged m conds store subj atoms = true /\
    universe_ok m conds store subj atoms = true /\
    pathx_full m pathx = true /\
    forallb (valid_for_read m conds) store = true /\
    check_top m conds store subj pathx 25 30 o r =
      ([AT], {| tr_excl_sub_cycle := false; tr_swallow := true |}) /\
    holds3 m conds store subj atoms o r = E.
Proof.
  exists f2_model, [1], f2_store, f2_subj, f2_pathx, f2_atoms, (mk_obj 3 1), 4.
  vm_compute. repeat split; reflexivity.
Qed.

Theorem C01_full_refuted : ~ C01_full_statement.
Proof.
  intro H.
  destruct C01_refuted_excl_sub_cycle as [m [conds [store [subj [pathx [atoms [o [r
    [H1 [H2 [H3 [H4 [H5 [H6 H7]]]]]]]]]]]]]].
  specialize (H m conds store subj pathx atoms 25%nat 30%nat o r AFc H1 H2 H3 H4 H5).
  rewrite H6 in H. simpl in H. specialize (H (or_introl eq_refl)). rewrite H7 in H. discriminate H.
Qed.

(* the same statement restricted to `allowed` outcomes of models without difference is a theorem *)
Theorem C01_allowed_positive_partial :
  forall m conds store subj pathx atoms maxdepth fuel o r,
    positive_model m = true ->
    no_empty_inter_model m = true ->
    universe_ok m conds store subj atoms = true ->
    In AT (fst (check_top m conds store subj pathx maxdepth fuel o r)) ->
    decision_agrees AT (holds3 m conds store subj atoms o r) /\
    stratified m = true /\ converged m conds store subj atoms = true.
Proof.
  intros m conds store subj pathx atoms maxdepth fuel o r Hpos Hne Hu H. split; [|split].
  - simpl. eapply check_sound_positive_holds3; eassumption.
  - apply positive_stratified; exact Hpos.
  - apply converged_positive; exact Hpos.
Qed.

(* ================================================================== *)
(* G. data for the non-vacuity examples in Props/C01.v                  *)
(* ================================================================== *)
(* A model without difference that uses every other rewrite, a wildcard, a condition with all
   three outcomes, a tuple cycle and a tuple that is invalid for the model.
   types user=1 group=2 folder=3 doc=4;
   relations member=1 viewer=2 parent=3 editor=4 can_view=5 can_edit=6; condition c1=1.
     group.member: [user, group#member]      folder.viewer: [user, user:*]
     doc.parent: [folder]   doc.viewer: [user, group#member with c1]   doc.editor: [user]
     doc.can_view: viewer or editor or viewer from parent
     doc.can_edit: editor and can_view *)
Definition ex_model : model :=
  [ {| td_type := 1; td_rels := [] |};
    {| td_type := 2; td_rels := [mk_rel 1 This [mk_restr 1 RObj 0; mk_restr 2 (RSet 1) 0]] |};
    {| td_type := 3; td_rels := [mk_rel 2 This [mk_restr 1 RObj 0; mk_restr 1 RWild 0]] |};
    {| td_type := 4; td_rels := [mk_rel 3 This [mk_restr 3 RObj 0];
                                 mk_rel 2 This [mk_restr 1 RObj 0; mk_restr 2 (RSet 1) 1];
                                 mk_rel 4 This [mk_restr 1 RObj 0];
                                 mk_rel 5 (Union [Computed 2; Computed 4; TTU 3 2]) [];
                                 mk_rel 6 (Inter [Computed 4; Computed 5]) []] |} ].
Definition ex_store : list tuple :=
  [ mk_tuple (mk_obj 2 1) 1 (SObj (mk_obj 1 1)) 0 T;
    mk_tuple (mk_obj 2 2) 1 (SSet (mk_obj 2 1) 1) 0 T;
    mk_tuple (mk_obj 2 1) 1 (SSet (mk_obj 2 2) 1) 0 T;
    mk_tuple (mk_obj 4 1) 2 (SSet (mk_obj 2 2) 1) 1 T;
    mk_tuple (mk_obj 4 1) 2 (SSet (mk_obj 2 1) 1) 1 E;
    mk_tuple (mk_obj 4 1) 3 (SObj (mk_obj 3 1)) 0 T;
    mk_tuple (mk_obj 3 1) 2 (SWild 1) 0 T;
    mk_tuple (mk_obj 4 1) 4 (SObj (mk_obj 1 1)) 0 T ].
(* doc:2#editor@group:1#member: not allowed by doc.editor's type restrictions *)
Definition ex_bad : list tuple := [ mk_tuple (mk_obj 4 2) 4 (SSet (mk_obj 2 1) 1) 0 T ].
Definition ex_subj : subject := SObj (mk_obj 1 1).
Definition ex_pathx : list (tid * rid) := [(2, 1); (3, 2); (4, 3); (4, 2); (4, 4); (4, 5); (4, 6)].
Definition ex_atoms : list atom :=
  [(mk_obj 2 1, 1); (mk_obj 2 2, 1); (mk_obj 3 1, 2);
   (mk_obj 4 1, 3); (mk_obj 4 1, 2); (mk_obj 4 1, 4); (mk_obj 4 1, 5); (mk_obj 4 1, 6)].
