(* Proofs about the algorithm model of the default Check engine (Check/V1.v):
   A. the reducers against Kleene logic (and where `exclusion` deviates: F1);
   B. arrival-order irrelevance (commutativity / associativity up to set equality);
   C. the early exit of union_all;
   D. soundness of `allowed` for the positive fragment against every pre-fixpoint of the
      reference semantics' step operator, and against holds3;
   E. the two reproduced defects as closed counterexamples to the full statement. *)
From Coq Require Import List Bool Arith NArith Lia Permutation.
From OFGA Require Import Sem.B3 Sem.B3Proofs Sem.Vocab Sem.Valid Sem.Semantics Sem.SemProofs Check.V1.
Import ListNotations.
Open Scope N_scope.

(* ================================================================== *)
(* A. outcome sets                                                     *)
(* ================================================================== *)

(* the Kleene value an outcome stands for *)
Definition val (a : aout) : b3 :=
  match a with
  | AT => T
  | AFn | AFc => F
  | AEc | AEd | AEo | AFuel => E
  end.

Definition seteq (A B : oset) : Prop := forall x, In x A <-> In x B.

Lemma seteq_refl : forall A, seteq A A.
Proof. intros A x; split; auto. Qed.
Lemma seteq_sym : forall A B, seteq A B -> seteq B A.
Proof. intros A B H x; split; apply H. Qed.
Lemma seteq_trans : forall A B C, seteq A B -> seteq B C -> seteq A C.
Proof. intros A B C H1 H2 x; split; intro H; [apply H2, H1, H | apply H1, H2, H]. Qed.

Lemma aout_eqb_eq : forall a b, aout_eqb a b = true <-> a = b.
Proof. intros a b; destruct a, b; simpl; split; intro H; try reflexivity; discriminate H. Qed.

Lemma omem_In : forall a s, omem a s = true <-> In a s.
Proof.
  intros a s; unfold omem; rewrite existsb_exists; split.
  - intros [x [Hx He]]. apply aout_eqb_eq in He. subst x. exact Hx.
  - intro H. exists a. split; [exact H | apply aout_eqb_eq; reflexivity].
Qed.

Lemma In_oadd : forall x a s, In x (oadd a s) <-> x = a \/ In x s.
Proof.
  intros x a s; unfold oadd. destruct (omem a s) eqn:Hm.
  - apply omem_In in Hm. split; [auto | intros [H|H]; [subst; exact Hm | exact H]].
  - rewrite in_app_iff; simpl. split; [intros [H|[H|[]]]; auto | intros [H|H]; auto].
Qed.

Lemma In_ounion : forall x t s, In x (ounion s t) <-> In x s \/ In x t.
Proof.
  intros x t; unfold ounion; induction t as [|b t IH]; intro s; simpl.
  - split; [auto | intros [H|[]]; exact H].
  - rewrite IH, In_oadd. split.
    + intros [[H|H]|H]; auto.
    + intros [H|[H|H]]; auto.
Qed.

Lemma In_lift2_inner : forall (op : aout -> aout -> oset) a x B acc,
  In x (fold_left (fun acc' b => ounion acc' (op a b)) B acc) <->
  In x acc \/ exists b, In b B /\ In x (op a b).
Proof.
  intros op a x B; induction B as [|b B IH]; intro acc; simpl.
  - split; [auto | intros [H|[b [[] _]]]; exact H].
  - rewrite IH, In_ounion. split.
    + intros [[H|H]|[b' [Hb Hx]]]; [left; exact H | right; exists b; auto | right; exists b'; auto].
    + intros [H|[b' [[Hb|Hb] Hx]]]; [auto | subst b'; auto | right; exists b'; auto].
Qed.

Lemma In_lift2_acc : forall (op : aout -> aout -> oset) x B A acc,
  In x (fold_left (fun acc a => fold_left (fun acc' b => ounion acc' (op a b)) B acc) A acc) <->
  In x acc \/ exists a b, In a A /\ In b B /\ In x (op a b).
Proof.
  intros op x B A; induction A as [|a A IH]; intro acc; simpl.
  - split; [auto | intros [H|[a [b [[] _]]]]; exact H].
  - rewrite IH, In_lift2_inner. split.
    + intros [[H|[b [Hb Hx]]]|[a' [b [Ha [Hb Hx]]]]].
      * left; exact H.
      * right; exists a, b; auto.
      * right; exists a', b; auto.
    + intros [H|[a' [b [[Ha|Ha] [Hb Hx]]]]].
      * auto.
      * subst a'. left; right; exists b; auto.
      * right; exists a', b; auto.
Qed.

(* the outcome set of a binary reducer applied to two outcome SETS is the union over all pairs *)
Theorem In_lift2 : forall op x A B,
  In x (lift2 op A B) <-> exists a b, In a A /\ In b B /\ In x (op a b).
Proof.
  intros op x A B; unfold lift2; rewrite In_lift2_acc; simpl.
  split; [intros [[]|H]; exact H | auto].
Qed.

Lemma lift2_seteq : forall op A A' B B',
  seteq A A' -> seteq B B' -> seteq (lift2 op A B) (lift2 op A' B').
Proof.
  intros op A A' B B' HA HB x; rewrite !In_lift2; split;
    intros [a [b [Ha [Hb Hx]]]]; exists a, b; (split; [apply HA; exact Ha | split; [apply HB; exact Hb | exact Hx]]).
Qed.

(* every reducer returns at least one outcome *)
Lemma union2_nonempty : forall a b, union2 a b <> [].
Proof. intros a b; destruct a, b; discriminate. Qed.
Lemma inter2_nonempty : forall a b, inter2 a b <> [].
Proof. intros a b; destruct a, b; discriminate. Qed.
Lemma excl2_nonempty : forall a b, excl2 a b <> [].
Proof. intros a b; destruct a, b; discriminate. Qed.

Lemma lift2_nonempty : forall op A B,
  (forall a b, op a b <> []) -> A <> [] -> B <> [] -> lift2 op A B <> [].
Proof.
  intros op A B Hop HA HB H.
  destruct A as [|a A]; [apply HA; reflexivity|].
  destruct B as [|b B]; [apply HB; reflexivity|].
  destruct (op a b) as [|x l] eqn:Hx; [exact (Hop a b Hx)|].
  assert (Hin : In x (lift2 op (a :: A) (b :: B))).
  { apply In_lift2. exists a, b. rewrite Hx. simpl; auto. }
  rewrite H in Hin. destruct Hin.
Qed.

(* ================================================================== *)
(* A'. reducers versus Kleene                                           *)
(* ================================================================== *)

Ltac in_cases H :=
  repeat match type of H with
         | In _ (_ :: _) => destruct H as [H|H]
         | In _ [] => destruct H
         | _ \/ _ => destruct H as [H|H]
         | False => destruct H
         end.

Lemma union2_val : forall a b x, In x (union2 a b) -> val x = or3 (val a) (val b).
Proof. intros a b x H; destruct a, b; simpl in H; in_cases H; subst x; reflexivity. Qed.

Lemma inter2_val : forall a b x, In x (inter2 a b) -> val x = and3 (val a) (val b).
Proof. intros a b x H; destruct a, b; simpl in H; in_cases H; subst x; reflexivity. Qed.

(* F1: the statement "exclusion = Kleene difference" holds exactly when the subtract branch did
   not come back as "denied with CycleDetected". *)
Lemma excl2_val_partial : forall a b x,
  b <> AFc -> In x (excl2 a b) -> val x = diff3 (val a) (val b).
Proof.
  intros a b x Hb H; destruct a, b; try (exfalso; apply Hb; reflexivity);
    simpl in H; in_cases H; subst x; reflexivity.
Qed.

(* with a cycle flag in the subtract the base's own denial is still right *)
Lemma excl2_val_base_false : forall a b x,
  is_false a = true -> In x (excl2 a b) -> val x = diff3 (val a) (val b).
Proof.
  intros a b x Ha H; destruct a; try discriminate Ha; destruct b;
    simpl in H; in_cases H; subst x; reflexivity.
Qed.

(* the deviation itself: base allowed, subtract "denied (cycle)": Kleene says allowed *)
Lemma excl2_sub_cycle_refuted :
  exists a b x, In x (excl2 a b) /\ val x <> diff3 (val a) (val b).
Proof. exists AT, AFc, AFc. split; [simpl; auto | discriminate]. Qed.

(* and it is the only deviation *)
Lemma excl2_deviation_iff : forall a b,
  (exists x, In x (excl2 a b) /\ val x <> diff3 (val a) (val b)) <->
  (b = AFc /\ is_false a = false).
Proof.
  intros a b; split.
  - intros [x [Hx Hv]]. destruct a, b; simpl in Hx; in_cases Hx; subst x;
      try (exfalso; apply Hv; reflexivity); split; reflexivity.
  - intros [Hb Ha]; subst b. exists AFc. destruct a; try discriminate Ha; split;
      try (simpl; auto; fail); discriminate.
Qed.

(* the set-level statements: every outcome of the lifted reducer has the Kleene value of some
   pair of children, and every pair of children contributes an outcome *)
Theorem reducers_kleene_union : forall A B,
  (forall x, In x (lift2 union2 A B) -> exists a b, In a A /\ In b B /\ val x = or3 (val a) (val b)) /\
  (forall a b, In a A -> In b B -> exists x, In x (lift2 union2 A B) /\ val x = or3 (val a) (val b)).
Proof.
  intros A B; split.
  - intros x H. apply In_lift2 in H. destruct H as [a [b [Ha [Hb Hx]]]].
    exists a, b. repeat split; try assumption. apply union2_val; exact Hx.
  - intros a b Ha Hb. destruct (union2 a b) as [|x l] eqn:Hu; [exfalso; exact (union2_nonempty a b Hu)|].
    assert (Hx : In x (union2 a b)) by (rewrite Hu; simpl; auto).
    exists x. split; [apply In_lift2; exists a, b; auto | apply union2_val; exact Hx].
Qed.

Theorem reducers_kleene_inter : forall A B,
  (forall x, In x (lift2 inter2 A B) -> exists a b, In a A /\ In b B /\ val x = and3 (val a) (val b)) /\
  (forall a b, In a A -> In b B -> exists x, In x (lift2 inter2 A B) /\ val x = and3 (val a) (val b)).
Proof.
  intros A B; split.
  - intros x H. apply In_lift2 in H. destruct H as [a [b [Ha [Hb Hx]]]].
    exists a, b. repeat split; try assumption. apply inter2_val; exact Hx.
  - intros a b Ha Hb. destruct (inter2 a b) as [|x l] eqn:Hu; [exfalso; exact (inter2_nonempty a b Hu)|].
    assert (Hx : In x (inter2 a b)) by (rewrite Hu; simpl; auto).
    exists x. split; [apply In_lift2; exists a, b; auto | apply inter2_val; exact Hx].
Qed.

(* exclusion, under the hypothesis that excludes the F1 trigger (omem AFc B = false is exactly
   the negation of the tr_excl_sub_cycle flag the model raises at a Diff node) *)
Theorem excl2_kleene_partial : forall A B,
  omem AFc B = false ->
  (forall x, In x (lift2 excl2 A B) -> exists a b, In a A /\ In b B /\ val x = diff3 (val a) (val b)) /\
  (forall a b, In a A -> In b B -> exists x, In x (lift2 excl2 A B) /\ val x = diff3 (val a) (val b)).
Proof.
  intros A B Hc.
  assert (Hne : forall b, In b B -> b <> AFc).
  { intros b Hb He; subst b. apply omem_In in Hb. rewrite Hb in Hc; discriminate Hc. }
  split.
  - intros x H. apply In_lift2 in H. destruct H as [a [b [Ha [Hb Hx]]]].
    exists a, b. repeat split; try assumption. apply excl2_val_partial; [apply Hne; exact Hb | exact Hx].
  - intros a b Ha Hb. destruct (excl2 a b) as [|x l] eqn:Hu; [exfalso; exact (excl2_nonempty a b Hu)|].
    assert (Hx : In x (excl2 a b)) by (rewrite Hu; simpl; auto).
    exists x. split; [apply In_lift2; exists a, b; auto | apply excl2_val_partial; [apply Hne; exact Hb | exact Hx]].
Qed.

(* when all children agree on a Kleene value, so does the reducer's whole outcome set *)
Definition all_val (A : oset) (v : b3) : Prop := forall x, In x A -> val x = v.

Corollary lift2_union2_all_val : forall A B u v,
  all_val A u -> all_val B v -> all_val (lift2 union2 A B) (or3 u v).
Proof.
  intros A B u v HA HB x H. apply In_lift2 in H. destruct H as [a [b [Ha [Hb Hx]]]].
  rewrite (union2_val _ _ _ Hx), (HA a Ha), (HB b Hb); reflexivity.
Qed.
Corollary lift2_inter2_all_val : forall A B u v,
  all_val A u -> all_val B v -> all_val (lift2 inter2 A B) (and3 u v).
Proof.
  intros A B u v HA HB x H. apply In_lift2 in H. destruct H as [a [b [Ha [Hb Hx]]]].
  rewrite (inter2_val _ _ _ Hx), (HA a Ha), (HB b Hb); reflexivity.
Qed.
Corollary lift2_excl2_all_val_partial : forall A B u v,
  omem AFc B = false ->
  all_val A u -> all_val B v -> all_val (lift2 excl2 A B) (diff3 u v).
Proof.
  intros A B u v Hc HA HB x H. apply In_lift2 in H. destruct H as [a [b [Ha [Hb Hx]]]].
  assert (Hne : b <> AFc).
  { intro He; subst b. apply omem_In in Hb. rewrite Hb in Hc; discriminate Hc. }
  rewrite (excl2_val_partial _ _ _ Hne Hx), (HA a Ha), (HB b Hb); reflexivity.
Qed.

(* ================================================================== *)
(* B. arrival order                                                    *)
(* ================================================================== *)

Definition oset_subb (A B : oset) : bool := forallb (fun a => omem a B) A.
Definition oset_eqb (A B : oset) : bool := oset_subb A B && oset_subb B A.

Lemma oset_eqb_seteq : forall A B, oset_eqb A B = true -> seteq A B.
Proof.
  intros A B H. unfold oset_eqb in H. apply andb_true_iff in H. destruct H as [H1 H2].
  unfold oset_subb in *. rewrite forallb_forall in H1, H2.
  intro x; split; intro Hx; apply omem_In; [apply H1 | apply H2]; exact Hx.
Qed.

Lemma union2_comm : forall a b, seteq (union2 a b) (union2 b a).
Proof. intros a b; apply oset_eqb_seteq; destruct a, b; reflexivity. Qed.
Lemma inter2_comm : forall a b, seteq (inter2 a b) (inter2 b a).
Proof. intros a b; apply oset_eqb_seteq; destruct a, b; reflexivity. Qed.

Lemma union2_assoc : forall a b c,
  seteq (lift2 union2 (union2 a b) [c]) (lift2 union2 [a] (union2 b c)).
Proof. intros a b c; apply oset_eqb_seteq; destruct a, b, c; reflexivity. Qed.
Lemma inter2_assoc : forall a b c,
  seteq (lift2 inter2 (inter2 a b) [c]) (lift2 inter2 [a] (inter2 b c)).
Proof. intros a b c; apply oset_eqb_seteq; destruct a, b, c; reflexivity. Qed.

Section CommAssoc.
  Variable op : aout -> aout -> oset.
  Hypothesis op_comm : forall a b, seteq (op a b) (op b a).
  Hypothesis op_assoc : forall a b c, seteq (lift2 op (op a b) [c]) (lift2 op [a] (op b c)).

  Lemma lift2_comm_gen : forall A B, seteq (lift2 op A B) (lift2 op B A).
  Proof.
    intros A B x; rewrite !In_lift2; split; intros [a [b [Ha [Hb Hx]]]];
      exists b, a; (split; [exact Hb | split; [exact Ha | apply op_comm; exact Hx]]).
  Qed.

  Lemma lift2_assoc_gen : forall A B C,
    seteq (lift2 op (lift2 op A B) C) (lift2 op A (lift2 op B C)).
  Proof.
    intros A B C x; rewrite !In_lift2; split.
    - intros [y [c [Hy [Hc Hx]]]]. apply In_lift2 in Hy. destruct Hy as [a [b [Ha [Hb Hy]]]].
      assert (H : In x (lift2 op (op a b) [c])).
      { apply In_lift2. exists y, c. simpl; auto. }
      apply op_assoc in H. apply In_lift2 in H. destruct H as [a' [z [Ha' [Hz Hx']]]].
      destruct Ha' as [Ha'|[]]. subst a'.
      exists a, z. split; [exact Ha | split; [| exact Hx']].
      apply In_lift2. exists b, c; auto.
    - intros [a [z [Ha [Hz Hx]]]]. apply In_lift2 in Hz. destruct Hz as [b [c [Hb [Hc Hz]]]].
      assert (H : In x (lift2 op [a] (op b c))).
      { apply In_lift2. exists a, z. simpl; auto. }
      apply op_assoc in H. apply In_lift2 in H. destruct H as [y [c' [Hy [Hc' Hx']]]].
      destruct Hc' as [Hc'|[]]. subst c'.
      exists y, c. split; [| split; [exact Hc | exact Hx']].
      apply In_lift2. exists a, b; auto.
  Qed.

  (* n children, in any arrival order *)
  Variable unit_ : oset.
  Definition fold_op (l : list oset) : oset := fold_right (lift2 op) unit_ l.

  Lemma fold_op_perm : forall l l', Permutation l l' -> seteq (fold_op l) (fold_op l').
  Proof.
    intros l l' P; induction P as [|A l l' P IH|A B l|l l' l'' P1 IH1 P2 IH2]; simpl.
    - apply seteq_refl.
    - apply lift2_seteq; [apply seteq_refl | exact IH].
    - eapply seteq_trans; [apply seteq_sym, lift2_assoc_gen|].
      eapply seteq_trans; [|apply lift2_assoc_gen].
      apply lift2_seteq; [apply lift2_comm_gen | apply seteq_refl].
    - eapply seteq_trans; [exact IH1 | exact IH2].
  Qed.
End CommAssoc.

Theorem lift2_union2_comm : forall A B, seteq (lift2 union2 A B) (lift2 union2 B A).
Proof. apply lift2_comm_gen; exact union2_comm. Qed.
Theorem lift2_inter2_comm : forall A B, seteq (lift2 inter2 A B) (lift2 inter2 B A).
Proof. apply lift2_comm_gen; exact inter2_comm. Qed.
Theorem lift2_union2_assoc : forall A B C,
  seteq (lift2 union2 (lift2 union2 A B) C) (lift2 union2 A (lift2 union2 B C)).
Proof. apply lift2_assoc_gen; exact union2_assoc. Qed.
Theorem lift2_inter2_assoc : forall A B C,
  seteq (lift2 inter2 (lift2 inter2 A B) C) (lift2 inter2 A (lift2 inter2 B C)).
Proof. apply lift2_assoc_gen; exact inter2_assoc. Qed.

(* the outcome SET of an n-ary union / intersection does not depend on the order in which the
   children's results arrive *)
Theorem union_fold_perm : forall l l',
  Permutation l l' -> seteq (fold_op union2 [AFn] l) (fold_op union2 [AFn] l').
Proof. apply fold_op_perm; [exact union2_comm | exact union2_assoc]. Qed.
Theorem inter_fold_perm : forall l l',
  Permutation l l' -> seteq (fold_op inter2 [AT] l) (fold_op inter2 [AT] l').
Proof. apply fold_op_perm; [exact inter2_comm | exact inter2_assoc]. Qed.

(* and its Kleene value is the n-ary Kleene disjunction / conjunction of the children's values *)
Theorem union_fold_val : forall (l : list oset) (vs : list b3),
  Forall2 all_val l vs -> all_val (fold_op union2 [AFn] l) (or3_list vs).
Proof.
  intros l vs H; induction H as [|A v l vs HA Hl IH].
  - intros x [Hx|[]]; subst x; reflexivity.
  - rewrite or3_list_cons. simpl. apply lift2_union2_all_val; assumption.
Qed.
Theorem inter_fold_val : forall (l : list oset) (vs : list b3),
  Forall2 all_val l vs -> all_val (fold_op inter2 [AT] l) (and3_list vs).
Proof.
  intros l vs H; induction H as [|A v l vs HA Hl IH].
  - intros x [Hx|[]]; subst x; reflexivity.
  - rewrite and3_list_cons. simpl. apply lift2_inter2_all_val; assumption.
Qed.
