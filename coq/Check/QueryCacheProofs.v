(* Proofs about the Check query cache model (Check/QueryCache.v) and the abstract model of the
   weighted-graph engine's edge cache (Check/QueryCacheV2.v).

   Method.  Only two outcomes are ever stored: AT (allowed) and AFn (denied, no cycle flag) --
   the DEFINITE outcomes.  The definite part of an outcome set, dv S = (AT in S, AFn in S), lives
   in Belnap's four-valued bilattice b4 = bool * bool, and every reducer of the engine is a
   homomorphism on it (lemmas dv_lift2_union, _inter, _excl): union -> or4, intersection -> and4, exclusion -> excl4.
   Hence the definite part of a whole evaluation is the value of a PURE abstract evaluator
   (evalB) on the definite parts of the dispatched sub-problems, whatever happens to the other
   outcomes (cycle flags, errors) -- evalS_ok, proved once for the state-threading evaluator and
   an arbitrary relation R that the b4 operations preserve.  All path reasoning is then done on
   pure functions:
     unfoldB h    the path-independent unfolding (no VisitedPaths, no depth counter);
     checkB f d V the engine with VisitedPaths V and depth d.
   A. b4 and the homomorphism;   B. evalB and its monotonicity / consistency;
   C. the generic lemma;         D. pure facts: unfoldB monotone and consistent,
      checkB <= unfoldB, and COMPLETENESS of the path-based cut for definite values
      (unfoldB_le_checkB: the rank argument);
   E. Check/V1.v and the uncached checkS have definite part checkB;
   F. the cached engine: soundness w.r.t. unfoldB, validity invariant, transparency;
   G. histories over several partitions;
   H. the weighted-graph edge cache: refutation and the fixed variant. *)
From Coq Require Import List Bool Arith NArith Lia.
From OFGA Require Import Sem.B3 Sem.Vocab Sem.Valid Sem.Semantics Sem.SemProofs
  Check.V1 Check.V1Proofs Check.QueryCache Check.QueryCacheV2.
Import ListNotations.
Open Scope N_scope.

(* ================================================================== *)
(* A. the definite part of an outcome set                              *)
(* ================================================================== *)

Definition b4 := (bool * bool)%type.     (* (can be allowed, can be denied without cycle flag) *)
Definition bot4 : b4 := (false, false).
Definition true4 : b4 := (true, false).
Definition false4 : b4 := (false, true).
Definition or4 (x y : b4) : b4 := (fst x || fst y, snd x && snd y).
Definition and4 (x y : b4) : b4 := (fst x && fst y, snd x || snd y).
Definition excl4 (x y : b4) : b4 := (fst x && snd y, snd x || fst y).
Definition join4 (x y : b4) : b4 := (fst x || fst y, snd x || snd y).
(* information order and consistency *)
Definition le4 (x y : b4) : Prop := (fst x = true -> fst y = true) /\ (snd x = true -> snd y = true).
Definition cons4 (x : b4) : Prop := ~ (fst x = true /\ snd x = true).

Definition dv (s : oset) : b4 := (omem AT s, omem AFn s).
Definition dvb (b : bool) : b4 := if b then true4 else false4.
Definition dva (a : aout) : b4 := match a with AT => true4 | AFn => false4 | _ => bot4 end.

Ltac b4_tac :=
  repeat match goal with x : b4 |- _ => destruct x as [? ?] end;
  unfold le4, cons4, or4, and4, excl4, join4, bot4, true4, false4, dvb in *; simpl in *;
  repeat match goal with b : bool |- _ => destruct b end; simpl in *;
  intuition (try discriminate; try congruence).

Lemma le4_refl : forall x, le4 x x.
Proof. intro x; b4_tac. Qed.
Lemma le4_trans : forall x y z, le4 x y -> le4 y z -> le4 x z.
Proof. intros x y z; b4_tac. Qed.
Lemma le4_bot : forall x, le4 bot4 x.
Proof. intro x; b4_tac. Qed.
Lemma or4_mono : forall x x' y y', le4 x x' -> le4 y y' -> le4 (or4 x y) (or4 x' y').
Proof. intros x x' y y'; b4_tac. Qed.
Lemma and4_mono : forall x x' y y', le4 x x' -> le4 y y' -> le4 (and4 x y) (and4 x' y').
Proof. intros x x' y y'; b4_tac. Qed.
Lemma excl4_mono : forall x x' y y', le4 x x' -> le4 y y' -> le4 (excl4 x y) (excl4 x' y').
Proof. intros x x' y y'; b4_tac. Qed.
Lemma or4_cons : forall x y, cons4 x -> cons4 y -> cons4 (or4 x y).
Proof. intros x y; b4_tac. Qed.
Lemma and4_cons : forall x y, cons4 x -> cons4 y -> cons4 (and4 x y).
Proof. intros x y; b4_tac. Qed.
Lemma excl4_cons : forall x y, cons4 x -> cons4 y -> cons4 (excl4 x y).
Proof. intros x y; b4_tac. Qed.
Lemma join4_le : forall x y z, le4 x z -> le4 y z -> le4 (join4 x y) z.
Proof. intros x y z; b4_tac. Qed.
Lemma le4_join_r : forall x y, le4 y (join4 x y).
Proof. intros x y; b4_tac. Qed.
(* a consistent value above a definite one is that value *)
Lemma cons4_le_eq : forall x y, le4 x y -> cons4 y -> x <> bot4 -> cons4 x -> y = x.
Proof. intros x y; b4_tac. Qed.
Lemma le4_cons_agree : forall a b z, le4 (dvb a) z -> le4 (dvb b) z -> cons4 z -> a = b.
Proof. intros a b z; destruct a, b; b4_tac. Qed.

Lemma dva_ob : forall b, dva (ob b) = dvb b.
Proof. intros [|]; reflexivity. Qed.

Lemma dva_le_dv : forall a s, In a s -> le4 (dva a) (dv s).
Proof.
  intros a s Hin. unfold dv, le4; simpl.
  destruct a; simpl; split; intro H; try discriminate H; apply omem_In; exact Hin.
Qed.

Lemma le4_dva_In : forall a s, definite a = true -> le4 (dva a) (dv s) -> In a s.
Proof.
  intros a s Hd [H1 H2]. destruct a; try discriminate Hd; simpl in *; apply omem_In; auto.
Qed.

Lemma dv_seteq : forall s s', seteq s s' -> dv s = dv s'.
Proof.
  intros s s' H. unfold dv. f_equal; apply eq_true_iff_eq; rewrite !omem_In; apply H.
Qed.

Lemma dv_oadd : forall a s, dv (oadd a s) = join4 (dva a) (dv s).
Proof.
  intros a s. unfold dv, join4; simpl. f_equal; apply eq_true_iff_eq;
    rewrite orb_true_iff, !omem_In, In_oadd; destruct a; simpl; intuition discriminate.
Qed.

(* the reducers on definite outcomes *)
Lemma union2_AT_iff : forall a b, In AT (union2 a b) <-> a = AT \/ b = AT.
Proof. intros a b; destruct a, b; cbv; intuition (discriminate || auto). Qed.
Lemma union2_AFn_iff : forall a b, In AFn (union2 a b) <-> a = AFn /\ b = AFn.
Proof. intros a b; destruct a, b; cbv; intuition (discriminate || auto). Qed.
Lemma inter2_AT_iff : forall a b, In AT (inter2 a b) <-> a = AT /\ b = AT.
Proof. intros a b; destruct a, b; cbv; intuition (discriminate || auto). Qed.
Lemma inter2_AFn_iff : forall a b, In AFn (inter2 a b) <-> a = AFn \/ b = AFn.
Proof. intros a b; destruct a, b; cbv; intuition (discriminate || auto). Qed.
Lemma excl2_AT_iff : forall a b, In AT (excl2 a b) <-> a = AT /\ b = AFn.
Proof. intros a b; destruct a, b; cbv; intuition (discriminate || auto). Qed.
Lemma excl2_AFn_iff : forall a b, In AFn (excl2 a b) <-> a = AFn \/ b = AT.
Proof. intros a b; destruct a, b; cbv; intuition (discriminate || auto). Qed.

Lemma nonempty_ex : forall (s : oset), s <> [] -> exists a, In a s.
Proof. intros [|a s] H; [exfalso; apply H; reflexivity | exists a; left; reflexivity]. Qed.

(* dv is a homomorphism from outcome sets with the engine's reducers to b4 *)
Theorem dv_lift2_union : forall A B, A <> [] -> B <> [] -> dv (lift2 union2 A B) = or4 (dv A) (dv B).
Proof.
  intros A B HA HB. destruct (nonempty_ex A HA) as [a0 Ha0]. destruct (nonempty_ex B HB) as [b0 Hb0].
  unfold dv, or4; simpl. f_equal; apply eq_true_iff_eq.
  - rewrite orb_true_iff, !omem_In, In_lift2. split.
    + intros [a [b [Ha [Hb Hx]]]]. apply union2_AT_iff in Hx. destruct Hx; subst; auto.
    + intros [H|H]; [exists AT, b0 | exists a0, AT]; (split; [assumption|split; [assumption|]]);
        apply union2_AT_iff; auto.
  - rewrite andb_true_iff, !omem_In, In_lift2. split.
    + intros [a [b [Ha [Hb Hx]]]]. apply union2_AFn_iff in Hx. destruct Hx; subst; auto.
    + intros [H1 H2]. exists AFn, AFn. split; [assumption|split; [assumption|]]. apply union2_AFn_iff; auto.
Qed.

Theorem dv_lift2_inter : forall A B, A <> [] -> B <> [] -> dv (lift2 inter2 A B) = and4 (dv A) (dv B).
Proof.
  intros A B HA HB. destruct (nonempty_ex A HA) as [a0 Ha0]. destruct (nonempty_ex B HB) as [b0 Hb0].
  unfold dv, and4; simpl. f_equal; apply eq_true_iff_eq.
  - rewrite andb_true_iff, !omem_In, In_lift2. split.
    + intros [a [b [Ha [Hb Hx]]]]. apply inter2_AT_iff in Hx. destruct Hx; subst; auto.
    + intros [H1 H2]. exists AT, AT. split; [assumption|split; [assumption|]]. apply inter2_AT_iff; auto.
  - rewrite orb_true_iff, !omem_In, In_lift2. split.
    + intros [a [b [Ha [Hb Hx]]]]. apply inter2_AFn_iff in Hx. destruct Hx; subst; auto.
    + intros [H|H]; [exists AFn, b0 | exists a0, AFn]; (split; [assumption|split; [assumption|]]);
        apply inter2_AFn_iff; auto.
Qed.

Theorem dv_lift2_excl : forall A B, A <> [] -> B <> [] -> dv (lift2 excl2 A B) = excl4 (dv A) (dv B).
Proof.
  intros A B HA HB. destruct (nonempty_ex A HA) as [a0 Ha0]. destruct (nonempty_ex B HB) as [b0 Hb0].
  unfold dv, excl4; simpl. f_equal; apply eq_true_iff_eq.
  - rewrite andb_true_iff, !omem_In, In_lift2. split.
    + intros [a [b [Ha [Hb Hx]]]]. apply excl2_AT_iff in Hx. destruct Hx; subst; auto.
    + intros [H1 H2]. exists AT, AFn. split; [assumption|split; [assumption|]]. apply excl2_AT_iff; auto.
  - rewrite orb_true_iff, !omem_In, In_lift2. split.
    + intros [a [b [Ha [Hb Hx]]]]. apply excl2_AFn_iff in Hx. destruct Hx; subst; auto.
    + intros [H|H]; [exists AFn, b0 | exists a0, AT]; (split; [assumption|split; [assumption|]]);
        apply excl2_AFn_iff; auto.
Qed.

(* ================================================================== *)
(* B. the abstract evaluator                                           *)
(* ================================================================== *)

Definition or4_list (l : list b4) : b4 := fold_right or4 false4 l.
Definition and4_list (l : list b4) : b4 := fold_right and4 true4 l.

Lemma or4_list_mono : forall l l', Forall2 le4 l l' -> le4 (or4_list l) (or4_list l').
Proof. induction 1; simpl; [apply le4_refl | apply or4_mono; assumption]. Qed.
Lemma and4_list_mono : forall l l', Forall2 le4 l l' -> le4 (and4_list l) (and4_list l').
Proof. induction 1; simpl; [apply le4_refl | apply and4_mono; assumption]. Qed.
Lemma or4_list_cons : forall l, Forall cons4 l -> cons4 (or4_list l).
Proof. induction 1; simpl; [b4_tac | apply or4_cons; assumption]. Qed.
Lemma and4_list_cons : forall l, Forall cons4 l -> cons4 (and4_list l).
Proof. induction 1; simpl; [b4_tac | apply and4_cons; assumption]. Qed.

Lemma Forall2_flat_map : forall (A B C : Type) (P : B -> C -> Prop) (f : A -> list B) (g : A -> list C) l,
  (forall x, In x l -> Forall2 P (f x) (g x)) -> Forall2 P (flat_map f l) (flat_map g l).
Proof.
  intros A B C P f g l; induction l as [|x l IH]; intro H; simpl; [constructor|].
  apply Forall2_app; [apply H; left; reflexivity | apply IH; intros y Hy; apply H; right; exact Hy].
Qed.

Lemma Forall2_map_same : forall (A B C : Type) (P : B -> C -> Prop) (f : A -> B) (g : A -> C) l,
  (forall x, In x l -> P (f x) (g x)) -> Forall2 P (map f l) (map g l).
Proof.
  intros A B C P f g l; induction l as [|x l IH]; intro H; simpl; constructor;
    [apply H; left; reflexivity | apply IH; intros y Hy; apply H; right; exact Hy].
Qed.

Section EvalB.
  Variable m : model.
  Variable conds : list cid.
  Variable store : list tuple.
  Variable subj : subject.

  Definition usersetB (rd : reldef) (o : obj) (r : rid) (td : obj -> rid -> b4) : b4 :=
    let rs := rd_restr rd in
    let ts := filter (fun t => valid m conds t && in_userset_restr rs (t_sub t)) (raw_of store o r) in
    match passing ts with
    | [] => if has_err ts then bot4 else false4
    | ps => or4_list (flat_map (fun t => match t_sub t with SSet o' r' => [td o' r'] | _ => [] end) ps)
    end.

  Definition thisB (rd : reldef) (o : obj) (r : rid) (td : obj -> rid -> b4) : b4 :=
    let rs := rd_restr rd in
    or4_list (
      (if directly_related subj rs then [dv (fst (direct_user_tuple m conds store subj o r))] else []) ++
      (if publicly_assignable subj rs then [dv (fst (public_assignable m conds store subj o r))] else []) ++
      (if has_userset_restr rs then [usersetB rd o r td] else [])).

  Definition ttuB (o : obj) (ts c : rid) (td : obj -> rid -> b4) : b4 :=
    let tl := filter (valid m conds) (raw_of store o ts) in
    match passing tl with
    | [] => if has_err tl then bot4 else false4
    | ps => or4_list (flat_map (fun t => match t_sub t with
                                         | SObj o' => if rel_defined m (otype o') c then [td o' c] else []
                                         | _ => [] end) ps)
    end.

  Fixpoint evalB (rd : reldef) (o : obj) (r : rid) (td : obj -> rid -> b4) (tc : rid -> b4) (rw : rewrite) : b4 :=
    match rw with
    | This => thisB rd o r td
    | Computed r' => tc r'
    | TTU ts c => ttuB o ts c td
    | Union l => or4_list (map (fun x => evalB rd o r td tc x) l)
    | Inter l => and4_list (map (fun x => evalB rd o r td tc x) l)
    | Diff b s => excl4 (evalB rd o r td tc b) (evalB rd o r td tc s)
    end.

  (* leaves are singletons *)
  Lemma direct_user_tuple_dv : forall o r,
    let x := dv (fst (direct_user_tuple m conds store subj o r)) in x = true4 \/ x = false4 \/ x = bot4.
  Proof.
    intros o r. unfold direct_user_tuple.
    destruct (find (fun t => subject_eqb (t_sub t) subj) (raw_of store o r)) as [t|]; [|cbv; auto].
    destruct (negb (valid m conds t)); [cbv; auto|]. destruct (t_ceval t); cbv; auto.
  Qed.

  Lemma public_assignable_dv : forall o r,
    let x := dv (fst (public_assignable m conds store subj o r)) in x = true4 \/ x = false4 \/ x = bot4.
  Proof.
    intros o r. unfold public_assignable.
    match goal with |- context [passing ?X] => set (ts := X) end.
    destruct (passing ts); [destruct (has_err ts)|]; cbv; auto.
  Qed.

  Lemma leaf_cons : forall x, x = true4 \/ x = false4 \/ x = bot4 -> cons4 x.
  Proof. intros x [H|[H|H]]; subst; b4_tac. Qed.

  (* ---- monotonicity and consistency ---- *)
  Section Mono.
    Variables td td' : obj -> rid -> b4.
    Variables tc tc' : rid -> b4.
    Hypothesis Hd : forall o r, le4 (td o r) (td' o r).
    Hypothesis Hc : forall r, le4 (tc r) (tc' r).

    Lemma usersetB_mono : forall rd o r, le4 (usersetB rd o r td) (usersetB rd o r td').
    Proof.
      intros rd o r. unfold usersetB.
      match goal with |- context [passing ?X] => set (ts := X) end.
      destruct (passing ts) as [|t0 ps]; [apply le4_refl|].
      apply or4_list_mono. apply Forall2_flat_map. intros t _.
      destruct (t_sub t); [constructor | constructor | apply Forall2_cons; [apply Hd | constructor]].
    Qed.

    Lemma thisB_mono : forall rd o r, le4 (thisB rd o r td) (thisB rd o r td').
    Proof.
      intros rd o r. unfold thisB. apply or4_list_mono.
      apply Forall2_app;
        [destruct (directly_related subj (rd_restr rd)); [apply Forall2_cons; [apply le4_refl | constructor] | constructor]|].
      apply Forall2_app;
        [destruct (publicly_assignable subj (rd_restr rd)); [apply Forall2_cons; [apply le4_refl | constructor] | constructor]|].
      destruct (has_userset_restr (rd_restr rd)); [apply Forall2_cons; [apply usersetB_mono | constructor] | constructor].
    Qed.

    Lemma ttuB_mono : forall o ts c, le4 (ttuB o ts c td) (ttuB o ts c td').
    Proof.
      intros o ts c. unfold ttuB.
      match goal with |- context [passing ?X] => set (tl := X) end.
      destruct (passing tl) as [|t0 ps]; [apply le4_refl|].
      apply or4_list_mono. apply Forall2_flat_map. intros t _.
      destruct (t_sub t) as [o'|x|x y]; [|constructor|constructor].
      destruct (rel_defined m (otype o') c); [apply Forall2_cons; [apply Hd | constructor] | constructor].
    Qed.

    Lemma evalB_mono : forall rd o r rw, le4 (evalB rd o r td tc rw) (evalB rd o r td' tc' rw).
    Proof.
      intros rd o r rw. induction rw as [|r'|ts c|l IH|l IH|b s IHb IHs] using rewrite_ind'; cbn [evalB].
      - apply thisB_mono.
      - apply Hc.
      - apply ttuB_mono.
      - apply or4_list_mono. apply Forall2_map_same. intros x Hx. rewrite Forall_forall in IH. exact (IH x Hx).
      - apply and4_list_mono. apply Forall2_map_same. intros x Hx. rewrite Forall_forall in IH. exact (IH x Hx).
      - apply excl4_mono; assumption.
    Qed.
  End Mono.

  Section Cons.
    Variable td : obj -> rid -> b4.
    Variable tc : rid -> b4.
    Hypothesis Hd : forall o r, cons4 (td o r).
    Hypothesis Hc : forall r, cons4 (tc r).

    Lemma flat_map_Forall : forall (A B : Type) (P : B -> Prop) (f : A -> list B) l,
      (forall x, Forall P (f x)) -> Forall P (flat_map f l).
    Proof.
      intros A B P f l H; induction l as [|x l IH]; simpl; [constructor|].
      apply Forall_app; split; [apply H | exact IH].
    Qed.

    Lemma usersetB_cons : forall rd o r, cons4 (usersetB rd o r td).
    Proof.
      intros rd o r. unfold usersetB.
      match goal with |- context [passing ?X] => set (ts := X) end.
      destruct (passing ts) as [|t0 ps]; [destruct (has_err ts); b4_tac|].
      apply or4_list_cons. apply flat_map_Forall. intro t.
      destruct (t_sub t); repeat constructor. apply Hd.
    Qed.

    Lemma ttuB_cons : forall o ts c, cons4 (ttuB o ts c td).
    Proof.
      intros o ts c. unfold ttuB.
      match goal with |- context [passing ?X] => set (tl := X) end.
      destruct (passing tl) as [|t0 ps]; [destruct (has_err tl); b4_tac|].
      apply or4_list_cons. apply flat_map_Forall. intro t.
      destruct (t_sub t) as [o'|x|x y]; repeat constructor.
      destruct (rel_defined m (otype o') c); repeat constructor. apply Hd.
    Qed.

    Lemma thisB_cons : forall rd o r, cons4 (thisB rd o r td).
    Proof.
      intros rd o r. unfold thisB. apply or4_list_cons.
      apply Forall_app; split.
      { destruct (directly_related subj (rd_restr rd)); repeat constructor.
        apply leaf_cons, direct_user_tuple_dv. }
      apply Forall_app; split.
      { destruct (publicly_assignable subj (rd_restr rd)); repeat constructor.
        apply leaf_cons, public_assignable_dv. }
      destruct (has_userset_restr (rd_restr rd)); repeat constructor. apply usersetB_cons.
    Qed.

    Lemma evalB_cons : forall rd o r rw, cons4 (evalB rd o r td tc rw).
    Proof.
      intros rd o r rw. induction rw as [|r'|ts c|l IH|l IH|b s IHb IHs] using rewrite_ind'; cbn [evalB].
      - apply thisB_cons.
      - apply Hc.
      - apply ttuB_cons.
      - apply or4_list_cons. apply Forall_map. exact IH.
      - apply and4_list_cons. apply Forall_map. exact IH.
      - apply excl4_cons; assumption.
    Qed.
  End Cons.
End EvalB.

(* ================================================================== *)
(* C. the generic lemma: state-threading evaluator vs abstract evaluator *)
(* ================================================================== *)
(* R relates the definite part of what a handler returns to an abstract value; the abstract
   values are indexed by a number that may only grow along the evaluation (it bounds the
   unfolding height of the cache entries; constant families for the other instances). *)
Section Generic.
  Variable m : model.
  Variable conds : list cid.
  Variable store : list tuple.
  Variable subj : subject.
  Variable R : b4 -> b4 -> Prop.
  Hypothesis R_or : forall x x' y y', R x x' -> R y y' -> R (or4 x y) (or4 x' y').
  Hypothesis R_and : forall x x' y y', R x x' -> R y y' -> R (and4 x y) (and4 x' y').
  Hypothesis R_excl : forall x x' y y', R x x' -> R y y' -> R (excl4 x y) (excl4 x' y').
  Hypothesis R_true : R true4 true4.
  Hypothesis R_false : R false4 false4.
  Hypothesis R_bot : R bot4 bot4.
  Variable I : nat -> cache -> Prop.

  Definition ok (h : M) (beta : nat -> b4) : Prop :=
    forall c H, I H c ->
      exists H', (H <= H')%nat /\ I H' (snd (h c)) /\ fst (fst (h c)) <> [] /\ R (dv (fst (fst (h c)))) (beta H').
  Definition liftable (beta : nat -> b4) : Prop :=
    forall x H H', (H <= H')%nat -> R x (beta H) -> R x (beta H').

  Lemma ok_ext : forall h beta beta', ok h beta -> (forall H, beta H = beta' H) -> ok h beta'.
  Proof.
    intros h beta beta' Hok He c H HI. destruct (Hok c H HI) as [H' [H1 [H2 [H3 H4]]]].
    exists H'. rewrite <- He. auto.
  Qed.

  Lemma liftable_const : forall x, liftable (fun _ => x).
  Proof. intros x y H H' _ Hr; exact Hr. Qed.

  Lemma ret_ok : forall x : res,
    fst x <> [] -> (dv (fst x) = true4 \/ dv (fst x) = false4 \/ dv (fst x) = bot4) ->
    ok (ret x) (fun _ => dv (fst x)).
  Proof.
    intros x Hne Hd c H HI. exists H. unfold ret; simpl.
    split; [lia|]. split; [exact HI|]. split; [exact Hne|].
    destruct Hd as [Hd|[Hd|Hd]]; rewrite Hd; assumption.
  Qed.

  Lemma union_allS_ok : forall hs betas,
    Forall2 (fun h beta => ok h beta /\ liftable beta) hs betas ->
    ok (union_allS hs) (fun H => or4_list (map (fun beta => beta H) betas)).
  Proof.
    induction 1 as [|h beta hs betas [Hok Hl] Hrest IH]; intros c H HI.
    - exists H. simpl. split; [lia|]. split; [exact HI|]. split; [discriminate | exact R_false].
    - simpl. destruct (Hok c H HI) as [H1 [Hle1 [HI1 [Hne1 HR1]]]].
      destruct (h c) as [[s t] c1] eqn:Hh. simpl in *.
      destruct (IH c1 H1 HI1) as [H2 [Hle2 [HI2 [Hne2 HR2]]]].
      destruct (union_allS hs c1) as [[s' t'] c2] eqn:Hu. simpl in *.
      exists H2. split; [lia|]. split; [exact HI2|].
      split; [apply lift2_nonempty; [exact union2_nonempty | exact Hne1 | exact Hne2]|].
      rewrite dv_lift2_union by assumption. apply R_or; [exact (Hl _ H1 H2 Hle2 HR1) | exact HR2].
  Qed.

  Lemma inter_allS_ok : forall hs betas,
    Forall2 (fun h beta => ok h beta /\ liftable beta) hs betas ->
    ok (inter_allS hs) (fun H => and4_list (map (fun beta => beta H) betas)).
  Proof.
    induction 1 as [|h beta hs betas [Hok Hl] Hrest IH]; intros c H HI.
    - exists H. simpl. split; [lia|]. split; [exact HI|]. split; [discriminate | exact R_true].
    - simpl. destruct (Hok c H HI) as [H1 [Hle1 [HI1 [Hne1 HR1]]]].
      destruct (h c) as [[s t] c1] eqn:Hh. simpl in *.
      destruct (IH c1 H1 HI1) as [H2 [Hle2 [HI2 [Hne2 HR2]]]].
      destruct (inter_allS hs c1) as [[s' t'] c2] eqn:Hu. simpl in *.
      exists H2. split; [lia|]. split; [exact HI2|].
      split; [apply lift2_nonempty; [exact inter2_nonempty | exact Hne1 | exact Hne2]|].
      rewrite dv_lift2_inter by assumption. apply R_and; [exact (Hl _ H1 H2 Hle2 HR1) | exact HR2].
  Qed.

  Variable td : nat -> obj -> rid -> b4.
  Variable tc : nat -> rid -> b4.
  Hypothesis lift_d : forall o r, liftable (fun H => td H o r).
  Hypothesis lift_us : forall rd o r, liftable (fun H => usersetB m conds store rd o r (td H)).
  Hypothesis lift_rw : forall rd o r rw, liftable (fun H => evalB m conds store subj rd o r (td H) (tc H) rw).
  Variable disp : obj -> rid -> M.
  Variable comp : rid -> M.
  Hypothesis disp_ok : forall o r, ok (disp o r) (fun H => td H o r).
  Hypothesis comp_ok : forall r, ok (comp r) (fun H => tc H r).

  Lemma map_flat_map_userset : forall H' (l : list tuple),
    map (fun beta : nat -> b4 => beta H')
        (flat_map (fun t : tuple => match t_sub t with SSet o' r' => [fun H : nat => td H o' r'] | _ => [] end) l) =
    flat_map (fun t : tuple => match t_sub t with SSet o' r' => [td H' o' r'] | _ => [] end) l.
  Proof.
    intros H' l. induction l as [|a l IHl]; [reflexivity|].
    simpl. rewrite map_app, IHl. destruct (t_sub a); reflexivity.
  Qed.

  Lemma map_flat_map_ttu : forall H' cr (l : list tuple),
    map (fun beta : nat -> b4 => beta H')
        (flat_map (fun t : tuple => match t_sub t with
                                    | SObj o' => if rel_defined m (otype o') cr then [fun H : nat => td H o' cr] else []
                                    | _ => [] end) l) =
    flat_map (fun t : tuple => match t_sub t with
                               | SObj o' => if rel_defined m (otype o') cr then [td H' o' cr] else []
                               | _ => [] end) l.
  Proof.
    intros H' cr l. induction l as [|a l IHl]; [reflexivity|].
    simpl. rewrite map_app, IHl. destruct (t_sub a) as [o'|x|x y]; try reflexivity.
    destruct (rel_defined m (otype o') cr); reflexivity.
  Qed.

  Lemma usersetS_ok : forall rd o r,
    ok (usersetS m conds store rd o r disp) (fun H => usersetB m conds store rd o r (td H)).
  Proof.
    intros rd o r c H HI. unfold usersetS, usersetB.
    match goal with |- context [passing ?X] => set (ts := X) end.
    destruct (passing ts) as [|t0 ps] eqn:Hp.
    - exists H. destruct (has_err ts); simpl; (split; [lia|]); (split; [exact HI|]);
        (split; [discriminate|]); assumption.
    - remember (t0 :: ps) as l eqn:Hl.
      set (F := fun t : tuple => match t_sub t with SSet o' r' => [disp o' r'] | _ => [] end).
      set (G := fun t : tuple => match t_sub t with SSet o' r' => [fun H : nat => td H o' r'] | _ => [] end).
      assert (Hall : Forall2 (fun h beta => ok h beta /\ liftable beta) (flat_map F l) (flat_map G l)).
      { apply Forall2_flat_map. intros t _. unfold F, G.
        destruct (t_sub t) as [x|x|o' r']; [constructor | constructor |].
        apply Forall2_cons; [split; [apply disp_ok | apply lift_d] | constructor]. }
      destruct (union_allS_ok _ _ Hall c H HI) as [H' [Hle [HI' [Hne HR]]]].
      destruct (union_allS (flat_map F l) c) as [[s t] c'] eqn:Hu. cbn [fst snd] in *.
      exists H'. split; [exact Hle|]. split; [exact HI'|]. split; [exact Hne|].
      unfold G in HR. rewrite map_flat_map_userset in HR. exact HR.
  Qed.

  Lemma ttuS_ok : forall o ts c,
    ok (ttuS m conds store o ts c disp) (fun H => ttuB m conds store o ts c (td H)).
  Proof.
    intros o ts cr c H HI. unfold ttuS, ttuB.
    match goal with |- context [passing ?X] => set (tl := X) end.
    destruct (passing tl) as [|t0 ps] eqn:Hp.
    - exists H. destruct (has_err tl); simpl; (split; [lia|]); (split; [exact HI|]);
        (split; [discriminate|]); assumption.
    - remember (t0 :: ps) as l eqn:Hl.
      set (F := fun t : tuple => match t_sub t with
                                 | SObj o' => if rel_defined m (otype o') cr then [disp o' cr] else []
                                 | _ => [] end).
      set (G := fun t : tuple => match t_sub t with
                                 | SObj o' => if rel_defined m (otype o') cr then [fun H : nat => td H o' cr] else []
                                 | _ => [] end).
      assert (Hall : Forall2 (fun h beta => ok h beta /\ liftable beta) (flat_map F l) (flat_map G l)).
      { apply Forall2_flat_map. intros t _. unfold F, G.
        destruct (t_sub t) as [o'|x|x y]; [|constructor|constructor].
        destruct (rel_defined m (otype o') cr); [|constructor].
        apply Forall2_cons; [split; [apply disp_ok | apply lift_d] | constructor]. }
      destruct (union_allS_ok _ _ Hall c H HI) as [H' [Hle [HI' [Hne HR]]]].
      destruct (union_allS (flat_map F l) c) as [[s t] c'] eqn:Hu. cbn [fst snd] in *.
      exists H'. split; [exact Hle|]. split; [exact HI'|]. split; [exact Hne|].
      unfold G in HR. rewrite map_flat_map_ttu in HR. exact HR.
  Qed.

  Lemma thisS_ok : forall rd o r,
    ok (thisS m conds store subj rd o r disp) (fun H => thisB m conds store subj rd o r (td H)).
  Proof.
    intros rd o r. unfold thisS, thisB.
    set (b1 := directly_related subj (rd_restr rd)).
    set (b2 := publicly_assignable subj (rd_restr rd)).
    set (b3 := has_userset_restr (rd_restr rd)).
    set (x1 := direct_user_tuple m conds store subj o r).
    set (x2 := public_assignable m conds store subj o r).
    set (betas := (if b1 then [fun _ : nat => dv (fst x1)] else []) ++
                  (if b2 then [fun _ : nat => dv (fst x2)] else []) ++
                  (if b3 then [fun H : nat => usersetB m conds store rd o r (td H)] else [])).
    apply ok_ext with (beta := fun H => or4_list (map (fun beta : nat -> b4 => beta H) betas)).
    - apply union_allS_ok. unfold betas.
      apply Forall2_app.
      { destruct b1; [|constructor]. apply Forall2_cons; [|constructor]. split; [|apply liftable_const].
        apply ret_ok; [apply direct_user_tuple_nonempty | apply direct_user_tuple_dv]. }
      apply Forall2_app.
      { destruct b2; [|constructor]. apply Forall2_cons; [|constructor]. split; [|apply liftable_const].
        apply ret_ok; [apply public_assignable_nonempty | apply public_assignable_dv]. }
      destruct b3; [|constructor]. apply Forall2_cons; [|constructor]. split; [apply usersetS_ok | apply lift_us].
    - intro H. unfold betas. destruct b1, b2, b3; reflexivity.
  Qed.

  Theorem evalS_ok : forall rd o r rw,
    ok (evalS m conds store subj rd o r disp comp rw) (fun H => evalB m conds store subj rd o r (td H) (tc H) rw).
  Proof.
    intros rd o r rw. induction rw as [|r'|ts c|l IH|l IH|b s IHb IHs] using rewrite_ind'.
    - apply thisS_ok.
    - apply comp_ok.
    - apply ttuS_ok.
    - cbn [evalS].
      apply ok_ext with (beta := fun H => or4_list (map (fun beta : nat -> b4 => beta H)
                (map (fun x => fun H : nat => evalB m conds store subj rd o r (td H) (tc H) x) l))).
      + apply union_allS_ok. apply Forall2_map_same. intros x Hx. rewrite Forall_forall in IH.
        split; [exact (IH x Hx) | apply lift_rw].
      + intro H. cbn [evalB]. rewrite map_map. reflexivity.
    - cbn [evalS].
      apply ok_ext with (beta := fun H => and4_list (map (fun beta : nat -> b4 => beta H)
                (map (fun x => fun H : nat => evalB m conds store subj rd o r (td H) (tc H) x) l))).
      + apply inter_allS_ok. apply Forall2_map_same. intros x Hx. rewrite Forall_forall in IH.
        split; [exact (IH x Hx) | apply lift_rw].
      + intro H. cbn [evalB]. rewrite map_map. reflexivity.
    - intros c H HI. cbn [evalS evalB].
      destruct (IHb c H HI) as [H1 [Hle1 [HI1 [Hne1 HR1]]]].
      destruct (evalS m conds store subj rd o r disp comp b c) as [[sb tb] c1] eqn:Hb. simpl in *.
      destruct (IHs c1 H1 HI1) as [H2 [Hle2 [HI2 [Hne2 HR2]]]].
      destruct (evalS m conds store subj rd o r disp comp s c1) as [[ss ts] c2] eqn:Hs. simpl in *.
      exists H2. split; [lia|]. split; [exact HI2|].
      split; [apply lift2_nonempty; [exact excl2_nonempty | exact Hne1 | exact Hne2]|].
      rewrite dv_lift2_excl by assumption.
      apply R_excl; [exact (lift_rw rd o r b _ H1 H2 Hle2 HR1) | exact HR2].
  Qed.
End Generic.

(* ================================================================== *)
(* D. pure facts: unfolding, engine with VisitedPaths, completeness     *)
(* ================================================================== *)

Lemma le4_bot_inv : forall x, le4 x bot4 -> x = bot4.
Proof. intro x; b4_tac. Qed.
Lemma le4_antisym : forall x y, le4 x y -> le4 y x -> x = y.
Proof. intros x y; b4_tac. Qed.

Section Pure.
  Variable m : model.
  Variable conds : list cid.
  Variable store : list tuple.
  Variable subj : subject.
  Variable pathx : list (tid * rid).

  (* definite part of the path-independent unfolding (QueryCache.unfoldS) *)
  Fixpoint unfoldB (h : nat) (o : obj) (r : rid) {struct h} : b4 :=
    match h with
    | O => bot4
    | S h' =>
        if subject_eqb subj (SSet o r) then true4
        else match get_relation m (otype o) r with
             | None => bot4
             | Some rd =>
                 if negb (path_exists pathx (otype o) r) then false4
                 else evalB m conds store subj rd o r
                        (fun o' r' => unfoldB h' o' r') (fun r' => unfoldB h' o r') (rd_rw rd)
             end
    end.

  Lemma evalB_ext : forall rd o r td td' tc tc' rw,
    (forall o' r', td o' r' = td' o' r') -> (forall r', tc r' = tc' r') ->
    evalB m conds store subj rd o r td tc rw = evalB m conds store subj rd o r td' tc' rw.
  Proof.
    intros rd o r td td' tc tc' rw Hd Hc. apply le4_antisym; apply evalB_mono;
      intros; try rewrite Hd; try rewrite Hc; apply le4_refl.
  Qed.

  Lemma unfoldB_S_mono : forall h o r, le4 (unfoldB h o r) (unfoldB (S h) o r).
  Proof.
    induction h as [|h IH]; intros o r; [apply le4_bot|].
    cbn [unfoldB].
    destruct (subject_eqb subj (SSet o r)); [apply le4_refl|].
    destruct (get_relation m (otype o) r) as [rd|]; [|apply le4_refl].
    destruct (negb (path_exists pathx (otype o) r)); [apply le4_refl|].
    apply evalB_mono; intros; apply IH.
  Qed.

  Lemma unfoldB_mono : forall h h' o r, (h <= h')%nat -> le4 (unfoldB h o r) (unfoldB h' o r).
  Proof.
    intros h h' o r Hle. induction Hle as [|h' Hle IH]; [apply le4_refl|].
    eapply le4_trans; [exact IH | apply unfoldB_S_mono].
  Qed.

  Lemma unfoldB_cons : forall h o r, cons4 (unfoldB h o r).
  Proof.
    induction h as [|h IH]; intros o r; [b4_tac|].
    cbn [unfoldB].
    destruct (subject_eqb subj (SSet o r)); [b4_tac|].
    destruct (get_relation m (otype o) r) as [rd|]; [|b4_tac].
    destruct (negb (path_exists pathx (otype o) r)); [b4_tac|].
    apply evalB_cons; intros; apply IH.
  Qed.

  (* two definite values of one sub-problem, from any two unfoldings, agree *)
  Lemma unfoldB_agree : forall a b h h' o r,
    le4 (dvb a) (unfoldB h o r) -> le4 (dvb b) (unfoldB h' o r) -> a = b.
  Proof.
    intros a b h h' o r Ha Hb.
    apply le4_cons_agree with (z := unfoldB (Nat.max h h') o r).
    - eapply le4_trans; [exact Ha | apply unfoldB_mono; lia].
    - eapply le4_trans; [exact Hb | apply unfoldB_mono; lia].
    - apply unfoldB_cons.
  Qed.

  Variable maxdepth : nat.

  (* definite part of the engine with VisitedPaths and depth counter (Check/V1.check) *)
  Fixpoint checkB (fuel depth : nat) (visited : list atom) (o : obj) (r : rid) {struct fuel} : b4 :=
    match fuel with
    | O => bot4
    | S f =>
        if Nat.eqb depth maxdepth then bot4
        else if existsb (atom_eqb (o, r)) visited then bot4
        else if subject_eqb subj (SSet o r) then true4
        else match get_relation m (otype o) r with
             | None => bot4
             | Some rd =>
                 if negb (path_exists pathx (otype o) r) then false4
                 else evalB m conds store subj rd o r
                        (fun o' r' => checkB f (S depth) ((o, r) :: visited) o' r')
                        (fun r' => checkB f depth ((o, r) :: visited) o r') (rd_rw rd)
             end
    end.

  (* every definite outcome of the engine, on whatever path, is a definite value of the unfolding *)
  Lemma checkB_le_unfoldB : forall f d V o r, le4 (checkB f d V o r) (unfoldB f o r).
  Proof.
    induction f as [|f IH]; intros d V o r; [apply le4_bot|].
    cbn [checkB unfoldB].
    destruct (Nat.eqb d maxdepth); [apply le4_bot|].
    destruct (existsb (atom_eqb (o, r)) V); [apply le4_bot|].
    destruct (subject_eqb subj (SSet o r)); [apply le4_refl|].
    destruct (get_relation m (otype o) r) as [rd|]; [|apply le4_refl].
    destruct (negb (path_exists pathx (otype o) r)); [apply le4_refl|].
    apply evalB_mono; intros; apply IH.
  Qed.

  (* COMPLETENESS of the path-based cycle cut for definite values (the rank argument): a value
     that the unfolding of height h makes definite is found by the engine on every path V none
     of whose members is definite at height h, given h levels of fuel and of depth.  In
     particular on the empty path. *)
  Theorem unfoldB_le_checkB : forall h o r f d V,
    (h <= f)%nat -> (d + h <= maxdepth)%nat ->
    (forall v, In v V -> unfoldB h (fst v) (snd v) = bot4) ->
    le4 (unfoldB h o r) (checkB f d V o r).
  Proof.
    induction h as [|h IH]; intros o r f d V Hf Hd HV; [apply le4_bot|].
    assert (HV' : forall v, In v V -> unfoldB h (fst v) (snd v) = bot4).
    { intros v Hv. apply le4_bot_inv. rewrite <- (HV v Hv). apply unfoldB_S_mono. }
    destruct (unfoldB h o r) as [t1 t2] eqn:Hlow.
    destruct (orb t1 t2) eqn:Hdef.
    - (* already definite one level lower: the value is the same *)
      set (x := unfoldB (S h) o r).
      assert (He : x = unfoldB h o r).
      { unfold x. apply cons4_le_eq; [apply unfoldB_S_mono | apply unfoldB_cons | | apply unfoldB_cons].
        rewrite Hlow. intro Hc. inversion Hc; subst. discriminate Hdef. }
      rewrite He. apply IH; [lia | lia | exact HV'].
    - apply orb_false_iff in Hdef. destruct Hdef; subst t1 t2.
      destruct (existsb (atom_eqb (o, r)) V) eqn:Hin.
      { apply existsb_exists in Hin. destruct Hin as [v [Hv He]]. apply atom_eqb_eq in He. subst v.
        specialize (HV _ Hv). cbn [fst snd] in HV. set (x := unfoldB (S h) o r) in *. rewrite HV. apply le4_bot. }
      destruct f as [|f]; [lia|].
      cbn [checkB unfoldB]. rewrite Hin.
      destruct (Nat.eqb d maxdepth) eqn:Hdm; [apply Nat.eqb_eq in Hdm; lia|].
      destruct (subject_eqb subj (SSet o r)); [apply le4_refl|].
      destruct (get_relation m (otype o) r) as [rd|]; [|apply le4_refl].
      destruct (negb (path_exists pathx (otype o) r)); [apply le4_refl|].
      apply evalB_mono; intros; apply IH; try lia;
        (intros v [Hv|Hv]; [subst v; exact Hlow | exact (HV' v Hv)]).
  Qed.

  Corollary unfoldB_le_checkB_top : forall h o r f,
    (h <= f)%nat -> (h <= maxdepth)%nat -> le4 (unfoldB h o r) (checkB f O [] o r).
  Proof. intros h o r f Hf Hd. apply unfoldB_le_checkB; [exact Hf | exact Hd | intros v []]. Qed.
End Pure.
