(* Proofs about the Check query cache model (Check/QueryCache.v) and the abstract model of the
   weighted-graph engine's edge cache (Check/QueryCacheV2.v).

   Method.  Only two outcomes are ever stored: AT (allowed) and AFn (denied, no cycle flag) --
   the DEFINITE outcomes.  The definite part of an outcome set, dv S = (AT in S, AFn in S), lives
   in Belnap's four-valued bilattice b4 = bool * bool, and every reducer of the engine is a
   homomorphism on it (lemmas dv_lift2_union, _inter, _excl): union -> or4, intersection -> and4, exclusion -> excl4.
   Hence the definite part of a whole evaluation is the value of a PURE abstract evaluator
   (evalB) on the definite parts of the dispatched sub-problems, whatever happens to the other
   outcomes (cycle flags, errors) -- evalS_ok, proved once for the state-threading evaluator and
   an arbitrary relation R that the b4 operations preserve.  All path reasoning is then done on
   pure functions:
     unfoldB h    the path-independent unfolding (no VisitedPaths, no depth counter);
     checkB f d V the engine with VisitedPaths V and depth d.
   A. b4 and the homomorphism;   B. evalB and its monotonicity / consistency;
   C. the generic lemma;         D. pure facts: unfoldB monotone and consistent,
      checkB <= unfoldB, and COMPLETENESS of the path-based cut for definite values
      (unfoldB_le_checkB: the rank argument);
   E. Check/V1.v and the uncached checkS have definite part checkB;
   F. the cached engine: soundness w.r.t. unfoldB, validity invariant, transparency;
   G. histories over several partitions;
   H. the weighted-graph edge cache: refutation and the fixed variant. *)
From Coq Require Import List Bool Arith NArith Lia.
From OFGA Require Import Sem.B3 Sem.Vocab Sem.Valid Sem.Semantics Sem.SemProofs
  Check.V1 Check.V1Proofs Check.QueryCache Check.QueryCacheV2.
Import ListNotations.
Open Scope N_scope.

(* ================================================================== *)
(* A. the definite part of an outcome set                              *)
(* ================================================================== *)

Definition b4 := (bool * bool)%type.     (* (can be allowed, can be denied without cycle flag) *)
Definition bot4 : b4 := (false, false).
Definition true4 : b4 := (true, false).
Definition false4 : b4 := (false, true).
Definition or4 (x y : b4) : b4 := (fst x || fst y, snd x && snd y).
Definition and4 (x y : b4) : b4 := (fst x && fst y, snd x || snd y).
Definition excl4 (x y : b4) : b4 := (fst x && snd y, snd x || fst y).
Definition join4 (x y : b4) : b4 := (fst x || fst y, snd x || snd y).
(* information order and consistency *)
Definition le4 (x y : b4) : Prop := (fst x = true -> fst y = true) /\ (snd x = true -> snd y = true).
Definition cons4 (x : b4) : Prop := ~ (fst x = true /\ snd x = true).

Definition dv (s : oset) : b4 := (omem AT s, omem AFn s).
Definition dvb (b : bool) : b4 := if b then true4 else false4.
Definition dva (a : aout) : b4 := match a with AT => true4 | AFn => false4 | _ => bot4 end.

Ltac b4_tac :=
  repeat match goal with x : b4 |- _ => destruct x as [? ?] end;
  unfold le4, cons4, or4, and4, excl4, join4, bot4, true4, false4, dvb in *; simpl in *;
  repeat match goal with b : bool |- _ => destruct b end; simpl in *;
  intuition (try discriminate; try congruence).

Lemma le4_refl : forall x, le4 x x.
Proof. intro x; b4_tac. Qed.
Lemma le4_trans : forall x y z, le4 x y -> le4 y z -> le4 x z.
Proof. intros x y z; b4_tac. Qed.
Lemma le4_bot : forall x, le4 bot4 x.
Proof. intro x; b4_tac. Qed.
Lemma or4_mono : forall x x' y y', le4 x x' -> le4 y y' -> le4 (or4 x y) (or4 x' y').
Proof. intros x x' y y'; b4_tac. Qed.
Lemma and4_mono : forall x x' y y', le4 x x' -> le4 y y' -> le4 (and4 x y) (and4 x' y').
Proof. intros x x' y y'; b4_tac. Qed.
Lemma excl4_mono : forall x x' y y', le4 x x' -> le4 y y' -> le4 (excl4 x y) (excl4 x' y').
Proof. intros x x' y y'; b4_tac. Qed.
Lemma or4_cons : forall x y, cons4 x -> cons4 y -> cons4 (or4 x y).
Proof. intros x y; b4_tac. Qed.
Lemma and4_cons : forall x y, cons4 x -> cons4 y -> cons4 (and4 x y).
Proof. intros x y; b4_tac. Qed.
Lemma excl4_cons : forall x y, cons4 x -> cons4 y -> cons4 (excl4 x y).
Proof. intros x y; b4_tac. Qed.
Lemma join4_le : forall x y z, le4 x z -> le4 y z -> le4 (join4 x y) z.
Proof. intros x y z; b4_tac. Qed.
Lemma le4_join_r : forall x y, le4 y (join4 x y).
Proof. intros x y; b4_tac. Qed.
(* a consistent value above a definite one is that value *)
Lemma cons4_le_eq : forall x y, le4 x y -> cons4 y -> x <> bot4 -> cons4 x -> y = x.
Proof. intros x y; b4_tac. Qed.
Lemma le4_cons_agree : forall a b z, le4 (dvb a) z -> le4 (dvb b) z -> cons4 z -> a = b.
Proof. intros a b z; destruct a, b; b4_tac. Qed.

Lemma dva_ob : forall b, dva (ob b) = dvb b.
Proof. intros [|]; reflexivity. Qed.

Lemma dva_le_dv : forall a s, In a s -> le4 (dva a) (dv s).
Proof.
  intros a s Hin. unfold dv, le4; simpl.
  destruct a; simpl; split; intro H; try discriminate H; apply omem_In; exact Hin.
Qed.

Lemma le4_dva_In : forall a s, definite a = true -> le4 (dva a) (dv s) -> In a s.
Proof.
  intros a s Hd [H1 H2]. destruct a; try discriminate Hd; simpl in *; apply omem_In; auto.
Qed.

Lemma dv_seteq : forall s s', seteq s s' -> dv s = dv s'.
Proof.
  intros s s' H. unfold dv. f_equal; apply eq_true_iff_eq; rewrite !omem_In; apply H.
Qed.

Lemma dv_oadd : forall a s, dv (oadd a s) = join4 (dva a) (dv s).
Proof.
  intros a s. unfold dv, join4; simpl. f_equal; apply eq_true_iff_eq;
    rewrite orb_true_iff, !omem_In, In_oadd; destruct a; simpl; intuition discriminate.
Qed.

(* the reducers on definite outcomes *)
Lemma union2_AT_iff : forall a b, In AT (union2 a b) <-> a = AT \/ b = AT.
Proof. intros a b; destruct a, b; cbv; intuition (discriminate || auto). Qed.
Lemma union2_AFn_iff : forall a b, In AFn (union2 a b) <-> a = AFn /\ b = AFn.
Proof. intros a b; destruct a, b; cbv; intuition (discriminate || auto). Qed.
Lemma inter2_AT_iff : forall a b, In AT (inter2 a b) <-> a = AT /\ b = AT.
Proof. intros a b; destruct a, b; cbv; intuition (discriminate || auto). Qed.
Lemma inter2_AFn_iff : forall a b, In AFn (inter2 a b) <-> a = AFn \/ b = AFn.
Proof. intros a b; destruct a, b; cbv; intuition (discriminate || auto). Qed.
Lemma excl2_AT_iff : forall a b, In AT (excl2 a b) <-> a = AT /\ b = AFn.
Proof. intros a b; destruct a, b; cbv; intuition (discriminate || auto). Qed.
Lemma excl2_AFn_iff : forall a b, In AFn (excl2 a b) <-> a = AFn \/ b = AT.
Proof. intros a b; destruct a, b; cbv; intuition (discriminate || auto). Qed.

Lemma nonempty_ex : forall (s : oset), s <> [] -> exists a, In a s.
Proof. intros [|a s] H; [exfalso; apply H; reflexivity | exists a; left; reflexivity]. Qed.

(* dv is a homomorphism from outcome sets with the engine's reducers to b4 *)
Theorem dv_lift2_union : forall A B, A <> [] -> B <> [] -> dv (lift2 union2 A B) = or4 (dv A) (dv B).
Proof.
  intros A B HA HB. destruct (nonempty_ex A HA) as [a0 Ha0]. destruct (nonempty_ex B HB) as [b0 Hb0].
  unfold dv, or4; simpl. f_equal; apply eq_true_iff_eq.
  - rewrite orb_true_iff, !omem_In, In_lift2. split.
    + intros [a [b [Ha [Hb Hx]]]]. apply union2_AT_iff in Hx. destruct Hx; subst; auto.
    + intros [H|H]; [exists AT, b0 | exists a0, AT]; (split; [assumption|split; [assumption|]]);
        apply union2_AT_iff; auto.
  - rewrite andb_true_iff, !omem_In, In_lift2. split.
    + intros [a [b [Ha [Hb Hx]]]]. apply union2_AFn_iff in Hx. destruct Hx; subst; auto.
    + intros [H1 H2]. exists AFn, AFn. split; [assumption|split; [assumption|]]. apply union2_AFn_iff; auto.
Qed.

Theorem dv_lift2_inter : forall A B, A <> [] -> B <> [] -> dv (lift2 inter2 A B) = and4 (dv A) (dv B).
Proof.
  intros A B HA HB. destruct (nonempty_ex A HA) as [a0 Ha0]. destruct (nonempty_ex B HB) as [b0 Hb0].
  unfold dv, and4; simpl. f_equal; apply eq_true_iff_eq.
  - rewrite andb_true_iff, !omem_In, In_lift2. split.
    + intros [a [b [Ha [Hb Hx]]]]. apply inter2_AT_iff in Hx. destruct Hx; subst; auto.
    + intros [H1 H2]. exists AT, AT. split; [assumption|split; [assumption|]]. apply inter2_AT_iff; auto.
  - rewrite orb_true_iff, !omem_In, In_lift2. split.
    + intros [a [b [Ha [Hb Hx]]]]. apply inter2_AFn_iff in Hx. destruct Hx; subst; auto.
    + intros [H|H]; [exists AFn, b0 | exists a0, AFn]; (split; [assumption|split; [assumption|]]);
        apply inter2_AFn_iff; auto.
Qed.

Theorem dv_lift2_excl : forall A B, A <> [] -> B <> [] -> dv (lift2 excl2 A B) = excl4 (dv A) (dv B).
Proof.
  intros A B HA HB. destruct (nonempty_ex A HA) as [a0 Ha0]. destruct (nonempty_ex B HB) as [b0 Hb0].
  unfold dv, excl4; simpl. f_equal; apply eq_true_iff_eq.
  - rewrite andb_true_iff, !omem_In, In_lift2. split.
    + intros [a [b [Ha [Hb Hx]]]]. apply excl2_AT_iff in Hx. destruct Hx; subst; auto.
    + intros [H1 H2]. exists AT, AFn. split; [assumption|split; [assumption|]]. apply excl2_AT_iff; auto.
  - rewrite orb_true_iff, !omem_In, In_lift2. split.
    + intros [a [b [Ha [Hb Hx]]]]. apply excl2_AFn_iff in Hx. destruct Hx; subst; auto.
    + intros [H|H]; [exists AFn, b0 | exists a0, AT]; (split; [assumption|split; [assumption|]]);
        apply excl2_AFn_iff; auto.
Qed.

(* ================================================================== *)
(* B. the abstract evaluator                                           *)
(* ================================================================== *)

Definition or4_list (l : list b4) : b4 := fold_right or4 false4 l.
Definition and4_list (l : list b4) : b4 := fold_right and4 true4 l.

Lemma or4_list_mono : forall l l', Forall2 le4 l l' -> le4 (or4_list l) (or4_list l').
Proof. induction 1; simpl; [apply le4_refl | apply or4_mono; assumption]. Qed.
Lemma and4_list_mono : forall l l', Forall2 le4 l l' -> le4 (and4_list l) (and4_list l').
Proof. induction 1; simpl; [apply le4_refl | apply and4_mono; assumption]. Qed.
Lemma or4_list_cons : forall l, Forall cons4 l -> cons4 (or4_list l).
Proof. induction 1; simpl; [b4_tac | apply or4_cons; assumption]. Qed.
Lemma and4_list_cons : forall l, Forall cons4 l -> cons4 (and4_list l).
Proof. induction 1; simpl; [b4_tac | apply and4_cons; assumption]. Qed.

Lemma Forall2_flat_map : forall (A B C : Type) (P : B -> C -> Prop) (f : A -> list B) (g : A -> list C) l,
  (forall x, In x l -> Forall2 P (f x) (g x)) -> Forall2 P (flat_map f l) (flat_map g l).
Proof.
  intros A B C P f g l; induction l as [|x l IH]; intro H; simpl; [constructor|].
  apply Forall2_app; [apply H; left; reflexivity | apply IH; intros y Hy; apply H; right; exact Hy].
Qed.

Lemma Forall2_map_same : forall (A B C : Type) (P : B -> C -> Prop) (f : A -> B) (g : A -> C) l,
  (forall x, In x l -> P (f x) (g x)) -> Forall2 P (map f l) (map g l).
Proof.
  intros A B C P f g l; induction l as [|x l IH]; intro H; simpl; constructor;
    [apply H; left; reflexivity | apply IH; intros y Hy; apply H; right; exact Hy].
Qed.

Section EvalB.
  Variable m : model.
  Variable conds : list cid.
  Variable store : list tuple.
  Variable subj : subject.

  Definition usersetB (rd : reldef) (o : obj) (r : rid) (td : obj -> rid -> b4) : b4 :=
    let rs := rd_restr rd in
    let ts := filter (fun t => valid m conds t && in_userset_restr rs (t_sub t)) (raw_of store o r) in
    match passing ts with
    | [] => if has_err ts then bot4 else false4
    | ps => or4_list (flat_map (fun t => match t_sub t with SSet o' r' => [td o' r'] | _ => [] end) ps)
    end.

  Definition thisB (rd : reldef) (o : obj) (r : rid) (td : obj -> rid -> b4) : b4 :=
    let rs := rd_restr rd in
    or4_list (
      (if directly_related subj rs then [dv (fst (direct_user_tuple m conds store subj o r))] else []) ++
      (if publicly_assignable subj rs then [dv (fst (public_assignable m conds store subj o r))] else []) ++
      (if has_userset_restr rs then [usersetB rd o r td] else [])).

  Definition ttuB (o : obj) (ts c : rid) (td : obj -> rid -> b4) : b4 :=
    let tl := filter (valid m conds) (raw_of store o ts) in
    match passing tl with
    | [] => if has_err tl then bot4 else false4
    | ps => or4_list (flat_map (fun t => match t_sub t with
                                         | SObj o' => if rel_defined m (otype o') c then [td o' c] else []
                                         | _ => [] end) ps)
    end.

  Fixpoint evalB (rd : reldef) (o : obj) (r : rid) (td : obj -> rid -> b4) (tc : rid -> b4) (rw : rewrite) : b4 :=
    match rw with
    | This => thisB rd o r td
    | Computed r' => tc r'
    | TTU ts c => ttuB o ts c td
    | Union l => or4_list (map (fun x => evalB rd o r td tc x) l)
    | Inter l => and4_list (map (fun x => evalB rd o r td tc x) l)
    | Diff b s => excl4 (evalB rd o r td tc b) (evalB rd o r td tc s)
    end.

  (* leaves are singletons *)
  Lemma direct_user_tuple_dv : forall o r,
    let x := dv (fst (direct_user_tuple m conds store subj o r)) in x = true4 \/ x = false4 \/ x = bot4.
  Proof.
    intros o r. unfold direct_user_tuple.
    destruct (find (fun t => subject_eqb (t_sub t) subj) (raw_of store o r)) as [t|]; [|cbv; auto].
    destruct (negb (valid m conds t)); [cbv; auto|]. destruct (t_ceval t); cbv; auto.
  Qed.

  Lemma public_assignable_dv : forall o r,
    let x := dv (fst (public_assignable m conds store subj o r)) in x = true4 \/ x = false4 \/ x = bot4.
  Proof.
    intros o r. unfold public_assignable.
    match goal with |- context [passing ?X] => set (ts := X) end.
    destruct (passing ts); [destruct (has_err ts)|]; cbv; auto.
  Qed.

  Lemma leaf_cons : forall x, x = true4 \/ x = false4 \/ x = bot4 -> cons4 x.
  Proof. intros x [H|[H|H]]; subst; b4_tac. Qed.

  (* ---- monotonicity and consistency ---- *)
  Section Mono.
    Variables td td' : obj -> rid -> b4.
    Variables tc tc' : rid -> b4.
    Hypothesis Hd : forall o r, le4 (td o r) (td' o r).
    Hypothesis Hc : forall r, le4 (tc r) (tc' r).

    Lemma usersetB_mono : forall rd o r, le4 (usersetB rd o r td) (usersetB rd o r td').
    Proof.
      intros rd o r. unfold usersetB.
      match goal with |- context [passing ?X] => set (ts := X) end.
      destruct (passing ts) as [|t0 ps]; [apply le4_refl|].
      apply or4_list_mono. apply Forall2_flat_map. intros t _.
      destruct (t_sub t); [constructor | constructor | apply Forall2_cons; [apply Hd | constructor]].
    Qed.

    Lemma thisB_mono : forall rd o r, le4 (thisB rd o r td) (thisB rd o r td').
    Proof.
      intros rd o r. unfold thisB. apply or4_list_mono.
      apply Forall2_app;
        [destruct (directly_related subj (rd_restr rd)); [apply Forall2_cons; [apply le4_refl | constructor] | constructor]|].
      apply Forall2_app;
        [destruct (publicly_assignable subj (rd_restr rd)); [apply Forall2_cons; [apply le4_refl | constructor] | constructor]|].
      destruct (has_userset_restr (rd_restr rd)); [apply Forall2_cons; [apply usersetB_mono | constructor] | constructor].
    Qed.

    Lemma ttuB_mono : forall o ts c, le4 (ttuB o ts c td) (ttuB o ts c td').
    Proof.
      intros o ts c. unfold ttuB.
      match goal with |- context [passing ?X] => set (tl := X) end.
      destruct (passing tl) as [|t0 ps]; [apply le4_refl|].
      apply or4_list_mono. apply Forall2_flat_map. intros t _.
      destruct (t_sub t) as [o'|x|x y]; [|constructor|constructor].
      destruct (rel_defined m (otype o') c); [apply Forall2_cons; [apply Hd | constructor] | constructor].
    Qed.

    Lemma evalB_mono : forall rd o r rw, le4 (evalB rd o r td tc rw) (evalB rd o r td' tc' rw).
    Proof.
      intros rd o r rw. induction rw as [|r'|ts c|l IH|l IH|b s IHb IHs] using rewrite_ind'; cbn [evalB].
      - apply thisB_mono.
      - apply Hc.
      - apply ttuB_mono.
      - apply or4_list_mono. apply Forall2_map_same. intros x Hx. rewrite Forall_forall in IH. exact (IH x Hx).
      - apply and4_list_mono. apply Forall2_map_same. intros x Hx. rewrite Forall_forall in IH. exact (IH x Hx).
      - apply excl4_mono; assumption.
    Qed.
  End Mono.

  Section Cons.
    Variable td : obj -> rid -> b4.
    Variable tc : rid -> b4.
    Hypothesis Hd : forall o r, cons4 (td o r).
    Hypothesis Hc : forall r, cons4 (tc r).

    Lemma flat_map_Forall : forall (A B : Type) (P : B -> Prop) (f : A -> list B) l,
      (forall x, Forall P (f x)) -> Forall P (flat_map f l).
    Proof.
      intros A B P f l H; induction l as [|x l IH]; simpl; [constructor|].
      apply Forall_app; split; [apply H | exact IH].
    Qed.

    Lemma usersetB_cons : forall rd o r, cons4 (usersetB rd o r td).
    Proof.
      intros rd o r. unfold usersetB.
      match goal with |- context [passing ?X] => set (ts := X) end.
      destruct (passing ts) as [|t0 ps]; [destruct (has_err ts); b4_tac|].
      apply or4_list_cons. apply flat_map_Forall. intro t.
      destruct (t_sub t); repeat constructor. apply Hd.
    Qed.

    Lemma ttuB_cons : forall o ts c, cons4 (ttuB o ts c td).
    Proof.
      intros o ts c. unfold ttuB.
      match goal with |- context [passing ?X] => set (tl := X) end.
      destruct (passing tl) as [|t0 ps]; [destruct (has_err tl); b4_tac|].
      apply or4_list_cons. apply flat_map_Forall. intro t.
      destruct (t_sub t) as [o'|x|x y]; repeat constructor.
      destruct (rel_defined m (otype o') c); repeat constructor. apply Hd.
    Qed.

    Lemma thisB_cons : forall rd o r, cons4 (thisB rd o r td).
    Proof.
      intros rd o r. unfold thisB. apply or4_list_cons.
      apply Forall_app; split.
      { destruct (directly_related subj (rd_restr rd)); repeat constructor.
        apply leaf_cons, direct_user_tuple_dv. }
      apply Forall_app; split.
      { destruct (publicly_assignable subj (rd_restr rd)); repeat constructor.
        apply leaf_cons, public_assignable_dv. }
      destruct (has_userset_restr (rd_restr rd)); repeat constructor. apply usersetB_cons.
    Qed.

    Lemma evalB_cons : forall rd o r rw, cons4 (evalB rd o r td tc rw).
    Proof.
      intros rd o r rw. induction rw as [|r'|ts c|l IH|l IH|b s IHb IHs] using rewrite_ind'; cbn [evalB].
      - apply thisB_cons.
      - apply Hc.
      - apply ttuB_cons.
      - apply or4_list_cons. apply Forall_map. exact IH.
      - apply and4_list_cons. apply Forall_map. exact IH.
      - apply excl4_cons; assumption.
    Qed.
  End Cons.
End EvalB.

(* ================================================================== *)
(* C. the generic lemma: state-threading evaluator vs abstract evaluator *)
(* ================================================================== *)
(* R relates the definite part of what a handler returns to an abstract value; the abstract
   values are indexed by a number that may only grow along the evaluation (it bounds the
   unfolding height of the cache entries; constant families for the other instances). *)
Section Generic.
  Variable m : model.
  Variable conds : list cid.
  Variable store : list tuple.
  Variable subj : subject.
  Variable R : b4 -> b4 -> Prop.
  Hypothesis R_or : forall x x' y y', R x x' -> R y y' -> R (or4 x y) (or4 x' y').
  Hypothesis R_and : forall x x' y y', R x x' -> R y y' -> R (and4 x y) (and4 x' y').
  Hypothesis R_excl : forall x x' y y', R x x' -> R y y' -> R (excl4 x y) (excl4 x' y').
  Hypothesis R_true : R true4 true4.
  Hypothesis R_false : R false4 false4.
  Hypothesis R_bot : R bot4 bot4.
  Variable I : nat -> cache -> Prop.

  Definition ok (h : M) (beta : nat -> b4) : Prop :=
    forall c H, I H c ->
      exists H', (H <= H')%nat /\ I H' (snd (h c)) /\ fst (fst (h c)) <> [] /\ R (dv (fst (fst (h c)))) (beta H').
  Definition liftable (beta : nat -> b4) : Prop :=
    forall x H H', (H <= H')%nat -> R x (beta H) -> R x (beta H').

  Lemma ok_ext : forall h beta beta', ok h beta -> (forall H, beta H = beta' H) -> ok h beta'.
  Proof.
    intros h beta beta' Hok He c H HI. destruct (Hok c H HI) as [H' [H1 [H2 [H3 H4]]]].
    exists H'. rewrite <- He. auto.
  Qed.

  Lemma liftable_const : forall x, liftable (fun _ => x).
  Proof. intros x y H H' _ Hr; exact Hr. Qed.

  Lemma ret_ok : forall x : res,
    fst x <> [] -> (dv (fst x) = true4 \/ dv (fst x) = false4 \/ dv (fst x) = bot4) ->
    ok (ret x) (fun _ => dv (fst x)).
  Proof.
    intros x Hne Hd c H HI. exists H. unfold ret; simpl.
    split; [lia|]. split; [exact HI|]. split; [exact Hne|].
    destruct Hd as [Hd|[Hd|Hd]]; rewrite Hd; assumption.
  Qed.

  Lemma union_allS_ok : forall hs betas,
    Forall2 (fun h beta => ok h beta /\ liftable beta) hs betas ->
    ok (union_allS hs) (fun H => or4_list (map (fun beta => beta H) betas)).
  Proof.
    induction 1 as [|h beta hs betas [Hok Hl] Hrest IH]; intros c H HI.
    - exists H. simpl. split; [lia|]. split; [exact HI|]. split; [discriminate | exact R_false].
    - simpl. destruct (Hok c H HI) as [H1 [Hle1 [HI1 [Hne1 HR1]]]].
      destruct (h c) as [[s t] c1] eqn:Hh. simpl in *.
      destruct (IH c1 H1 HI1) as [H2 [Hle2 [HI2 [Hne2 HR2]]]].
      destruct (union_allS hs c1) as [[s' t'] c2] eqn:Hu. simpl in *.
      exists H2. split; [lia|]. split; [exact HI2|].
      split; [apply lift2_nonempty; [exact union2_nonempty | exact Hne1 | exact Hne2]|].
      rewrite dv_lift2_union by assumption. apply R_or; [exact (Hl _ H1 H2 Hle2 HR1) | exact HR2].
  Qed.

  Lemma inter_allS_ok : forall hs betas,
    Forall2 (fun h beta => ok h beta /\ liftable beta) hs betas ->
    ok (inter_allS hs) (fun H => and4_list (map (fun beta => beta H) betas)).
  Proof.
    induction 1 as [|h beta hs betas [Hok Hl] Hrest IH]; intros c H HI.
    - exists H. simpl. split; [lia|]. split; [exact HI|]. split; [discriminate | exact R_true].
    - simpl. destruct (Hok c H HI) as [H1 [Hle1 [HI1 [Hne1 HR1]]]].
      destruct (h c) as [[s t] c1] eqn:Hh. simpl in *.
      destruct (IH c1 H1 HI1) as [H2 [Hle2 [HI2 [Hne2 HR2]]]].
      destruct (inter_allS hs c1) as [[s' t'] c2] eqn:Hu. simpl in *.
      exists H2. split; [lia|]. split; [exact HI2|].
      split; [apply lift2_nonempty; [exact inter2_nonempty | exact Hne1 | exact Hne2]|].
      rewrite dv_lift2_inter by assumption. apply R_and; [exact (Hl _ H1 H2 Hle2 HR1) | exact HR2].
  Qed.

  Variable td : nat -> obj -> rid -> b4.
  Variable tc : nat -> rid -> b4.
  Hypothesis lift_d : forall o r, liftable (fun H => td H o r).
  Hypothesis lift_us : forall rd o r, liftable (fun H => usersetB m conds store rd o r (td H)).
  Hypothesis lift_rw : forall rd o r rw, liftable (fun H => evalB m conds store subj rd o r (td H) (tc H) rw).
  Variable disp : obj -> rid -> M.
  Variable comp : rid -> M.
  Hypothesis disp_ok : forall o r, ok (disp o r) (fun H => td H o r).
  Hypothesis comp_ok : forall r, ok (comp r) (fun H => tc H r).

  Lemma map_flat_map_userset : forall H' (l : list tuple),
    map (fun beta : nat -> b4 => beta H')
        (flat_map (fun t : tuple => match t_sub t with SSet o' r' => [fun H : nat => td H o' r'] | _ => [] end) l) =
    flat_map (fun t : tuple => match t_sub t with SSet o' r' => [td H' o' r'] | _ => [] end) l.
  Proof.
    intros H' l. induction l as [|a l IHl]; [reflexivity|].
    simpl. rewrite map_app, IHl. destruct (t_sub a); reflexivity.
  Qed.

  Lemma map_flat_map_ttu : forall H' cr (l : list tuple),
    map (fun beta : nat -> b4 => beta H')
        (flat_map (fun t : tuple => match t_sub t with
                                    | SObj o' => if rel_defined m (otype o') cr then [fun H : nat => td H o' cr] else []
                                    | _ => [] end) l) =
    flat_map (fun t : tuple => match t_sub t with
                               | SObj o' => if rel_defined m (otype o') cr then [td H' o' cr] else []
                               | _ => [] end) l.
  Proof.
    intros H' cr l. induction l as [|a l IHl]; [reflexivity|].
    simpl. rewrite map_app, IHl. destruct (t_sub a) as [o'|x|x y]; try reflexivity.
    destruct (rel_defined m (otype o') cr); reflexivity.
  Qed.

  Lemma usersetS_ok : forall rd o r,
    ok (usersetS m conds store rd o r disp) (fun H => usersetB m conds store rd o r (td H)).
  Proof.
    intros rd o r c H HI. unfold usersetS, usersetB.
    match goal with |- context [passing ?X] => set (ts := X) end.
    destruct (passing ts) as [|t0 ps] eqn:Hp.
    - exists H. destruct (has_err ts); simpl; (split; [lia|]); (split; [exact HI|]);
        (split; [discriminate|]); assumption.
    - remember (t0 :: ps) as l eqn:Hl.
      set (F := fun t : tuple => match t_sub t with SSet o' r' => [disp o' r'] | _ => [] end).
      set (G := fun t : tuple => match t_sub t with SSet o' r' => [fun H : nat => td H o' r'] | _ => [] end).
      assert (Hall : Forall2 (fun h beta => ok h beta /\ liftable beta) (flat_map F l) (flat_map G l)).
      { apply Forall2_flat_map. intros t _. unfold F, G.
        destruct (t_sub t) as [x|x|o' r']; [constructor | constructor |].
        apply Forall2_cons; [split; [apply disp_ok | apply lift_d] | constructor]. }
      destruct (union_allS_ok _ _ Hall c H HI) as [H' [Hle [HI' [Hne HR]]]].
      destruct (union_allS (flat_map F l) c) as [[s t] c'] eqn:Hu. cbn [fst snd] in *.
      exists H'. split; [exact Hle|]. split; [exact HI'|]. split; [exact Hne|].
      unfold G in HR. rewrite map_flat_map_userset in HR. exact HR.
  Qed.

  Lemma ttuS_ok : forall o ts c,
    ok (ttuS m conds store o ts c disp) (fun H => ttuB m conds store o ts c (td H)).
  Proof.
    intros o ts cr c H HI. unfold ttuS, ttuB.
    match goal with |- context [passing ?X] => set (tl := X) end.
    destruct (passing tl) as [|t0 ps] eqn:Hp.
    - exists H. destruct (has_err tl); simpl; (split; [lia|]); (split; [exact HI|]);
        (split; [discriminate|]); assumption.
    - remember (t0 :: ps) as l eqn:Hl.
      set (F := fun t : tuple => match t_sub t with
                                 | SObj o' => if rel_defined m (otype o') cr then [disp o' cr] else []
                                 | _ => [] end).
      set (G := fun t : tuple => match t_sub t with
                                 | SObj o' => if rel_defined m (otype o') cr then [fun H : nat => td H o' cr] else []
                                 | _ => [] end).
      assert (Hall : Forall2 (fun h beta => ok h beta /\ liftable beta) (flat_map F l) (flat_map G l)).
      { apply Forall2_flat_map. intros t _. unfold F, G.
        destruct (t_sub t) as [o'|x|x y]; [|constructor|constructor].
        destruct (rel_defined m (otype o') cr); [|constructor].
        apply Forall2_cons; [split; [apply disp_ok | apply lift_d] | constructor]. }
      destruct (union_allS_ok _ _ Hall c H HI) as [H' [Hle [HI' [Hne HR]]]].
      destruct (union_allS (flat_map F l) c) as [[s t] c'] eqn:Hu. cbn [fst snd] in *.
      exists H'. split; [exact Hle|]. split; [exact HI'|]. split; [exact Hne|].
      unfold G in HR. rewrite map_flat_map_ttu in HR. exact HR.
  Qed.

  Lemma thisS_ok : forall rd o r,
    ok (thisS m conds store subj rd o r disp) (fun H => thisB m conds store subj rd o r (td H)).
  Proof.
    intros rd o r. unfold thisS, thisB.
    set (b1 := directly_related subj (rd_restr rd)).
    set (b2 := publicly_assignable subj (rd_restr rd)).
    set (b3 := has_userset_restr (rd_restr rd)).
    set (x1 := direct_user_tuple m conds store subj o r).
    set (x2 := public_assignable m conds store subj o r).
    set (betas := (if b1 then [fun _ : nat => dv (fst x1)] else []) ++
                  (if b2 then [fun _ : nat => dv (fst x2)] else []) ++
                  (if b3 then [fun H : nat => usersetB m conds store rd o r (td H)] else [])).
    apply ok_ext with (beta := fun H => or4_list (map (fun beta : nat -> b4 => beta H) betas)).
    - apply union_allS_ok. unfold betas.
      apply Forall2_app.
      { destruct b1; [|constructor]. apply Forall2_cons; [|constructor]. split; [|apply liftable_const].
        apply ret_ok; [apply direct_user_tuple_nonempty | apply direct_user_tuple_dv]. }
      apply Forall2_app.
      { destruct b2; [|constructor]. apply Forall2_cons; [|constructor]. split; [|apply liftable_const].
        apply ret_ok; [apply public_assignable_nonempty | apply public_assignable_dv]. }
      destruct b3; [|constructor]. apply Forall2_cons; [|constructor]. split; [apply usersetS_ok | apply lift_us].
    - intro H. unfold betas. destruct b1, b2, b3; reflexivity.
  Qed.

  Theorem evalS_ok : forall rd o r rw,
    ok (evalS m conds store subj rd o r disp comp rw) (fun H => evalB m conds store subj rd o r (td H) (tc H) rw).
  Proof.
    intros rd o r rw. induction rw as [|r'|ts c|l IH|l IH|b s IHb IHs] using rewrite_ind'.
    - apply thisS_ok.
    - apply comp_ok.
    - apply ttuS_ok.
    - cbn [evalS].
      apply ok_ext with (beta := fun H => or4_list (map (fun beta : nat -> b4 => beta H)
                (map (fun x => fun H : nat => evalB m conds store subj rd o r (td H) (tc H) x) l))).
      + apply union_allS_ok. apply Forall2_map_same. intros x Hx. rewrite Forall_forall in IH.
        split; [exact (IH x Hx) | apply lift_rw].
      + intro H. cbn [evalB]. rewrite map_map. reflexivity.
    - cbn [evalS].
      apply ok_ext with (beta := fun H => and4_list (map (fun beta : nat -> b4 => beta H)
                (map (fun x => fun H : nat => evalB m conds store subj rd o r (td H) (tc H) x) l))).
      + apply inter_allS_ok. apply Forall2_map_same. intros x Hx. rewrite Forall_forall in IH.
        split; [exact (IH x Hx) | apply lift_rw].
      + intro H. cbn [evalB]. rewrite map_map. reflexivity.
    - intros c H HI. cbn [evalS evalB].
      destruct (IHb c H HI) as [H1 [Hle1 [HI1 [Hne1 HR1]]]].
      destruct (evalS m conds store subj rd o r disp comp b c) as [[sb tb] c1] eqn:Hb. simpl in *.
      destruct (IHs c1 H1 HI1) as [H2 [Hle2 [HI2 [Hne2 HR2]]]].
      destruct (evalS m conds store subj rd o r disp comp s c1) as [[ss ts] c2] eqn:Hs. simpl in *.
      exists H2. split; [lia|]. split; [exact HI2|].
      split; [apply lift2_nonempty; [exact excl2_nonempty | exact Hne1 | exact Hne2]|].
      rewrite dv_lift2_excl by assumption.
      apply R_excl; [exact (lift_rw rd o r b _ H1 H2 Hle2 HR1) | exact HR2].
  Qed.
End Generic.

(* ================================================================== *)
(* D. pure facts: unfolding, engine with VisitedPaths, completeness     *)
(* ================================================================== *)

Lemma le4_bot_inv : forall x, le4 x bot4 -> x = bot4.
Proof. intro x; b4_tac. Qed.
Lemma le4_antisym : forall x y, le4 x y -> le4 y x -> x = y.
Proof. intros x y; b4_tac. Qed.

Section Pure.
  Variable m : model.
  Variable conds : list cid.
  Variable store : list tuple.
  Variable subj : subject.
  Variable pathx : list (tid * rid).

  (* definite part of the path-independent unfolding (QueryCache.unfoldS) *)
  Fixpoint unfoldB (h : nat) (o : obj) (r : rid) {struct h} : b4 :=
    match h with
    | O => bot4
    | S h' =>
        if subject_eqb subj (SSet o r) then true4
        else match get_relation m (otype o) r with
             | None => bot4
             | Some rd =>
                 if negb (path_exists pathx (otype o) r) then false4
                 else evalB m conds store subj rd o r
                        (fun o' r' => unfoldB h' o' r') (fun r' => unfoldB h' o r') (rd_rw rd)
             end
    end.

  Lemma evalB_ext : forall rd o r td td' tc tc' rw,
    (forall o' r', td o' r' = td' o' r') -> (forall r', tc r' = tc' r') ->
    evalB m conds store subj rd o r td tc rw = evalB m conds store subj rd o r td' tc' rw.
  Proof.
    intros rd o r td td' tc tc' rw Hd Hc. apply le4_antisym; apply evalB_mono;
      intros; try rewrite Hd; try rewrite Hc; apply le4_refl.
  Qed.

  Lemma unfoldB_S_mono : forall h o r, le4 (unfoldB h o r) (unfoldB (S h) o r).
  Proof.
    induction h as [|h IH]; intros o r; [apply le4_bot|].
    cbn [unfoldB].
    destruct (subject_eqb subj (SSet o r)); [apply le4_refl|].
    destruct (get_relation m (otype o) r) as [rd|]; [|apply le4_refl].
    destruct (negb (path_exists pathx (otype o) r)); [apply le4_refl|].
    apply evalB_mono; intros; apply IH.
  Qed.

  Lemma unfoldB_mono : forall h h' o r, (h <= h')%nat -> le4 (unfoldB h o r) (unfoldB h' o r).
  Proof.
    intros h h' o r Hle. induction Hle as [|h' Hle IH]; [apply le4_refl|].
    eapply le4_trans; [exact IH | apply unfoldB_S_mono].
  Qed.

  Lemma unfoldB_cons : forall h o r, cons4 (unfoldB h o r).
  Proof.
    induction h as [|h IH]; intros o r; [b4_tac|].
    cbn [unfoldB].
    destruct (subject_eqb subj (SSet o r)); [b4_tac|].
    destruct (get_relation m (otype o) r) as [rd|]; [|b4_tac].
    destruct (negb (path_exists pathx (otype o) r)); [b4_tac|].
    apply evalB_cons; intros; apply IH.
  Qed.

  (* two definite values of one sub-problem, from any two unfoldings, agree *)
  Lemma unfoldB_agree : forall a b h h' o r,
    le4 (dvb a) (unfoldB h o r) -> le4 (dvb b) (unfoldB h' o r) -> a = b.
  Proof.
    intros a b h h' o r Ha Hb.
    apply le4_cons_agree with (z := unfoldB (Nat.max h h') o r).
    - eapply le4_trans; [exact Ha | apply unfoldB_mono; lia].
    - eapply le4_trans; [exact Hb | apply unfoldB_mono; lia].
    - apply unfoldB_cons.
  Qed.

  Variable maxdepth : nat.

  (* definite part of the engine with VisitedPaths and depth counter (Check/V1.check) *)
  Fixpoint checkB (fuel depth : nat) (visited : list atom) (o : obj) (r : rid) {struct fuel} : b4 :=
    match fuel with
    | O => bot4
    | S f =>
        if Nat.eqb depth maxdepth then bot4
        else if existsb (atom_eqb (o, r)) visited then bot4
        else if subject_eqb subj (SSet o r) then true4
        else match get_relation m (otype o) r with
             | None => bot4
             | Some rd =>
                 if negb (path_exists pathx (otype o) r) then false4
                 else evalB m conds store subj rd o r
                        (fun o' r' => checkB f (S depth) ((o, r) :: visited) o' r')
                        (fun r' => checkB f depth ((o, r) :: visited) o r') (rd_rw rd)
             end
    end.

  (* every definite outcome of the engine, on whatever path, is a definite value of the unfolding *)
  Lemma checkB_le_unfoldB : forall f d V o r, le4 (checkB f d V o r) (unfoldB f o r).
  Proof.
    induction f as [|f IH]; intros d V o r; [apply le4_bot|].
    cbn [checkB unfoldB].
    destruct (Nat.eqb d maxdepth); [apply le4_bot|].
    destruct (existsb (atom_eqb (o, r)) V); [apply le4_bot|].
    destruct (subject_eqb subj (SSet o r)); [apply le4_refl|].
    destruct (get_relation m (otype o) r) as [rd|]; [|apply le4_refl].
    destruct (negb (path_exists pathx (otype o) r)); [apply le4_refl|].
    apply evalB_mono; intros; apply IH.
  Qed.

  (* COMPLETENESS of the path-based cycle cut for definite values (the rank argument): a value
     that the unfolding of height h makes definite is found by the engine on every path V none
     of whose members is definite at height h, given h levels of fuel and of depth.  In
     particular on the empty path. *)
  Theorem unfoldB_le_checkB : forall h o r f d V,
    (h <= f)%nat -> (d + h <= maxdepth)%nat ->
    (forall v, In v V -> unfoldB h (fst v) (snd v) = bot4) ->
    le4 (unfoldB h o r) (checkB f d V o r).
  Proof.
    induction h as [|h IH]; intros o r f d V Hf Hd HV; [apply le4_bot|].
    assert (HV' : forall v, In v V -> unfoldB h (fst v) (snd v) = bot4).
    { intros v Hv. apply le4_bot_inv. rewrite <- (HV v Hv). apply unfoldB_S_mono. }
    destruct (unfoldB h o r) as [t1 t2] eqn:Hlow.
    destruct (orb t1 t2) eqn:Hdef.
    - (* already definite one level lower: the value is the same *)
      set (x := unfoldB (S h) o r).
      assert (He : x = unfoldB h o r).
      { unfold x. apply cons4_le_eq; [apply unfoldB_S_mono | apply unfoldB_cons | | apply unfoldB_cons].
        rewrite Hlow. intro Hc. inversion Hc; subst. discriminate Hdef. }
      rewrite He. apply IH; [lia | lia | exact HV'].
    - apply orb_false_iff in Hdef. destruct Hdef; subst t1 t2.
      destruct (existsb (atom_eqb (o, r)) V) eqn:Hin.
      { apply existsb_exists in Hin. destruct Hin as [v [Hv He]]. apply atom_eqb_eq in He. subst v.
        specialize (HV _ Hv). cbn [fst snd] in HV. set (x := unfoldB (S h) o r) in *. rewrite HV. apply le4_bot. }
      destruct f as [|f]; [lia|].
      cbn [checkB unfoldB]. rewrite Hin.
      destruct (Nat.eqb d maxdepth) eqn:Hdm; [apply Nat.eqb_eq in Hdm; lia|].
      destruct (subject_eqb subj (SSet o r)); [apply le4_refl|].
      destruct (get_relation m (otype o) r) as [rd|]; [|apply le4_refl].
      destruct (negb (path_exists pathx (otype o) r)); [apply le4_refl|].
      apply evalB_mono; intros; apply IH; try lia;
        (intros v [Hv|Hv]; [subst v; exact Hlow | exact (HV' v Hv)]).
  Qed.

  Corollary unfoldB_le_checkB_top : forall h o r f,
    (h <= f)%nat -> (h <= maxdepth)%nat -> le4 (unfoldB h o r) (checkB f O [] o r).
  Proof. intros h o r f Hf Hd. apply unfoldB_le_checkB; [exact Hf | exact Hd | intros v []]. Qed.
End Pure.

(* ================================================================== *)
(* E. the definite part of Check/V1.check is checkB                     *)
(* ================================================================== *)

Lemma union_all_dv : forall hs : list (unit -> res),
  (forall h, In h hs -> fst (h tt) <> []) ->
  dv (fst (union_all hs)) = or4_list (map (fun h => dv (fst (h tt))) hs).
Proof.
  intros hs Hne. rewrite (dv_seteq _ _ (union_all_early_exit hs Hne)).
  induction hs as [|h hs IH]; [reflexivity|].
  assert (Hrest : forall h', In h' hs -> fst (h' tt) <> []) by (intros h' Hin; apply Hne; right; exact Hin).
  pose proof (union_all_full_nonempty hs Hrest) as Hn.
  pose proof (Hne h (or_introl eq_refl)) as Hh.
  simpl. destruct (h tt) as [s t]. destruct (union_all_full hs) as [s' t'] eqn:Hu. simpl in *.
  rewrite dv_lift2_union by assumption. f_equal. apply IH. exact Hrest.
Qed.

Lemma inter_all_dv : forall hs : list (unit -> res),
  (forall h, In h hs -> fst (h tt) <> []) ->
  dv (fst (inter_all hs)) = and4_list (map (fun h => dv (fst (h tt))) hs).
Proof.
  induction hs as [|h hs IH]; intro Hne; [reflexivity|].
  assert (Hrest : forall h', In h' hs -> fst (h' tt) <> []) by (intros h' Hin; apply Hne; right; exact Hin).
  pose proof (inter_all_nonempty hs Hrest) as Hn.
  pose proof (Hne h (or_introl eq_refl)) as Hh.
  simpl. destruct (h tt) as [s t]. destruct (inter_all hs) as [s' t'] eqn:Hu. simpl in *.
  rewrite dv_lift2_inter by assumption. f_equal. apply IH. exact Hrest.
Qed.

Section V1Bridge.
  Variable m : model.
  Variable conds : list cid.
  Variable store : list tuple.
  Variable subj : subject.

  Section OneCall.
    Variable rd : reldef.
    Variable o : obj.
    Variable r : rid.
    Variable dispatch : obj -> rid -> unit -> res.
    Variable computed : rid -> res.
    Hypothesis Hdisp : forall o' r', fst (dispatch o' r' tt) <> [].
    Hypothesis Hcomp : forall r', fst (computed r') <> [].

    Let td := fun o' r' => dv (fst (dispatch o' r' tt)).
    Let tc := fun r' => dv (fst (computed r')).

    Lemma userset_handler_dv :
      dv (fst (userset_handler m conds store rd o r dispatch tt)) = usersetB m conds store rd o r td.
    Proof.
      unfold userset_handler, usersetB.
      match goal with |- context [passing ?X] => set (ts := X) end.
      destruct (passing ts) as [|t0 ps] eqn:Hp; [destruct (has_err ts); reflexivity|].
      rewrite fst_let_pair. remember (t0 :: ps) as l eqn:Hl. clear Hl Hp.
      rewrite union_all_dv.
      - f_equal. induction l as [|a l IHl]; [reflexivity|].
        cbn [flat_map]. rewrite map_app. f_equal; [destruct (t_sub a); reflexivity | exact IHl].
      - intros h Hin. apply in_flat_map in Hin. destruct Hin as [t [_ Hh]].
        destruct (t_sub t) as [x|x|o' r']; try (destruct Hh; fail).
        destruct Hh as [Hh|[]]. subst h. apply Hdisp.
    Qed.

    Lemma ttu_eval_dv : forall ts c,
      dv (fst (ttu_eval m conds store o ts c dispatch)) = ttuB m conds store o ts c td.
    Proof.
      intros ts c. unfold ttu_eval, ttuB.
      match goal with |- context [passing ?X] => set (tl := X) end.
      destruct (passing tl) as [|t0 ps] eqn:Hp; [destruct (has_err tl); reflexivity|].
      rewrite fst_let_pair. remember (t0 :: ps) as l eqn:Hl. clear Hl Hp.
      rewrite union_all_dv.
      - f_equal. induction l as [|a l IHl]; [reflexivity|].
        cbn [flat_map]. rewrite map_app. f_equal; [|exact IHl].
        destruct (t_sub a) as [o'|x|x y]; try reflexivity.
        destruct (rel_defined m (otype o') c); reflexivity.
      - intros h Hin. apply in_flat_map in Hin. destruct Hin as [t [_ Hh]].
        destruct (t_sub t) as [o'|x|x y]; try (destruct Hh; fail).
        destruct (rel_defined m (otype o') c); [|destruct Hh].
        destruct Hh as [Hh|[]]. subst h. apply Hdisp.
    Qed.

    Lemma this_handlers_nonempty : forall h,
      In h (this_handlers m conds store subj rd o r dispatch) -> fst (h tt) <> [].
    Proof.
      intros h Hin. unfold this_handlers in Hin. apply in_app_iff in Hin. destruct Hin as [Hin|Hin].
      { destruct (directly_related subj (rd_restr rd)); [|destruct Hin].
        destruct Hin as [Hin|[]]. subst h. apply direct_user_tuple_nonempty. }
      apply in_app_iff in Hin. destruct Hin as [Hin|Hin].
      { destruct (publicly_assignable subj (rd_restr rd)); [|destruct Hin].
        destruct Hin as [Hin|[]]. subst h. apply public_assignable_nonempty. }
      destruct (has_userset_restr (rd_restr rd)); [|destruct Hin].
      destruct Hin as [Hin|[]]. subst h. unfold userset_handler.
      match goal with |- context [passing ?X] => set (ts := X) end.
      destruct (passing ts) as [|t0 ps]; [destruct (has_err ts); discriminate|].
      rewrite fst_let_pair. apply union_all_nonempty. intros h Hin.
      apply in_flat_map in Hin. destruct Hin as [t [_ Hh]].
      destruct (t_sub t) as [x|x|o' r']; try (destruct Hh; fail).
      destruct Hh as [Hh|[]]. subst h. apply Hdisp.
    Qed.

    Lemma this_dv :
      dv (fst (union_all (this_handlers m conds store subj rd o r dispatch))) = thisB m conds store subj rd o r td.
    Proof.
      rewrite union_all_dv by exact this_handlers_nonempty.
      unfold this_handlers, thisB. f_equal.
      destruct (directly_related subj (rd_restr rd)), (publicly_assignable subj (rd_restr rd)),
        (has_userset_restr (rd_restr rd)); simpl; try rewrite userset_handler_dv; reflexivity.
    Qed.

    Lemma eval_with_dv : forall rw,
      dv (fst (eval_with m conds store subj rd o r dispatch computed rw)) =
      evalB m conds store subj rd o r td tc rw.
    Proof.
      intro rw. induction rw as [|r'|ts c|l IH|l IH|b s IHb IHs] using rewrite_ind'.
      - exact this_dv.
      - reflexivity.
      - apply ttu_eval_dv.
      - cbn [eval_with evalB]. rewrite union_all_dv.
        + f_equal. rewrite map_map. apply map_ext_in. intros x Hx. rewrite Forall_forall in IH. exact (IH x Hx).
        + intros h Hin. apply in_map_iff in Hin. destruct Hin as [x [Hh Hx]]. subst h.
          apply eval_with_nonempty; assumption.
      - cbn [eval_with evalB]. rewrite inter_all_dv.
        + f_equal. rewrite map_map. apply map_ext_in. intros x Hx. rewrite Forall_forall in IH. exact (IH x Hx).
        + intros h Hin. apply in_map_iff in Hin. destruct Hin as [x [Hh Hx]]. subst h.
          apply eval_with_nonempty; assumption.
      - cbn [eval_with evalB].
        pose proof (eval_with_nonempty m conds store subj rd o r dispatch computed Hdisp Hcomp b) as Hnb.
        pose proof (eval_with_nonempty m conds store subj rd o r dispatch computed Hdisp Hcomp s) as Hns.
        destruct (eval_with m conds store subj rd o r dispatch computed b) as [sb tb].
        destruct (eval_with m conds store subj rd o r dispatch computed s) as [ss ts].
        simpl in *. rewrite dv_lift2_excl by assumption. rewrite IHb, IHs. reflexivity.
    Qed.
  End OneCall.

  Variable pathx : list (tid * rid).
  Variable maxdepth : nat.

  (* the definite outcomes of the default-engine model are exactly what checkB computes *)
  Theorem check_dv : forall f d V o r,
    dv (fst (check m conds store subj pathx maxdepth f d V o r)) = checkB m conds store subj pathx maxdepth f d V o r.
  Proof.
    induction f as [|f IH]; intros d V o r; [reflexivity|].
    rewrite check_unfold. cbn [checkB].
    destruct (Nat.eqb d maxdepth); [reflexivity|].
    destruct (existsb (atom_eqb (o, r)) V); [reflexivity|].
    destruct (subject_eqb subj (SSet o r)); [reflexivity|].
    destruct (get_relation m (otype o) r) as [rd|]; [|reflexivity].
    destruct (negb (path_exists pathx (otype o) r)); [reflexivity|].
    rewrite eval_with_dv by (intros; apply check_nonempty).
    apply evalB_ext; intros; apply IH.
  Qed.
End V1Bridge.

(* ================================================================== *)
(* F. the cached engine                                                *)
(* ================================================================== *)

Lemma dva_agree : forall a a' z,
  definite a = true -> definite a' = true -> le4 (dva a) z -> le4 (dva a') z -> cons4 z -> a = a'.
Proof. intros a a' z Ha Ha'; destruct a, a'; try discriminate Ha; try discriminate Ha'; b4_tac. Qed.

Section Cached.
  Variable m : model.
  Variable conds : list cid.
  Variable store : list tuple.
  Variable subj : subject.
  Variable pathx : list (tid * rid).
  Variable maxdepth : nat.

  Local Notation uB := (unfoldB m conds store subj pathx).
  Local Notation cB := (checkB m conds store subj pathx maxdepth).
  Local Notation chS := (checkS m conds store subj pathx maxdepth).
  Local Notation rtop := (resolve_top m conds store subj pathx maxdepth).

  (* every entry is a definite value of a finite unfolding of its sub-problem: THE path-independent
     value (unfoldB_agree: at most one) *)
  Definition valid_at (H : nat) (c : cache) : Prop :=
    forall k b, clook c k = Some b -> le4 (dvb b) (uB H (fst k) (snd k)).
  Definition valid (c : cache) : Prop := exists H, valid_at H c.

  Lemma valid_at_mono : forall H H' c, (H <= H')%nat -> valid_at H c -> valid_at H' c.
  Proof.
    intros H H' c Hle Hv k b Hk. eapply le4_trans; [exact (Hv k b Hk) | apply unfoldB_mono; exact Hle].
  Qed.

  Lemma valid_nil : valid [].
  Proof. exists O. intros k b Hk. discriminate Hk. Qed.

  Lemma valid_at_cstore : forall H c k s,
    valid_at H c -> le4 (dv s) (uB H (fst k) (snd k)) -> valid_at H (cstore c k s).
  Proof.
    intros H c k s Hv [Ht Hf]. unfold cstore.
    destruct (omem AT s) eqn:Hat.
    - intros k' b Hk. simpl in Hk. destruct (atom_eqb k' k) eqn:He; [|exact (Hv k' b Hk)].
      apply atom_eqb_eq in He. subst k'. inversion Hk; subst b. split; simpl; [intros _; apply Ht; exact Hat | discriminate].
    - destruct (omem AFn s) eqn:Haf; [|exact Hv].
      intros k' b Hk. simpl in Hk. destruct (atom_eqb k' k) eqn:He; [|exact (Hv k' b Hk)].
      apply atom_eqb_eq in He. subst k'. inversion Hk; subst b. split; simpl; [discriminate | intros _; apply Hf; exact Haf].
  Qed.

  Lemma oadd_nonempty : forall a s, oadd a s <> [].
  Proof.
    intros a s He. assert (Hin : In a (oadd a s)) by (apply In_oadd; left; reflexivity).
    rewrite He in Hin. destruct Hin.
  Qed.

  (* ---- soundness w.r.t. the unfolding: R = le4, index = unfolding height of the entries ---- *)
  Local Notation okL := (ok le4 valid_at).

  Lemma lift_uB : forall f o r, liftable le4 (fun H => uB (H + f)%nat o r).
  Proof. intros f o r x H H' Hle Hx. eapply le4_trans; [exact Hx | apply unfoldB_mono; lia]. Qed.

  Lemma resolve_with_sound : forall enabled inner k f,
    okL inner (fun H => uB (H + f)%nat (fst k) (snd k)) ->
    okL (resolve_with enabled inner k) (fun H => uB (H + f)%nat (fst k) (snd k)).
  Proof.
    intros enabled inner k f Hok c H HI. unfold resolve_with.
    destruct enabled; [|exact (Hok c H HI)].
    destruct (Hok c H HI) as [H1 [Hle [HI1 [Hne HR]]]].
    destruct (inner c) as [[s t] c'] eqn:Hin. cbn [fst snd] in *.
    exists (H1 + f)%nat. split; [lia|].
    assert (Hup : le4 (dv s) (uB (H1 + f + f)%nat (fst k) (snd k))).
    { eapply le4_trans; [exact HR | apply unfoldB_mono; lia]. }
    destruct (clook c k) as [b|] eqn:Hk; cbn [fst snd].
    - split; [apply valid_at_cstore; [apply valid_at_mono with (H := H1); [lia | exact HI1] | exact HR]|].
      split; [apply oadd_nonempty|].
      rewrite dv_oadd, dva_ob. apply join4_le; [|exact Hup].
      eapply le4_trans; [exact (HI k b Hk) | apply unfoldB_mono; lia].
    - split; [apply valid_at_cstore; [apply valid_at_mono with (H := H1); [lia | exact HI1] | exact HR]|].
      split; [exact Hne | exact Hup].
  Qed.

  Lemma leaf_okL : forall (x : res) (beta : nat -> b4),
    fst x <> [] -> (forall H, le4 (dv (fst x)) (beta H)) -> okL (fun c => (x, c)) beta.
  Proof.
    intros x beta Hne Hle c H HI. exists H. cbn [fst snd].
    split; [lia|]. split; [exact HI|]. split; [exact Hne | apply Hle].
  Qed.

  Theorem checkS_sound : forall enabled f d V o r,
    okL (chS enabled f d V o r) (fun H => uB (H + f)%nat o r).
  Proof.
    intros enabled. induction f as [|f IH]; intros d V o r.
    { apply leaf_okL; [discriminate | intro H; apply le4_bot]. }
    cbn [checkS].
    destruct (Nat.eqb d maxdepth); [apply leaf_okL; [discriminate | intro H; apply le4_bot]|].
    destruct (existsb (atom_eqb (o, r)) V); [apply leaf_okL; [discriminate | intro H; apply le4_bot]|].
    destruct (subject_eqb subj (SSet o r)) eqn:Hs.
    { apply leaf_okL; [discriminate|]. intro H. rewrite Nat.add_succ_r. cbn [unfoldB]. rewrite Hs. apply le4_refl. }
    destruct (get_relation m (otype o) r) as [rd|] eqn:Hg; [|apply leaf_okL; [discriminate | intro H; apply le4_bot]].
    destruct (negb (path_exists pathx (otype o) r)) eqn:Hp.
    { apply leaf_okL; [discriminate|]. intro H. rewrite Nat.add_succ_r. cbn [unfoldB]. rewrite Hs, Hg, Hp. apply le4_refl. }
    apply ok_ext with (beta := fun H => evalB m conds store subj rd o r
                                       (fun o' r' => uB (H + f)%nat o' r') (fun r' => uB (H + f)%nat o r') (rd_rw rd)).
    - apply evalS_ok with (td := fun H o' r' => uB (H + f)%nat o' r') (tc := fun H r' => uB (H + f)%nat o r').
      + exact or4_mono.
      + exact and4_mono.
      + exact excl4_mono.
      + apply le4_refl.
      + apply le4_refl.
      + apply le4_refl.
      + intros o' r'. apply lift_uB.
      + intros rd' o' r' x H H' Hle Hx. eapply le4_trans; [exact Hx|].
        apply usersetB_mono. intros; apply unfoldB_mono; lia.
      + intros rd' o' r' rw x H H' Hle Hx. eapply le4_trans; [exact Hx|].
        apply evalB_mono; intros; apply unfoldB_mono; lia.
      + intros o' r'. apply (resolve_with_sound enabled _ (o', r') f). apply IH.
      + intros r'. apply IH.
    - intro H. rewrite Nat.add_succ_r. cbn [unfoldB]. rewrite Hs, Hg, Hp. reflexivity.
  Qed.

  Theorem resolve_top_sound : forall enabled fuel o r,
    okL (rtop enabled fuel o r) (fun H => uB (H + fuel)%nat o r).
  Proof.
    intros enabled fuel o r. unfold resolve_top.
    apply (resolve_with_sound enabled _ (o, r) fuel). apply checkS_sound.
  Qed.

  (* the invariant *)
  Theorem resolve_top_valid : forall enabled fuel o r c,
    valid c -> valid (snd (rtop enabled fuel o r c)).
  Proof.
    intros enabled fuel o r c [H Hv]. destruct (resolve_top_sound enabled fuel o r c H Hv) as [H' [_ [Hv' _]]].
    exists H'. exact Hv'.
  Qed.

  (* a definite outcome of the cached engine is a definite value of the unfolding *)
  Theorem resolve_top_definite : forall enabled fuel o r c a,
    valid c -> definite a = true -> In a (fst (fst (rtop enabled fuel o r c))) ->
    exists h, le4 (dva a) (uB h o r).
  Proof.
    intros enabled fuel o r c a [H Hv] Hd Hin.
    destruct (resolve_top_sound enabled fuel o r c H Hv) as [H' [_ [_ [_ HR]]]].
    exists (H' + fuel)%nat. eapply le4_trans; [apply dva_le_dv; exact Hin | exact HR].
  Qed.

  (* ---- the uncached definite outcomes survive: R = (fun x y => le4 y x), no invariant ---- *)
  Definition ge4 (x y : b4) : Prop := le4 y x.
  Definition Itrue (_ : nat) (_ : cache) : Prop := True.
  Local Notation okG := (ok ge4 Itrue).

  Lemma leaf_okG : forall (x : res) y, fst x <> [] -> le4 y (dv (fst x)) -> okG (fun c => (x, c)) (fun _ => y).
  Proof.
    intros x y Hne Hle c H HI. exists H. cbn [fst snd].
    split; [lia|]. split; [exact I|]. split; [exact Hne | exact Hle].
  Qed.

  Lemma resolve_with_complete : forall enabled inner k y,
    okG inner (fun _ => y) -> okG (resolve_with enabled inner k) (fun _ => y).
  Proof.
    intros enabled inner k y Hok c H HI. unfold resolve_with.
    destruct enabled; [|exact (Hok c H HI)].
    destruct (Hok c H HI) as [H1 [Hle [_ [Hne HR]]]].
    destruct (inner c) as [[s t] c'] eqn:Hin. cbn [fst snd] in *.
    exists H1. split; [exact Hle|]. split; [exact I|].
    destruct (clook c k) as [b|]; cbn [fst snd].
    - split; [apply oadd_nonempty|]. unfold ge4. rewrite dv_oadd.
      eapply le4_trans; [exact HR | apply le4_join_r].
    - split; [exact Hne | exact HR].
  Qed.

  Theorem checkS_complete : forall enabled f d V o r,
    okG (chS enabled f d V o r) (fun _ => cB f d V o r).
  Proof.
    intros enabled. induction f as [|f IH]; intros d V o r.
    { apply leaf_okG; [discriminate | apply le4_bot]. }
    cbn [checkS checkB].
    destruct (Nat.eqb d maxdepth); [apply leaf_okG; [discriminate | apply le4_bot]|].
    destruct (existsb (atom_eqb (o, r)) V); [apply leaf_okG; [discriminate | apply le4_bot]|].
    destruct (subject_eqb subj (SSet o r)); [apply leaf_okG; [discriminate | apply le4_refl]|].
    destruct (get_relation m (otype o) r) as [rd|]; [|apply leaf_okG; [discriminate | apply le4_bot]].
    destruct (negb (path_exists pathx (otype o) r)); [apply leaf_okG; [discriminate | apply le4_refl]|].
    apply evalS_ok with (td := fun (_ : nat) o' r' => cB f (S d) ((o, r) :: V) o' r')
                        (tc := fun (_ : nat) r' => cB f d ((o, r) :: V) o r').
    - intros x x' y y' Hx Hy. unfold ge4 in *. apply or4_mono; assumption.
    - intros x x' y y' Hx Hy. unfold ge4 in *. apply and4_mono; assumption.
    - intros x x' y y' Hx Hy. unfold ge4 in *. apply excl4_mono; assumption.
    - apply le4_refl.
    - apply le4_refl.
    - apply le4_refl.
    - intros o' r' x H H' _ Hx. exact Hx.
    - intros rd' o' r' x H H' _ Hx. exact Hx.
    - intros rd' o' r' rw x H H' _ Hx. exact Hx.
    - intros o' r'. apply (resolve_with_complete enabled _ (o', r')). apply IH.
    - intros r'. apply IH.
  Qed.

  Theorem resolve_top_complete : forall enabled fuel o r,
    okG (rtop enabled fuel o r) (fun _ => cB fuel O [] o r).
  Proof.
    intros enabled fuel o r. unfold resolve_top. apply resolve_with_complete. apply checkS_complete.
  Qed.

  (* ---- the uncached engine in evalS form has the same definite part as Check/V1 ---- *)
  Local Notation okE := (ok (@eq b4) Itrue).

  Theorem checkS_off_dv : forall f d V o r,
    okE (chS false f d V o r) (fun _ => cB f d V o r).
  Proof.
    assert (Hleaf : forall (x : res) y, fst x <> [] -> dv (fst x) = y -> okE (fun c => (x, c)) (fun _ => y)).
    { intros x y Hne He c H HI. exists H. cbn [fst snd]. split; [lia|]. split; [exact I|]. split; assumption. }
    induction f as [|f IH]; intros d V o r.
    { apply Hleaf; [discriminate | reflexivity]. }
    cbn [checkS checkB].
    destruct (Nat.eqb d maxdepth); [apply Hleaf; [discriminate | reflexivity]|].
    destruct (existsb (atom_eqb (o, r)) V); [apply Hleaf; [discriminate | reflexivity]|].
    destruct (subject_eqb subj (SSet o r)); [apply Hleaf; [discriminate | reflexivity]|].
    destruct (get_relation m (otype o) r) as [rd|]; [|apply Hleaf; [discriminate | reflexivity]].
    destruct (negb (path_exists pathx (otype o) r)); [apply Hleaf; [discriminate | reflexivity]|].
    apply evalS_ok with (td := fun (_ : nat) o' r' => cB f (S d) ((o, r) :: V) o' r')
                        (tc := fun (_ : nat) r' => cB f d ((o, r) :: V) o r').
    - intros; subst; reflexivity.
    - intros; subst; reflexivity.
    - intros; subst; reflexivity.
    - reflexivity.
    - reflexivity.
    - reflexivity.
    - intros o' r' x H H' _ Hx. exact Hx.
    - intros rd' o' r' x H H' _ Hx. exact Hx.
    - intros rd' o' r' rw x H H' _ Hx. exact Hx.
    - intros o' r'. unfold resolve_with. apply IH.
    - intros r'. apply IH.
  Qed.

  Corollary check_nc_dv_V1 : forall f d V o r,
    dv (check_nc m conds store subj pathx maxdepth f d V o r) =
    dv (fst (check m conds store subj pathx maxdepth f d V o r)).
  Proof.
    intros f d V o r. rewrite check_dv. unfold check_nc.
    destruct (checkS_off_dv f d V o r [] O I) as [_ [_ [_ [_ He]]]]. exact He.
  Qed.

  (* ================================================================ *)
  (* the three statements for one request and ANY valid cache            *)
  (* ================================================================ *)
  Local Notation v1top := (fun md fuel o r => fst (check_top m conds store subj pathx md fuel o r)).

  (* (a) whatever the uncached engine answers definitely, the cached engine can answer too *)
  Theorem cached_keeps_uncached : forall c fuel o r a,
    definite a = true -> In a (v1top maxdepth fuel o r) -> In a (fst (fst (rtop true fuel o r c))).
  Proof.
    intros c fuel o r a Hd Hin. apply le4_dva_In; [exact Hd|].
    destruct (resolve_top_complete true fuel o r c O I) as [_ [_ [_ [_ HR]]]]. unfold ge4 in HR.
    eapply le4_trans; [|exact HR]. unfold check_top in Hin. rewrite <- check_dv. apply dva_le_dv. exact Hin.
  Qed.

  (* (b) the cached engine never gives a definite answer that differs from a definite answer of the
     uncached engine -- on any path, at any depth, with any fuel *)
  Theorem cached_never_contradicts : forall c fuel o r a a' f d V,
    valid c -> definite a = true -> definite a' = true ->
    In a (fst (fst (rtop true fuel o r c))) ->
    In a' (fst (check m conds store subj pathx maxdepth f d V o r)) -> a = a'.
  Proof.
    intros c fuel o r a a' f d V Hv Hd Hd' Hin Hin'.
    destruct (resolve_top_definite true fuel o r c a Hv Hd Hin) as [h Hh].
    assert (Hh' : le4 (dva a') (uB f o r)).
    { eapply le4_trans; [apply dva_le_dv; exact Hin'|]. rewrite check_dv. apply checkB_le_unfoldB. }
    apply dva_agree with (z := uB (Nat.max h f) o r); try assumption.
    - eapply le4_trans; [exact Hh | apply unfoldB_mono; lia].
    - eapply le4_trans; [exact Hh' | apply unfoldB_mono; lia].
    - apply unfoldB_cons.
  Qed.
End Cached.

(* (c) a definite answer of the cached engine is the answer of the uncached engine as soon as fuel
   and depth limit are large enough (the depth limit is the only thing the cache can "repair") *)
Theorem cached_answer_is_uncached_answer :
  forall m conds store subj pathx maxdepth c fuel o r a,
    valid m conds store subj pathx c -> definite a = true ->
    In a (fst (fst (resolve_top m conds store subj pathx maxdepth true fuel o r c))) ->
    exists F0, forall fuel' md', (F0 <= fuel')%nat -> (F0 <= md')%nat ->
      In a (fst (check_top m conds store subj pathx md' fuel' o r)).
Proof.
  intros m conds store subj pathx maxdepth c fuel o r a Hv Hd Hin.
  destruct (resolve_top_definite m conds store subj pathx maxdepth true fuel o r c a Hv Hd Hin) as [h Hh].
  exists h. intros fuel' md' Hf Hm. apply le4_dva_In; [exact Hd|].
  unfold check_top. rewrite check_dv.
  eapply le4_trans; [exact Hh | apply unfoldB_le_checkB_top; assumption].
Qed.

(* ---- path independence of the default engine itself ---- *)
Theorem v1_definite_path_independent :
  forall m conds store subj pathx maxdepth f d V f' d' V' o r a a',
    definite a = true -> definite a' = true ->
    In a (fst (check m conds store subj pathx maxdepth f d V o r)) ->
    In a' (fst (check m conds store subj pathx maxdepth f' d' V' o r)) -> a = a'.
Proof.
  intros m conds store subj pathx maxdepth f d V f' d' V' o r a a' Hd Hd' Hin Hin'.
  assert (H1 : le4 (dva a) (unfoldB m conds store subj pathx f o r)).
  { eapply le4_trans; [apply dva_le_dv; exact Hin|]. rewrite check_dv. apply checkB_le_unfoldB. }
  assert (H2 : le4 (dva a') (unfoldB m conds store subj pathx f' o r)).
  { eapply le4_trans; [apply dva_le_dv; exact Hin'|]. rewrite check_dv. apply checkB_le_unfoldB. }
  apply dva_agree with (z := unfoldB m conds store subj pathx (Nat.max f f') o r); try assumption.
  - eapply le4_trans; [exact H1 | apply unfoldB_mono; lia].
  - eapply le4_trans; [exact H2 | apply unfoldB_mono; lia].
  - apply unfoldB_cons.
Qed.

Theorem v1_definite_at_empty_path :
  forall m conds store subj pathx maxdepth f d V o r a,
    definite a = true -> In a (fst (check m conds store subj pathx maxdepth f d V o r)) ->
    forall fuel' md', (f <= fuel')%nat -> (f <= md')%nat ->
      In a (fst (check_top m conds store subj pathx md' fuel' o r)).
Proof.
  intros m conds store subj pathx maxdepth f d V o r a Hd Hin fuel' md' Hf Hm.
  apply le4_dva_In; [exact Hd|]. unfold check_top. rewrite check_dv.
  eapply le4_trans; [apply dva_le_dv; exact Hin|]. rewrite check_dv.
  eapply le4_trans; [apply checkB_le_unfoldB | apply unfoldB_le_checkB_top; assumption].
Qed.

(* ================================================================== *)
(* G. histories over several partitions of one cache                   *)
(* ================================================================== *)

Lemma glook_gset : forall g p c p', glook (gset g p c) p' = if N.eqb p' p then c else glook g p'.
Proof.
  induction g as [|[p0 c0] g IH]; intros p c p'; simpl.
  - destruct (N.eqb p' p); reflexivity.
  - destruct (N.eqb p p0) eqn:E; simpl.
    + apply N.eqb_eq in E. subst p0. destruct (N.eqb p' p); reflexivity.
    + rewrite IH. destruct (N.eqb p' p0) eqn:E2; [|reflexivity].
      apply N.eqb_eq in E2. subst p0. rewrite N.eqb_sym in E. rewrite E. reflexivity.
Qed.

Section HistoryProofs.
  Variable envs : N -> penv.

  Definition pvalid (p : N) (c : cache) : Prop :=
    valid (pe_model (envs p)) (pe_conds (envs p)) (pe_store (envs p)) (pe_subj (envs p)) (pe_pathx (envs p)) c.
  (* every entry of every partition is the path-independent value of its sub-problem *)
  Definition gvalid (g : gcache) : Prop := forall p, pvalid p (glook g p).

  Lemma gvalid_nil : gvalid [].
  Proof. intro p. apply valid_nil. Qed.

  (* the answer of the uncached engine (Check/V1.v) to a request, with depth limit md *)
  Definition uncached (fuel md : nat) (q : request) : oset :=
    let e := envs (q_part q) in
    fst (check_top (pe_model e) (pe_conds e) (pe_store e) (pe_subj e) (pe_pathx e) md fuel (q_obj q) (q_rel q)).

  Definition answers_ok (fuel : nat) (q : request) (sc : oset) : Prop :=
    let s := uncached fuel (pe_maxdepth (envs (q_part q))) q in
    (forall a, definite a = true -> In a s -> In a sc) /\
    (forall a a', definite a = true -> definite a' = true -> In a sc -> In a' s -> a = a') /\
    (forall a, definite a = true -> In a sc ->
       exists F0, forall fuel' md', (F0 <= fuel')%nat -> (F0 <= md')%nat -> In a (uncached fuel' md' q)).

  Lemma run1_ok : forall fuel q g,
    gvalid g -> answers_ok fuel q (fst (run1 envs true fuel q g)) /\ gvalid (snd (run1 envs true fuel q g)).
  Proof.
    intros fuel q g Hg. unfold run1.
    set (e := envs (q_part q)).
    pose proof (Hg (q_part q)) as Hv. unfold pvalid in Hv. fold e in Hv.
    destruct (resolve_top (pe_model e) (pe_conds e) (pe_store e) (pe_subj e) (pe_pathx e) (pe_maxdepth e)
                true fuel (q_obj q) (q_rel q) (glook g (q_part q))) as [[s t] c] eqn:Hr.
    cbn [fst snd]. split.
    - unfold answers_ok, uncached. fold e. split; [|split].
      + intros a Hd Hin.
        pose proof (cached_keeps_uncached (pe_model e) (pe_conds e) (pe_store e) (pe_subj e) (pe_pathx e)
                      (pe_maxdepth e) (glook g (q_part q)) fuel (q_obj q) (q_rel q) a Hd Hin) as Hc.
        rewrite Hr in Hc. exact Hc.
      + intros a a' Hd Hd' Hin Hin'.
        apply (cached_never_contradicts (pe_model e) (pe_conds e) (pe_store e) (pe_subj e) (pe_pathx e)
                 (pe_maxdepth e) (glook g (q_part q)) fuel (q_obj q) (q_rel q) a a' fuel O [] Hv Hd Hd').
        * rewrite Hr. exact Hin.
        * exact Hin'.
      + intros a Hd Hin.
        apply (cached_answer_is_uncached_answer (pe_model e) (pe_conds e) (pe_store e) (pe_subj e) (pe_pathx e)
                 (pe_maxdepth e) (glook g (q_part q)) fuel (q_obj q) (q_rel q) a Hv Hd).
        rewrite Hr. exact Hin.
    - intro p. rewrite glook_gset. destruct (N.eqb p (q_part q)) eqn:E; [|apply Hg].
      apply N.eqb_eq in E. subst p. unfold pvalid. fold e.
      pose proof (resolve_top_valid (pe_model e) (pe_conds e) (pe_store e) (pe_subj e) (pe_pathx e)
                    (pe_maxdepth e) true fuel (q_obj q) (q_rel q) (glook g (q_part q)) Hv) as Hc.
      rewrite Hr in Hc. exact Hc.
  Qed.

  (* for every request sequence and every cache whose entries are valid (in particular the empty
     one, and whatever subset of the entries stored so far goroutine order, TTL and eviction left):
     the invariant is kept and every answer is transparent *)
  Theorem history_transparent : forall fuel qs g,
    gvalid g ->
    Forall2 (answers_ok fuel) qs (fst (run_history envs true fuel qs g)) /\
    gvalid (snd (run_history envs true fuel qs g)).
  Proof.
    intros fuel qs. induction qs as [|q qs IH]; intros g Hg; simpl.
    - split; [constructor | exact Hg].
    - destruct (run1_ok fuel q g Hg) as [Ha Hg1].
      destruct (run1 envs true fuel q g) as [s g1] eqn:H1. cbn [fst snd] in *.
      destruct (IH g1 Hg1) as [Hrest Hg2].
      destruct (run_history envs true fuel qs g1) as [ss g2] eqn:H2. cbn [fst snd] in *.
      split; [constructor; assumption | exact Hg2].
  Qed.

  (* with caching disabled the history model is the default-engine model (definite parts) *)
  Theorem history_off_is_V1 : forall fuel qs g,
    Forall2 (fun q s => dv s = dv (uncached fuel (pe_maxdepth (envs (q_part q))) q))
            qs (fst (run_history envs false fuel qs g)).
  Proof.
    intros fuel qs. induction qs as [|q qs IH]; intro g; simpl; [constructor|].
    unfold run1 at 1. set (e := envs (q_part q)).
    destruct (checkS_off_dv (pe_model e) (pe_conds e) (pe_store e) (pe_subj e) (pe_pathx e) (pe_maxdepth e)
                fuel O [] (q_obj q) (q_rel q) (glook g (q_part q)) O I) as [_ [_ [_ [_ He]]]].
    unfold resolve_top, resolve_with.
    destruct (checkS (pe_model e) (pe_conds e) (pe_store e) (pe_subj e) (pe_pathx e) (pe_maxdepth e)
                false fuel O [] (q_obj q) (q_rel q) (glook g (q_part q))) as [[s t] c] eqn:Hc.
    cbn [fst snd] in *.
    specialize (IH (gset g (q_part q) c)).
    destruct (run_history envs false fuel qs (gset g (q_part q) c)) as [ss g2]. cbn [fst snd] in *.
    constructor; [|exact IH].
    unfold uncached, check_top. fold e. rewrite check_dv. exact He.
  Qed.
End HistoryProofs.

(* ================================================================== *)
(* H. the weighted-graph engine's edge cache (abstract model)           *)
(* ================================================================== *)

(* the F3 graph: with the edge cache the second request is answered `false`, without it `true` *)
Theorem v2_edge_cache_refuted_witness :
  v2_run f3_succ f3_hit f3_cyc true false 10 f3_requests [] = Some [true; false] /\
  v2_run f3_succ f3_hit f3_cyc false false 10 f3_requests [] = Some [true; true].
Proof. split; vm_compute; reflexivity. Qed.

Section V2Proofs.
  Variable succ : N -> list N.
  Variable hit : N -> bool.
  Variable cyc : N -> bool.
  Variable cache_on : bool.
  Variable fixed : bool.
  (* either the cache is off, or it is the fixed variant *)
  Hypothesis Hcfg : cache_on = true -> fixed = true.

  Local Notation rh := (reach_hit succ hit).
  Local Notation ev := (eval succ hit cache_on fixed).

  Definition ecache_ok (c : ecache) : Prop :=
    forall n b, elook c n = Some b -> (b = true <-> rh n).

  Lemma ecache_ok_nil : ecache_ok [].
  Proof. intros n b H. discriminate H. Qed.

  Lemma ecache_ok_cons : forall c n b, ecache_ok c -> (b = true <-> rh n) -> ecache_ok ((n, b) :: c).
  Proof.
    intros c n b Hc Hb n' b' Hl. simpl in Hl. destruct (N.eqb n' n) eqn:E; [|exact (Hc n' b' Hl)].
    apply N.eqb_eq in E. subst n'. inversion Hl; subst b'. exact Hb.
  Qed.

  Lemma nmem_In : forall n l, nmem n l = true <-> In n l.
  Proof.
    intros n l. unfold nmem. rewrite existsb_exists. split.
    - intros [x [Hx He]]. apply N.eqb_eq in He. subst x. exact Hx.
    - intro H. exists n. split; [exact H | apply N.eqb_refl].
  Qed.

  Lemma rh_inv : forall n, rh n -> hit n = true \/ exists w, In w (succ n) /\ rh w.
  Proof. intros n H. inversion H; subst; [left; assumption | right; eauto]. Qed.

  (* ---- without a visited set: plain recursion, exact ---- *)
  Definition none_spec (f : nat) : Prop :=
    forall n c r vis' c', ecache_ok c -> ev f n None c = Some (r, vis', c') ->
      ecache_ok c' /\ (r = true <-> rh n).

  Lemma kids_none : forall f, none_spec f ->
    forall l acc c b vis' c', ecache_ok c -> kids (ev f) l acc None c = Some (b, vis', c') ->
      ecache_ok c' /\ (b = true <-> acc = true \/ exists k, In k l /\ rh k).
  Proof.
    intros f Hf. induction l as [|k l IH]; intros acc c b vis' c' Hc Hk; simpl in Hk.
    - inversion Hk; subst. split; [exact Hc|]. split; [auto | intros [H|[k [[] _]]]; exact H].
    - destruct (ev f k None c) as [[[bk vk] ck]|] eqn:Hek; [|discriminate Hk].
      destruct (Hf k c bk vk ck Hc Hek) as [Hck Hbk].
      destruct (IH (acc || bk) ck b vis' c' Hck Hk) as [Hc' Hb].
      split; [exact Hc'|]. rewrite Hb, orb_true_iff, Hbk. split.
      + intros [[H|H]|[k' [Hin Hr]]]; [auto | right; exists k; simpl; auto | right; exists k'; simpl; auto].
      + intros [H|[k' [[Hin|Hin] Hr]]]; [auto | subst k'; auto | right; exists k'; auto].
  Qed.

  Lemma eval_none : forall f, none_spec f.
  Proof.
    induction f as [|f IH]; intros n c r vis' c' Hc He; [discriminate He|].
    cbn [eval] in He.
    destruct (if cache_on then elook c n else None) as [b0|] eqn:Hl.
    - inversion He; subst. destruct cache_on; [|discriminate Hl].
      split; [exact Hc | exact (Hc n r Hl)].
    - destruct (kids (ev f) (succ n) false None c) as [[[b vk] ck]|] eqn:Hk; [|discriminate He].
      inversion He; subst. clear He.
      destruct (kids_none f IH (succ n) false c b vis' ck Hc Hk) as [Hck Hb].
      assert (Hr : hit n || b = true <-> rh n).
      { rewrite orb_true_iff, Hb. split.
        - intros [H|[H|[k [Hin Hr]]]]; [apply rh_hit; exact H | discriminate H | exact (rh_step _ _ n k Hin Hr)].
        - intro H. apply rh_inv in H. destruct H as [H|[w [Hin Hr]]]; [auto | right; right; exists w; auto]. }
      split; [|exact Hr].
      match goal with |- ecache_ok (if ?x then _ else _) => destruct x end; [|exact Hck].
      apply ecache_ok_cons; assumption.
  Qed.

  (* ---- with the shared visited set ---- *)
  (* what is known about a node v once the evaluation returned r with visited set W: either the
     answer already accounts for everything v reaches, or v was expanded (its own hit is in r and
     all its successors are visited) *)
  Definition Q (v : N) (r : bool) (W : list N) : Prop :=
    (rh v -> r = true) \/ ((hit v = true -> r = true) /\ forall w, In w (succ v) -> In w W).

  Lemma Q_mono : forall v r r' W W',
    Q v r W -> (r = true -> r' = true) -> incl W W' -> Q v r' W'.
  Proof.
    intros v r r' W W' [H|[H1 H2]] Hr HW; [left; auto | right; split; [auto | intros w Hw; apply HW, H2, Hw]].
  Qed.

  Definition some_spec (f : nat) : Prop :=
    forall n vs c r vis' c', ecache_ok c -> ev f n (Some vs) c = Some (r, vis', c') ->
      exists vs', vis' = Some vs' /\ incl vs vs' /\ ecache_ok c' /\ (r = true -> rh n) /\
                  Q n r vs' /\ (forall v, In v vs' -> ~ In v vs -> Q v r vs').

  Lemma kids_some : forall f, some_spec f ->
    forall l acc vs c b vis' c', ecache_ok c -> kids (ev f) l acc (Some vs) c = Some (b, vis', c') ->
      exists vs', vis' = Some vs' /\ incl vs vs' /\ ecache_ok c' /\
                  (b = true -> acc = true \/ exists k, In k l /\ rh k) /\ (acc = true -> b = true) /\
                  (forall k, In k l -> In k vs') /\ (forall v, In v vs' -> ~ In v vs -> Q v b vs').
  Proof.
    intros f Hf. induction l as [|k l IH]; intros acc vs c b vis' c' Hc Hk; simpl in Hk.
    - inversion Hk; subst. exists vs. split; [reflexivity|]. split; [apply incl_refl|]. split; [exact Hc|].
      split; [auto|]. split; [auto|]. split; [intros k []|]. intros v Hv Hn. contradiction.
    - destruct (nmem k vs) eqn:Hm.
      + destruct (IH acc vs c b vis' c' Hc Hk) as [vs' [Hv [Hi [Hc' [Hb [Ha [Hl Hq]]]]]]].
        exists vs'. split; [exact Hv|]. split; [exact Hi|]. split; [exact Hc'|].
        split; [intro H; destruct (Hb H) as [H'|[k' [Hin Hr]]]; [auto | right; exists k'; simpl; auto]|].
        split; [exact Ha|]. split; [|exact Hq].
        intros k' [Hk'|Hk']; [subst k'; apply Hi, nmem_In, Hm | apply Hl, Hk'].
      + destruct (ev f k (Some (k :: vs)) c) as [[[bk vk] ck]|] eqn:Hek; [|discriminate Hk].
        destruct (Hf k (k :: vs) c bk vk ck Hc Hek) as [vs1 [Hv1 [Hi1 [Hc1 [Hs1 [Hq1 Hn1]]]]]]. subst vk.
        destruct (IH (acc || bk) vs1 ck b vis' c' Hc1 Hk) as [vs' [Hv [Hi [Hc' [Hb [Ha [Hl Hq]]]]]]].
        assert (Hbk : bk = true -> b = true) by (intro H; apply Ha; rewrite H; apply orb_true_r).
        exists vs'. split; [exact Hv|].
        split; [intros x Hx; apply Hi, Hi1; right; exact Hx|]. split; [exact Hc'|].
        split.
        { intro H. destruct (Hb H) as [H'|[k' [Hin Hr]]].
          - apply orb_true_iff in H'. destruct H' as [H'|H']; [auto | right; exists k; simpl; auto].
          - right; exists k'; simpl; auto. }
        split; [intro H; apply Ha; rewrite H; reflexivity|].
        split; [intros k' [Hk'|Hk']; [subst k'; apply Hi, Hi1; left; reflexivity | apply Hl, Hk']|].
        intros v Hv' Hnv.
        destruct (in_dec N.eq_dec v vs1) as [Hin1|Hnin1]; [|exact (Hq v Hv' Hnin1)].
        (* v became visited during the evaluation of k *)
        destruct (N.eq_dec v k) as [Hvk|Hvk].
        * subst v. apply Q_mono with (r := bk) (W := vs1); [exact Hq1 | exact Hbk | exact Hi].
        * apply Q_mono with (r := bk) (W := vs1); [|exact Hbk | exact Hi].
          apply Hn1; [exact Hin1|]. intros [H|H]; [apply Hvk; symmetry; exact H | exact (Hnv H)].
  Qed.

  Lemma eval_some : forall f, some_spec f.
  Proof.
    induction f as [|f IH]; intros n vs c r vis' c' Hc He; [discriminate He|].
    cbn [eval] in He.
    destruct (if cache_on then elook c n else None) as [b0|] eqn:Hl.
    - inversion He; subst. destruct cache_on; [|discriminate Hl].
      pose proof (Hc n r Hl) as Hr.
      exists vs. split; [reflexivity|]. split; [apply incl_refl|]. split; [exact Hc|].
      split; [apply Hr|]. split; [left; apply Hr|]. intros v Hv Hn. contradiction.
    - destruct (kids (ev f) (succ n) false (Some vs) c) as [[[b vk] ck]|] eqn:Hk; [|discriminate He].
      inversion He; subst. clear He.
      destruct (kids_some f IH (succ n) false vs c b vis' ck Hc Hk) as [vs' [Hv [Hi [Hck [Hb [_ [Hl' Hq]]]]]]].
      assert (Hsound : hit n || b = true -> rh n).
      { intro H. apply orb_true_iff in H. destruct H as [H|H]; [apply rh_hit; exact H|].
        destruct (Hb H) as [H'|[k [Hin Hr]]]; [discriminate H' | exact (rh_step _ _ n k Hin Hr)]. }
      exists vs'. split; [exact Hv|]. split; [exact Hi|].
      split.
      { destruct cache_on eqn:Hon; [|exact Hck]. rewrite (Hcfg eq_refl). simpl.
        rewrite orb_false_r. destruct (hit n || b) eqn:Hr; [|exact Hck].
        apply ecache_ok_cons; [exact Hck|]. split; [intros _; apply Hsound; reflexivity | reflexivity]. }
      split; [exact Hsound|].
      split.
      { right. split; [intro H; rewrite H; reflexivity | exact Hl']. }
      intros v Hv' Hnv. apply Q_mono with (r := b) (W := vs'); [exact (Hq v Hv' Hnv) | | apply incl_refl].
      intro H; rewrite H; apply orb_true_r.
  Qed.

  (* every node of a visited set all of whose members satisfy Q: reaching a hit forces the answer *)
  Lemma Q_closed_complete : forall r W,
    (forall v, In v W -> Q v r W) -> forall v, rh v -> In v W -> r = true.
  Proof.
    intros r W HW v Hr. induction Hr as [v Hh|v w Hw Hr IH]; intro Hin.
    - destruct (HW v Hin) as [H|[H _]]; [apply H; apply rh_hit; exact Hh | exact (H Hh)].
    - destruct (HW v Hin) as [H|[_ H]]; [apply H; exact (rh_step _ _ v w Hw Hr) | exact (IH (H w Hw))].
  Qed.

  (* one request answers reachability, and keeps the cache correct *)
  Theorem request_correct : forall fuel n c b c',
    ecache_ok c -> v2_request succ hit cyc cache_on fixed fuel n c = Some (b, c') ->
    (b = true <-> rh n) /\ ecache_ok c'.
  Proof.
    intros fuel n c b c' Hc Hr. unfold v2_request in Hr.
    destruct (cyc n).
    - destruct (ev fuel n (Some [n]) c) as [[[r vis'] c1]|] eqn:He; [|discriminate Hr].
      inversion Hr; subst. clear Hr.
      destruct (eval_some fuel n [n] c b vis' c' Hc He) as [vs' [_ [Hi [Hc' [Hs [Hq Hn]]]]]].
      split; [|exact Hc']. split; [exact Hs|].
      intro Hrh. apply (Q_closed_complete b vs') with (v := n); [|exact Hrh | apply Hi; left; reflexivity].
      intros v Hv. destruct (N.eq_dec v n) as [E|E]; [subst v; exact Hq|].
      apply Hn; [exact Hv|]. intros [H|[]]. apply E. symmetry. exact H.
    - destruct (ev fuel n None c) as [[[r vis'] c1]|] eqn:He; [|discriminate Hr].
      inversion Hr; subst. clear Hr.
      destruct (eval_none fuel n c b vis' c' Hc He) as [Hc' Hb]. split; assumption.
  Qed.

  Theorem v2_run_correct : forall fuel reqs c bs,
    ecache_ok c -> v2_run succ hit cyc cache_on fixed fuel reqs c = Some bs ->
    Forall2 (fun n b => b = true <-> rh n) reqs bs.
  Proof.
    intros fuel reqs. induction reqs as [|n reqs IH]; intros c bs Hc Hr; simpl in Hr.
    - inversion Hr; subst. constructor.
    - destruct (v2_request succ hit cyc cache_on fixed fuel n c) as [[b c']|] eqn:Hq; [|discriminate Hr].
      destruct (request_correct fuel n c b c' Hc Hq) as [Hb Hc'].
      destruct (v2_run succ hit cyc cache_on fixed fuel reqs c') as [bs'|] eqn:Hrest; [|discriminate Hr].
      inversion Hr; subst. constructor; [exact Hb | exact (IH c' bs' Hc' Hrest)].
  Qed.
End V2Proofs.

(* the fixed variant (store an edge result only when it is `allowed` or was computed without a
   visited set) is transparent: for every graph, every request sequence, every fuel -- whenever
   neither run exhausts its fuel -- the answers with the cache are the answers without it (and
   both are plain reachability) *)
Theorem v2_fixed_transparent : forall succ hit cyc fuel reqs c bs_on bs_off fx,
  ecache_ok succ hit c ->
  v2_run succ hit cyc true true fuel reqs c = Some bs_on ->
  v2_run succ hit cyc false fx fuel reqs [] = Some bs_off ->
  bs_on = bs_off.
Proof.
  intros succ hit cyc fuel reqs c bs_on bs_off fx Hc Hon Hoff.
  assert (H1 := v2_run_correct succ hit cyc true true (fun _ => eq_refl) fuel reqs c bs_on Hc Hon).
  assert (H2 := v2_run_correct succ hit cyc false fx (fun H => False_ind _ (Bool.diff_false_true H))
                  fuel reqs [] bs_off (ecache_ok_nil succ hit) Hoff).
  clear Hon Hoff. revert bs_off H2. induction H1 as [|n b reqs bs Hb Hrest IH]; intros bs_off H2; inversion H2; subst.
  - reflexivity.
  - f_equal; [|apply IH; assumption].
    match goal with Hy : _ = true <-> reach_hit succ hit n |- _ => rename Hy into Hb' end.
    destruct b, y; try reflexivity.
    + symmetry. apply Hb'. apply Hb. reflexivity.
    + apply Hb. apply Hb'. reflexivity.
Qed.

(* ================================================================== *)
(* I. the literal statements, and what refutes them                    *)
(* ================================================================== *)

(* answer of the API: allowed / denied / error class *)
Definition api (a : aout) : N :=
  match a with AT => 0 | AFn | AFc => 1 | AEc => 3 | AEd => 4 | AEo => 5 | AFuel => 6 end.

(* "every answer with the cache is an answer without it", read literally on the models *)
Definition literal_transparent (envs : N -> penv) (fuel : nat) (qs : list request) : Prop :=
  Forall2 (fun s s' : oset => forall a, In a s -> exists a', In a' s' /\ api a = api a')
          (fst (run_history envs true fuel qs [])) (fst (run_history envs false fuel qs [])).

(* D1: a depth-limit error is masked.  types user=1 group=2; relation member=1;
     group.member: [user, group#member]
     group:1#member@group:2#member, group:2#member@group:3#member, group:3#member@user:1
   resolution depth limit 2.  Check(group:2#member@user:1) is allowed (and stored);
   Check(group:1#member@user:1) exceeds the limit without the cache and is allowed with it. *)
Definition d1_model : model :=
  [ {| td_type := 1; td_rels := [] |};
    {| td_type := 2; td_rels := [mk_rel 1 This [mk_restr 1 RObj 0; mk_restr 2 (RSet 1) 0]] |} ].
Definition d1_store : list tuple :=
  [ mk_tuple (mk_obj 2 1) 1 (SSet (mk_obj 2 2) 1) 0 T;
    mk_tuple (mk_obj 2 2) 1 (SSet (mk_obj 2 3) 1) 0 T;
    mk_tuple (mk_obj 2 3) 1 (SObj (mk_obj 1 1)) 0 T ].
Definition d1_env (md : nat) : penv :=
  {| pe_model := d1_model; pe_conds := []; pe_store := d1_store; pe_subj := SObj (mk_obj 1 1);
     pe_pathx := [(2, 1)]; pe_maxdepth := md |}.
Definition d1_requests : list request :=
  [ {| q_part := 0; q_obj := mk_obj 2 2; q_rel := 1 |}; {| q_part := 0; q_obj := mk_obj 2 1; q_rel := 1 |} ].

Lemma d1_runs :
  fst (run_history (fun _ => d1_env 2) true 8 d1_requests []) = [[AT]; [AEd; AT]] /\
  fst (run_history (fun _ => d1_env 2) false 8 d1_requests []) = [[AT]; [AEd]] /\
  fst (run_history (fun _ => d1_env 25) true 8 d1_requests []) = [[AT]; [AT]] /\
  fst (run_history (fun _ => d1_env 25) false 8 d1_requests []) = [[AT]; [AT]].
Proof. repeat split; vm_compute; reflexivity. Qed.

Theorem literal_v1_refuted_depth : exists envs fuel qs, ~ literal_transparent envs fuel qs.
Proof.
  exists (fun _ => d1_env 2), 8%nat, d1_requests. unfold literal_transparent.
  destruct d1_runs as [H1 [H2 _]]. rewrite H1, H2. intro H.
  inversion H as [|x y l l' _ Hrest]; subst. inversion Hrest as [|x' y' l2 l2' Hxy _]; subst.
  destruct (Hxy AT (or_intror (or_introl eq_refl))) as [a' [[Ha|[]] He]]. subst a'. discriminate He.
Qed.

(* the cache content of D1 after the history: the three sub-problems, with their values *)
Lemma d1_cache :
  snd (run_history (fun _ => d1_env 2) true 8 d1_requests []) =
  [(0, [((mk_obj 2 1, 1), true); ((mk_obj 2 2, 1), true); ((mk_obj 2 2, 1), true); ((mk_obj 2 3, 1), true)])].
Proof. vm_compute. reflexivity. Qed.

(* read literally ("the outcome does not depend on the VisitedPaths argument"), path
   independence is false: on a path that contains the sub-problem itself the engine reports
   a cycle *)
Theorem path_independence_literal_refuted :
  exists m conds store subj pathx md f d V V' o r,
    In AT (fst (check m conds store subj pathx md f d V o r)) /\
    ~ In AT (fst (check m conds store subj pathx md f d V' o r)).
Proof.
  exists d1_model, [], d1_store, (SObj (mk_obj 1 1)), [(2, 1)], 25%nat, 8%nat, O, [], [(mk_obj 2 3, 1)], (mk_obj 2 3), 1.
  split; vm_compute; [left; reflexivity | intros [H|[]]; discriminate H].
Qed.

(* the weighted-graph engine's edge cache, on the abstract model *)
Definition v2_literal_transparent (fixed : bool) : Prop :=
  forall succ hit cyc fuel reqs bs_on bs_off,
    v2_run succ hit cyc true fixed fuel reqs [] = Some bs_on ->
    v2_run succ hit cyc false fixed fuel reqs [] = Some bs_off -> bs_on = bs_off.

Theorem v2_literal_refuted : ~ v2_literal_transparent false.
Proof.
  intro H. destruct v2_edge_cache_refuted_witness as [H1 H2].
  specialize (H f3_succ f3_hit f3_cyc 10%nat f3_requests _ _ H1 H2). discriminate H.
Qed.

Theorem v2_literal_fixed : v2_literal_transparent true.
Proof.
  intros succ hit cyc fuel reqs bs_on bs_off Hon Hoff.
  exact (v2_fixed_transparent succ hit cyc fuel reqs [] bs_on bs_off true (ecache_ok_nil succ hit) Hon Hoff).
Qed.

(* non-vacuity of the fixed variant on the F3 graph: the runs complete and agree *)
Lemma v2_fixed_f3 :
  v2_run f3_succ f3_hit f3_cyc true true 10 f3_requests [] = Some [true; true] /\
  v2_run f3_succ f3_hit f3_cyc false true 10 f3_requests [] = Some [true; true].
Proof. split; vm_compute; reflexivity. Qed.

(* ---- the statements of Props/C08.v in the form they are quoted there ---- *)
Lemma history_valid : forall envs fuel qs g,
  gvalid envs g -> gvalid envs (snd (run_history envs true fuel qs g)).
Proof. intros envs fuel qs g Hg. exact (proj2 (history_transparent envs fuel qs g Hg)). Qed.

Lemma history_answers : forall envs fuel qs g,
  gvalid envs g -> Forall2 (answers_ok envs fuel) qs (fst (run_history envs true fuel qs g)).
Proof. intros envs fuel qs g Hg. exact (proj1 (history_transparent envs fuel qs g Hg)). Qed.

Lemma run1_answers : forall envs fuel q g,
  gvalid envs g -> answers_ok envs fuel q (fst (run1 envs true fuel q g)).
Proof. intros envs fuel q g Hg. exact (proj1 (run1_ok envs fuel q g Hg)). Qed.

Lemma check_dv_bounded : forall m conds store subj pathx maxdepth f d V o r,
  dv (fst (check m conds store subj pathx maxdepth f d V o r)) = checkB m conds store subj pathx maxdepth f d V o r /\
  le4 (checkB m conds store subj pathx maxdepth f d V o r) (unfoldB m conds store subj pathx f o r).
Proof. intros; split; [apply check_dv | apply checkB_le_unfoldB]. Qed.

Lemma d1_valid_example :
  gvalid (fun _ => d1_env 2) [] /\
  snd (run_history (fun _ => d1_env 2) true 8 d1_requests []) =
  [(0, [((mk_obj 2 1, 1), true); ((mk_obj 2 2, 1), true); ((mk_obj 2 2, 1), true); ((mk_obj 2 3, 1), true)])].
Proof. split; [apply gvalid_nil | exact d1_cache]. Qed.

Lemma d1_transparent_example :
  fst (run_history (fun _ => d1_env 25) true 8 d1_requests []) = [[AT]; [AT]] /\
  fst (run_history (fun _ => d1_env 25) false 8 d1_requests []) = [[AT]; [AT]].
Proof. destruct d1_runs as [_ [_ [H3 H4]]]. split; assumption. Qed.

Lemma v2_example :
  v2_run f3_succ f3_hit f3_cyc true false 10 f3_requests [] = Some [true; false] /\
  v2_run f3_succ f3_hit f3_cyc false false 10 f3_requests [] = Some [true; true] /\
  v2_run f3_succ f3_hit f3_cyc true true 10 f3_requests [] = Some [true; true].
Proof.
  destruct v2_edge_cache_refuted_witness as [H1 H2]. destruct v2_fixed_f3 as [H3 _].
  split; [exact H1 | split; [exact H2 | exact H3]].
Qed.
