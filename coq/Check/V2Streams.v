(* Failing result streams in the bottom-up strategies of the weighted-graph engine
   (internal/check/bottom_up.go resolveUnion -> weight2.go / recursive.go execute).
   A stream is what successive Next() calls return: values, possibly an error (a datastore failure
   in the middle of the iteration); the end of the list is ErrIteratorDone.
   Abstraction: the order in which the merge emits values and its de-duplication do not matter for
   the decision, so the union's output is the collection of the values it consumed plus its
   `lastError`; the consumer is modelled for the case where it drains both sides (when it stops
   early — a match, or one side empty — it answers the correct decision without having consumed
   the error; the correspondence run accepts that).  Definitions only. *)
From Coq Require Export NArith List Bool.
Export ListNotations.
Open Scope N_scope.

Inductive item := Val (v : N) | Err.
Definition stream := list item.

(* the values obtained before the stream ends or fails, and whether it failed *)
Fixpoint consume (s : stream) : list N * bool :=
  match s with
  | [] => ([], false)
  | Val v :: s' => let '(l, e) := consume s' in (v :: l, e)
  | Err :: _ => ([], true)
  end.

(* resolveUnion: every input stream is advanced until Done or its first error; a non-Done error
   is remembered in lastError (`if batch.handleError(err) { lastError = err }` at EVERY Next) and
   sent after the values when the output is closed *)
Definition union_out (ss : list stream) : list N * bool :=
  (flat_map (fun s => fst (consume s)) ss, existsb (fun s => snd (consume s)) ss).

Inductive decision := Allowed | Denied | Failed.

Definition mem (v : N) (l : list N) : bool := existsb (N.eqb v) l.

(* Weight2.execute / Recursive.execute (first level): a common value of the two sides allows;
   otherwise an error seen on either side is returned; otherwise denied *)
Definition execute (left : list N * bool) (right : stream) : decision :=
  let '(rv, re) := consume right in
  if existsb (fun v => mem v rv) (fst left) then Allowed
  else if snd left || re then Failed
  else Denied.

(* the seeded defect C03-m6, for the refutation example: the union forgets an error that follows
   at least one value of the same stream *)
Definition forgets (s : stream) : bool :=
  match s with Val _ :: _ => false | _ => snd (consume s) end.
Definition union_out_forgetful (ss : list stream) : list N * bool :=
  (flat_map (fun s => fst (consume s)) ss, existsb forgets ss).
