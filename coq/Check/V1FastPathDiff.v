(* fastPathDifference (Check/V1Weight2.diff_loop / diff_tail / drain_loop): on failure-free,
   strictly sorted streams of any chunking and length the loop terminates, sends a strictly
   sorted sequence, and a value is sent iff the base delivers it and the subtracted stream does
   not. *)
From Coq Require Import List NArith Bool Arith Lia Sorting.Sorted.
From OFGA Require Import Check.V1Weight2 Check.V1FastPathBase Check.V1FastPathUnion Check.V1FastPathInter.
Import ListNotations.
Open Scope N_scope.

Lemma fetch_has_buf : forall s, has_buf s -> fetch s = FOk s.
Proof. intros s H. unfold fetch. destruct (buf s) eqn:E; [reflexivity | exfalso; apply H; exact E]. Qed.

Lemma is_done_has_buf : forall s, has_buf s -> is_done s = false.
Proof. intros s H. unfold is_done. destruct (buf s) eqn:E; [apply andb_false_r | exfalso; apply H; exact E]. Qed.

Lemma clean_done_live : forall ss, Forall has_buf ss -> clean_done ss = Some ss.
Proof.
  intros ss H. unfold clean_done.
  assert (Hf : fetch_all ss = Some ss).
  { induction H as [|s r Hs Hr IH]; simpl; [reflexivity|]. rewrite (fetch_has_buf s Hs), IH. reflexivity. }
  rewrite Hf. f_equal. clear Hf.
  induction H as [|s r Hs Hr IH]; simpl; [reflexivity|]. rewrite (is_done_has_buf s Hs). simpl. f_equal. exact IH.
Qed.

(* "drain the base" *)
Lemma drain_loop_correct : forall fuel b ob,
  (msize b < fuel)%nat -> sst_ok b -> has_buf b ->
  drain_loop fuel b ob = FPDone (finish ob ++ flat b).
Proof.
  induction fuel as [|f IH]; intros b ob Hm Hok Hb; [lia|].
  simpl. pose proof Hok as [Hb1 [Hc Hcl]].
  destruct (buf b) as [[l fl]|] eqn:Eb; [|exfalso; apply Hb; exact Eb].
  destruct fl; [contradiction|].
  assert (Hok0 : sst_ok (set_buf b None)).
  { unfold sst_ok, set_buf; simpl. split; [exact I|]. split; assumption. }
  destruct (fetch_ok (set_buf b None) Hok0) as [b2 [Hf [Hok2 [Hfl2 [_ [Hm2 Hn2]]]]]].
  rewrite Hf.
  assert (Hflat : flat b = l ++ flat b2).
  { rewrite Hfl2. unfold flat, buf_vals, set_buf; simpl. rewrite Eb. reflexivity. }
  destruct (is_done b2) eqn:Ed.
  - pose proof (is_done_true b2 Ed) as Hbn. destruct (Hn2 Hbn) as [_ Hf0].
    rewrite finish_emit_many, Hflat, Hf0, app_nil_r. reflexivity.
  - assert (Hb2 : has_buf b2).
    { intros Hbn. destruct (Hn2 Hbn) as [Hc2 _]. unfold is_done in Ed. rewrite Hc2, Hbn in Ed. discriminate. }
    rewrite IH; [| |exact Hok2|exact Hb2].
    + rewrite finish_emit_many, Hflat, app_assoc. reflexivity.
    + assert (msize (set_buf b None) < msize b)%nat.
      { unfold msize, set_buf; simpl. rewrite Eb. lia. }
      lia.
Qed.

Lemma in_app_sorted_tail : forall h l x, ssorted (h :: l) -> In x l -> h < x.
Proof.
  intros h l x Hs Hx. apply ssorted_cons_inv in Hs. destruct Hs as [_ Hall].
  rewrite Forall_forall in Hall. apply Hall. exact Hx.
Qed.

Lemma msize2 : forall b d, measure [b; d] = (S (msize b) + S (msize d))%nat.
Proof. intros. unfold measure. simpl. lia. Qed.

Lemma diff_loop_correct : forall fuel b d ob,
  (measure [b; d] < fuel)%nat -> sst_ok b -> sst_ok d -> idx b = 0%nat -> idx d = 1%nat ->
  ssorted (flat b) -> ssorted (flat d) -> ssorted (finish ob) ->
  (forall a y, In a (finish ob) -> In y (flat b) -> a < y) ->
  exists r, diff_loop fuel [b; d] ob = FPDone r /\ ssorted r /\
            forall x, In x r <-> In x (finish ob) \/ (In x (flat b) /\ ~ In x (flat d)).
Proof.
  induction fuel as [|f IH]; intros b d ob Hm Hokb Hokd Hib Hid Hsb Hsd Hacc Hlt; [lia|].
  cbn [diff_loop length Nat.eqb].
  destruct (fetch_ok b Hokb) as [b1 [Hfb [Hokb1 [Hflb1 [Hib1 [Hmb1 Hnb1]]]]]].
  destruct (fetch_ok d Hokd) as [d1 [Hfd [Hokd1 [Hfld1 [Hid1 [Hmd1 Hnd1]]]]]].
  rewrite msize2 in Hm.
  assert (Hcd : clean_done [b; d] = Some (filter (fun s => negb (is_done s)) [b1; d1])).
  { unfold clean_done, fetch_all. rewrite Hfb, Hfd. reflexivity. }
  rewrite Hcd. cbn [filter].
  assert (Hliveb : is_done b1 = false -> has_buf b1).
  { intros Ed Hbn. destruct (Hnb1 Hbn) as [Hc _]. unfold is_done in Ed. rewrite Hc, Hbn in Ed. discriminate. }
  assert (Hlived : is_done d1 = false -> has_buf d1).
  { intros Ed Hbn. destruct (Hnd1 Hbn) as [Hc _]. unfold is_done in Ed. rewrite Hc, Hbn in Ed. discriminate. }
  rewrite <- Hflb1 in Hsb, Hlt. rewrite <- Hfld1 in Hsd.
  destruct (is_done b1) eqn:Edb; destruct (is_done d1) eqn:Edd; cbn [negb].
  - (* both finished *)
    unfold diff_tail. rewrite (clean_done_live [] ltac:(constructor)).
    exists (finish ob). split; [reflexivity|]. split; [exact Hacc|].
    destruct (Hnb1 (is_done_true b1 Edb)) as [_ Hf0]. rewrite <- Hflb1, Hf0. intros x. simpl. tauto.
  - (* base finished *)
    unfold diff_tail. rewrite (clean_done_live [d1]); [|constructor; [apply Hlived; reflexivity|constructor]].
    rewrite Hid1, Hid. cbn [Nat.eqb].
    exists (finish ob). split; [reflexivity|]. split; [exact Hacc|].
    destruct (Hnb1 (is_done_true b1 Edb)) as [_ Hf0]. rewrite <- Hflb1, Hf0. intros x. simpl. tauto.
  - (* subtracted stream finished: drain the base *)
    unfold diff_tail. rewrite (clean_done_live [b1]); [|constructor; [apply Hliveb; reflexivity|constructor]].
    rewrite Hib1, Hib. cbn [Nat.eqb].
    rewrite (drain_loop_correct f b1 ob); [|lia|exact Hokb1|apply Hliveb; reflexivity].
    exists (finish ob ++ flat b1). split; [reflexivity|]. split.
    + apply ssorted_app; assumption.
    + destruct (Hnd1 (is_done_true d1 Edd)) as [_ Hf0]. rewrite <- Hflb1, <- Hfld1, Hf0.
      intros x. rewrite in_app_iff. simpl. tauto.
  - (* both live *)
    pose proof (Hliveb eq_refl) as Hbb. pose proof (Hlived eq_refl) as Hbd.
    rewrite <- Hflb1, <- Hfld1.
    assert (Hok1 : Forall sst_ok [b1; d1]) by (constructor; [assumption|constructor; [assumption|constructor]]).
    assert (Hb1 : Forall has_buf [b1; d1]) by (constructor; [assumption|constructor; [assumption|constructor]]).
    destruct (heads_ok [b1; d1] Hok1 Hb1) as [[hs [Hh HF]]|[ss2 [Hh [Hok2 [Hfl2 [Hid2 Hm2]]]]]]; rewrite Hh.
    + inversion HF as [|? hb ? hs1 Hhb HF1]; subst. inversion HF1 as [|? hd ? hs2 Hhd HF2]; subst. inversion HF2; subst.
      pose proof (headed_flat b1 hb Hhb) as Hfb1. pose proof (headed_flat d1 hd Hhd) as Hfd1.
      destruct (pop_ok b1 hb Hokb1 Hhb) as [Hpokb [Hpmb Hpib]].
      destruct (pop_ok d1 hd Hokd1 Hhd) as [Hpokd [Hpmd Hpid]].
      destruct (ssorted_flat_head b1 hb Hhb Hsb) as [Hpsb Hpgb].
      destruct (ssorted_flat_head d1 hd Hhd Hsd) as [Hpsd Hpgd].
      rewrite Forall_forall in Hpgb, Hpgd.
      destruct (hb =? hd) eqn:Eeq; [|destruct (hb <? hd) eqn:Elt].
      * (* equal heads: advance both *)
        apply N.eqb_eq in Eeq. subst hd.
        destruct (IH (pop b1) (pop d1) ob) as [r [Hr [Hs Hx]]]; try assumption; try congruence.
        { rewrite msize2. lia. }
        { intros a y Ha Hy. apply Hlt; [exact Ha|]. rewrite Hfb1. right. exact Hy. }
        exists r. split; [exact Hr|]. split; [exact Hs|].
        intros x. rewrite (Hx x), Hfb1, Hfd1. simpl. split.
        -- intros [H|[H1 H2]]; [left; exact H|]. right. split; [right; exact H1|].
           intros [E|H3]; [|apply H2; exact H3]. subst x. specialize (Hpgb hb H1). lia.
        -- intros [H|[[E|H1] H2]]; [left; exact H | exfalso; apply H2; left; exact E |].
           right. split; [exact H1|]. intros H3. apply H2. right. exact H3.
      * (* the base head is not in the subtracted stream: send it *)
        apply N.ltb_lt in Elt.
        destruct (IH (pop b1) d1 (emit hb ob)) as [r [Hr [Hs Hx]]]; try assumption; try congruence.
        { rewrite msize2. lia. }
        { rewrite finish_emit. apply ssorted_app_one; [exact Hacc|].
          apply Forall_forall. intros a Ha. apply Hlt; [exact Ha|]. rewrite Hfb1. left. reflexivity. }
        { intros a y Ha Hy. rewrite finish_emit in Ha. apply in_app_iff in Ha.
          destruct Ha as [Ha|[Ha|[]]].
          - apply Hlt; [exact Ha|]. rewrite Hfb1. right. exact Hy.
          - subst a. apply Hpgb. exact Hy. }
        exists r. split; [exact Hr|]. split; [exact Hs|].
        intros x. rewrite (Hx x), finish_emit, in_app_iff, Hfb1. simpl. split.
        -- intros [[H|[H|[]]]|[H1 H2]]; [left; exact H | | right; split; [right; exact H1 | exact H2]].
           right. split; [left; exact H|]. subst x. rewrite Hfd1. intros [E|H3]; [lia|].
           specialize (Hpgd hb H3). lia.
        -- intros [H|[[E|H1] H2]]; [left; left; exact H | left; right; left; exact E | right; split; assumption].
      * (* the subtracted stream is behind: move it up to the base head *)
        apply N.ltb_ge in Elt. apply N.eqb_neq in Eeq. assert (Hgt : hd < hb) by lia.
        destruct (skip_ok hb d1 Hokd1) as [d2 [Hsk [Hokd2 [Hid2 [[p [Hp Hall]] [Hmd2 Hltd2]]]]]].
        rewrite Hsk.
        destruct (IH b1 d2 ob) as [r [Hr [Hs Hx]]]; try assumption; try congruence.
        { rewrite msize2. specialize (Hltd2 hd Hhd Hgt). lia. }
        { rewrite Hp in Hsd. apply ssorted_app_inv_r in Hsd. exact Hsd. }
        exists r. split; [exact Hr|]. split; [exact Hs|].
        intros x. rewrite (Hx x), Hp. split.
        -- intros [H|[H1 H2]]; [left; exact H|]. right. split; [exact H1|].
           intros H3. apply in_app_iff in H3. destruct H3 as [H3|H3]; [|apply H2; exact H3].
           rewrite Forall_forall in Hall. specialize (Hall x H3).
           pose proof (headed_ge b1 hb x Hhb Hsb H1). lia.
        -- intros [H|[H1 H2]]; [left; exact H|]. right. split; [exact H1|].
           intros H3. apply H2. apply in_app_iff. right. exact H3.
    + (* a buffer ran out: refill and go round again *)
      destruct ss2 as [|b2 [|d2 [|? ?]]]; simpl in Hfl2; try discriminate.
      injection Hfl2 as Hflb2 Hfld2. simpl in Hid2. injection Hid2 as Hib2 Hid2.
      inversion Hok2 as [|? ? Hokb2 Hok2']; subst. inversion Hok2' as [|? ? Hokd2 _]; subst.
      destruct (IH b2 d2 ob) as [r [Hr [Hs Hx]]].
      { rewrite !msize2 in Hm2. rewrite msize2. lia. }
      { exact Hokb2. }
      { exact Hokd2. }
      { congruence. }
      { congruence. }
      { rewrite Hflb2. exact Hsb. }
      { rewrite Hfld2. exact Hsd. }
      { exact Hacc. }
      { rewrite Hflb2. exact Hlt. }
      exists r. split; [exact Hr|]. split; [exact Hs|].
      intros x. rewrite (Hx x), Hflb2, Hfld2. reflexivity.
Qed.

Theorem fp_diff_c_spec : forall base sub,
  stream_clean base = true -> stream_clean sub = true ->
  ssortedb (cvals base) = true -> ssortedb (cvals sub) = true ->
  exists r, fp_diff_c base sub = FPDone r /\ ssortedb r = true /\
            forall x, In x r <-> In x (cvals base) /\ ~ In x (cvals sub).
Proof.
  intros base sub Hcb Hcs Hsb Hss. unfold fp_diff_c.
  assert (Hc : Forall (fun cs => stream_clean cs = true) [base; sub]).
  { constructor; [exact Hcb|constructor; [exact Hcs|constructor]]. }
  destruct (mk_streams_props [base; sub] 0 Hc) as [_ [_ [Hm _]]].
  destruct (mk_stream_ok 0 base Hcb) as [Hokb Hflb].
  destruct (mk_stream_ok 1 sub Hcs) as [Hoks Hfls].
  cbn [mk_streams] in *.
  destruct (diff_loop_correct (streams_size [base; sub]) (mk_stream 0 base) (mk_stream 1 sub) ([], [])) as [r [Hr [Hsr Hx]]].
  - lia.
  - exact Hokb.
  - exact Hoks.
  - reflexivity.
  - reflexivity.
  - rewrite Hflb. apply ssortedb_iff. exact Hsb.
  - rewrite Hfls. apply ssortedb_iff. exact Hss.
  - constructor.
  - intros a y [].
  - exists r. split; [exact Hr|]. split; [apply ssortedb_iff; exact Hsr|].
    intros x. rewrite (Hx x), Hflb, Hfls. simpl. tauto.
Qed.
