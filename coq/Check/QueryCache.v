(* Model of the Check query cache of the default engine (internal/graph/cached_resolver.go in the
   circular resolver chain built by internal/graph/builder.go) on top of the algorithm model
   Check/V1.v.  Definitions only; proofs are in Check/QueryCacheProofs.v.

   What the code does.  The chain is  CachedCheckResolver -> LocalChecker -> (delegate =)
   CachedCheckResolver:  the TOP-LEVEL request and every DISPATCHED sub-problem (userset tuples,
   tuple-to-userset hops) pass through CachedCheckResolver.ResolveCheck; computed usersets are
   resolved by LocalChecker calling itself and never see the cache.  ResolveCheck:
     key  = CheckCacheKey(store, object, relation, user, InvariantCacheKey(store, model, context,
            contextual tuples))                                   (pkg/storage/cache.go)
     hit  (entry present, LastModified after LastCacheInvalidationTime) -> the stored response
     miss -> delegate; an error is returned as is and nothing is stored; a response with
            CycleDetected is returned and NOT stored; every other response is stored.
   Only `allowed` and `denied without cycle` are ever stored.

   How it is modelled.  For one (store, model, context, contextual tuples, user) -- the part of
   the key that is constant during a request -- the cache is a finite map (object, relation) ->
   bool; requests of other users/contexts/models live in other partitions (`gcache`).
   Goroutine scheduling, TTL expiry, LRU eviction and invalidation decide WHICH of the entries
   that may have been stored are actually found.  The model is a collecting semantics:
     - the cache holds every entry that MAY have been stored so far,
     - a lookup that finds an entry yields BOTH the stored value and the outcomes of the
       recomputation (V1 returns outcome SETS; the cached model lifts to sets pointwise),
     - after a sub-problem was evaluated, its `allowed` / `denied without cycle` outcome (if
       it has one) is added to the cache.
   Children are evaluated left to right and ALL of them are evaluated (V1's early exit of a union
   is an optimisation of that model; here later siblings must still leave their entries).
   With `enabled = false` nothing is looked up or stored: that is the uncached engine, and its
   definite outcomes coincide with those of Check/V1.v (QueryCacheProofs.check_nc_dv_V1, history_off_is_V1). *)
From OFGA Require Export Check.V1.
Open Scope N_scope.

Definition cache := list (atom * bool).

Fixpoint clook (c : cache) (k : atom) : option bool :=
  match c with
  | [] => None
  | (k', b) :: c' => if atom_eqb k k' then Some b else clook c' k
  end.

(* outcome of a stored response *)
Definition ob (b : bool) : aout := if b then AT else AFn.
(* outcomes that are stored: allowed, denied with CycleDetected = false *)
Definition definite (a : aout) : bool := match a with AT | AFn => true | _ => false end.

(* what CachedCheckResolver stores after the delegate returned one of the outcomes in s *)
Definition cstore (c : cache) (k : atom) (s : oset) : cache :=
  if omem AT s then (k, true) :: c
  else if omem AFn s then (k, false) :: c
  else c.

Definition M := cache -> res * cache.
Definition ret (x : res) : M := fun c => (x, c).

(* union / intersection of handlers: left to right, state threaded, every handler evaluated *)
Fixpoint union_allS (hs : list M) (c : cache) : res * cache :=
  match hs with
  | [] => (([AFn], notrig), c)
  | h :: hs' =>
      let '((s, t), c1) := h c in
      let '((s', t'), c2) := union_allS hs' c1 in
      ((lift2 union2 s s', tor t t'), c2)
  end.

Fixpoint inter_allS (hs : list M) (c : cache) : res * cache :=
  match hs with
  | [] => (([AT], notrig), c)
  | h :: hs' =>
      let '((s, t), c1) := h c in
      let '((s', t'), c2) := inter_allS hs' c1 in
      ((lift2 inter2 s s', tor t t'), c2)
  end.

Section QC.
  Variable m : model.
  Variable conds : list cid.
  Variable store : list tuple.
  Variable subj : subject.
  Variable pathx : list (tid * rid).
  Variable maxdepth : nat.

  (* checkDirectUsersetTuples, default strategy *)
  Definition usersetS (rd : reldef) (o : obj) (r : rid) (dispatch : obj -> rid -> M) : M := fun c =>
    let rs := rd_restr rd in
    let ts := filter (fun t => valid m conds t && in_userset_restr rs (t_sub t)) (raw_of store o r) in
    match passing ts with
    | [] => ((if has_err ts then ([AEc], notrig) else ([AFn], notrig)), c)
    | ps =>
        let '((s, t), c') := union_allS (flat_map (fun t => match t_sub t with
                                                            | SSet o' r' => [dispatch o' r']
                                                            | _ => [] end) ps) c in
        ((s, tor t {| tr_excl_sub_cycle := false; tr_swallow := has_err ts |}), c')
    end.

  Definition thisS (rd : reldef) (o : obj) (r : rid) (dispatch : obj -> rid -> M) : M :=
    let rs := rd_restr rd in
    union_allS (
      (if directly_related subj rs then [ret (direct_user_tuple m conds store subj o r)] else []) ++
      (if publicly_assignable subj rs then [ret (public_assignable m conds store subj o r)] else []) ++
      (if has_userset_restr rs then [usersetS rd o r dispatch] else [])).

  Definition ttuS (o : obj) (ts c : rid) (dispatch : obj -> rid -> M) : M := fun ca =>
    let tl := filter (valid m conds) (raw_of store o ts) in
    match passing tl with
    | [] => ((if has_err tl then ([AEc], notrig) else ([AFn], notrig)), ca)
    | ps =>
        let '((s, t), ca') := union_allS (flat_map (fun t => match t_sub t with
                                                             | SObj o' => if rel_defined m (otype o') c
                                                                          then [dispatch o' c] else []
                                                             | _ => [] end) ps) ca in
        ((s, tor t {| tr_excl_sub_cycle := false; tr_swallow := has_err tl |}), ca')
    end.

  (* the rewrite evaluator of one LocalChecker.ResolveCheck call *)
  Fixpoint evalS (rd : reldef) (o : obj) (r : rid)
           (dispatch : obj -> rid -> M) (computed : rid -> M) (rw : rewrite) : M :=
    match rw with
    | This => thisS rd o r dispatch
    | Computed r' => computed r'
    | TTU ts c => ttuS o ts c dispatch
    | Union l => union_allS (map (fun x => evalS rd o r dispatch computed x) l)
    | Inter l => inter_allS (map (fun x => evalS rd o r dispatch computed x) l)
    | Diff b s => fun c =>
        let '((sb, tb), c1) := evalS rd o r dispatch computed b c in
        let '((ss, ts), c2) := evalS rd o r dispatch computed s c1 in
        ((lift2 excl2 sb ss,
          tor (tor tb ts) {| tr_excl_sub_cycle := omem AFc ss; tr_swallow := false |}), c2)
    end.

  (* CachedCheckResolver.ResolveCheck around `inner` (the rest of the chain) for sub-problem k *)
  Definition resolve_with (enabled : bool) (inner : M) (k : atom) : M := fun c =>
    if enabled then
      let '((s, t), c') := inner c in
      let c'' := cstore c' k s in
      match clook c k with
      | Some b => ((oadd (ob b) s, t), c'')
      | None => ((s, t), c'')
      end
    else inner c.

  (* LocalChecker.ResolveCheck; dispatches go back to the head of the chain *)
  Fixpoint checkS (enabled : bool) (fuel : nat) (depth : nat) (visited : list atom) (o : obj) (r : rid)
           (c : cache) {struct fuel} : res * cache :=
    match fuel with
    | O => (([AFuel], notrig), c)
    | S f =>
        if Nat.eqb depth maxdepth then (([AEd], notrig), c)
        else if existsb (atom_eqb (o, r)) visited then (([AFc], notrig), c)
        else if subject_eqb subj (SSet o r) then (([AT], notrig), c)
        else
          match get_relation m (otype o) r with
          | None => (([AEo], notrig), c)
          | Some rd =>
              if negb (path_exists pathx (otype o) r) then (([AFn], notrig), c)
              else
                let visited' := (o, r) :: visited in
                evalS rd o r
                  (fun o' r' => resolve_with enabled (checkS enabled f (S depth) visited' o' r') (o', r'))
                  (fun r' => checkS enabled f depth visited' o r')
                  (rd_rw rd) c
          end
    end.

  (* one top-level request: the head of the chain is the cached resolver *)
  Definition resolve_top (enabled : bool) (fuel : nat) (o : obj) (r : rid) : M :=
    resolve_with enabled (checkS enabled fuel O [] o r) (o, r).

  (* the uncached engine in the same form *)
  Definition check_nc (fuel depth : nat) (visited : list atom) (o : obj) (r : rid) : oset :=
    fst (fst (checkS false fuel depth visited o r [])).

  (* the PATH-INDEPENDENT unfolding of a sub-problem: the same evaluator without VisitedPaths and
     without depth counter, h levels deep.  Its definite outcomes (AT / AFn) do not depend on how
     the sub-problem was reached; they define the value a cache entry must have. *)
  Fixpoint unfoldS (h : nat) (o : obj) (r : rid) (c : cache) {struct h} : res * cache :=
    match h with
    | O => (([AFuel], notrig), c)
    | S h' =>
        if subject_eqb subj (SSet o r) then (([AT], notrig), c)
        else
          match get_relation m (otype o) r with
          | None => (([AEo], notrig), c)
          | Some rd =>
              if negb (path_exists pathx (otype o) r) then (([AFn], notrig), c)
              else evalS rd o r (fun o' r' => unfoldS h' o' r') (fun r' => unfoldS h' o r') (rd_rw rd) c
          end
    end.
  Definition unfold (h : nat) (o : obj) (r : rid) : oset := fst (fst (unfoldS h o r [])).

  (* a history of requests of this partition against one shared cache *)
  Fixpoint run_requests (enabled : bool) (fuel : nat) (reqs : list atom) (c : cache) : list oset * cache :=
    match reqs with
    | [] => ([], c)
    | (o, r) :: reqs' =>
        let '((s, _), c1) := resolve_top enabled fuel o r c in
        let '(ss, c2) := run_requests enabled fuel reqs' c1 in
        (s :: ss, c2)
    end.

  (* ---- the dependency graph of sub-problems (for the computed hazard predicate of the
          weighted-graph engine's edge cache, finding F3) ---- *)
  Fixpoint rw_succ (o : obj) (r : rid) (rw : rewrite) : list atom :=
    match rw with
    | This => flat_map (fun t => match t_sub t with SSet o' r' => [(o', r')] | _ => [] end) (raw_of store o r)
    | Computed r' => [(o, r')]
    | TTU ts c => flat_map (fun t => match t_sub t with SObj o' => [(o', c)] | _ => [] end) (raw_of store o ts)
    | Union l | Inter l =>
        (fix go (l : list rewrite) : list atom := match l with [] => [] | x :: l' => rw_succ o r x ++ go l' end) l
    | Diff b s => rw_succ o r b ++ rw_succ o r s
    end.

  Definition succs (a : atom) : list atom :=
    match get_relation m (otype (fst a)) (snd a) with
    | Some rd => rw_succ (fst a) (snd a) (rd_rw rd)
    | None => []
    end.

  Definition amem (a : atom) (l : list atom) : bool := existsb (atom_eqb a) l.

  Fixpoint reach_aux (fuel : nat) (todo seen : list atom) : list atom :=
    match fuel with
    | O => seen
    | S f =>
        match todo with
        | [] => seen
        | a :: todo' =>
            if amem a seen then reach_aux f todo' seen
            else reach_aux f (succs a ++ todo') (a :: seen)
        end
    end.

  (* nodes reachable from a (a included); fuel = number of nodes + edges is enough *)
  Definition reach (fuel : nat) (a : atom) : list atom := reach_aux fuel [a] [].

  (* F3: the weighted-graph engine evaluates the sub-problems of a request under ONE shared
     `visited` set and caches each edge result.  A node n reached by the earlier request `prev`
     can have been evaluated with one of its successors already filtered out when that
     successor is the root itself or has a second predecessor inside the region `prev` explored.
     If the later request `cur` also reaches n, it can find the wrong entry. *)
  Definition v2_visited_hazard (fuel : nat) (prev cur : atom) : bool :=
    let rp := reach fuel prev in
    let rc := reach fuel cur in
    existsb (fun n =>
      amem n rc &&
      existsb (fun s =>
        atom_eqb s prev ||
        existsb (fun p => negb (atom_eqb p n) && amem s (succs p)) rp) (succs n)) rp.
End QC.

(* ---- several partitions (user x model version x context x contextual tuples) over one cache ---- *)
Record penv := {
  pe_model : model; pe_conds : list cid; pe_store : list tuple; pe_subj : subject;
  pe_pathx : list (tid * rid); pe_maxdepth : nat }.

Definition gcache := list (N * cache).

Fixpoint glook (g : gcache) (p : N) : cache :=
  match g with
  | [] => []
  | (p', c) :: g' => if N.eqb p p' then c else glook g' p
  end.

Fixpoint gset (g : gcache) (p : N) (c : cache) : gcache :=
  match g with
  | [] => [(p, c)]
  | (p', c') :: g' => if N.eqb p p' then (p, c) :: g' else (p', c') :: gset g' p c
  end.

Record request := { q_part : N; q_obj : obj; q_rel : rid }.

Section History.
  Variable envs : N -> penv.    (* the partition id determines store, model, context, user *)
  Variable enabled : bool.
  Variable fuel : nat.

  Definition run1 (q : request) (g : gcache) : oset * gcache :=
    let e := envs (q_part q) in
    let '((s, _), c) := resolve_top (pe_model e) (pe_conds e) (pe_store e) (pe_subj e) (pe_pathx e) (pe_maxdepth e)
                          enabled fuel (q_obj q) (q_rel q) (glook g (q_part q)) in
    (s, gset g (q_part q) c).

  Fixpoint run_history (qs : list request) (g : gcache) : list oset * gcache :=
    match qs with
    | [] => ([], g)
    | q :: qs' =>
        let '(s, g1) := run1 q g in
        let '(ss, g2) := run_history qs' g1 in
        (s :: ss, g2)
    end.
End History.
