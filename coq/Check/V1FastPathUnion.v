(* fastPathUnion (Check/V1Weight2.union_loop): on failure-free, strictly sorted streams — any
   number of streams, any chunking, any length — the loop terminates, sends a strictly sorted
   sequence, and a value is sent iff some stream delivers it. *)
From Coq Require Import List NArith Bool Arith Lia Sorting.Sorted.
From OFGA Require Import Check.V1Weight2 Check.V1FastPathBase.
Import ListNotations.
Open Scope N_scope.

Lemma Forall_flat_transfer : forall (P : list N -> Prop) a b,
  map flat a = map flat b -> Forall (fun s => P (flat s)) b -> Forall (fun s => P (flat s)) a.
Proof.
  induction a as [|x a IH]; intros [|y b] H Hb; simpl in *; try discriminate; [constructor|].
  inversion H. inversion Hb; subst. constructor; [congruence|]. apply (IH b); assumption.
Qed.

Lemma Forall_flat_from_In : forall (P : list N -> Prop) ss1 ss,
  (forall s1, In s1 ss1 -> exists s, In s ss /\ flat s = flat s1 /\ idx s = idx s1) ->
  Forall (fun s => P (flat s)) ss -> Forall (fun s => P (flat s)) ss1.
Proof.
  intros P ss1 ss H Hall. apply Forall_forall. intros s1 Hs1.
  destruct (H s1 Hs1) as [s [Hs [Hf _]]]. rewrite <- Hf.
  rewrite Forall_forall in Hall. apply Hall. exact Hs.
Qed.

Lemma min_list_props : forall hs h,
  In (min_list h hs) (h :: hs) /\ Forall (fun x => min_list h hs <= x) (h :: hs).
Proof.
  unfold min_list. induction hs as [|a r IH]; intros h; simpl.
  - split; [left; reflexivity|]. constructor; [lia|constructor].
  - destruct (IH (N.min h a)) as [Hin Hall]. split.
    + destruct Hin as [Hin|Hin]; [|right; right; exact Hin].
      rewrite <- Hin. destruct (N.min_spec h a) as [[_ E]|[_ E]]; rewrite E; [left|right; left]; reflexivity.
    + inversion Hall as [|? ? Hm Hr]; subst.
      constructor; [|constructor; [|exact Hr]]; lia.
Qed.

Lemma ssorted_flat_head : forall s h, headed s h -> ssorted (flat s) ->
  ssorted (flat (pop s)) /\ Forall (fun y => h < y) (flat (pop s)).
Proof.
  intros s h Hh Hs. rewrite (headed_flat s h Hh) in Hs. apply ssorted_cons_inv in Hs. exact Hs.
Qed.

Lemma pop_where_union : forall m ss hs,
  Forall sst_ok ss -> Forall2 headed ss hs -> Forall (fun s => ssorted (flat s)) ss ->
  Forall (fun h => m <= h) hs ->
  Forall sst_ok (pop_where (N.eqb m) ss hs) /\
  Forall (fun s => ssorted (flat s)) (pop_where (N.eqb m) ss hs) /\
  (forall x, In x (allv ss) <-> (x = m /\ In m hs) \/ In x (allv (pop_where (N.eqb m) ss hs))) /\
  Forall (fun y => m < y) (allv (pop_where (N.eqb m) ss hs)) /\
  (measure (pop_where (N.eqb m) ss hs) <= measure ss)%nat /\
  (In m hs -> (measure (pop_where (N.eqb m) ss hs) < measure ss)%nat).
Proof.
  intros m ss hs Hok HF. revert Hok.
  induction HF as [|s h ss hs Hh HF IH]; intros Hok Hsort Hge; cbn [pop_where].
  - split; [constructor|]. split; [constructor|]. split.
    + intros x. simpl. split; [intros []|intros [[_ []]|[]]].
    + split; [constructor|]. split; [lia|intros []].
  - inversion Hok as [|? ? Hs Hr]; subst. inversion Hsort as [|? ? Hss Hsr]; subst.
    inversion Hge as [|? ? Hmh Hger]; subst.
    destruct (IH Hr Hsr Hger) as [I1 [I2 [I3 [I4 [I5 I6]]]]].
    destruct (pop_ok s h Hs Hh) as [Hpok [Hpm _]].
    destruct (ssorted_flat_head s h Hh Hss) as [Hps Hpgt].
    pose proof (headed_flat s h Hh) as Hfl.
    destruct (N.eqb m h) eqn:E.
    + apply N.eqb_eq in E. subst h.
      split; [constructor; assumption|]. split; [constructor; assumption|]. split.
      * intros x. rewrite !allv_cons, !in_app_iff, Hfl. simpl. split.
        -- intros [[H|H]|H].
           ++ left. split; [symmetry; exact H | left; reflexivity].
           ++ right. left. exact H.
           ++ apply I3 in H. destruct H as [[Hx Hm]|H]; [left; split; [exact Hx|right; exact Hm] | right; right; exact H].
        -- intros [[Hx _]|[H|H]].
           ++ left. left. symmetry. exact Hx.
           ++ left. right. exact H.
           ++ right. apply I3. right. exact H.
      * split.
        -- rewrite allv_cons. apply Forall_app. split; assumption.
        -- rewrite !measure_cons. split; [lia|]. intros _. lia.
    + apply N.eqb_neq in E. assert (Hlt : m < h) by lia.
      split; [constructor; assumption|]. split; [constructor; assumption|]. split.
      * intros x. rewrite !allv_cons, !in_app_iff. rewrite (I3 x). simpl.
        split.
        -- intros [Hx|[[Hx Hm]|Hx]]; [right; left; exact Hx | left; split; [exact Hx|right; exact Hm] | right; right; exact Hx].
        -- intros [[Hx [Hm|Hm]]|[Hx|Hx]]; [exfalso; apply E; symmetry; exact Hm | right; left; split; assumption | left; exact Hx | right; right; exact Hx].
      * split.
        -- rewrite allv_cons. apply Forall_app. split; [|exact I4].
           rewrite Hfl. constructor; [exact Hlt|].
           eapply Forall_impl; [|exact Hpgt]. intros y Hy. simpl in Hy. lia.
        -- rewrite !measure_cons. split; [lia|].
           intros [Hm|Hm]; [exfalso; apply E; symmetry; exact Hm|]. specialize (I6 Hm). lia.
Qed.

Lemma Forall2_headed_length : forall ss hs, Forall2 headed ss hs -> length ss = length hs.
Proof. intros ss hs H. induction H; simpl; congruence. Qed.

Lemma union_loop_correct : forall fuel ss ob,
  (measure ss < fuel)%nat -> Forall sst_ok ss -> Forall (fun s => ssorted (flat s)) ss ->
  ssorted (finish ob) -> (forall a y, In a (finish ob) -> In y (allv ss) -> a < y) ->
  exists r, union_loop fuel ss ob = FPDone r /\ ssorted r /\
            forall x, In x r <-> In x (finish ob) \/ In x (allv ss).
Proof.
  induction fuel as [|f IH]; intros ss ob Hm Hok Hsort Hacc Hlt; [lia|].
  simpl. destruct ss as [|s0 ss0].
  - exists (finish ob). split; [reflexivity|]. split; [exact Hacc|]. intros x. simpl. tauto.
  - remember (s0 :: ss0) as ss eqn:Ess.
    destruct (clean_done_ok ss Hok) as [ss1 [Hcd [Hok1 [Hb1 [Hv1 [Hm1 [_ Hin1]]]]]]].
    rewrite Hcd.
    assert (Hsort1 : Forall (fun s => ssorted (flat s)) ss1).
    { apply (Forall_flat_from_In ssorted ss1 ss Hin1 Hsort). }
    destruct (heads_ok ss1 Hok1 Hb1) as [[hs [Hh HF]]|[ss2 [Hh [Hok2 [Hfl2 [_ Hm2]]]]]]; rewrite Hh.
    + destruct hs as [|h hs].
      * (* no stream left *)
        assert (E1 : ss1 = []) by (inversion HF; reflexivity).
        destruct (IH [] ob) as [r [Hr [Hs Hx]]].
        { rewrite Ess in Hm. rewrite measure_cons in Hm. simpl. lia. }
        { constructor. }
        { constructor. }
        { exact Hacc. }
        { intros a y _ []. }
        rewrite E1. exists r. split; [exact Hr|]. split; [exact Hs|].
        intros x. rewrite (Hx x). rewrite <- Hv1, E1. tauto.
      * destruct (min_list_props hs h) as [Hmin_in Hmin_le].
        set (m := min_list h hs) in *.
        destruct (pop_where_union m ss1 (h :: hs) Hok1 HF Hsort1 Hmin_le) as [P1 [P2 [P3 [P4 [P5 P6]]]]].
        assert (Hm_in : In m (allv ss1)). { apply (P3 m). left. split; [reflexivity | exact Hmin_in]. }
        destruct (IH (pop_where (N.eqb m) ss1 (h :: hs)) (emit m ob)) as [r [Hr [Hs Hx]]].
        { specialize (P6 Hmin_in). lia. }
        { exact P1. }
        { exact P2. }
        { rewrite finish_emit. apply ssorted_app_one; [exact Hacc|].
          apply Forall_forall. intros a Ha. apply Hlt; [exact Ha|]. rewrite <- Hv1. exact Hm_in. }
        { intros a y Ha Hy. rewrite finish_emit in Ha. apply in_app_iff in Ha.
          destruct Ha as [Ha|[Ha|[]]].
          - apply Hlt; [exact Ha|]. rewrite <- Hv1. apply (P3 y). right. exact Hy.
          - subst a. rewrite Forall_forall in P4. apply P4. exact Hy. }
        exists r. split; [exact Hr|]. split; [exact Hs|].
        intros x. rewrite (Hx x), finish_emit, in_app_iff. rewrite <- Hv1. rewrite (P3 x). simpl.
        split.
        -- intros [[Hx1|[Hx1|[]]]|Hx1]; [left; exact Hx1 | right; left; split; [symmetry; exact Hx1 | exact Hmin_in] | right; right; exact Hx1].
        -- intros [Hx1|[[Hx1 _]|Hx1]]; [left; left; exact Hx1 | left; right; left; symmetry; exact Hx1 | right; exact Hx1].
    + destruct (IH ss2 ob) as [r [Hr [Hs Hx]]].
      { lia. }
      { exact Hok2. }
      { apply (Forall_flat_transfer ssorted ss2 ss1 Hfl2 Hsort1). }
      { exact Hacc. }
      { intros a y Ha Hy. apply Hlt; [exact Ha|]. rewrite <- Hv1, <- (allv_map_flat _ _ Hfl2). exact Hy. }
      exists r. split; [exact Hr|]. split; [exact Hs|].
      intros x. rewrite (Hx x). rewrite (allv_map_flat _ _ Hfl2), Hv1. tauto.
Qed.

Lemma in_allv_cvals : forall css i x, Forall (fun cs => stream_clean cs = true) css ->
  (In x (allv (mk_streams i css)) <-> exists cs, In cs css /\ In x (cvals cs)).
Proof.
  intros css i x Hc. destruct (mk_streams_props css i Hc) as [_ [Hfl _]].
  unfold allv. rewrite flat_map_concat_map, Hfl, <- flat_map_concat_map.
  rewrite in_flat_map. reflexivity.
Qed.

(* the chunked statement: any number of streams, any chunking *)
Theorem fp_union_c_spec : forall css,
  Forall (fun cs => stream_clean cs = true) css ->
  Forall (fun cs => ssortedb (cvals cs) = true) css ->
  exists r, fp_union_c css = FPDone r /\ ssortedb r = true /\
            forall x, In x r <-> exists cs, In cs css /\ In x (cvals cs).
Proof.
  intros css Hc Hs. unfold fp_union_c.
  destruct (mk_streams_props css 0 Hc) as [Hok [Hfl [Hm _]]].
  destruct (union_loop_correct (streams_size css) (mk_streams 0 css) ([], [])) as [r [Hr [Hsr Hx]]].
  - lia.
  - exact Hok.
  - apply Forall_forall. intros s Hs1.
    assert (Hin : In (flat s) (map flat (mk_streams 0 css))) by (apply in_map; exact Hs1).
    rewrite Hfl in Hin. apply in_map_iff in Hin. destruct Hin as [cs [Hcs Hin]].
    rewrite <- Hcs. apply ssortedb_iff. rewrite Forall_forall in Hs. apply Hs. exact Hin.
  - constructor.
  - intros a y [].
  - exists r. split; [exact Hr|]. split; [apply ssortedb_iff; exact Hsr|].
    intros x. rewrite (Hx x). rewrite (in_allv_cvals css 0 x Hc). simpl. tauto.
Qed.
