(* fastPathIntersection (Check/V1Weight2.inter_loop): on failure-free, strictly sorted streams —
   at least one operand, any chunking, any length — the loop terminates, sends a strictly
   sorted sequence, and a value is sent iff every stream delivers it. *)
From Coq Require Import List NArith Bool Arith Lia Sorting.Sorted.
From OFGA Require Import Check.V1Weight2 Check.V1FastPathBase Check.V1FastPathUnion.
Import ListNotations.
Open Scope N_scope.

Definition in_all (x : N) (ss : list sst) : Prop := forall s, In s ss -> In x (flat s).

Lemma in_all_map_flat : forall x a b, map flat a = map flat b -> (in_all x a <-> in_all x b).
Proof.
  intros x a b H. unfold in_all. split; intros Hall s Hs.
  - destruct (In_map_flat_transfer b a s (eq_sym H) Hs) as [s' [Hs' Hf]]. rewrite <- Hf. apply Hall. exact Hs'.
  - destruct (In_map_flat_transfer a b s H Hs) as [s' [Hs' Hf]]. rewrite <- Hf. apply Hall. exact Hs'.
Qed.

Lemma max_list_props : forall hs h,
  In (max_list h hs) (h :: hs) /\ Forall (fun x => x <= max_list h hs) (h :: hs).
Proof.
  unfold max_list. induction hs as [|a r IH]; intros h; simpl.
  - split; [left; reflexivity|]. constructor; [lia|constructor].
  - destruct (IH (N.max h a)) as [Hin Hall]. split.
    + destruct Hin as [Hin|Hin]; [|right; right; exact Hin].
      rewrite <- Hin. destruct (N.max_spec h a) as [[_ E]|[_ E]]; rewrite E; [right; left|left]; reflexivity.
    + inversion Hall as [|? ? Hm Hr]; subst.
      constructor; [|constructor; [|exact Hr]]; lia.
Qed.

Lemma in_allv : forall x ss, In x (allv ss) <-> exists s, In s ss /\ In x (flat s).
Proof. intros. unfold allv. apply in_flat_map. Qed.

(* all heads equal mx: every stream is advanced *)
Lemma pop_all_inter : forall mx ss hs,
  Forall sst_ok ss -> Forall2 headed ss hs -> Forall (fun s => ssorted (flat s)) ss ->
  Forall (fun h => h = mx) hs ->
  Forall sst_ok (map pop ss) /\ Forall (fun s => ssorted (flat s)) (map pop ss) /\
  (forall x, in_all x ss <-> (ss = [] \/ x = mx \/ (x <> mx /\ in_all x (map pop ss))) /\ in_all x ss) /\
  (forall x, x <> mx -> (in_all x ss <-> in_all x (map pop ss))) /\
  (ss <> [] -> in_all mx ss) /\
  Forall (fun y => mx < y) (allv (map pop ss)) /\
  (measure (map pop ss) + length ss = measure ss)%nat.
Proof.
  intros mx ss hs Hok HF. revert Hok.
  induction HF as [|s h ss hs Hh HF IH]; intros Hok Hsort Heq; cbn [map].
  - split; [constructor|]. split; [constructor|]. split; [intros x; split; [intros H; split; [left; reflexivity|exact H] | intros [_ H]; exact H]|].
    split; [intros x _; reflexivity|]. split; [intros H; exfalso; apply H; reflexivity|].
    split; [constructor|]. reflexivity.
  - inversion Hok as [|? ? Hs Hr]; subst. inversion Hsort as [|? ? Hss Hsr]; subst.
    inversion Heq as [|? ? Hhm Heqr]; subst.
    destruct (IH Hr Hsr Heqr) as [I1 [I2 [_ [I4 [I5 [I6 I7]]]]]].
    destruct (pop_ok s mx Hs Hh) as [Hpok [Hpm _]].
    destruct (ssorted_flat_head s mx Hh Hss) as [Hps Hpgt].
    pose proof (headed_flat s mx Hh) as Hfl.
    split; [constructor; assumption|]. split; [constructor; assumption|].
    split.
    { intros x. split; [intros H; split; [|exact H] | intros [_ H]; exact H].
      destruct (N.eq_dec x mx) as [E|E]; [right; left; exact E|].
      right. right. split; [exact E|].
      intros s' [Hs'|Hs'].
      - subst s'. specialize (H s (or_introl eq_refl)). rewrite Hfl in H. destruct H as [H|H]; [exfalso; apply E; symmetry; exact H | exact H].
      - apply (proj1 (I4 x E)); [|exact Hs']. intros s2 Hs2. apply H. right. exact Hs2. }
    split.
    { intros x E. split; intros H s' [Hs'|Hs'].
      - subst s'. specialize (H s (or_introl eq_refl)). rewrite Hfl in H. destruct H as [H|H]; [exfalso; apply E; symmetry; exact H | exact H].
      - apply (proj1 (I4 x E)); [|exact Hs']. intros s2 Hs2. apply H. right. exact Hs2.
      - subst s'. rewrite Hfl. right. apply H. left. reflexivity.
      - apply (proj2 (I4 x E)); [|exact Hs']. intros s2 Hs2. apply H. right. exact Hs2. }
    split.
    { intros _ s' [Hs'|Hs'].
      - subst s'. rewrite Hfl. left. reflexivity.
      - destruct ss as [|s1 ss1]; [contradiction|]. apply I5; [discriminate | exact Hs']. }
    split.
    { change (allv (pop s :: map pop ss)) with (flat (pop s) ++ allv (map pop ss)).
      apply Forall_app. split; assumption. }
    rewrite !measure_cons. cbn [length]. lia.
Qed.

(* the relation established by skip_all *)
Definition skipped (mx : N) (s s' : sst) : Prop :=
  sst_ok s' /\ (exists p, flat s = p ++ flat s' /\ Forall (fun a => a < mx) p) /\
  (msize s' <= msize s)%nat /\ (forall h, headed s h -> h < mx -> (msize s' < msize s)%nat).

Lemma skip_all_ok : forall mx ss, Forall sst_ok ss ->
  exists ss2, skip_all mx ss = Some ss2 /\ Forall2 (skipped mx) ss ss2.
Proof.
  induction ss as [|s r IH]; intros Hok; simpl.
  - exists []. split; [reflexivity | constructor].
  - inversion Hok as [|? ? Hs Hr]; subst.
    destruct (skip_ok mx s Hs) as [s' [Hsk [Hok' [_ [Hp [Hm Hlt]]]]]].
    destruct (IH Hr) as [r' [Hr' HF]].
    exists (s' :: r'). rewrite Hsk, Hr'. split; [reflexivity|].
    constructor; [|exact HF]. split; [exact Hok'|]. split; [exact Hp|]. split; assumption.
Qed.

Lemma skipped_props : forall mx ss ss2 hs,
  Forall2 (skipped mx) ss ss2 -> Forall2 headed ss hs -> Forall (fun s => ssorted (flat s)) ss ->
  Forall sst_ok ss2 /\ Forall (fun s => ssorted (flat s)) ss2 /\ length ss2 = length ss /\
  (forall y, In y (allv ss2) -> In y (allv ss)) /\
  (forall x, mx <= x -> (in_all x ss <-> in_all x ss2)) /\
  (forall x, in_all x ss2 -> in_all x ss) /\
  (measure ss2 <= measure ss)%nat /\
  ((exists h, In h hs /\ h < mx) -> (measure ss2 < measure ss)%nat).
Proof.
  intros mx ss ss2 hs HS. revert hs.
  induction HS as [|s s' ss ss2 [Hok' [[p [Hp Hall]] [Hm Hlt]]] HS IH]; intros hs HF Hsort.
  - inversion HF; subst.
    split; [constructor|]. split; [constructor|]. split; [reflexivity|].
    split; [intros y []|]. split; [intros x _; reflexivity|]. split; [intros x H; exact H|].
    split; [lia|]. intros [h [[] _]].
  - inversion HF as [|? h ? hs' Hh HF']; subst. inversion Hsort as [|? ? Hss Hsr]; subst.
    destruct (IH hs' HF' Hsr) as [I1 [I2 [I3 [I4 [I5 [I6 [I7 I8]]]]]]].
    split; [constructor; assumption|].
    split.
    { constructor; [|exact I2]. rewrite Hp in Hss. apply ssorted_app_inv_r in Hss. exact Hss. }
    split; [simpl; congruence|].
    split.
    { intros y Hy. rewrite allv_cons in *. apply in_app_iff in Hy. apply in_app_iff.
      destruct Hy as [Hy|Hy]; [left; rewrite Hp; apply in_app_iff; right; exact Hy | right; apply I4; exact Hy]. }
    split.
    { intros x Hx. split; intros H s0 [Hs0|Hs0].
      - subst s0. specialize (H s (or_introl eq_refl)). rewrite Hp in H. apply in_app_iff in H.
        destruct H as [H|H]; [|exact H]. rewrite Forall_forall in Hall. specialize (Hall x H). lia.
      - apply (proj1 (I5 x Hx)); [|exact Hs0]. intros s1 Hs1. apply H. right. exact Hs1.
      - subst s0. rewrite Hp. apply in_app_iff. right. apply H. left. reflexivity.
      - apply (proj2 (I5 x Hx)); [|exact Hs0]. intros s1 Hs1. apply H. right. exact Hs1. }
    split.
    { intros x H s0 [Hs0|Hs0].
      - subst s0. rewrite Hp. apply in_app_iff. right. apply H. left. reflexivity.
      - apply I6; [|exact Hs0]. intros s1 Hs1. apply H. right. exact Hs1. }
    rewrite !measure_cons. split; [lia|].
    intros [h0 [[Hh0|Hh0] Hlt0]].
    + subst h0. specialize (Hlt h Hh Hlt0). lia.
    + assert (Hx : (measure ss2 < measure ss)%nat) by (apply I8; exists h0; split; assumption). lia.
Qed.

Lemma forallb_eqb_false : forall mx hs, forallb (N.eqb mx) hs = false -> Forall (fun x => x <= mx) hs ->
  exists h, In h hs /\ h < mx.
Proof.
  induction hs as [|a r IH]; simpl; intros H Hall; [discriminate|].
  inversion Hall as [|? ? Ha Hr]; subst.
  destruct (N.eqb mx a) eqn:E; simpl in H.
  - destruct (IH H Hr) as [h [Hh Hlt]]. exists h. split; [right; exact Hh | exact Hlt].
  - apply N.eqb_neq in E. exists a. split; [left; reflexivity | lia].
Qed.

Lemma forallb_eqb_true : forall mx hs, forallb (N.eqb mx) hs = true -> Forall (fun h => h = mx) hs.
Proof.
  induction hs as [|a r IH]; simpl; intros H; [constructor|].
  apply andb_true_iff in H. destruct H as [Ha Hr]. apply N.eqb_eq in Ha.
  constructor; [symmetry; exact Ha | apply IH; exact Hr].
Qed.

Lemma headed_ge : forall s h x, headed s h -> ssorted (flat s) -> In x (flat s) -> h <= x.
Proof.
  intros s h x Hh Hs Hx. rewrite (headed_flat s h Hh) in Hs, Hx.
  apply ssorted_cons_inv in Hs. destruct Hs as [_ Hall]. destruct Hx as [Hx|Hx]; [lia|].
  rewrite Forall_forall in Hall. specialize (Hall x Hx). lia.
Qed.

Lemma Forall2_headed_In : forall ss hs h, Forall2 headed ss hs -> In h hs -> exists s, In s ss /\ headed s h.
Proof.
  intros ss hs h HF. induction HF as [|s h0 ss hs Hh HF IH]; intros Hin; [contradiction|].
  destruct Hin as [Hin|Hin].
  - subst. exists s. split; [left; reflexivity | exact Hh].
  - destruct (IH Hin) as [s0 [Hs0 Hh0]]. exists s0. split; [right; exact Hs0 | exact Hh0].
Qed.

Lemma inter_loop_correct : forall fuel total ss ob,
  (measure ss < fuel)%nat -> (0 < total)%nat ->
  Forall sst_ok ss -> Forall (fun s => ssorted (flat s)) ss ->
  ssorted (finish ob) -> (forall a y, In a (finish ob) -> In y (allv ss) -> a < y) ->
  exists r, inter_loop fuel total ss ob = FPDone r /\ ssorted r /\
            forall x, In x r <-> In x (finish ob) \/ (length ss = total /\ in_all x ss).
Proof.
  induction fuel as [|f IH]; intros total ss ob Hm Htot Hok Hsort Hacc Hlt; [lia|].
  simpl. destruct (Nat.eqb (length ss) total) eqn:Elen; simpl.
  2:{ apply Nat.eqb_neq in Elen. exists (finish ob). split; [reflexivity|]. split; [exact Hacc|].
      intros x. split; [intros H; left; exact H | intros [H|[H _]]; [exact H | contradiction]]. }
  apply Nat.eqb_eq in Elen.
  destruct (clean_done_ok ss Hok) as [ss1 [Hcd [Hok1 [Hb1 [Hv1 [Hm1 [Hlen1 Hin1]]]]]]].
  rewrite Hcd.
  destruct (Nat.eqb (length ss1) total) eqn:Elen1; simpl.
  2:{ apply Nat.eqb_neq in Elen1. exists (finish ob). split; [reflexivity|]. split; [exact Hacc|].
      intros x. split; [intros H; left; exact H|]. intros [H|[_ H]]; [exact H|].
      destruct Hlen1 as [Hl|[_ [s [Hs Hfs]]]]; [congruence|].
      specialize (H s Hs). rewrite Hfs in H. contradiction. }
  apply Nat.eqb_eq in Elen1.
  destruct (clean_done_same_len ss ss1 Hok Hcd ltac:(congruence)) as [Hfl1 _].
  assert (Hsort1 : Forall (fun s => ssorted (flat s)) ss1).
  { apply (Forall_flat_transfer ssorted ss1 ss Hfl1 Hsort). }
  assert (Hall1 : forall x, in_all x ss <-> in_all x ss1).
  { intros x. symmetry. apply in_all_map_flat. exact Hfl1. }
  destruct (heads_ok ss1 Hok1 Hb1) as [[hs [Hh HF]]|[ss2 [Hh [Hok2 [Hfl2 [_ Hm2]]]]]]; rewrite Hh.
  - destruct hs as [|h hs].
    { inversion HF; subst. simpl in Elen1. lia. }
    destruct (max_list_props hs h) as [Hmax_in Hmax_le].
    set (mx := max_list h hs) in *.
    destruct (Forall2_headed_In ss1 (h :: hs) mx HF Hmax_in) as [s0 [Hs0 Hh0]].
    assert (Hne : ss1 <> []). { intros E. rewrite E in Hs0. contradiction. }
    change ((mx =? h) && forallb (N.eqb mx) hs)%bool with (forallb (N.eqb mx) (h :: hs)).
    destruct (forallb (N.eqb mx) (h :: hs)) eqn:Eall.
    + (* all heads equal: emit, advance every stream *)
      pose proof (forallb_eqb_true mx (h :: hs) Eall) as Heq.
      destruct (pop_all_inter mx ss1 (h :: hs) Hok1 HF Hsort1 Heq) as [P1 [P2 [_ [P4 [P5 [P6 P7]]]]]].
      assert (Hmx_in : In mx (allv ss1)).
      { apply in_allv. exists s0. split; [exact Hs0|]. rewrite (headed_flat s0 mx Hh0). left. reflexivity. }
      destruct (IH total (map pop ss1) (emit mx ob)) as [r [Hr [Hs Hx]]].
      { assert (Hl : (0 < length ss1)%nat) by (destruct ss1; [contradiction | simpl; lia]). lia. }
      { exact Htot. }
      { exact P1. }
      { exact P2. }
      { rewrite finish_emit. apply ssorted_app_one; [exact Hacc|].
        apply Forall_forall. intros a Ha. apply Hlt; [exact Ha|]. rewrite <- Hv1. exact Hmx_in. }
      { intros a y Ha Hy. rewrite finish_emit in Ha. apply in_app_iff in Ha.
        destruct Ha as [Ha|[Ha|[]]].
        - apply Hlt; [exact Ha|]. rewrite <- Hv1. apply in_allv in Hy. destruct Hy as [s' [Hs' Hy]].
          apply in_map_iff in Hs'. destruct Hs' as [s1 [Hps Hs1]]. subst s'.
          apply in_allv. exists s1. split; [exact Hs1|].
          destruct (Forall2_headed_In ss1 (h :: hs) mx HF Hmax_in) as [_ _].
          assert (Hhd : exists h1, headed s1 h1).
          { clear - HF Hs1. induction HF as [|sa ha ssa hsa Hha HFa IHa]; [contradiction|].
            destruct Hs1 as [E|Hs1]; [subst; exists ha; exact Hha | apply IHa; exact Hs1]. }
          destruct Hhd as [h1 Hh1]. rewrite (headed_flat s1 h1 Hh1). right. exact Hy.
        - subst a. rewrite Forall_forall in P6. apply P6. exact Hy. }
      exists r. split; [exact Hr|]. split; [exact Hs|].
      intros x. rewrite (Hx x), finish_emit, in_app_iff, map_length. simpl.
      rewrite (Hall1 x).
      destruct (N.eq_dec x mx) as [E|E].
      * subst x. split; [intros _|intros _; left; right; left; reflexivity].
        right. split; [exact Elen|]. apply P5. exact Hne.
      * rewrite <- (P4 x E). split.
        -- intros [[H|[H|[]]]|[_ H]]; [left; exact H | exfalso; apply E; symmetry; exact H | right; split; [exact Elen | exact H]].
        -- intros [H|[_ H]]; [left; left; exact H | right; split; [exact Elen1 | exact H]].
    + (* move every stream up to the maximum *)
      destruct (skip_all_ok mx ss1 Hok1) as [ss2 [Hsk HS]]. rewrite Hsk.
      destruct (skipped_props mx ss1 ss2 (h :: hs) HS HF Hsort1) as [S1 [S2 [S3 [S4 [S5 [S6 [S7 S8]]]]]]].
      destruct (IH total ss2 ob) as [r [Hr [Hs Hx]]].
      { assert ((measure ss2 < measure ss1)%nat) by (apply S8; apply forallb_eqb_false; assumption). lia. }
      { exact Htot. }
      { exact S1. }
      { exact S2. }
      { exact Hacc. }
      { intros a y Ha Hy. apply Hlt; [exact Ha|]. rewrite <- Hv1. apply S4. exact Hy. }
      exists r. split; [exact Hr|]. split; [exact Hs|].
      intros x. rewrite (Hx x), (Hall1 x). split.
      * intros [H|[_ H]]; [left; exact H | right; split; [exact Elen | apply S6; exact H]].
      * intros [H|[_ H]]; [left; exact H|]. right. split; [congruence|].
        apply (proj1 (S5 x (headed_ge s0 mx x Hh0 ltac:(rewrite Forall_forall in Hsort1; apply Hsort1; exact Hs0) (H s0 Hs0)))). exact H.
  - destruct (IH total ss2 ob) as [r [Hr [Hs Hx]]].
    { lia. }
    { exact Htot. }
    { exact Hok2. }
    { apply (Forall_flat_transfer ssorted ss2 ss1 Hfl2 Hsort1). }
    { exact Hacc. }
    { intros a y Ha Hy. apply Hlt; [exact Ha|]. rewrite <- Hv1, <- (allv_map_flat _ _ Hfl2). exact Hy. }
    exists r. split; [exact Hr|]. split; [exact Hs|].
    intros x. rewrite (Hx x), (Hall1 x), (in_all_map_flat x ss2 ss1 Hfl2).
    assert (Hl2 : length ss2 = length ss1).
    { rewrite <- (map_length flat ss2), Hfl2, map_length. reflexivity. }
    rewrite Hl2, Elen1, Elen. reflexivity.
Qed.

Theorem fp_inter_c_spec : forall css,
  css <> [] ->
  Forall (fun cs => stream_clean cs = true) css ->
  Forall (fun cs => ssortedb (cvals cs) = true) css ->
  exists r, fp_inter_c css = FPDone r /\ ssortedb r = true /\
            forall x, In x r <-> forall cs, In cs css -> In x (cvals cs).
Proof.
  intros css Hne Hc Hs. unfold fp_inter_c.
  destruct (mk_streams_props css 0 Hc) as [Hok [Hfl [Hm Hlen]]].
  destruct (inter_loop_correct (streams_size css) (length css) (mk_streams 0 css) ([], [])) as [r [Hr [Hsr Hx]]].
  - lia.
  - destruct css; [contradiction | simpl; lia].
  - exact Hok.
  - apply Forall_forall. intros s Hs1.
    assert (Hin : In (flat s) (map flat (mk_streams 0 css))) by (apply in_map; exact Hs1).
    rewrite Hfl in Hin. apply in_map_iff in Hin. destruct Hin as [cs [Hcs Hin]].
    rewrite <- Hcs. apply ssortedb_iff. rewrite Forall_forall in Hs. apply Hs. exact Hin.
  - constructor.
  - intros a y [].
  - exists r. split; [exact Hr|]. split; [apply ssortedb_iff; exact Hsr|].
    intros x. rewrite (Hx x). simpl. split.
    + intros [[]|[_ H]] cs Hcs.
      assert (Hin : In (cvals cs) (map flat (mk_streams 0 css))) by (rewrite Hfl; apply in_map; exact Hcs).
      apply in_map_iff in Hin. destruct Hin as [s [Hfs Hs1]]. rewrite <- Hfs. apply H. exact Hs1.
    + intros H. right. split; [exact Hlen|]. intros s Hs1.
      assert (Hin : In (flat s) (map flat (mk_streams 0 css))) by (apply in_map; exact Hs1).
      rewrite Hfl in Hin. apply in_map_iff in Hin. destruct Hin as [cs [Hcs Hin]].
      rewrite <- Hcs. apply H. exact Hin.
Qed.
