(* A small abstract model of the weighted-graph engine's edge cache (internal/check/check.go:
   ResolveUnionEdges / ResolveRecursive, isCached, `r.cache.Set(id, entry, ttl)` after
   `ResolveEdge(ctx, req, edge, visited)`), for finding F3.  Definitions only; proofs are in
   Check/QueryCacheProofs.v.

   What the code does.  When the requested node is part of a tuple cycle or of a recursive
   relation, ResolveUnion creates ONE `visited` set for the whole request; every iterator built
   below it (buildIterator) drops the usersets that are already in the set and adds the ones it
   yields (BuildUniqueTupleKeyFilter): each object#relation is expanded at most once per
   request, whichever path reaches it first.  That is sound for the answer of the request (plain
   reachability), but the result of an inner node is then only "reachable WITHOUT the nodes
   already visited".  ResolveUnionEdges nevertheless stores every edge result under a key that
   does not mention `visited` (EdgeCacheKey: store, model, object, user, edge, invariant), and a
   later request for the inner node finds it.

   Abstraction.  Nodes are numbers (one node = object#relation with its outgoing edge for the
   request's user type); `succ n` = the usersets the iterator of n yields, `hit n` = the user is
   directly related to n, `cyc n` = n is part of a tuple cycle / recursive relation (the request
   rooted at n runs with a visited set; it is inherited by everything below the root).
   Evaluation is sequential and exhaustive (no short circuit): one possible schedule of the
   concurrent code.  Fuel exhaustion is explicit (None).
   `fixed = false` is the code as it is; `fixed = true` is the proposed fix: store an edge result
   only when it was computed without a visited set (`visited == nil`) or when it is `allowed`. *)
From Coq Require Export NArith List Bool.
Export ListNotations.
Open Scope N_scope.

Definition ecache := list (N * bool).

Fixpoint elook (c : ecache) (n : N) : option bool :=
  match c with
  | [] => None
  | (n', b) :: c' => if N.eqb n n' then Some b else elook c' n
  end.

Definition nmem (n : N) (l : list N) : bool := existsb (N.eqb n) l.

Definition vstate := option (list N).     (* None = `visited == nil` *)
Definition eres := option (bool * vstate * ecache).

Section V2.
  Variable succ : N -> list N.
  Variable hit : N -> bool.
  Variable cyc : N -> bool.
  Variable cache_on : bool.
  Variable fixed : bool.

  (* the iterator of one node: already-visited usersets are filtered out, the others are marked
     and evaluated *)
  Fixpoint kids (ev : N -> vstate -> ecache -> eres) (l : list N) (acc : bool) (vis : vstate) (c : ecache) : eres :=
    match l with
    | [] => Some (acc, vis, c)
    | k :: l' =>
        match vis with
        | Some vs =>
            if nmem k vs then kids ev l' acc vis c
            else match ev k (Some (k :: vs)) c with
                 | None => None
                 | Some (b, vis', c') => kids ev l' (acc || b) vis' c'
                 end
        | None =>
            match ev k None c with
            | None => None
            | Some (b, _, c') => kids ev l' (acc || b) None c'
            end
        end
    end.

  Definition is_none (v : vstate) : bool := match v with None => true | Some _ => false end.

  Fixpoint eval (fuel : nat) (n : N) (vis : vstate) (c : ecache) {struct fuel} : eres :=
    match fuel with
    | O => None
    | S f =>
        match (if cache_on then elook c n else None) with
        | Some b => Some (b, vis, c)
        | None =>
            match kids (eval f) (succ n) false vis c with
            | None => None
            | Some (b, vis', c') =>
                let r := hit n || b in
                let c'' := if cache_on && (negb fixed || r || is_none vis) then (n, r) :: c' else c' in
                Some (r, vis', c'')
            end
        end
    end.

  (* one request: ResolveUnion initialises the visited set with the requested node when the node
     is cyclic, otherwise there is none *)
  Definition v2_request (fuel : nat) (n : N) (c : ecache) : option (bool * ecache) :=
    match eval fuel n (if cyc n then Some [n] else None) c with
    | None => None
    | Some (b, _, c') => Some (b, c')
    end.

  Fixpoint v2_run (fuel : nat) (reqs : list N) (c : ecache) : option (list bool) :=
    match reqs with
    | [] => Some []
    | n :: reqs' =>
        match v2_request fuel n c with
        | None => None
        | Some (b, c') =>
            match v2_run fuel reqs' c' with
            | None => None
            | Some bs => Some (b :: bs)
            end
        end
    end.

  (* ground truth: a directly related node is reachable *)
  Inductive reach_hit : N -> Prop :=
  | rh_hit : forall n, hit n = true -> reach_hit n
  | rh_step : forall n w, In w (succ n) -> reach_hit w -> reach_hit n.
End V2.

(* the F3 graph: a -> x -> z -> user, a -> y -> z  (a = 1, x = 2, y = 3, z = 4) *)
Definition f3_succ (n : N) : list N :=
  match n with 1 => [2; 3] | 2 => [4] | 3 => [4] | _ => [] end.
Definition f3_hit (n : N) : bool := N.eqb n 4.
Definition f3_cyc (_ : N) : bool := true.
Definition f3_requests : list N := [1; 3].
