(* The first level of the recursive strategy (recursiveFastPath of
   internal/graph/recursive_resolver.go), definitions only: the loop that merges the object side
   (`objectToUsersetMessageChan`: the usersets one recursive edge away from the request's object)
   with the user side (`userToUsersetMessageChan`: the objects the user is related to through the
   non-recursive operands) BEFORE the breadth-first search starts.  Every message is added to its
   own set and probed against the other set (processUsersetMessage); a hit answers `allowed` at
   once.  The `select` is made explicit by a schedule (true = user side), as in V1Weight2.weight2;
   read failures are left out (an error ends the request in the code).

   V1Recursive.rec_fast states the outcome of this loop set-wise (existsb ... first); the theorems
   in V1RecursiveFirstProofs.v show that this is right for EVERY interleaving of the two sides. *)
From Coq Require Import List NArith Bool Arith.
From OFGA Require Export Check.V1Recursive.
Import ListNotations.
Open Scope N_scope.

Inductive flres :=
| FLMatched                               (* res.Allowed = true *)
| FLNoUser                                (* the user side closed with an empty set: `return res` *)
| FLSearch (uset oset : list N).          (* no first-level hit: go on with recursiveMatchUserUserset *)

(* the for !userToUsersetDone || !objectToUsersetDone loop; None = out of fuel *)
Fixpoint fl_loop (fuel : nat) (sched : list bool) (user obj : list N) (uopen oopen : bool)
         (uset oset : list N) : option flres :=
  match fuel with
  | O => None
  | S f =>
      if negb (uopen || oopen) then Some (FLSearch uset oset)
      else
        let pick_user := match sched with b :: _ => b | [] => true end in
        let sched' := tl sched in
        let take_user := if uopen then (pick_user || negb oopen) else false in
        if take_user then
          match user with
          | [] => match uset with
                  | [] => Some FLNoUser
                  | _ => fl_loop f sched' user obj false oopen uset oset
                  end
          | x :: user' =>
              if memN x oset then Some FLMatched
              else fl_loop f sched' user' obj uopen oopen (x :: uset) oset
          end
        else
          match obj with
          | [] => fl_loop f sched' user obj uopen false uset oset
          | y :: obj' =>
              if memN y uset then Some FLMatched
              else fl_loop f sched' user obj' uopen oopen uset (y :: oset)
          end
  end.

(* recursiveFastPath up to the search: the first object-side message is awaited before the user
   side is started *)
Definition first_level (sched : list bool) (user obj : list N) : option flres :=
  match obj with
  | [] => Some FLNoUser                    (* `if !ok { return res, ... }`: not allowed *)
  | y :: obj' => fl_loop (S (S (S (length user + length obj)))) sched user obj' true true [] [y]
  end.

Definition fl_class (r : option flres) : N :=
  match r with
  | Some FLMatched => 0
  | Some FLNoUser => 1
  | Some (FLSearch _ _) => 2
  | None => 99
  end.
