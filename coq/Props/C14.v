(* C14 -- paginated reads return every item exactly once.
   Statements only; the proofs are in Store/PagingProofs.v, the model in Store/Paging.v.
   [follow n step []] is a client that starts without a token and re-sends every continuation
   token it receives until the server returns the empty token ([follow_changes]: until the
   first empty page, because ReadChanges echoes the request token at the end of the log).
   [pages_items] concatenates the pages.  No bound on the number of items or on the page size
   ([int64_fits] only says that length + page size is below 2^63, the range of a Go int). *)
From OFGA Require Import Store.Paging Store.PagingProofs.
From Coq Require Import Sorting.Sorted Sorting.Permutation.
Open Scope N_scope.

(* ---- paging_exact: Read --------------------------------------------------------------------- *)

Theorem paging_exact : forall (A : Type) (l : list A) (ps : Z),
  int64_fits (length l) (page_size_opt ps) = true ->
  exists pages, follow (S (length l)) (read_mem l ps) [] = (pages, EndMarker)
                /\ pages_items pages = l
                /\ Forall (fun p => (length (fst p) <= N.to_nat (page_size_opt ps))%nat) pages.
Proof. exact @paging_exact_read_mem. Qed.
Print Assumptions paging_exact.

Example paging_exact_ex :
  int64_fits 7 (page_size_opt 3) = true
  /\ follow 8 (read_mem [10; 11; 12; 13; 14; 15; 16] 3) []
     = ([([10; 11; 12], [51; 124]); ([13; 14; 15], [54; 124]); ([16], [])], EndMarker).
Proof. vm_compute. split; reflexivity. Qed.

Definition k1 : bytes := [48; 49; 75; 65].  (* "01KA" *)
Definition k2 : bytes := [48; 49; 75; 66].
Definition k3 : bytes := [48; 49; 75; 67].
Definition k4 : bytes := [48; 50].
Definition rows4 : list (bytes * N) := [(k1, 7); (k2, 8); (k3, 9); (k4, 5)].

Theorem paging_exact_keyset : forall (A : Type) (rows : list (bytes * A)) (ps : Z),
  strictly_sorted (map fst rows) = true -> keys_nonempty rows = true -> keys_no_pipe rows = true ->
  exists pages, follow (S (length rows)) (read_sql rows ps) [] = (pages, EndMarker)
                /\ pages_items pages = map snd rows
                /\ Forall (fun p => (length (fst p) <= N.to_nat (page_size_opt ps))%nat) pages.
Proof. exact @paging_exact_read_sql. Qed.
Print Assumptions paging_exact_keyset.

Example paging_exact_keyset_ex :
  strictly_sorted (map fst rows4) = true /\ keys_nonempty rows4 = true /\ keys_no_pipe rows4 = true
  /\ follow 5 (read_sql rows4 2) [] = ([([7; 8], k3 ++ [124]); ([9; 5], [])], EndMarker).
Proof. vm_compute. repeat split; reflexivity. Qed.

(* the same without assuming the table is already in key order: distinct keys are enough, and the
   listing is the ORDER BY order *)
Theorem paging_exact_keyset_general : forall (A : Type) (rows : list (bytes * A)) (ps : Z),
  nodupb (map fst rows) = true -> keys_nonempty rows = true -> keys_no_pipe rows = true ->
  exists pages, follow (S (length rows)) (read_sql rows ps) [] = (pages, EndMarker)
                /\ pages_items pages = map snd (isort ble rows)
                /\ Forall (fun p => (length (fst p) <= N.to_nat (page_size_opt ps))%nat) pages.
Proof. exact @paging_exact_read_sql_general. Qed.
Print Assumptions paging_exact_keyset_general.

Example paging_exact_keyset_general_ex :
  nodupb (map fst (rev rows4)) = true
  /\ pages_items (fst (follow 5 (read_sql (rev rows4) 3) [])) = [7; 8; 9; 5].
Proof. vm_compute. split; reflexivity. Qed.

(* ---- paging_exact: ReadChanges (commit order = ULID order) ------------------------------------ *)

Definition u1 : bytes := [48;49;75;53;90;56;88;57;71;48;48;48;48;48;48;48;48;48;48;48;48;48;48;48;48;49].
Definition u2 : bytes := [48;49;75;53;90;56;88;57;71;48;48;48;48;48;48;48;48;48;48;48;48;48;48;48;48;50].
Definition u3 : bytes := [48;49;75;53;90;56;88;57;71;49;48;48;48;48;48;48;48;48;48;48;48;48;48;48;48;48].
Definition crows : list (bytes * N) := [(u1, 1); (u2, 2); (u3, 3)].
Definition ty_doc : bytes := [100; 111; 99].

(* [changes_sorted_by_ulid]: the log is in strictly increasing ULID order -- the invariant that
   memory.Write maintains by assigning changelog ULIDs under the tuples lock *)
Theorem paging_exact_changes_memory : forall (A : Type) (rows : list (bytes * A)) (ps : Z) (ty : bytes),
  changes_sorted_by_ulid rows = true ->
  ulid_keys_ok rows = true -> keys_nonempty rows = true -> keys_no_pipe rows = true ->
  exists pages, follow_changes (S (length rows)) (changes_mem rows ps ty) [] = (pages, EndMarker)
                /\ pages_items pages = map snd rows
                /\ Forall (fun p => (length (fst p) <= N.to_nat (page_size_opt ps))%nat) pages.
Proof. exact @paging_exact_changes_mem. Qed.
Print Assumptions paging_exact_changes_memory.

Example paging_exact_changes_memory_ex :
  changes_sorted_by_ulid crows = true
  /\ ulid_keys_ok crows = true /\ keys_nonempty crows = true /\ keys_no_pipe crows = true
  /\ follow_changes 4 (changes_mem crows 2 ty_doc) []
     = ([([1; 2], u2 ++ 124 :: ty_doc); ([3], u3 ++ 124 :: ty_doc); ([], u3 ++ 124 :: ty_doc)], EndMarker).
Proof. vm_compute. repeat split; reflexivity. Qed.

(* ... and the hypothesis cannot be dropped: a log out of ULID order (commit order B, A while A's ulid
   is older -- two writers whose ULIDs were not assigned under the lock) loses A under page size 1
   and repeats B under page size 2 *)
Theorem paging_changes_unsorted_refuted :
  (exists rows : list (bytes * N),
      changes_sorted_by_ulid rows = false /\ ulid_keys_ok rows = true
      /\ map snd rows = [2; 1]
      /\ follow_changes 3 (changes_mem rows 1 []) []
         = ([([2], ulid_b ++ [124]); ([], ulid_b ++ [124])], EndMarker))
  /\ (exists rows : list (bytes * N),
      changes_sorted_by_ulid rows = false
      /\ map snd rows = [2; 1; 3]
      /\ pages_items (fst (follow_changes 4 (changes_mem rows 2 []) [])) = [2; 1; 2; 3]).
Proof. exact paging_changes_unsorted_refuted_witness. Qed.
Print Assumptions paging_changes_unsorted_refuted.

Theorem paging_exact_changes_sqlite : forall (A : Type) (rows : list (bytes * A)) (ps : Z) (ty : bytes),
  strictly_sorted (map fst rows) = true -> keys_nonempty rows = true -> keys_no_pipe rows = true ->
  exists pages, follow_changes (S (length rows)) (changes_sql rows ps ty) [] = (pages, EndMarker)
                /\ pages_items pages = map snd rows
                /\ Forall (fun p => (length (fst p) <= N.to_nat (page_size_opt ps))%nat) pages.
Proof. exact @paging_exact_changes_sql. Qed.
Print Assumptions paging_exact_changes_sqlite.

Example paging_exact_changes_sqlite_ex :
  strictly_sorted (map fst crows) = true
  /\ pages_items (fst (follow_changes 4 (changes_sql crows 1 ty_doc) [])) = [1; 2; 3].
Proof. vm_compute. split; reflexivity. Qed.

(* ---- paging_exact: ListStores (by id) and ReadAuthorizationModels (newest = greatest id first) - *)

Theorem sorted_listing_spec : forall (A : Type) (rows : list (bytes * A)),
  (Permutation (isort ble rows) rows
   /\ StronglySorted (fun x y => ble (fst x) (fst y) = true) (isort ble rows))
  /\ (Permutation (isort desc rows) rows
      /\ StronglySorted (fun x y => ble (fst y) (fst x) = true) (isort desc rows)).
Proof. exact @sorted_listing_spec_all. Qed.
Print Assumptions sorted_listing_spec.

Example sorted_listing_ex :
  map snd (isort ble (rev rows4)) = [7; 8; 9; 5] /\ map snd (isort desc rows4) = [5; 9; 8; 7].
Proof. vm_compute. split; reflexivity. Qed.

Theorem paging_exact_stores_memory : forall (A : Type) (rows : list (bytes * A)) (ps : Z),
  int64_fits (length rows) (page_size_opt ps) = true ->
  exists pages, follow (S (length rows)) (stores_mem rows ps) [] = (pages, EndMarker)
                /\ pages_items pages = map snd (isort ble rows)
                /\ Forall (fun p => (length (fst p) <= N.to_nat (page_size_opt ps))%nat) pages.
Proof. exact @paging_exact_stores_mem. Qed.
Print Assumptions paging_exact_stores_memory.

Example paging_exact_stores_memory_ex :
  follow 5 (stores_mem (rev rows4) 3) [] = ([([7; 8; 9], [51]); ([5], [])], EndMarker).
Proof. vm_compute. reflexivity. Qed.

Theorem paging_exact_models_memory : forall (A : Type) (rows : list (bytes * A)) (ps : Z),
  int64_fits (length rows) (page_size_opt ps) = true ->
  exists pages, follow (S (length rows)) (models_mem rows ps) [] = (pages, EndMarker)
                /\ pages_items pages = map snd (isort desc rows)
                /\ Forall (fun p => (length (fst p) <= N.to_nat (page_size_opt ps))%nat) pages.
Proof. exact @paging_exact_models_mem. Qed.
Print Assumptions paging_exact_models_memory.

Example paging_exact_models_memory_ex :
  follow 5 (models_mem rows4 3) [] = ([([5; 9; 8], [51]); ([7], [])], EndMarker).
Proof. vm_compute. reflexivity. Qed.

Theorem paging_exact_stores_sqlite : forall (A : Type) (rows : list (bytes * A)) (ps : Z),
  nodupb (map fst rows) = true -> keys_nonempty rows = true ->
  exists pages, follow (S (length rows)) (stores_sql rows ps) [] = (pages, EndMarker)
                /\ pages_items pages = map snd (isort ble rows)
                /\ Forall (fun p => (length (fst p) <= N.to_nat (page_size_opt ps))%nat) pages.
Proof. exact @paging_exact_stores_sql. Qed.
Print Assumptions paging_exact_stores_sqlite.

Example paging_exact_stores_sqlite_ex :
  nodupb (map fst rows4) = true /\ keys_nonempty rows4 = true
  /\ follow 5 (stores_sql (rev rows4) 3) [] = ([([7; 8; 9], k4); ([5], [])], EndMarker).
Proof. vm_compute. repeat split; reflexivity. Qed.

Theorem paging_exact_models_sqlite : forall (A : Type) (rows : list (bytes * A)) (ps : Z),
  nodupb (map fst rows) = true -> keys_nonempty rows = true ->
  exists pages, follow (S (length rows)) (models_sql rows ps) [] = (pages, EndMarker)
                /\ pages_items pages = map snd (isort desc rows)
                /\ Forall (fun p => (length (fst p) <= N.to_nat (page_size_opt ps))%nat) pages.
Proof. exact @paging_exact_models_sql. Qed.
Print Assumptions paging_exact_models_sqlite.

Example paging_exact_models_sqlite_ex :
  follow 5 (models_sql rows4 1) [] = ([([5], k3); ([9], k2); ([8], k1); ([7], [])], EndMarker).
Proof. vm_compute. reflexivity. Qed.

(* ---- page_size_respected: for EVERY token (also unissued ones), on all eight paths ------------ *)

Theorem page_size_respected : forall (A : Type) (l : list A) (rows : list (bytes * A)) (ps : Z)
                                     (ty tok : bytes),
  within ps (read_mem l ps tok) /\ within ps (read_sql rows ps tok)
  /\ within ps (changes_mem rows ps ty tok) /\ within ps (changes_sql rows ps ty tok)
  /\ within ps (stores_mem rows ps tok) /\ within ps (stores_sql rows ps tok)
  /\ within ps (models_mem rows ps tok) /\ within ps (models_sql rows ps tok).
Proof. exact @page_size_respected_all. Qed.
Print Assumptions page_size_respected.

Example page_size_respected_ex :
  read_mem [1; 2; 3; 4; 5] 0 [] = Page [1; 2; 3; 4; 5] [] /\ page_size_opt 0 = 50
  /\ read_sql rows4 (-7) (k2 ++ [124]) = Page [8; 9; 5] [].
Proof. vm_compute. repeat split; reflexivity. Qed.

(* ---- changes_token_type_bound ------------------------------------------------------------------ *)

(* a token "<ulid>|<type>" presented with another type filter is rejected, whatever the storage *)
Theorem changes_token_type_bound : forall (A : Type) (st : N -> bytes -> changes_result A) (ps : Z)
                                          (u ty ty' : bytes),
  u <> [] -> mem c_pipe u = false -> ty <> ty' ->
  changes_cmd st ps ty' (u ++ c_pipe :: ty) = Rejected EMismatchType.
Proof. exact @changes_token_type_bound_cmd. Qed.
Print Assumptions changes_token_type_bound.

(* every token that ReadChanges itself issues together with a non-empty page is bound to the type
   filter of the request that produced it (any backend, any data set, any page size afterwards) *)
Theorem changes_issued_token_type_bound : forall (A : Type) norm sorted norm' sorted'
    (rows rows' : list (bytes * A)) (ps ps' : Z) (ty ty' tok : bytes) (items : list A) (next : bytes),
  keys_nonempty rows = true -> keys_no_pipe rows = true ->
  changes_cmd (changes_page norm sorted rows) ps ty tok = Page items next ->
  items <> [] -> ty <> ty' ->
  changes_cmd (changes_page norm' sorted' rows') ps' ty' next = Rejected EMismatchType.
Proof. exact @PagingProofs.changes_issued_token_type_bound. Qed.
Print Assumptions changes_issued_token_type_bound.

Example changes_token_type_bound_ex :
  changes_mem crows 2 ty_doc [] = Page [1; 2] (u2 ++ 124 :: ty_doc)
  /\ changes_mem crows 2 [] (u2 ++ 124 :: ty_doc) = Rejected EMismatchType
  /\ changes_sql crows 2 [102] (u2 ++ 124 :: ty_doc) = Rejected EMismatchType
  /\ changes_sql crows 2 ty_doc (u2 ++ 124 :: ty_doc) = Page [3] (u3 ++ 124 :: ty_doc).
Proof. vm_compute. repeat split; reflexivity. Qed.

(* ---- malformed tokens --------------------------------------------------------------------------- *)

(* memory ReadPage (offset tokens), since fix 3cab6a7: EVERY byte string is rejected (unparsable, or
   a negative offset) or read as a lower bound -- the page is a prefix of the items at or after the
   offset it denotes (an offset beyond the end: the empty last page); nothing before it comes back,
   and there is no panic.  For all lists, page sizes and tokens. *)
Theorem malformed_token_rejected : forall (A : Type) (l : list A) (size : N) (from : bytes),
  offset_sound l size from.
Proof. exact @malformed_token_rejected_memory. Qed.
Print Assumptions malformed_token_rejected.

Example malformed_token_rejected_ex :
  read_mem five 2 [57; 57; 124] = Page [] []
  /\ read_mem five 2 [45; 49; 124] = Rejected EInvalidToken
  /\ read_mem five 2 [120; 124] = Rejected EInternal
  /\ read_mem five 2 [52; 124] = Page [4] []
  /\ read_mem five 2 [53; 124] = Page [] []
  /\ read_mem five 2 [50; 124] = Page [2; 3] [52; 124].
Proof. vm_compute. repeat split; reflexivity. Qed.

(* history only (finding F5, repaired by 3cab6a7): what the same tokens did before the fix *)
Example malformed_token_before_fix :
  read_cmd (page_offset_before_3cab6a7 five) 2 [57; 57; 124] = Page [0; 1] [49; 48; 49; 124]
  /\ read_cmd (page_offset_before_3cab6a7 five) 2 [45; 49; 124] = Panic.
Proof. vm_compute. split; reflexivity. Qed.

(* the other backends/paths read EVERY byte string either as a lower bound or reject it *)
Theorem token_lower_bound_clamped_offsets : forall (A : Type) le (rows : list (bytes * A)) (size : N)
                                                   (from : bytes),
  clamp_sound le rows size from.
Proof. exact @token_lower_bound_clamp. Qed.
Print Assumptions token_lower_bound_clamped_offsets.

Example token_lower_bound_clamped_offsets_ex :
  stores_mem rows4 2 [45; 53] = Page [7; 8] [50] /\ stores_mem rows4 2 [57; 57] = Page [] []
  /\ stores_mem rows4 2 [120] = Rejected EInternal.
Proof. vm_compute. repeat split; reflexivity. Qed.

Theorem token_lower_bound_keyset_pages : forall (A : Type) le (rows : list (bytes * A)) (size : N)
                                                (from : bytes),
  exists items next n, page_keyset le rows size from = Page items next
    /\ items = map snd (firstn n (match from with
                                  | [] => isort le rows
                                  | _ => filter (fun r => le from (fst r)) (isort le rows)
                                  end)).
Proof. exact @token_lower_bound_keyset. Qed.
Print Assumptions token_lower_bound_keyset_pages.

Example token_lower_bound_keyset_pages_ex :
  read_sql rows4 2 [48; 49; 75; 66; 48; 124] = Page [9; 5] [] /\ read_sql rows4 2 [57; 124] = Page [] [].
Proof. vm_compute. split; reflexivity. Qed.

Theorem token_lower_bound_changes_pages : forall (A : Type) norm sorted (rows : list (bytes * A))
                                                 (size : N) (from : bytes),
  match changes_page norm sorted rows size from with
  | CPage items _ =>
    exists n, items = map snd (firstn n
      (match from with
       | [] => (if sorted then isort ble rows else rows)
       | _ => filter (fun r => match norm from with
                               | Some b => blt b (norm_key norm (fst r))
                               | None => false
                               end) (if sorted then isort ble rows else rows)
       end))
  | CNotFound => True
  | CRejected _ => from <> [] /\ norm from = None
  end.
Proof. exact @token_lower_bound_changes. Qed.
Print Assumptions token_lower_bound_changes_pages.

Example token_lower_bound_changes_pages_ex :
  changes_mem crows 2 ty_doc ([57; 57] ++ 124 :: ty_doc) = Rejected EInvalidToken
  /\ changes_sql crows 2 ty_doc ([57; 57] ++ 124 :: ty_doc) = Page [] ([57; 57] ++ 124 :: ty_doc).
Proof. vm_compute. split; reflexivity. Qed.

(* tokens without the "<x>|" shape never reach the storage layer; undecodable base64 neither *)
Theorem unsplittable_token_rejected : forall (A : Type) (st : N -> bytes -> outcome A)
    (stc : N -> bytes -> changes_result A) (ps : Z) (ty tok : bytes),
  tok <> [] -> deserialize tok = None ->
  read_cmd st ps tok = Rejected EInvalidToken /\ changes_cmd stc ps ty tok = Rejected EInvalidToken.
Proof. exact @PagingProofs.unsplittable_token_rejected. Qed.
Print Assumptions unsplittable_token_rejected.

Example unsplittable_token_ex :
  deserialize [51] = None /\ deserialize [124; 100] = None /\ deserialize [51; 124] = Some ([51], []).
Proof. vm_compute. repeat split; reflexivity. Qed.

(* ---- inner-iteration faults on the sqlite readers ----------------------------------------------- *)

(* [bad] = key of a row the database cannot produce (rows.Next() stops there, rows.Err() is set).
   Keyset readers as coded (rows loop, rows.Err() check, limit+1 trick): a request whose statement
   reaches the faulty row is an error -- never a page, so never a short page with the end marker *)
Theorem paging_fault_never_truncates : forall (A : Type) (rows : list (bytes * A)) (ps : Z)
                                              (tok from bad : bytes),
  (fault_in_stmt bad (keyset_stmt ble rows (page_size_opt ps) tok) = true ->
   stores_sql_f rows (Some bad) ps tok = Rejected EInternal)
  /\ (fault_in_stmt bad (keyset_stmt desc rows (page_size_opt ps) tok) = true ->
      models_sql_f rows (Some bad) ps tok = Rejected EInternal)
  /\ (storage_from tok = Some from ->
      fault_in_stmt bad (keyset_stmt ble rows (page_size_opt ps) from) = true ->
      read_sql_f rows (Some bad) ps tok = Rejected EInternal).
Proof. exact @paging_fault_never_truncates_all. Qed.
Print Assumptions paging_fault_never_truncates.

Example paging_fault_never_truncates_ex :
  fault_in_stmt k3 (keyset_stmt ble rows4 (page_size_opt 2) []) = true
  /\ stores_sql_f rows4 (Some k3) 2 [] = Rejected EInternal
  /\ stores_sql_f rows4 (Some k3) 1 [] = Page [7] k2
  /\ stores_sql_f rows4 (Some k3) 1 k2 = Rejected EInternal
  /\ read_sql_f rows4 (Some k4) 2 (k2 ++ [124]) = Rejected EInternal.
Proof. vm_compute. repeat split; reflexivity. Qed.

(* ... and a request that does not reach it is answered exactly as without the fault *)
Theorem paging_fault_outside_is_clean : forall (A : Type) (rows : list (bytes * A)) (ps : Z) (tok bad : bytes),
  (fault_in_stmt bad (keyset_stmt ble rows (page_size_opt ps) tok) = false ->
   stores_sql_f rows (Some bad) ps tok = stores_sql rows ps tok)
  /\ (fault_in_stmt bad (keyset_stmt desc rows (page_size_opt ps) tok) = false ->
      models_sql_f rows (Some bad) ps tok = models_sql rows ps tok).
Proof. exact @paging_fault_outside_all. Qed.
Print Assumptions paging_fault_outside_is_clean.

Example paging_fault_outside_is_clean_ex :
  fault_in_stmt k4 (keyset_stmt ble rows4 (page_size_opt 2) []) = false
  /\ stores_sql_f rows4 (Some k4) 2 [] = Page [7; 8] k3.
Proof. vm_compute. split; reflexivity. Qed.

(* sqlite ReadChanges as coded has no rows.Err() check after its loop; it still never truncates:
   under a fault the answer is an error (fault on the first row of the statement: the first step is
   taken inside QueryContext), the genuine end of the log, or a NON-EMPTY prefix of the statement's
   rows whose token is the key of its last row -- a correct prefix continuation, after which
   paging_exact_changes_sqlite applies to the remaining rows *)
Theorem paging_fault_never_truncates_changes : forall (A : Type) (rows : list (bytes * A)) (size : N)
                                                      (from bad : bytes),
  match changes_page_f rows size from (Some bad) with
  | CRejected _ => fault_in_stmt bad (changes_stmt rows size from) = true
  | CNotFound => changes_stmt rows size from = []
  | CPage items lastk =>
    exists got rest, got <> [] /\ changes_stmt rows size from = got ++ rest
                     /\ items = map snd got /\ lastk = last_key got
  end.
Proof. exact @changes_fault_prefix_continuation. Qed.
Print Assumptions paging_fault_never_truncates_changes.

Theorem changes_fault_outside_is_clean : forall (A : Type) (rows : list (bytes * A)) (size : N)
                                                (from bad : bytes),
  fault_in_stmt bad (changes_stmt rows size from) = false ->
  changes_page_f rows size from (Some bad) = changes_page_f rows size from None.
Proof. exact @changes_fault_outside. Qed.
Print Assumptions changes_fault_outside_is_clean.

Example changes_fault_ex :
  changes_sql_f crows3 (Some [48; 49; 67]) 2 [] [] = Page [1; 2] [48; 49; 66; 124]
  /\ changes_sql_f crows3 (Some [48; 49; 66]) 2 [] [] = Page [1] [48; 49; 65; 124]
  /\ changes_sql_f crows3 (Some [48; 49; 66]) 2 [] [48; 49; 65; 124] = Rejected EInternal
  /\ changes_sql_f crows3 (Some [48; 49; 65]) 2 [] [] = Rejected EInternal
  /\ changes_sql_f crows3 None 2 [] [] = changes_sql crows3 2 [] [].
Proof. vm_compute. repeat split; reflexivity. Qed.
