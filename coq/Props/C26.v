(* C26: API access control allows exactly what the control store grants.

   Statements only; the model is Sec/Authz.v, the proofs Sec/AuthzProofs.v, and the tables
   (API method -> relation switch, relation constants, MaxModulesInRequest, the call order of
   every RPC handler of pkg/server) are regenerated from the Go source on every run:
   Generated/C26Tables.v (harness/cmd/gen_c26).

   [g c r o]   answer of the control store's Check (Some b / None = error), any function;
   [la c]      answer of ListObjects(store, can_call_get_store) on the control store;
   [granted g c r s mods] = g c r (OStore s) = Some true \/
        (mods <> [] /\ |mods| <= max_modules_in_request /\ forall m in mods, g c r (OModule s m) = Some true). *)
From OFGA Require Import Base.Bytes Generated.C26Tables Sec.Authz Sec.AuthzHandlers Sec.AuthzProofs.
From Coq Require Import String.
Open Scope N_scope.

(* ================================================================== *)
(* A. The decision                                                      *)
(* ================================================================== *)

Theorem authorize_iff_granted : forall g cl m s mods,
  authorize g cl m s mods = Allow <->
  exists c, cl = Claims c /\ c <> [] /\ granted g c (spec_relation m) s mods.
Proof. exact AuthzProofs.authorize_iff_granted. Qed.
Print Assumptions authorize_iff_granted.
(* client "l" holds can_call_write on module "ma" of store "A" only: a write confined to "ma"
   passes, a write of two modules does not, a module-less write does not *)
Example authorize_iff_granted_ex :
  let g : grant_oracle := fun c r o =>
    match r, o with R_CanCallWrite, OModule [65] [109; 97] => Some true | _, _ => Some false end in
  authorize g (Claims [108]) M_Write [65] [[109; 97]] = Allow /\
  authorize g (Claims [108]) M_Write [65] [[109; 97]; [109; 98]] = Deny DTooManyModules /\
  authorize g (Claims [108]) M_Write [65] [] = Deny DStoreNotAllowed /\
  authorize g (Claims [108]) M_Read [65] [[109; 97]] = Deny DModuleNotAllowed.
Proof. vm_compute. repeat split. Qed.

Theorem write_authorize_iff : forall g cl s ls,
  write_authorize g cl s ls = Allow <->
  exists ms c, extract_modules ls [] = MMods ms /\ cl = Claims c /\ c <> [] /\
               granted g c R_CanCallWrite s ms.
Proof. exact AuthzProofs.write_authorize_iff. Qed.
Print Assumptions write_authorize_iff.
Example write_authorize_iff_ex :
  extract_modules [LModule [109; 97]; LModule [109; 97]; LModule [109; 98]] [] = MMods [[109; 97]; [109; 98]] /\
  extract_modules [LModule [109; 97]; LModule []; LTypeNotFound] [] = MMods [] /\
  extract_modules [LModule [109; 97]; LNoRelation; LModule []] [] = MErr.
Proof. vm_compute. repeat split. Qed.

Theorem create_store_iff : forall g cl,
  authorize_create_store g cl = Allow <->
  exists c, cl = Claims c /\ c <> [] /\ g c R_CanCallCreateStore OSystem = Some true.
Proof. exact AuthzProofs.create_store_iff. Qed.
Print Assumptions create_store_iff.
Example create_store_iff_ex :
  authorize_create_store (fun _ _ _ => Some true) (Claims [108]) = Allow /\
  authorize_create_store (fun _ _ _ => Some true) (Claims []) = Deny DNoClient.
Proof. vm_compute. split; reflexivity. Qed.

(* any error while deciding denies: a Check error on the store (no modules in the request), a
   Check error on a module (no store-level grant), a failed module lookup, a Check / ListObjects
   error on the way to ListStores.  As coded, a store-level *error* does not stop the module
   branch: see error_denies_ex, last line. *)
Theorem error_denies :
  (forall g c m s, c <> [] -> g c (spec_relation m) (OStore s) = None ->
     authorize g (Claims c) m s [] = Deny DStoreError) /\
  (forall g cl m s mods x,
     (forall c, cl = Claims c -> g c (spec_relation m) (OStore s) <> Some true) ->
     In x mods ->
     (forall c, cl = Claims c -> g c (spec_relation m) (OModule s x) = None) ->
     is_allow (authorize g cl m s mods) = false) /\
  (forall g cl s ls, extract_modules ls [] = MErr -> write_authorize g cl s ls = Deny DModuleLookup) /\
  (forall g la cl name all,
     (forall c, cl = Claims c -> g c (spec_relation M_ListStores) OSystem = None \/ la c = None) ->
     list_stores g la cl name all = LSDenied).
Proof. exact AuthzProofs.error_denies. Qed.
Print Assumptions error_denies.
Example error_denies_ex :
  authorize (fun _ _ _ => None) (Claims [108]) M_Check [65] [] = Deny DStoreError /\
  authorize (fun _ _ o => match o with OModule _ _ => None | _ => Some false end)
            (Claims [108]) M_Write [65] [[109; 97]] = Deny DModuleError /\
  authorize (fun _ _ o => match o with OModule _ _ => Some true | _ => None end)
            (Claims [108]) M_Write [65] [[109; 97]] = Allow.
Proof. vm_compute. repeat split. Qed.

(* a failing or cancelled authorization check never yields Allow: whatever set F of checks
   fails (error from the control store, request context cancelled or past its deadline), a call
   that the control store does not authorize is not authorized; and when every check the
   decision rests on fails, the call is denied whatever the control store would have said *)
Theorem fault_never_grants : forall g F cl m s mods,
  authorize (with_fault g F) cl m s mods = Allow -> authorize g cl m s mods = Allow.
Proof. exact AuthzProofs.fault_never_grants. Qed.
Print Assumptions fault_never_grants.

Theorem failing_checks_deny : forall g F cl m s mods,
  F (OStore s) = true -> (forall x, In x mods -> F (OModule s x) = true) ->
  is_allow (authorize (with_fault g F) cl m s mods) = false.
Proof. exact AuthzProofs.failing_checks_deny. Qed.
Print Assumptions failing_checks_deny.

Theorem failing_module_check_denies : forall g F cl m s mods x,
  (forall c, cl = Claims c -> g c (spec_relation m) (OStore s) <> Some true) ->
  In x mods -> F (OModule s x) = true ->
  is_allow (authorize (with_fault g F) cl m s mods) = false.
Proof. exact AuthzProofs.failing_module_check_denies. Qed.
Print Assumptions failing_module_check_denies.

Theorem write_fault_never_grants : forall g k from cl s ls,
  write_authorize_fault g k from cl s ls = Allow -> write_authorize g cl s ls = Allow.
Proof. exact AuthzProofs.write_fault_never_grants. Qed.
Print Assumptions write_fault_never_grants.
(* caller "l" without any grant writes to module "ma": the module check (#2) fails, or the
   context is cancelled when it is issued: denied.  Caller with the module grant: a failing
   store-level check (#1) alone does not deny (module branch), a cancellation at #1 does. *)
Example fault_ex :
  let none : grant_oracle := fun _ _ _ => Some false in
  let modg : grant_oracle := fun _ _ o => match o with OModule _ _ => Some true | _ => Some false end in
  authorize_fault none 2 false (Claims [108]) M_Write [65] [[109; 97]] = Deny DModuleError /\
  authorize_fault none 2 true (Claims [108]) M_Write [65] [[109; 97]] = Deny DModuleError /\
  authorize_fault modg 1 false (Claims [108]) M_Write [65] [[109; 97]] = Allow /\
  authorize_fault modg 1 true (Claims [108]) M_Write [65] [[109; 97]] = Deny DModuleError /\
  authorize_fault modg 3 false (Claims [108]) M_Write [65] [[109; 97]] = Allow /\
  fault_fires none 2 (Claims [108]) M_Write [65] [[109; 97]] = true /\
  fault_fires none 2 (Claims [108]) M_Check [65] [] = false.
Proof. vm_compute. repeat split; reflexivity. Qed.

Theorem no_client_id_denied : forall g la cl,
  cl = NoClaims \/ cl = Claims [] ->
  (forall m s mods, authorize g cl m s mods = Deny DNoClient) /\
  (forall s ls, is_allow (write_authorize g cl s ls) = false) /\
  authorize_create_store g cl = Deny DNoClient /\
  (forall name all, list_stores g la cl name all = LSDenied).
Proof. exact AuthzProofs.no_client_id_denied. Qed.
Print Assumptions no_client_id_denied.
Example no_client_id_denied_ex :
  authorize (fun _ _ _ => Some true) NoClaims M_Check [65] [] = Deny DNoClient /\
  list_stores (fun _ _ _ => Some true) (fun _ => Some [[65]]) (Claims []) [] [([65], [97])] = LSDenied.
Proof. vm_compute. split; reflexivity. Qed.

Theorem module_write_confined : forall g c s ls,
  write_authorize g (Claims c) s ls = Allow ->
  (existsb is_moduleless ls = true \/
   exists ms, extract_modules ls [] = MMods ms /\ max_modules_in_request < N.of_nat (List.length ms)) ->
  g c R_CanCallWrite (OStore s) = Some true.
Proof. exact AuthzProofs.module_write_confined. Qed.
Print Assumptions module_write_confined.
Example module_write_confined_ex :
  write_authorize (fun _ _ _ => Some true) (Claims [108]) [65] [LModule [109; 97]; LModule []] = Allow /\
  existsb is_moduleless [LModule [109; 97]; LModule []] = true /\
  extract_modules [LModule [109; 97]; LModule [109; 98]] [] = MMods [[109; 97]; [109; 98]] /\
  max_modules_in_request < N.of_nat (List.length [[109; 97]; [109; 98]]).
Proof. vm_compute. repeat split. Qed.

(* ================================================================== *)
(* B. The regenerated tables                                            *)
(* ================================================================== *)

Theorem relation_table_total : forall m : api_method, exists r, relation_of m = Some r.
Proof. exact AuthzProofs.relation_table_total. Qed.
Print Assumptions relation_table_total.

(* the switch agrees with the hand-written reading of "the relation for that method" *)
Theorem relation_table_spec : forall m : api_method, relation_of m = Some (spec_relation m).
Proof. exact AuthzProofs.relation_table_spec. Qed.
Print Assumptions relation_table_spec.

(* ... and the transcription is the source: regenerated switch = transcribed switch (method
   names, order, relation names), every source method has a clause, constants and limit agree *)
Theorem relation_table_matches_source : gen_relation_table = model_relation_table.
Proof. exact AuthzProofs.relation_table_matches_source. Qed.
Print Assumptions relation_table_matches_source.

Theorem source_relation_table_total :
  forallb (fun e => match snd e with Some _ => true | None => false end) gen_relation_table = true.
Proof. exact AuthzProofs.source_relation_table_total. Qed.
Print Assumptions source_relation_table_total.

Theorem relations_match_source : map snd gen_relations = map relation_bytes all_relations.
Proof. exact AuthzProofs.relations_match_source. Qed.
Print Assumptions relations_match_source.

Theorem max_modules_matches_source : gen_max_modules = max_modules_in_request.
Proof. exact AuthzProofs.max_modules_matches_source. Qed.
Print Assumptions max_modules_matches_source.
Example relation_table_ex :
  relation_of M_StreamedListObjects = Some R_CanCallListObjects /\
  relation_bytes R_CanCallListObjects = [99; 97; 110; 95; 99; 97; 108; 108; 95; 108; 105; 115; 116; 95; 111; 98; 106; 101; 99; 116; 115].
Proof. split; reflexivity. Qed.

Theorem translator_recognised_everything : c26_unknown = [].
Proof. exact AuthzProofs.no_unknown_shapes. Qed.
Print Assumptions translator_recognised_everything.

(* for every RPC handler a guarded authorization call precedes the first command constructor /
   Execute / datastore call; handlers that call other handlers rely on the callee *)
Theorem every_handler_authorizes_before_commands :
  forall h, In h c26_handlers -> authorizes_before_commands h = true.
Proof. exact AuthzProofs.every_handler_authorizes_before_commands. Qed.
Print Assumptions every_handler_authorizes_before_commands.

(* full statement:  forall h, In h c26_handlers -> authorizes_first h = true
   (nothing of the store is read before the authorization call).
   Missing part: handlers that resolve the store's authorization model first. *)
Theorem every_handler_authorizes_first_partial :
  forall h, In h c26_handlers -> tr_model_read_before_authz h = false -> authorizes_first h = true.
Proof. exact AuthzProofs.every_handler_authorizes_first_partial. Qed.
Print Assumptions every_handler_authorizes_first_partial.

Theorem every_handler_authorizes_first_refuted :
  exists h, In h c26_handlers /\ h_store_scoped h = true /\
            tr_model_read_before_authz h = true /\ authorizes_first h = false.
Proof. exact AuthzProofs.every_handler_authorizes_first_refuted. Qed.
Print Assumptions every_handler_authorizes_first_refuted.

Theorem model_read_before_authz_handlers :
  map h_name (filter tr_model_read_before_authz c26_handlers) = ["ActionSearch"; "Write"]%string.
Proof. exact AuthzProofs.model_read_before_authz_handlers. Qed.
Print Assumptions model_read_before_authz_handlers.

(* what the boolean means, for any call list *)
Theorem calls_ok_sound : forall strict so cs authed,
  calls_ok strict so authed cs = true ->
  forall pre c post, cs = pre ++ c :: post ->
    (match c with
     | CData _ => authed = true \/ existsb is_guarded_authz pre = true
     | CResolveModel => strict = true -> authed = true \/ existsb is_guarded_authz pre = true
     | CUnknown _ => False
     | CDelegate h _ => so h = true
     | _ => True
     end).
Proof. exact AuthzProofs.calls_ok_sound. Qed.
Print Assumptions calls_ok_sound.
Example calls_ok_ex :
  calls_ok true (fun _ => false) false [CValidate; CAuthz "Read" "req.GetStoreId()" true; CData "q.Execute"] = true /\
  calls_ok true (fun _ => false) false [CValidate; CData "q.Execute"; CAuthz "Read" "req.GetStoreId()" true] = false /\
  calls_ok true (fun _ => false) false [CAuthz "Read" "req.GetStoreId()" false; CData "q.Execute"] = false /\
  calls_ok false (fun _ => false) false [CResolveModel; CWriteAuthz true; CData "cmd.Execute"] = true.
Proof. vm_compute. repeat split. Qed.

Theorem handlers_check_own_method :
  forall h, In h c26_handlers -> checks_own_method h = true.
Proof. exact AuthzProofs.handlers_check_own_method. Qed.
Print Assumptions handlers_check_own_method.

Theorem handlers_without_own_authz_reviewed :
  handlers_without_own_authz = spec_handlers_without_own_authz.
Proof. exact AuthzProofs.handlers_without_own_authz_reviewed. Qed.
Print Assumptions handlers_without_own_authz_reviewed.

Theorem authz_helpers_reviewed : c26_authz_helpers = spec_authz_helpers.
Proof. exact AuthzProofs.authz_helpers_reviewed. Qed.
Print Assumptions authz_helpers_reviewed.

Theorem store_scoped_handlers_reviewed :
  map h_name (filter h_store_scoped c26_handlers) = spec_store_scoped.
Proof. exact AuthzProofs.store_scoped_handlers_reviewed. Qed.
Print Assumptions store_scoped_handlers_reviewed.

(* ================================================================== *)
(* C. ListStores                                                        *)
(* ================================================================== *)

Theorem list_stores_requires_list_grant : forall g la cl name all ids,
  list_stores g la cl name all = LSStores ids ->
  exists c, cl = Claims c /\ c <> [] /\ g c R_CanCallListStores OSystem = Some true /\
            exists acc, la c = Some acc.
Proof. exact AuthzProofs.list_stores_requires_list_grant. Qed.
Print Assumptions list_stores_requires_list_grant.

(* for EVERY accessible list (empty; naming stores that were deleted or never existed; longer
   than the list of live stores): every returned id is accessible and live *)
Theorem list_stores_subset : forall g la cl name all acc ids,
  accessible_stores g la cl = Some acc ->
  list_stores g la cl name all = LSStores ids ->
  forall s, In s ids -> In s acc /\ In s (map fst all).
Proof. exact AuthzProofs.list_stores_subset. Qed.
Print Assumptions list_stores_subset.
(* grants on A, B (deleted), C (deleted) and a ghost: 4 ids, 3 live stores (root R, A, new N);
   and the lister-only caller of F9: empty accessible list, empty answer *)
Example list_stores_subset_ex :
  let g : grant_oracle := fun _ r _ => match r with R_CanCallListStores => Some true | _ => Some false end in
  let la : list_oracle := fun _ => Some [[65]; [66]; [67]; [71]] in
  list_stores g la (Claims [108]) [] [([82], [114]); ([65], [97]); ([78], [110])] = LSStores [[65]] /\
  list_stores_sqlite g la (Claims [108]) [] [([82], [114]); ([65], [97]); ([78], [110])] = LSStores [[65]] /\
  list_stores f9_g f9_la (Claims f9_client) [] f9_all = LSStores [].
Proof. vm_compute. repeat split; reflexivity. Qed.

(* historical (F9, repaired by c075cf0): the old handler handed the empty list to the backend,
   which reads it as "no filter" *)
Example list_stores_pre_c075cf0_empty_grant :
  accessible_stores f9_g f9_la (Claims f9_client) = Some [] /\
  list_stores_pre_c075cf0 f9_g f9_la (Claims f9_client) [] f9_all = LSStores [[65]; [66]] /\
  is_allow (authorize f9_g (Claims f9_client) M_GetStore [66] []) = false /\
  backend_list_stores [] [] f9_all = f9_all.
Proof. vm_compute. repeat split; reflexivity. Qed.

(* the early return of the fixed handler is in the source (regenerated fact) *)
Theorem list_stores_empty_guard_present : c26_list_stores_empty_guard = true.
Proof. exact AuthzProofs.list_stores_empty_guard_present. Qed.
Print Assumptions list_stores_empty_guard_present.

(* listing from ANY continuation token (honest, stale, forged) on either backend returns only
   accessible live stores; [all] is the live list in id order, p the position the token denotes *)
Theorem list_stores_from_subset : forall sq g la cl name all p acc ids,
  accessible_stores g la cl = Some acc ->
  list_stores_from sq g la cl name all p = LSStores ids ->
  forall s, In s ids -> In s acc /\ In s (map fst all).
Proof. exact AuthzProofs.list_stores_from_subset. Qed.
Print Assumptions list_stores_from_subset.
(* the caller may get A only; a token pointing past A (position 2 of R, A, N) lists nothing *)
Example list_stores_from_ex :
  let g : grant_oracle := fun _ r _ => match r with R_CanCallListStores => Some true | _ => Some false end in
  let la : list_oracle := fun _ => Some [[65]] in
  let all := [([65], [97]); ([78], [110]); ([82], [114])] in
  list_stores_from true g la (Claims [108]) [] all 0 = LSStores [[65]] /\
  list_stores_from true g la (Claims [108]) [] all 1 = LSStores [] /\
  list_stores_from false g la (Claims [108]) [] all 1 = LSStores [] /\
  list_stores_from false g la (Claims [108]) [] all 0 = LSStores [[65]].
Proof. vm_compute. repeat split; reflexivity. Qed.

Theorem backend_list_stores_exact : forall ids name all st,
  ids <> [] ->
  (In st (backend_list_stores ids name all) <->
   In st all /\ In (fst st) ids /\ (name = [] \/ snd st = name)).
Proof. exact AuthzProofs.backend_list_stores_exact. Qed.
Print Assumptions backend_list_stores_exact.

(* the memory filter (nested scan) and the sqlite filter (IN list) select the same stores *)
Theorem backend_list_stores_same_members : forall ids name all st,
  In st (backend_list_stores ids name all) <-> In st (backend_list_stores_sqlite ids name all).
Proof. exact AuthzProofs.backend_list_stores_same_members. Qed.
Print Assumptions backend_list_stores_same_members.

Theorem list_stores_gettable : forall g la c name all acc ids,
  accessible_stores g la (Claims c) = Some acc ->
  (forall s, In s acc -> g c R_CanCallGetStore (OStore s) = Some true) ->
  list_stores g la (Claims c) name all = LSStores ids ->
  forall s, In s ids -> authorize g (Claims c) M_GetStore s [] = Allow.
Proof. exact AuthzProofs.list_stores_gettable. Qed.
Print Assumptions list_stores_gettable.

Theorem list_stores_empty_accessible : forall g la cl name all,
  accessible_stores g la cl = Some [] -> list_stores g la cl name all = LSStores [].
Proof. exact AuthzProofs.list_stores_empty_accessible. Qed.
Print Assumptions list_stores_empty_accessible.

(* the executable specification the oracle evaluates is the decision itself *)
Theorem spec_allowed_is_authorize : forall g cl m s mods,
  spec_allowed g cl m s mods = is_allow (authorize g cl m s mods).
Proof. exact AuthzProofs.spec_allowed_is_authorize. Qed.
Print Assumptions spec_allowed_is_authorize.

(* the pinned handler lists the extracted oracle reads are what the regenerated table says *)
Theorem pinned_handlers_match_source :
  map (fun h => bytes_of_string (h_name h)) (filter h_store_scoped c26_handlers) = spec_store_scoped_handlers /\
  map (fun h => bytes_of_string (h_name h)) (filter tr_model_read_before_authz c26_handlers) = spec_model_first_handlers.
Proof. exact AuthzProofs.pinned_handlers_match_source. Qed.
Print Assumptions pinned_handlers_match_source.
