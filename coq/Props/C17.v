(* C17 — Models are validated, immutable and resolved to the latest.
   Model: Store/Models.v (write_authzmodel.go, memory.go / sqlite.go model storage,
   model_caching.go, typesystem/resolver.go).  [body] is the content of a write request,
   [valid] is typesystem.NewAndValidate (not re-proved), [wf] is req.Validate().
   Every statement is about arbitrary histories; the ULID-monotonic hypothesis is
   [ids_increasing]: the id drawn by a write is greater than every id drawn before it. *)
From OFGA Require Import Base.Bytes Store.Assertions Store.Models Store.ModelsProofs.

(* memory and sqlite satisfy the backend laws all theorems below are proved from *)
Theorem backends_lawful :
  forall (body : Type) (valid wf : body -> bool) (ntypes : body -> N),
    (forall b, wf b = true -> ntypes b <> 0) ->
    (mbackend_ok body valid wf ntypes (mem_mbackend body ntypes) * mbackend_ok body valid wf ntypes (sql_mbackend body ntypes))%type.
Proof. exact c17_backends_lawful. Qed.
Print Assumptions backends_lawful.

(* Refinement: with all caches, the server's trace on every history equals the trace of the
   stateless specification (content of a store = accepted writes, newest first). *)
Theorem server_refines_spec :
  forall (body : Type) (valid wf : body -> bool) (ntypes size : body -> N),
    (forall b, wf b = true -> ntypes b <> 0) ->
    forall B, mbackend_ok body valid wf ntypes B ->
    forall h, ids_increasing body h = true ->
      mtrace body valid wf ntypes size B (mserver_init body B) h = spec_trace body valid wf ntypes size h.
Proof. exact m_refines. Qed.
Print Assumptions server_refines_spec.

(* Whatever can be read back from the datastore after any history passed validation. *)
Theorem only_valid_persisted :
  forall (body : Type) (valid wf : body -> bool) (ntypes size : body -> N),
    (forall b, wf b = true -> ntypes b <> 0) ->
    forall B, mbackend_ok body valid wf ntypes B ->
    forall h s id b, ids_increasing body h = true -> id <> [] ->
      mb_read body B (sm_ds body B (mrun body valid wf ntypes size B (mserver_init body B) h)) s id = Some b ->
      valid b = true /\ wf b = true.
Proof. exact m_only_valid_persisted. Qed.
Print Assumptions only_valid_persisted.

(* The id returned by a write is the drawn one, greater than every id already in the store, and
   becomes the head of the store's newest-first listing. *)
Theorem id_fresh_increasing :
  forall (body : Type) (valid wf : body -> bool) (ntypes size : body -> N),
    (forall b, wf b = true -> ntypes b <> 0) ->
    forall B, mbackend_ok body valid wf ntypes B ->
    forall h s b id id',
      ids_increasing body (h ++ [MWrite body s b id]) = true ->
      snd (mstep body valid wf ntypes size B (mrun body valid wf ntypes size B (mserver_init body B) h) (MWrite body s b id)) = MWritten body id' ->
      id' = id /\
      (forall i, In i (mb_list body B (sm_ds body B (mrun body valid wf ntypes size B (mserver_init body B) h)) s) -> bltb i id' = true) /\
      mb_list body B (sm_ds body B (mrun body valid wf ntypes size B (mserver_init body B) (h ++ [MWrite body s b id]))) s =
        id' :: mb_list body B (sm_ds body B (mrun body valid wf ntypes size B (mserver_init body B) h)) s.
Proof. exact m_id_fresh_increasing. Qed.
Print Assumptions id_fresh_increasing.

(* After an accepted write, ReadAuthorizationModel(s, id) returns that content after every later
   history (model cache included). *)
Theorem read_after_write_same :
  forall (body : Type) (valid wf : body -> bool) (ntypes size : body -> N),
    (forall b, wf b = true -> ntypes b <> 0) ->
    forall B, mbackend_ok body valid wf ntypes B ->
    forall h1 h2 s b id id',
      ids_increasing body (h1 ++ MWrite body s b id :: h2) = true ->
      snd (mstep body valid wf ntypes size B (mrun body valid wf ntypes size B (mserver_init body B) h1) (MWrite body s b id)) = MWritten body id' ->
      is_ulid id = true ->
      snd (mstep body valid wf ntypes size B (mrun body valid wf ntypes size B (mserver_init body B) (h1 ++ MWrite body s b id :: h2)) (MRead body s id))
      = MModel body id b.
Proof. exact m_read_after_write_same. Qed.
Print Assumptions read_after_write_same.

(* A request without model id is resolved to the last accepted write of its store, whatever
   happened in between on other stores, reads, rejected writes, cached typesystems — and, with
   h2 = [], immediately after the write. *)
Theorem modelless_uses_latest :
  forall (body : Type) (valid wf : body -> bool) (ntypes size : body -> N),
    (forall b, wf b = true -> ntypes b <> 0) ->
    forall B, mbackend_ok body valid wf ntypes B ->
    forall h1 h2 s b id id',
      ids_increasing body (h1 ++ MWrite body s b id :: h2) = true ->
      snd (mstep body valid wf ntypes size B (mrun body valid wf ntypes size B (mserver_init body B) h1) (MWrite body s b id)) = MWritten body id' ->
      forallb (fun o => negb (accepted_write_to body valid wf ntypes size s o)) h2 = true ->
      snd (mstep body valid wf ntypes size B (mrun body valid wf ntypes size B (mserver_init body B) (h1 ++ MWrite body s b id :: h2)) (MResolve body s None))
      = MResolved body id b.
Proof. exact m_modelless_uses_latest. Qed.
Print Assumptions modelless_uses_latest.

Theorem explicit_id_uses_that_model :
  forall (body : Type) (valid wf : body -> bool) (ntypes size : body -> N),
    (forall b, wf b = true -> ntypes b <> 0) ->
    forall B, mbackend_ok body valid wf ntypes B ->
    forall h1 h2 s b id id',
      ids_increasing body (h1 ++ MWrite body s b id :: h2) = true ->
      snd (mstep body valid wf ntypes size B (mrun body valid wf ntypes size B (mserver_init body B) h1) (MWrite body s b id)) = MWritten body id' ->
      is_ulid id = true -> ulid_parse_ok id = true ->
      snd (mstep body valid wf ntypes size B (mrun body valid wf ntypes size B (mserver_init body B) (h1 ++ MWrite body s b id :: h2)) (MResolve body s (Some id)))
      = MResolved body id b.
Proof. exact m_resolve_explicit. Qed.
Print Assumptions explicit_id_uses_that_model.

(* The predicate the oracle evaluates on the implementation's observations holds of the model's
   trace of every history. *)
Theorem trace_property :
  forall (body : Type) (valid wf : body -> bool) (ntypes size : body -> N),
    (forall b, wf b = true -> ntypes b <> 0) ->
    forall body_eqb : body -> body -> bool, (forall b, body_eqb b b = true) ->
    forall B, mbackend_ok body valid wf ntypes B ->
    forall h, ids_increasing body h = true ->
      mtrace_ok body valid wf body_eqb (mtrace body valid wf ntypes size B (mserver_init body B) h) = true.
Proof. exact m_trace_satisfies_property. Qed.
Print Assumptions trace_property.

(* The hypothesis is needed: with a non-monotonic id source sqlite serves an older model. *)
Theorem modelless_uses_latest_without_monotonic_ids_refuted :
  exists h s id b,
    t_ids_increasing (h ++ [MWrite tbody s b id]) = false /\
    snd (mstep tbody tb_valid tb_wf tb_ntypes tb_size t_sql
           (mrun tbody tb_valid tb_wf tb_ntypes tb_size t_sql (mserver_init tbody t_sql) h) (MWrite tbody s b id)) = MWritten tbody id /\
    snd (mstep tbody tb_valid tb_wf tb_ntypes tb_size t_sql
           (mrun tbody tb_valid tb_wf tb_ntypes tb_size t_sql (mserver_init tbody t_sql) (h ++ [MWrite tbody s b id]))
           (MResolve tbody s None)) <> MResolved tbody id b /\
    snd (mstep tbody tb_valid tb_wf tb_ntypes tb_size t_mem
           (mrun tbody tb_valid tb_wf tb_ntypes tb_size t_mem (mserver_init tbody t_mem) (h ++ [MWrite tbody s b id]))
           (MResolve tbody s None)) = MResolved tbody id b.
Proof. exact c17_latest_needs_monotonic_ids. Qed.
Print Assumptions modelless_uses_latest_without_monotonic_ids_refuted.

(* Concurrent requests (singleflight on "FindLatestAuthorizationModel:"+store).
   _partial: a request that issues its own lookup is served a model at least as new as the latest
   at its start, in every event history.  Missing part: requests that join a lookup already in
   flight, refuted below. *)
Theorem modelless_uses_latest_concurrent_partial :
  forall (body : Type) (fkey : bytes -> bytes) (h : list (cev body)),
    leaders_fresh body (crun body fkey h) = true /\
    (some_joined body (crun body fkey h) = false -> all_fresh body (crun body fkey h) = true).
Proof. exact c17_concurrent_partial. Qed.
Print Assumptions modelless_uses_latest_concurrent_partial.

Theorem modelless_uses_latest_concurrent_refuted :
  exists h, t_all_fresh (t_crun h) = false /\ t_some_joined (t_crun h) = true /\ t_leaders_fresh (t_crun h) = true.
Proof. exact c17_singleflight_stale. Qed.
Print Assumptions modelless_uses_latest_concurrent_refuted.

(* Isolation of the lookup between stores: with the key as coded
   ("FindLatestAuthorizationModel:" + storeID) every request, leader or follower, in every
   interleaving of writes, request starts and lookup completions over any number of stores, is
   served by a lookup that was made for its own store. *)
Theorem latest_lookup_isolated :
  forall (body : Type) (h : list (cev body)), all_own_store body (crun body lookup_key h) = true.
Proof. exact c17_latest_lookup_isolated. Qed.
Print Assumptions latest_lookup_isolated.

(* The store id in the key is what it rests on: with a key that omits it, a request for one
   store is served another store's latest model. *)
Theorem latest_lookup_isolated_without_store_in_key_refuted :
  exists h, t_all_own_store (t_crun_no_store h) = false /\ t_all_own_store (t_crun h) = true.
Proof. exact c17_latest_lookup_isolated_needs_store_in_key. Qed.
Print Assumptions latest_lookup_isolated_without_store_in_key_refuted.

(* ---- non-vacuity ------------------------------------------------------------------------ *)
Definition xs : bytes := ex_id 49.
Definition xs2 : bytes := ex_id 50.
Definition bad_body : tbody := mkTBody [9] true false 3 200 9.

(* the hypotheses of modelless_uses_latest / read_after_write_same are satisfiable on both
   backends: increasing ids, accepted write, later history with a rejected write to the same
   store, an accepted write to another store, reads and resolves that fill the caches *)
Example modelless_uses_latest_nonvacuous :
  let h1 := [MResolve tbody xs None; MWrite tbody xs (ex_body 1) (ex_id 50); MResolve tbody xs None] in
  let w := MWrite tbody xs (ex_body 2) (ex_id 51) in
  let h2 := [MWrite tbody xs bad_body (ex_id 52); MWrite tbody xs2 (ex_body 3) (ex_id 53); MRead tbody xs (ex_id 50); MResolve tbody xs (Some (ex_id 50))] in
  t_ids_increasing (h1 ++ w :: h2) = true /\
  forallb (fun o => negb (accepted_write_to tbody tb_valid tb_wf tb_ntypes tb_size xs o)) h2 = true /\
  snd (mstep tbody tb_valid tb_wf tb_ntypes tb_size t_mem (mrun tbody tb_valid tb_wf tb_ntypes tb_size t_mem (mserver_init tbody t_mem) h1) w) = MWritten tbody (ex_id 51) /\
  snd (mstep tbody tb_valid tb_wf tb_ntypes tb_size t_sql (mrun tbody tb_valid tb_wf tb_ntypes tb_size t_sql (mserver_init tbody t_sql) h1) w) = MWritten tbody (ex_id 51) /\
  snd (mstep tbody tb_valid tb_wf tb_ntypes tb_size t_mem (mrun tbody tb_valid tb_wf tb_ntypes tb_size t_mem (mserver_init tbody t_mem) (h1 ++ w :: h2)) (MResolve tbody xs None)) = MResolved tbody (ex_id 51) (ex_body 2) /\
  snd (mstep tbody tb_valid tb_wf tb_ntypes tb_size t_sql (mrun tbody tb_valid tb_wf tb_ntypes tb_size t_sql (mserver_init tbody t_sql) (h1 ++ w :: h2)) (MResolve tbody xs None)) = MResolved tbody (ex_id 51) (ex_body 2) /\
  is_ulid (ex_id 51) = true /\ ulid_parse_ok (ex_id 51) = true.
Proof. vm_compute. repeat split. Qed.

Example wf_ntypes_nonvacuous : forall b : tbody, (tb_wf b && negb (N.eqb (tb_ntypes b) 0)) = true -> tb_ntypes b <> 0.
Proof. intros b H. apply andb_true_iff in H as [_ H]. apply negb_true_iff in H. apply N.eqb_neq. exact H. Qed.

Example trace_property_discriminates :
  t_trace_ok [(MWrite tbody xs (ex_body 1) (ex_id 50), MWritten tbody (ex_id 50));
              (MWrite tbody xs (ex_body 2) (ex_id 51), MWritten tbody (ex_id 51));
              (MResolve tbody xs None, MResolved tbody (ex_id 50) (ex_body 1))] = false /\
  t_trace_ok [(MWrite tbody xs bad_body (ex_id 50), MWritten tbody (ex_id 50))] = false /\
  t_trace_ok [(MWrite tbody xs (ex_body 1) (ex_id 51), MWritten tbody (ex_id 51));
              (MWrite tbody xs (ex_body 2) (ex_id 50), MWritten tbody (ex_id 50))] = false.
Proof. vm_compute. repeat split. Qed.
