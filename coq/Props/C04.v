(* C04 — contextual tuples behave exactly like stored tuples.

   Reader algebra (Store/CombinedReader.v models storagewrappers.CombinedTupleReader as coded):
   for the filter shapes the engines issue, a read through the combined reader is, as a multiset,
   the same read of a store that holds the contextual tuples as well; the shapes for which this
   is false are refuted with witnesses (filter parts that are not applied to contextual tuples,
   the one-tuple-per-object merge of the sorted ReadStartingWithUser); nothing persists; the
   reference semantics does not see the split. *)
From Coq Require Import NArith List Bool Permutation.
From OFGA Require Import Store.CombinedReader Store.CombinedReaderProofs Store.CtxLiftProofs.
From OFGA Require Sem.Semantics.
Import ListNotations.
Open Scope N_scope.

(* ---- combined(stored, ctx) ≡ read(stored ∪ ctx) ------------------------------------------- *)

Theorem combined_read_eq : forall stored ctx f,
  read_shape_ok f = true ->
  Permutation (combined_read stored ctx f) (read (stored ++ ctx) f).
Proof. exact CombinedReaderProofs.combined_read_eq. Qed.
Print Assumptions combined_read_eq.
Example combined_read_eq_nonvacuous :
  read_shape_ok (mkRF (OFull 10) 3 UAny []) = true /\ combined_read [tB] [tA; tG] (mkRF (OFull 10) 3 UAny []) = [tA; tG; tB].
Proof. split; reflexivity. Qed.

Theorem combined_usersets_eq : forall stored ctx f,
  usersets_shape_ok f = true ->
  Permutation (combined_read_userset_tuples stored ctx f) (read_userset_tuples (stored ++ ctx) f).
Proof. exact CombinedReaderProofs.combined_usersets_eq. Qed.
Print Assumptions combined_usersets_eq.
Example combined_usersets_eq_nonvacuous :
  usersets_shape_ok (mkUF (OFull 10) 3 [URel 2 7; UWild 1] []) = true /\
  combined_read_userset_tuples [tW; tA] [tG; tB] (mkUF (OFull 10) 3 [URel 2 7; UWild 1] []) = [tG; tW].
Proof. split; reflexivity. Qed.

Theorem combined_rswu_eq : forall stored ctx f,
  rswu_shape_ok f = true ->
  Permutation (combined_rswu stored ctx f false) (rswu (stored ++ ctx) f).
Proof. exact CombinedReaderProofs.combined_rswu_eq. Qed.
Print Assumptions combined_rswu_eq.
Example combined_rswu_eq_nonvacuous :
  rswu_shape_ok (mkSF 5 3 [ua; uw] None []) = true /\
  combined_rswu [tB; tW] [tA] (mkSF 5 3 [ua; uw] None []) false = [tA; tW].
Proof. split; reflexivity. Qed.

(* ReadUserTuple: no contextual tuple repeats a key (a write of it would be a duplicate) *)
Theorem combined_rut_eq : forall stored ctx k cs,
  keys_unique stored = true -> keys_unique ctx = true -> disjoint_keys stored ctx = true ->
  rut_shape_ok k cs = true ->
  combined_read_user_tuple stored ctx k cs = read_user_tuple (stored ++ ctx) k cs.
Proof. exact CombinedReaderProofs.combined_rut_eq_disjoint. Qed.
Print Assumptions combined_rut_eq.
Example combined_rut_eq_nonvacuous :
  keys_unique [tA; tW] = true /\ keys_unique [tB] = true /\ disjoint_keys [tA; tW] [tB] = true /\
  rut_shape_ok (mkKey 10 3 ub) [] = true /\ combined_read_user_tuple [tA; tW] [tB] (mkKey 10 3 ub) [] = Some tB.
Proof. repeat split; reflexivity. Qed.

(* ... and the answer does not depend on the order in which a store with unique keys lists its tuples *)
Theorem read_user_tuple_perm : forall s s' k cs,
  keys_unique s = true -> Permutation s s' -> read_user_tuple s k cs = read_user_tuple s' k cs.
Proof. exact CombinedReaderProofs.rut_perm. Qed.
Print Assumptions read_user_tuple_perm.

Theorem combined_user_tuple_ctx_wins : forall stored ctx k cs,
  N.eqb (k_rel k) 0 = false ->
  (exists c, In c ctx /\ key_eqb (key_of c) k = true) ->
  exists c', In c' ctx /\ key_eqb (key_of c') k = true /\
             combined_read_user_tuple stored ctx k cs = Some (obs c').
Proof. exact CombinedReaderProofs.combined_user_tuple_ctx_wins. Qed.
Print Assumptions combined_user_tuple_ctx_wins.
Example combined_user_tuple_ctx_wins_nonvacuous :
  combined_read_user_tuple [tA] [tAc] (mkKey 10 3 ua) [0] = Some tAc /\ read_user_tuple [tA] (mkKey 10 3 ua) [0] = Some tA.
Proof. split; reflexivity. Qed.

(* sorted ReadStartingWithUser (weight-2 fast path): what holds for every input ... *)
Theorem combined_rswu_sorted_ok : forall stored ctx f,
  sorted_result_ok stored ctx f (combined_rswu stored ctx f true) = true.
Proof. exact CombinedReaderProofs.combined_rswu_sorted_ok. Qed.
Print Assumptions combined_rswu_sorted_ok.

Theorem combined_rswu_sorted_objects : forall stored ctx f,
  rswu_shape_ok f = true ->
  let out := combined_rswu stored ctx f true in
  strictly_asc (map rt_obj out) = true /\
  (forall t, In t out -> In t (rswu (stored ++ ctx) f)) /\
  (forall t, In t (rswu (stored ++ ctx) f) -> In (rt_obj t) (map rt_obj out)).
Proof. exact CombinedReaderProofs.combined_rswu_sorted_objects. Qed.
Print Assumptions combined_rswu_sorted_objects.

(* ... the full statement (multiset equality) holds when no two matching tuples share an object ... *)
Theorem combined_rswu_sorted_eq_partial : forall stored ctx f,
  rswu_shape_ok f = true ->
  objs_unique (rswu (stored ++ ctx) f) = true ->
  Permutation (combined_rswu stored ctx f true) (rswu (stored ++ ctx) f).
Proof. exact CombinedReaderProofs.combined_rswu_sorted_eq_partial. Qed.
Print Assumptions combined_rswu_sorted_eq_partial.
Example combined_rswu_sorted_eq_partial_nonvacuous :
  objs_unique (rswu ([tW] ++ [mkRT 11 5 3 ua 0 0]) (mkSF 5 3 [ua; uw] None [])) = true /\
  combined_rswu [tW] [mkRT 11 5 3 ua 0 0] (mkSF 5 3 [ua; uw] None []) true = [tW; mkRT 11 5 3 ua 0 0].
Proof. split; reflexivity. Qed.

(* ... and is false otherwise: only one tuple per object survives, and which one depends on the split
   (issued by the weight-2 fast path of Check with the user filter [user, user type:*]) *)
Theorem combined_rswu_sorted_refuted :
  exists stored ctx f, rswu_shape_ok f = true /\ keys_unique (stored ++ ctx) = true /\
    ~ Permutation (combined_rswu stored ctx f true) (rswu (stored ++ ctx) f).
Proof. exact CombinedReaderProofs.combined_rswu_sorted_refuted. Qed.
Print Assumptions combined_rswu_sorted_refuted.

Theorem combined_rswu_sorted_split_dependent_refuted :
  exists a b f, rswu_shape_ok f = true /\ keys_unique [a; b] = true /\
    combined_rswu [a] [b] f true <> combined_rswu [b] [a] f true.
Proof. exact CombinedReaderProofs.combined_rswu_sorted_split_dependent_refuted. Qed.
Print Assumptions combined_rswu_sorted_split_dependent_refuted.

(* ---- refuted filter shapes (parts of a filter that are not applied to contextual tuples) ---- *)

Theorem combined_read_refuted_user_filter :
  exists stored ctx f, rf_conds f = [] /\ ofilter_exact (rf_obj f) = true /\
    ~ Permutation (combined_read stored ctx f) (read (stored ++ ctx) f).
Proof. exact CombinedReaderProofs.combined_read_refuted_user_filter. Qed.
Print Assumptions combined_read_refuted_user_filter.

Theorem combined_read_refuted_conditions :
  exists stored ctx f, rf_usr f = UAny /\ ofilter_exact (rf_obj f) = true /\
    ~ Permutation (combined_read stored ctx f) (read (stored ++ ctx) f).
Proof. exact CombinedReaderProofs.combined_read_refuted_conditions. Qed.
Print Assumptions combined_read_refuted_conditions.

Theorem combined_read_refuted_type_prefix :
  exists stored ctx f, rf_usr f = UAny /\ rf_conds f = [] /\
    ~ Permutation (combined_read stored ctx f) (read (stored ++ ctx) f).
Proof. exact CombinedReaderProofs.combined_read_refuted_type_prefix. Qed.
Print Assumptions combined_read_refuted_type_prefix.

Theorem combined_read_page_refuted :
  exists stored ctx f, read_shape_ok f = true /\
    ~ Permutation (combined_read_page stored ctx f) (read_page (stored ++ ctx) f).
Proof. exact CombinedReaderProofs.combined_read_page_refuted. Qed.
Print Assumptions combined_read_page_refuted.

Theorem combined_rut_refuted_conditions :
  exists stored ctx k cs, keys_unique (stored ++ ctx) = true /\ N.eqb (k_rel k) 0 = false /\
    combined_read_user_tuple stored ctx k cs <> read_user_tuple (stored ++ ctx) k cs.
Proof. exact CombinedReaderProofs.combined_rut_refuted_conditions. Qed.
Print Assumptions combined_rut_refuted_conditions.

Theorem combined_rut_refuted_overlap :
  exists stored ctx k, rut_shape_ok k [] = true /\ keys_unique stored = true /\ keys_unique ctx = true /\
    combined_read_user_tuple stored ctx k [] <> read_user_tuple (stored ++ ctx) k [].
Proof. exact CombinedReaderProofs.combined_rut_refuted_overlap. Qed.
Print Assumptions combined_rut_refuted_overlap.

Theorem combined_usersets_refuted_no_restrictions :
  exists stored ctx f, uf_conds f = [] /\ ofilter_exact (uf_obj f) = true /\
    ~ Permutation (combined_read_userset_tuples stored ctx f) (read_userset_tuples (stored ++ ctx) f).
Proof. exact CombinedReaderProofs.combined_usersets_refuted_no_restrictions. Qed.
Print Assumptions combined_usersets_refuted_no_restrictions.

Theorem combined_usersets_refuted_conditions :
  exists stored ctx f, negb (null (uf_restr f)) = true /\ forallb restr_wf (uf_restr f) = true /\
    ~ Permutation (combined_read_userset_tuples stored ctx f) (read_userset_tuples (stored ++ ctx) f).
Proof. exact CombinedReaderProofs.combined_usersets_refuted_conditions. Qed.
Print Assumptions combined_usersets_refuted_conditions.

Theorem combined_usersets_refuted_empty_relation :
  exists stored ctx f, negb (null (uf_restr f)) = true /\ uf_conds f = [] /\
    ~ Permutation (combined_read_userset_tuples stored ctx f) (read_userset_tuples (stored ++ ctx) f).
Proof. exact CombinedReaderProofs.combined_usersets_refuted_empty_relation. Qed.
Print Assumptions combined_usersets_refuted_empty_relation.

Theorem combined_rswu_refuted_object_ids :
  exists stored ctx f, sf_conds f = [] /\ negb (null (sf_users f)) = true /\
    ~ Permutation (combined_rswu stored ctx f false) (rswu (stored ++ ctx) f).
Proof. exact CombinedReaderProofs.combined_rswu_refuted_object_ids. Qed.
Print Assumptions combined_rswu_refuted_object_ids.

(* issued by the ListObjects pipeline (internal/listobjects/pipeline/store.go) *)
Theorem combined_rswu_refuted_conditions :
  exists stored ctx f, sf_oids f = None /\ negb (null (sf_users f)) = true /\
    ~ Permutation (combined_rswu stored ctx f false) (rswu (stored ++ ctx) f).
Proof. exact CombinedReaderProofs.combined_rswu_refuted_conditions. Qed.
Print Assumptions combined_rswu_refuted_conditions.

(* issued by the optimised ListObjects for a typed-wildcard user (reverse_expand_weighted.go) *)
Theorem combined_rswu_refuted_no_users :
  exists stored ctx f, sf_oids f = None /\ sf_conds f = [] /\
    ~ Permutation (combined_rswu stored ctx f false) (rswu (stored ++ ctx) f).
Proof. exact CombinedReaderProofs.combined_rswu_refuted_no_users. Qed.
Print Assumptions combined_rswu_refuted_no_users.

(* ---- nothing persists ---------------------------------------------------------------------- *)

(* whatever requests (contextual tuples, operation) came before, the store is unchanged and every
   result is a function of the store and of that request's own contextual tuples *)
Theorem ctx_never_persists : forall s h,
  fst (run_ops s h) = s /\
  snd (run_ops s h) = map (fun co : list rtuple * op => snd (combined_op s (fst co) (snd co))) h.
Proof. exact CombinedReaderProofs.ctx_never_persists. Qed.
Print Assumptions ctx_never_persists.

Theorem combined_nil_is_plain : forall s o,
  snd (combined_op s [] o) =
  match o with
  | OpRSWU f true => RList (dedup_from None (rswu_sorted s f))
  | _ => plain_op s o
  end.
Proof. exact CombinedReaderProofs.combined_nil_is_plain. Qed.
Print Assumptions combined_nil_is_plain.
Example ctx_never_persists_nonvacuous :
  snd (run_ops [tA] [([tB], OpRead (mkRF (OFull 10) 3 UAny [])); ([], OpRead (mkRF (OFull 10) 3 UAny []))]) =
  [RList [tB; tA]; RList [tA]].
Proof. reflexivity. Qed.

(* ---- the weighted-graph engine's indexes (internal/check/request.go) ------------------------ *)

Theorem index_by_user_sound : forall ctx k x,
  In x (index_by_user ctx k) -> In x ctx /\ k3_eqb (by_user_key x) k = true.
Proof. exact CombinedReaderProofs.index_by_user_sound. Qed.
Print Assumptions index_by_user_sound.

Theorem index_by_user_complete : forall ctx t,
  keys_unique ctx = true -> In t ctx -> In t (index_by_user ctx (by_user_key t)).
Proof. exact CombinedReaderProofs.index_by_user_complete. Qed.
Print Assumptions index_by_user_complete.

Theorem index_by_object_sound : forall ctx k x,
  In x (index_by_object ctx k) -> In x ctx /\ k4_eqb (by_object_key x) k = true.
Proof. exact CombinedReaderProofs.index_by_object_sound. Qed.
Print Assumptions index_by_object_sound.

Theorem index_by_object_complete : forall ctx t,
  keys_unique ctx = true -> In t ctx -> In t (index_by_object ctx (by_object_key t)).
Proof. exact CombinedReaderProofs.index_by_object_complete. Qed.
Print Assumptions index_by_object_complete.

Theorem index_lookup_spec : forall ctx u r ot o,
  keys_unique ctx = true ->
  match index_lookup_object (index_by_user ctx (u, r, ot)) o with
  | Some t => In t ctx /\ rt_obj t = o /\ rt_rel t = r /\ u_str (rt_user t) = u /\ rt_otype t = ot
  | None => forall t, In t ctx -> ~ (rt_obj t = o /\ rt_rel t = r /\ u_str (rt_user t) = u /\ rt_otype t = ot)
  end.
Proof. exact CombinedReaderProofs.index_lookup_spec. Qed.
Print Assumptions index_lookup_spec.
Example index_nonvacuous :
  keys_unique [tA; tB; tG] = true /\ index_by_user [tA; tB; tG] (by_user_key tB) = [tB] /\
  index_by_object [tB; tG; tA] (by_object_key tA) = [tA; tB].
Proof. repeat split; reflexivity. Qed.

(* two contextual tuples with one key: the first of the request is kept, the other is never seen *)
Theorem index_dedup_first_wins :
  exists a b, key_eqb (key_of a) (key_of b) = true /\ a <> b /\
    index_by_user [a; b] (by_user_key a) = [a] /\ index_by_user [b; a] (by_user_key a) = [b].
Proof. exact CombinedReaderProofs.index_dedup_first_wins. Qed.
Print Assumptions index_dedup_first_wins.

(* ---- lifting to answers --------------------------------------------------------------------- *)

Theorem holds3_store_perm : forall m conds s s', Permutation s s' -> forall subj atoms o r,
  Semantics.holds3 m conds s subj atoms o r = Semantics.holds3 m conds s' subj atoms o r.
Proof. exact CtxLiftProofs.holds3_store_perm. Qed.
Print Assumptions holds3_store_perm.

Theorem check_ctx_split : forall m conds stored ctx subj atoms o r,
  Semantics.holds3 m conds (stored ++ ctx) subj atoms o r = Semantics.holds3 m conds (ctx ++ stored) subj atoms o r.
Proof. exact CtxLiftProofs.check_ctx_split. Qed.
Print Assumptions check_ctx_split.

Theorem check_any_split : forall m conds stored1 ctx1 stored2 ctx2 subj atoms o r,
  Permutation (stored1 ++ ctx1) (stored2 ++ ctx2) ->
  Semantics.holds3 m conds (stored1 ++ ctx1) subj atoms o r = Semantics.holds3 m conds (stored2 ++ ctx2) subj atoms o r /\
  Semantics.converged m conds (stored1 ++ ctx1) subj atoms = Semantics.converged m conds (stored2 ++ ctx2) subj atoms.
Proof. exact CtxLiftProofs.check_any_split. Qed.
Print Assumptions check_any_split.
