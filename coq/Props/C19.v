(* C19: Malformed or hostile input never crashes the server.

   Level "other" (partial).  Coq functions are total, so "does not crash" is only meaningful
   where the model makes Go's partiality explicit.  Sec/NoPanic.v does that for the raw-input glue
   listed below: every slice / index expression returns [Ok v] or [Panic], every bounded recursion
   [OutOfFuel] when its budget is exhausted.  Each theorem here is either a [no_panic_*] fact about
   ALL inputs or a [_refuted] fact with the input.  Statements only; proofs in
   Sec/NoPanicProofs.v (and Check/V1Proofs.v, Codec/KeyEncProofs.v, Codec/TupleStrProofs.v for the
   reused facts).

   A. Go slice / index expressions: exact preconditions.
   B. memory backend paging slices (memory.go read / ReadAuthorizationModels / ListStores /
      ReadChanges) and the Read request path.  Finding F5 (a continuation token with a negative
      offset reached matches[from:] and panicked) is repaired in /repo by commit 3cab6a7; the
      model follows the repaired code and the full statement no_panic_read_request is proved.
   C. PbValue.WriteTo (explicit stack): never out of fuel, bytes = recursive spec, every node
      popped exactly once in pre-order, stack height <= node count.
   D. depth-guarded recursion (generic) and its instance, the default Check engine model;
      structural recursion over a nested message is bounded by half its wire size.
   E. pkg/tuple splitting / joining index arithmetic and the rune decoder never leave the string.
   F. typesystem.hasCycle (model validation) walks every PATH of the computed-userset graph:
      its number of calls on a valid model of n+1 relations is 2^(n+2)-3 -- "validation cost is
      polynomial in the model" is refuted (finding model_validation_hascycle_cost: a 1 KB model
      keeps WriteAuthorizationModel busy far beyond the request deadline).

   G. panics raised below the handlers: RecoverFromPanic never re-panics (the r.(error) variant
      does); which recovery sites keep the process alive.

   NOT covered by proof (explored by the driver only, see checks/C19.json): everything else the
   request touches -- protobuf and JSON decoding, protoc-gen-validate, cel-go, the typesystem
   validators themselves, the graph resolvers' goroutines, the SQL drivers; memory growth in
   general. *)
From OFGA Require Import Base.Bytes Sec.NoPanic Sec.NoPanicProofs.
From OFGA Require Store.Paging Codec.KeyEnc Codec.TupleStr Base.Utf8.
From OFGA Require Sem.Vocab Check.V1 Check.V1Proofs.
From Coq Require Import ZArith.
Open Scope N_scope.

(* ================================================================== *)
(* A. slice and index expressions                                       *)
(* ================================================================== *)

Theorem no_panic_slice_from_iff : forall (A : Type) (s : list A) (lo : Z),
  slice_from s lo <> Panic <-> (0 <= lo <= zlen s)%Z.
Proof. exact @NoPanicProofs.no_panic_slice_from_iff. Qed.
Print Assumptions no_panic_slice_from_iff.
Example slice_from_ex :
  slice_from [1; 2; 3] 1 = Ok [2; 3] /\ slice_from [1; 2; 3] 3 = Ok [] /\
  slice_from [1; 2; 3] (-1) = Panic /\ slice_from [1; 2; 3] 4 = Panic.
Proof. repeat split; reflexivity. Qed.

Theorem no_panic_slice_to_iff : forall (A : Type) (s : list A) (hi : Z),
  slice_to s hi <> Panic <-> (0 <= hi <= zlen s)%Z.
Proof. exact @NoPanicProofs.no_panic_slice_to_iff. Qed.
Print Assumptions no_panic_slice_to_iff.
Example slice_to_ex :
  slice_to [1; 2; 3] 2 = Ok [1; 2] /\ slice_to [1; 2; 3] (-2) = Panic /\ slice_to [1; 2; 3] 4 = Panic.
Proof. repeat split; reflexivity. Qed.

Theorem no_panic_slice_from_to_iff : forall (A : Type) (s : list A) (lo hi : Z),
  slice_from_to s lo hi <> Panic <-> (0 <= lo <= hi /\ hi <= zlen s)%Z.
Proof. exact @NoPanicProofs.no_panic_slice_from_to_iff. Qed.
Print Assumptions no_panic_slice_from_to_iff.
Example slice_from_to_ex :
  slice_from_to [1; 2; 3] 1 2 = Ok [2] /\ slice_from_to [1; 2; 3] 2 1 = Panic /\
  slice_from_to [1; 2; 3] 3 3 = Ok [].
Proof. repeat split; reflexivity. Qed.

Theorem no_panic_index_at_iff : forall (A : Type) (s : list A) (i : Z),
  index_at s i <> Panic <-> (0 <= i < zlen s)%Z.
Proof. exact @NoPanicProofs.no_panic_index_at_iff. Qed.
Print Assumptions no_panic_index_at_iff.
Example index_at_ex : index_at [7; 8] 1 = Ok 8 /\ index_at [7; 8] 2 = Panic /\ index_at [7; 8] (-1) = Panic.
Proof. repeat split; reflexivity. Qed.

Theorem no_panic_set_at_iff : forall (A : Type) (s : list A) (i : Z) (x : A),
  set_at s i x <> Panic <-> (0 <= i < zlen s)%Z.
Proof. exact @NoPanicProofs.no_panic_set_at_iff. Qed.
Print Assumptions no_panic_set_at_iff.
Example set_at_ex : set_at [7; 8] 1 9 = Ok [7; 9] /\ set_at [7; 8] 2 9 = Panic.
Proof. split; reflexivity. Qed.

(* ================================================================== *)
(* B. the paging slices of the memory backend                           *)
(* ================================================================== *)

(* memory.go read() as repaired by 3cab6a7 (negative offset rejected, offset clamped): the only
   panic left at the storage level is a negative page size together with a non-negative offset *)
Theorem no_panic_iff : forall (A : Type) (matches : list A) (from to : Z),
  page_slice matches from to <> Panic <-> (from < 0 \/ 0 <= to)%Z.
Proof. exact @NoPanicProofs.no_panic_iff. Qed.
Print Assumptions no_panic_iff.
Example no_panic_iff_ex :
  page_slice [10; 11; 12; 13; 14] 2 2 = Ok (Some ([12; 13], Some 4%Z)) /\
  page_slice [10; 11; 12; 13; 14] 99 2 = Ok (Some ([], None)) /\          (* was F5a: restart *)
  page_slice [10; 11; 12; 13; 14] (-1) 2 = Ok None /\                      (* was F5b: panic *)
  page_slice [10; 11; 12; 13; 14] (-1) (-3) = Ok None /\
  page_slice [10; 11; 12; 13; 14] 0 (-3) = Panic /\
  page_slice (@nil N) (-1) 2 = Ok None.
Proof. repeat split; reflexivity. Qed.

Theorem page_slice_no_fuel : forall (A : Type) (matches : list A) (from to : Z),
  page_slice matches from to <> OutOfFuel.
Proof. exact @NoPanicProofs.page_slice_no_fuel. Qed.
Print Assumptions page_slice_no_fuel.

Theorem page_slice_negative_offset : forall (A : Type) (matches : list A) (from to : Z),
  (from < 0)%Z -> page_slice matches from to = Ok None.
Proof. exact @NoPanicProofs.page_slice_negative_offset. Qed.
Print Assumptions page_slice_negative_offset.

Theorem page_slice_in_range : forall (A : Type) (matches : list A) (from to : Z),
  (0 <= from <= zlen matches)%Z -> (0 < to)%Z ->
  page_slice matches from to =
  Ok (Some (firstn (Z.to_nat to) (skipn (Z.to_nat from) matches),
            if (to <? zlen matches - from)%Z then Some (Paging.wrap64 (from + to)) else None)).
Proof. exact @NoPanicProofs.page_slice_in_range. Qed.
Print Assumptions page_slice_in_range.
Example page_slice_in_range_ex :
  (0 <= 4 <= zlen [10; 11; 12; 13; 14])%Z /\ page_slice [10; 11; 12; 13; 14] 4 2 = Ok (Some ([14], None)).
Proof. split; [unfold zlen; cbn; lia | reflexivity]. Qed.

Theorem page_slice_beyond_end : forall (A : Type) (matches : list A) (from to : Z),
  (zlen matches < from)%Z -> (0 <= to)%Z -> page_slice matches from to = Ok (Some ([], None)).
Proof. exact @NoPanicProofs.page_slice_beyond_end. Qed.
Print Assumptions page_slice_beyond_end.

(* ReadAuthorizationModels / ListStores clamp the offset: no token offset and no page size can
   make rows[from:to] panic *)
Theorem no_panic_page_clamped : forall (A : Type) (rows : list A) (from ps : Z),
  exists r, page_clamped rows from ps = Ok r.
Proof. exact @NoPanicProofs.no_panic_page_clamped. Qed.
Print Assumptions no_panic_page_clamped.
Example page_clamped_ex :
  page_clamped [1; 2; 3] (-7) 2 = Ok ([1; 2], Some 2%Z) /\
  page_clamped [1; 2; 3] 99 (-5) = Ok ([], None) /\
  page_clamped [1; 2; 3] 9223372036854775807 2147483647 = Ok ([], None).
Proof. repeat split; reflexivity. Qed.

Theorem no_panic_changes_slice : forall (A : Type) (all : list A) (ps : Z),
  exists r, changes_slice all ps = Ok r.
Proof. exact @NoPanicProofs.no_panic_changes_slice. Qed.
Print Assumptions no_panic_changes_slice.
Example changes_slice_ex : changes_slice [1; 2; 3] 2 = Ok [1; 2] /\ changes_slice [1; 2; 3] (-1) = Ok [1; 2; 3].
Proof. split; reflexivity. Qed.

(* THE FULL-STRENGTH STATEMENT for the Read request path: no listing, no page size and no
   continuation token makes the request-level read panic.  It was refuted by the code before
   commit 3cab6a7 (finding F5, token "-1|"); it holds for the repaired code. *)
Theorem no_panic_read_request : forall (A : Type) (matches : list A) (req_ps : Z) (tok : bytes),
  read_request_mem matches req_ps tok <> Panic.
Proof. exact @NoPanicProofs.no_panic_read_request. Qed.
Print Assumptions no_panic_read_request.
(* the old witnesses "-1|" (on an empty store too) and "-9223372036854775808|x" *)
Example no_panic_read_request_ex :
  read_request_mem (@nil N) 2 [45; 49; 124] = Ok None /\
  read_request_mem [10; 11; 12] (-4) [45; 57; 50; 50; 51; 51; 55; 50; 48; 51; 54; 56; 53; 52; 55; 55; 53; 56; 48; 56; 124; 120] = Ok None /\
  read_request_mem [10; 11; 12] (-4) [49; 124] = Ok (Some ([11; 12], None)) /\
  read_request_mem [10; 11; 12] 2 [57; 57; 124] = Ok (Some ([], None)).
Proof. repeat split; vm_compute; reflexivity. Qed.

(* the tokens whose offset part parses (strconv.Atoi) to a negative integer get an error answer *)
Theorem read_request_rejects_negative_offset : forall (A : Type) (matches : list A) (req_ps : Z) (tok : bytes),
  negative_offset_token tok = true -> read_request_mem matches req_ps tok = Ok None.
Proof. exact @NoPanicProofs.read_request_rejects_negative_offset. Qed.
Print Assumptions read_request_rejects_negative_offset.
(* "-1|" is such a token; "1|", "", "-|", "-1" (no separator), "+1|" are not *)
Example negative_offset_token_ex :
  negative_offset_token [45; 49; 124] = true /\ negative_offset_token [49; 124] = false /\
  negative_offset_token [] = false /\ negative_offset_token [45; 124] = false /\
  negative_offset_token [45; 49] = false /\ negative_offset_token [43; 49; 124] = false.
Proof. repeat split; vm_compute; reflexivity. Qed.

(* ================================================================== *)
(* C. PbValue.WriteTo: the explicit-stack walk                          *)
(* ================================================================== *)

(* the loop terminates within pb_size v iterations for every value, however deeply nested *)
Theorem no_panic_pb_write : forall v : KeyEnc.pbval, exists r, pb_write_i v = Ok r.
Proof. exact NoPanicProofs.no_panic_pb_write. Qed.
Print Assumptions no_panic_pb_write.

Theorem walk_eq_recursive : forall (v : KeyEnc.pbval) (r : wres),
  pb_write_i v = Ok r -> wr_bytes r = KeyEnc.enc_pb v.
Proof. exact NoPanicProofs.walk_eq_recursive. Qed.
Print Assumptions walk_eq_recursive.

(* the instrumented walk emits what C24's model of the same loop emits *)
Theorem walk_agrees_with_c24 : forall (v : KeyEnc.pbval) (r : wres),
  pb_write_i v = Ok r -> KeyEnc.pb_write_outcome v = KeyEnc.Bytes (wr_bytes r).
Proof. exact NoPanicProofs.walk_agrees_with_c24. Qed.
Print Assumptions walk_agrees_with_c24.

Theorem walk_visits_each_node_once : forall (v : KeyEnc.pbval) (r : wres),
  pb_write_i v = Ok r ->
  wr_visits r = rpaths (shape v) /\ NoDup (wr_visits r) /\ length (wr_visits r) = KeyEnc.pb_size v.
Proof. exact NoPanicProofs.walk_visits_each_node_once. Qed.
Print Assumptions walk_visits_each_node_once.

Theorem stack_height_le_nodes : forall (v : KeyEnc.pbval) (r : wres),
  pb_write_i v = Ok r -> (1 <= wr_maxh r <= KeyEnc.pb_size v)%nat.
Proof. exact NoPanicProofs.stack_height_le_nodes. Qed.
Print Assumptions stack_height_le_nodes.

(* {"b": [true, null], "a": {"x": "y"}} : 6 nodes, popped root, a, a.x, b, b[0], b[1]; the
   stack never holds more than 2 frames *)
Example pb_write_ex :
  let v := KeyEnc.PStruct [([98], KeyEnc.PList [KeyEnc.PBool true; KeyEnc.PNull]);
                           ([97], KeyEnc.PStruct [([120], KeyEnc.PStr [121])])] in
  pb_write_i v = Ok (mk_wres [7; 2; 4; 1; 97; 7; 1; 4; 1; 120; 4; 1; 121; 4; 1; 98; 6; 2; 2; 1; 0]
                             [[]; [0]; [0; 0]; [1]; [1; 0]; [1; 1]]%nat 2) /\
  KeyEnc.pb_size v = 6%nat.
Proof. split; vm_compute; reflexivity. Qed.

(* ================================================================== *)
(* D. bounded recursion                                                  *)
(* ================================================================== *)

(* any recursion that checks a depth counter against a limit at entry and hands depth+1 to its
   nested calls returns with limit - depth + 1 units of nesting, whatever the body does with the
   answers and however many nested calls it makes *)
Theorem depth_guarded_recursion_terminates :
  forall (A R : Type) (limit : nat) (too_deep : R) (body : (A -> go R) -> A -> go R),
  (forall self a, (forall a', self a' <> OutOfFuel) -> body self a <> OutOfFuel) ->
  forall fuel depth a, (limit - depth < fuel)%nat ->
  guarded limit too_deep body fuel depth a <> OutOfFuel.
Proof. exact @NoPanicProofs.depth_guarded_recursion_terminates. Qed.
Print Assumptions depth_guarded_recursion_terminates.

Theorem depth_guarded_fuel_irrelevant :
  forall (A R : Type) (limit : nat) (too_deep : R) (body : (A -> go R) -> A -> go R),
  (forall s1 s2 a, (forall a', s1 a' = s2 a') -> body s1 a = body s2 a) ->
  forall f1 f2 depth a, (limit - depth < f1)%nat -> (limit - depth < f2)%nat ->
  guarded limit too_deep body f1 depth a = guarded limit too_deep body f2 depth a.
Proof. exact @NoPanicProofs.depth_guarded_fuel_irrelevant. Qed.
Print Assumptions depth_guarded_fuel_irrelevant.

(* a body that always makes two nested calls (an infinite call tree without the guard) *)
Example depth_guarded_ex :
  let body := fun (self : nat -> go nat) (a : nat) =>
                bind (self (S a)) (fun x => bind (self (a + 2)%nat) (fun y => Ok (x + y)%nat)) in
  guarded 10 1%nat body 11 0 0%nat = Ok 1024%nat /\ guarded 10 1%nat body 10 0 0%nat = OutOfFuel.
Proof. split; vm_compute; reflexivity. Qed.

(* the instance: the model of the default Check engine (Check/V1.v: depth counter on dispatch,
   visited path on computed usersets) never exhausts (maxdepth+1)*(R+2) nested calls, R = the
   largest number of relations of a type -- for every model, store and request *)
Theorem no_panic_check_depth_bounded :
  forall m conds store subj pathx maxdepth fuel o r,
  ((maxdepth + 1) * (V1Proofs.max_rels m + 2) <= fuel)%nat ->
  ~ In V1.AFuel (fst (V1.check_top m conds store subj pathx maxdepth fuel o r)).
Proof. exact V1Proofs.check_no_fuel. Qed.
Print Assumptions no_panic_check_depth_bounded.
Example no_panic_check_depth_bounded_ex :
  V1Proofs.max_rels V1Proofs.ex_model = 5%nat /\
  fst (V1.check_top V1Proofs.ex_model [1] V1Proofs.ex_store V1Proofs.ex_subj V1Proofs.ex_pathx 3 28
                    (V1Proofs.mk_obj 4 1) 6) = [V1.AT] /\
  fst (V1.check_top V1Proofs.ex_model [1] V1Proofs.ex_store V1Proofs.ex_subj V1Proofs.ex_pathx 3 2
                    (V1Proofs.mk_obj 4 1) 6) = [V1.AFuel].
Proof. repeat split; vm_compute; reflexivity. Qed.

(* structural recursion over a nested message (typesystem validation of rewrites: no depth
   counter in the code): nesting = depth of the message <= wire size / 2 + 1 *)
Theorem struct_walk_depth : forall fuel t, (rdepth t <= fuel)%nat -> struct_walk fuel t = Ok (rdepth t).
Proof. exact NoPanicProofs.struct_walk_depth. Qed.
Print Assumptions struct_walk_depth.

Theorem nesting_le_half_wire_size : forall t, (2 * (rdepth t - 1) <= wire_min t)%nat.
Proof. exact NoPanicProofs.nesting_le_half_wire_size. Qed.
Print Assumptions nesting_le_half_wire_size.

Theorem no_panic_struct_walk : forall t n, (wire_min t <= n)%nat ->
  struct_walk (S (n / 2)) t = Ok (rdepth t) /\ (rdepth t <= S (n / 2))%nat.
Proof. exact NoPanicProofs.no_panic_struct_walk. Qed.
Print Assumptions no_panic_struct_walk.
Example struct_walk_ex :
  let t := Rose [Rose [Rose []; Rose [Rose []]]] in
  rdepth t = 4%nat /\ wire_min t = 8%nat /\ struct_walk 5 t = Ok 4%nat /\ struct_walk 3 t = OutOfFuel.
Proof. vm_compute. repeat split; reflexivity. Qed.

(* ================================================================== *)
(* E. string functions                                                   *)
(* ================================================================== *)

(* SplitObject / SplitObjectRelation / ToUserParts: the index arithmetic never leaves the string,
   for any byte string (invalid UTF-8, separators anywhere, empty); the result is the function
   the C29 theorems are about *)
Theorem no_panic_split_object : forall s : bytes, split_object_go s = Ok (TupleStr.split_object s).
Proof. exact NoPanicProofs.no_panic_split_object. Qed.
Print Assumptions no_panic_split_object.
Theorem no_panic_split_object_relation : forall s : bytes,
  split_object_relation_go s = Ok (TupleStr.split_object_relation s).
Proof. exact NoPanicProofs.no_panic_split_object_relation. Qed.
Print Assumptions no_panic_split_object_relation.
Theorem no_panic_to_user_parts : forall u : bytes, to_user_parts_go u = Ok (TupleStr.to_user_parts u).
Proof. exact NoPanicProofs.no_panic_to_user_parts. Qed.
Print Assumptions no_panic_to_user_parts.
(* ":" , "#", "a:#", "" *)
Example split_ex :
  split_object_go [58] = Ok ([], []) /\ split_object_relation_go [35] = Ok ([], []) /\
  to_user_parts_go [97; 58; 35] = Ok ([97], [], []) /\ to_user_parts_go [] = Ok ([], [], []) /\
  to_user_parts_go [255; 58; 58; 35; 35; 120] = Ok ([255], [58; 35], [120]).
Proof. repeat split; vm_compute; reflexivity. Qed.

(* FromUserParts writes ':' and '#' into a preallocated buffer at computed positions *)
Theorem no_panic_from_user_parts : forall t id r : bytes,
  from_user_parts_go t id r = Ok (TupleStr.from_user_parts t id r).
Proof. exact NoPanicProofs.no_panic_from_user_parts. Qed.
Print Assumptions no_panic_from_user_parts.
Example from_user_parts_ex :
  from_user_parts_go [97] [98] [99] = Ok [97; 58; 98; 35; 99] /\
  from_user_parts_go [] [] [] = Ok [] /\ from_user_parts_go [] [98] [99] = Ok [98; 35; 99].
Proof. repeat split; vm_compute; reflexivity. Qed.

(* `for _, c := range s`: the decoder's width never exceeds what is left of the string *)
Theorem no_oob_rune_decode : forall (b0 : N) (rest : bytes),
  (1 <= snd (Utf8.decode1 b0 rest) <= S (length rest))%nat.
Proof. exact NoPanicProofs.no_oob_rune_decode. Qed.
Print Assumptions no_oob_rune_decode.
(* a truncated 4-byte sequence: width 1, not 4 *)
Example no_oob_rune_decode_ex : Utf8.decode1 240 [159; 152] = (65533, 1%nat).
Proof. reflexivity. Qed.

(* ================================================================== *)
(* F. model validation: hasCycle enumerates paths                        *)
(* ================================================================== *)

(* THE FULL-STRENGTH STATEMENT one wants: the number of hasCycle calls is bounded by a polynomial
   in the size of the model (so that a model below the 256 KB limit cannot hold a request beyond
   its deadline).  The faithful model of the code refutes it.  [diamond n] is the VALID model
     define e_i: e_{i+1} or e_{i+1}  (i < n),  define e_n: [user]
   with n+1 relations and 3n+1 rewrite nodes. *)
Theorem hascycle_calls_diamond : forall (n : nat) (b : N), diamond_calls n <= b ->
  has_cycle (2 * n + 1) (diamond n) 0 (RNode [RComputed 1; RComputed 1]) [] b
  = (HNo, b - diamond_calls n) \/ n = 0%nat.
Proof. exact NoPanicProofs.hascycle_calls_diamond. Qed.
Print Assumptions hascycle_calls_diamond.

Theorem diamond_calls_exponential : forall k : nat, 2 ^ N.of_nat k <= diamond_calls k.
Proof. exact NoPanicProofs.diamond_calls_exponential. Qed.
Print Assumptions diamond_calls_exponential.

Theorem diamond_size : forall n : nat,
  length (diamond n) = S n /\ list_sum (map rw_nodes (diamond n)) = (3 * n + 1)%nat.
Proof. intro n. split; [exact (NoPanicProofs.diamond_length n) | exact (NoPanicProofs.diamond_nodes n)]. Qed.
Print Assumptions diamond_size.

Theorem model_validation_cost_refuted :
  exists tab : reltab,
    length tab = 19%nat /\ list_sum (map rw_nodes tab) = 55%nat /\
    fst (model_cost 100 [tab] 100000) = HBudget.
Proof. exact NoPanicProofs.model_validation_cost_refuted. Qed.
Print Assumptions model_validation_cost_refuted.
(* 4 levels: 61 calls for the first relation, 109 for the whole type; a chain costs 2 per level *)
Example hascycle_ex :
  has_cycle 9 (diamond 4) 0 (RNode [RComputed 1; RComputed 1]) [] 1000 = (HNo, 939) /\
  model_cost 9 [diamond 4] 1000 = (HNo, 891) /\
  model_cost 9 [[RComputed 1; RComputed 2; RThis]] 1000 = (HNo, 994) /\
  fst (model_cost 9 [[RComputed 1; RComputed 0]] 1000) = HCycle /\
  fst (model_cost 9 [[RComputed 7]] 1000) = HErr.
Proof. repeat split; vm_compute; reflexivity. Qed.

(* ================================================================== *)
(* G. panics raised below the handlers                                   *)
(* ================================================================== *)

(* internal/concurrency/panic.go RecoverFromPanic formats the recovered value with %v: it cannot
   panic itself, for any panic value (error, string, any other value, runtime error) *)
Theorem recover_never_repanics : forall v : pvalue, recover_to_error v <> Panic.
Proof. exact NoPanicProofs.recover_never_repanics. Qed.
Print Assumptions recover_never_repanics.
(* mirror: with `%w` and r.(error) the statement is false, exactly for the non-error values *)
Theorem recover_never_repanics_assert_variant_refuted : exists v, recover_to_error_assert v = Panic.
Proof. exact NoPanicProofs.recover_never_repanics_assert_variant_refuted. Qed.
Print Assumptions recover_never_repanics_assert_variant_refuted.
Theorem recover_assert_variant_repanics_iff : forall v : pvalue,
  recover_to_error_assert v = Panic <-> implements_error v = false.
Proof. exact NoPanicProofs.recover_assert_variant_repanics_iff. Qed.
Print Assumptions recover_assert_variant_repanics_iff.
Example recover_ex :
  recover_to_error PVString = Ok PVString /\ recover_to_error_assert PVRuntime = Ok PVRuntime /\
  recover_to_error_assert PVStruct = Panic.
Proof. repeat split; reflexivity. Qed.

Theorem pipeline_worker_captures_every_panic : forall v : pvalue, fate_of SPipeline v = FError.
Proof. exact NoPanicProofs.pipeline_worker_captures_every_panic. Qed.
Print Assumptions pipeline_worker_captures_every_panic.
Theorem pipeline_worker_captures_every_panic_assert_variant_refuted :
  exists v, fate_of_assert_variant SPipeline v = FDies.
Proof. exact NoPanicProofs.pipeline_worker_captures_every_panic_assert_variant_refuted. Qed.
Print Assumptions pipeline_worker_captures_every_panic_assert_variant_refuted.

(* THE FULL-STRENGTH STATEMENT (forall s v, fate_of s v <> FDies: no panic below the handlers
   kills the process) is refuted by the code as it is: findings
   listobjects_reverse_expand_panic_kills_process and unrecovered_goroutine_panic_kills_process *)
Theorem process_survives_refuted : exists s v, fate_of s v = FDies.
Proof. exact NoPanicProofs.process_survives_refuted. Qed.
Print Assumptions process_survives_refuted.
Theorem process_survives_iff : forall (s : psite) (v : pvalue),
  fate_of s v <> FDies <-> (s <> SEvaluate /\ s <> SOther).
Proof. exact NoPanicProofs.process_survives_iff. Qed.
Print Assumptions process_survives_iff.
Example fate_ex :
  fate_of SHandler PVString = FInterceptor /\ fate_of STry PVStruct = FError /\
  fate_of SPipeline PVString = FError /\ fate_of SEvaluate PVError = FDies.
Proof. repeat split; reflexivity. Qed.
