(* C25 -- condition evaluation follows the declared CEL semantics.
   Model: Sem/Cond.v (EvaluateTupleCondition, EvaluableCondition.Evaluate,
   CastContextToTypedParameters, the converters of internal/condition/types, and the fragment of
   CEL stated there).  Every theorem is about all conditions of the fragment, all contexts and
   all conversion functions [conv] unless it names [convert]. *)
From OFGA Require Import Sem.Cond Sem.CondProofs.
From Coq Require Import ZArith List.
Import ListNotations.
Open Scope Z_scope.

(* ---- the stored (tuple) context takes precedence over the request context ---- *)
Theorem merge_stored_wins : forall (req stored : ctx) (k : bytes),
  lookup k (merge req stored) =
  match lookup k stored with Some v => Some v | None => lookup k req end.
Proof. exact CondProofs.merge_stored_wins. Qed.
Print Assumptions merge_stored_wins.

(* ---- a declared parameter that no context binds makes the evaluation fail: for every
        expression (also one that short-circuits) and every conversion function ---- *)
Theorem missing_param_is_error :
  forall (conv : ptype -> jval -> cres) (tname : bytes) (stored : ctx) (c : condition) (req : ctx) (n : bytes),
  tname <> [] ->
  In n (map fst (c_params c)) ->
  lookup n (merge req stored) = None ->
  is_failure (evaluate_tuple_condition conv tname stored (Some c) req) = true.
Proof. exact CondProofs.missing_param_is_error. Qed.
Print Assumptions missing_param_is_error.

(* ---- a bound declared parameter that does not convert makes the evaluation fail ---- *)
Theorem conversion_failure_is_failure :
  forall (conv : ptype -> jval -> cres) (tname : bytes) (stored : ctx) (c : condition) (req : ctx)
         (n : bytes) (t : ptype) (v : jval),
  tname <> [] ->
  In (n, t) (c_params c) -> lookup n (merge req stored) = Some v -> conv t (as_interface v) = CErr ->
  is_failure (evaluate_tuple_condition conv tname stored (Some c) req) = true.
Proof. exact CondProofs.conversion_failure_is_failure. Qed.
Print Assumptions conversion_failure_is_failure.

(* ---- the converted context is the merged context, restricted to the declared parameters, each
        converted to its declared type ---- *)
Theorem converted_context :
  forall (conv : ptype -> jval -> cres) (ps : params) (m : ctx) (g : env),
  cast conv ps m = CastOk g ->
  forall n t, lookup n ps = Some t ->
  lookup n g = match lookup n m with
               | Some v => match conv t (as_interface v) with COk cv => Some cv | _ => None end
               | None => None
               end.
Proof. exact CondProofs.cast_lookup. Qed.
Print Assumptions converted_context.

(* ---- met <=> unconditioned tuple, or the expression is true over the merged, converted
        context with every declared parameter bound ---- *)
Theorem met_iff_true :
  forall (conv : ptype -> jval -> cres) (tname : bytes) (stored : ctx) (ec : option condition) (req : ctx),
  evaluate_tuple_condition conv tname stored ec req = TMet <->
  tname = [] \/
  exists c g, ec = Some c /\ beqb tname (c_name c) = true /\ compiles c = true /\
              cast conv (c_params c) (merge req stored) = CastOk g /\
              all_present (c_params c) g = true /\
              eval g (c_expr c) = ROk (VBool true).
Proof. exact CondProofs.met_iff_true. Qed.
Print Assumptions met_iff_true.

Theorem notmet_iff_false :
  forall (conv : ptype -> jval -> cres) (tname : bytes) (stored : ctx) (ec : option condition) (req : ctx),
  evaluate_tuple_condition conv tname stored ec req = TNotMet <->
  tname <> [] /\
  exists c g, ec = Some c /\ beqb tname (c_name c) = true /\ compiles c = true /\
              cast conv (c_params c) (merge req stored) = CastOk g /\
              all_present (c_params c) g = true /\
              eval g (c_expr c) = ROk (VBool false).
Proof. exact CondProofs.notmet_iff_false. Qed.
Print Assumptions notmet_iff_false.

(* ---- values are converted exactly or the conversion fails.
        Full statement:  forall ext t v, convert ext t v = spec_convert ext t v.
        PARTIAL: proved when no decimal string given for an int/uint needed rounding to the 64
        bits big.ParseFloat keeps; the full statement is refuted below (open finding
        int_fraction_rounded).  The former hypothesis "no Int64() clamp" (finding F8) is gone:
        the converter was repaired by fd0d452 and the model follows it. ---- *)
Theorem convert_exact_or_error_partial :
  forall (ext : N -> bytes -> bool) (t : ptype) (v : jval),
  conv_flag num_inexact t v = false ->
  convert ext t v = spec_convert ext t v.
Proof. exact CondProofs.convert_exact_or_error_partial. Qed.
Print Assumptions convert_exact_or_error_partial.

Theorem convert_int_exact_partial :
  forall (ext : N -> bytes -> bool) (v : jval) (z n d : Z),
  num_inexact v = false ->
  convert ext TInt v = COk (VInt z) -> exact_frac v = SFrac n d ->
  n = z * d /\ min_int64 <= z <= max_int64.
Proof. exact CondProofs.convert_int_exact_partial. Qed.
Print Assumptions convert_int_exact_partial.

(* a number beyond the range of the declared integer type is a type error, never clamped
   (exact value n/d; hypothesis: not an inexactly parsed decimal string) *)
Theorem convert_out_of_range_is_error :
  forall (ext : N -> bytes -> bool) (v : jval) (n d : Z),
  num_inexact v = false -> exact_frac v = SFrac n d -> 0 < d ->
  ((n < min_int64 * d \/ max_int64 * d < n) -> convert ext TInt v = CErr) /\
  ((n < 0 \/ max_uint64 * d < n) -> convert ext TUint v = CErr).
Proof. exact CondProofs.convert_out_of_range_is_error. Qed.
Print Assumptions convert_out_of_range_is_error.

(* every uint64 value, up to 2^64-1, converts to itself *)
Theorem convert_uint_full_range :
  forall (ext : N -> bytes -> bool) (v : jval) (z d : Z),
  num_inexact v = false -> exact_frac v = SFrac (z * d) d -> 0 < d ->
  0 <= z <= max_uint64 ->
  convert ext TUint v = COk (VUint z).
Proof. exact CondProofs.convert_uint_full_range. Qed.
Print Assumptions convert_uint_full_range.

Theorem convert_fraction_rounded_refuted :
  convert no_ext TInt (JStr s_one_and_a_bit) = COk (VInt 1) /\
  spec_convert no_ext TInt (JStr s_one_and_a_bit) = CErr /\
  num_rounded (JStr s_one_and_a_bit) = true.
Proof. exact CondProofs.convert_fraction_rounded_refuted. Qed.
Print Assumptions convert_fraction_rounded_refuted.

(* ---- the whole evaluation agrees with the property's reading (exact conversions).
        Full statement: without the hypothesis.  PARTIAL, refuted by met_iff_exact_true_refuted. ---- *)
Theorem evaluate_matches_spec_partial :
  forall (ext : N -> bytes -> bool) (tname : bytes) (stored : ctx) (ec : option condition) (req : ctx),
  (forall c, ec = Some c -> eval_flag num_inexact c req stored = false) ->
  evaluate_tuple_condition (convert ext) tname stored ec req =
  evaluate_tuple_condition (spec_convert ext) tname stored ec req.
Proof. exact CondProofs.evaluate_matches_spec_partial. Qed.
Print Assumptions evaluate_matches_spec_partial.

Theorem met_iff_exact_true_refuted :
  evaluate_tuple_condition (convert no_ext) k_c1y [] (Some cond_c1y) [(k_y, JStr s_one_and_a_bit)] = TMet /\
  evaluate_tuple_condition (spec_convert no_ext) k_c1y [] (Some cond_c1y) [(k_y, JStr s_one_and_a_bit)] = TErr EType.
Proof. exact CondProofs.met_iff_exact_true_refuted. Qed.
Print Assumptions met_iff_exact_true_refuted.

(* ---- && and || : evaluation order is irrelevant, errors and unknowns are absorbed ---- *)
Theorem and4_comm : forall a b, and4 a b = and4 b a.
Proof. exact CondProofs.and4_comm. Qed.
Print Assumptions and4_comm.
Theorem and4_assoc : forall a b c, and4 a (and4 b c) = and4 (and4 a b) c.
Proof. exact CondProofs.and4_assoc. Qed.
Print Assumptions and4_assoc.
Theorem or4_comm : forall a b, or4 a b = or4 b a.
Proof. exact CondProofs.or4_comm. Qed.
Print Assumptions or4_comm.
Theorem or4_assoc : forall a b c, or4 a (or4 b c) = or4 (or4 a b) c.
Proof. exact CondProofs.or4_assoc. Qed.
Print Assumptions or4_assoc.
Theorem de_morgan_and : forall a b, not4 (and4 a b) = or4 (not4 a) (not4 b).
Proof. exact CondProofs.de_morgan_and. Qed.
Print Assumptions de_morgan_and.
Theorem eval_and_comm : forall g a b, eval g (EAnd a b) = eval g (EAnd b a).
Proof. exact CondProofs.eval_and_comm. Qed.
Print Assumptions eval_and_comm.
Theorem eval_or_comm : forall g a b, eval g (EOr a b) = eval g (EOr b a).
Proof. exact CondProofs.eval_or_comm. Qed.
Print Assumptions eval_or_comm.
Theorem eval_and_assoc : forall g a b c, eval g (EAnd a (EAnd b c)) = eval g (EAnd (EAnd a b) c).
Proof. exact CondProofs.eval_and_assoc. Qed.
Print Assumptions eval_and_assoc.
Theorem eval_or_assoc : forall g a b c, eval g (EOr a (EOr b c)) = eval g (EOr (EOr a b) c).
Proof. exact CondProofs.eval_or_assoc. Qed.
Print Assumptions eval_or_assoc.
Theorem eval_and_false_absorbs : forall g a b,
  eval g a = ROk (VBool false) -> eval g (EAnd a b) = ROk (VBool false) /\ eval g (EAnd b a) = ROk (VBool false).
Proof. exact CondProofs.eval_and_false_absorbs. Qed.
Print Assumptions eval_and_false_absorbs.
Theorem eval_or_true_absorbs : forall g a b,
  eval g a = ROk (VBool true) -> eval g (EOr a b) = ROk (VBool true) /\ eval g (EOr b a) = ROk (VBool true).
Proof. exact CondProofs.eval_or_true_absorbs. Qed.
Print Assumptions eval_or_true_absorbs.

(* with every declared parameter bound, a compiled expression never stays "unknown" *)
Theorem eval_total_when_present : forall c g,
  compiles c = true -> all_present (c_params c) g = true -> eval g (c_expr c) <> RUnk.
Proof. exact CondProofs.eval_total_when_present. Qed.
Print Assumptions eval_total_when_present.

(* ------------------------------------------------------------------------------------------ *)
(* Non-vacuity: concrete, non-trivial instances of the hypotheses                              *)

Definition k_pa : bytes := [112; 97]%N.
Definition k_pb : bytes := [112; 98]%N.
Definition k_c1 : bytes := [99; 49]%N.
Definition s_42e0 : bytes := [52; 50; 101; 48]%N.   (* "42e0" *)
Definition s_a : bytes := [97]%N.

(* c1(pa: bool, pb: int) { pa || pb == 42 } *)
Definition cond_c1 : condition :=
  {| c_name := k_c1; c_params := [(k_pa, TBool); (k_pb, TInt)];
     c_expr := EOr (EParam k_pa) (ECmp OEq (EParam k_pb) (EInt 42)) |}.

(* merge_stored_wins: a conflicting key resolves to the stored value, a request-only key survives *)
Example merge_stored_wins_instance :
  lookup k_pb (merge [(k_pa, JBool false); (k_pb, JNum (FFin 1 0))] [(k_pb, JStr s_42e0)]) = Some (JStr s_42e0) /\
  lookup k_pa (merge [(k_pa, JBool false); (k_pb, JNum (FFin 1 0))] [(k_pb, JStr s_42e0)]) = Some (JBool false).
Proof. vm_compute. auto. Qed.

(* missing_param_is_error: pa = true would short-circuit the ||, yet the missing pb fails the evaluation *)
Example missing_param_is_error_instance :
  k_c1 <> [] /\ In k_pb (map fst (c_params cond_c1)) /\
  lookup k_pb (merge [(k_pa, JBool true)] []) = None /\
  eval [(k_pa, VBool true)] (c_expr cond_c1) = ROk (VBool true) /\
  evaluate_tuple_condition (convert no_ext) k_c1 [] (Some cond_c1) [(k_pa, JBool true)] = TErr EMissing.
Proof. vm_compute. repeat split; auto; discriminate. Qed.

(* conversion_failure_is_failure: pb = "a" *)
Example conversion_failure_instance :
  In (k_pb, TInt) (c_params cond_c1) /\
  lookup k_pb (merge [(k_pa, JBool true)] [(k_pb, JStr s_a)]) = Some (JStr s_a) /\
  convert no_ext TInt (as_interface (JStr s_a)) = CErr /\
  evaluate_tuple_condition (convert no_ext) k_c1 [(k_pb, JStr s_a)] (Some cond_c1) [(k_pa, JBool true)] = TErr EType.
Proof. vm_compute. auto. Qed.

(* met_iff_true / converted_context / notmet_iff_false: the stored "42e0" wins over the request's 1 *)
Example met_iff_true_instance :
  evaluate_tuple_condition (convert no_ext) k_c1 [(k_pb, JStr s_42e0)] (Some cond_c1)
    [(k_pa, JBool false); (k_pb, JNum (FFin 1 0))] = TMet /\
  cast (convert no_ext) (c_params cond_c1) (merge [(k_pa, JBool false); (k_pb, JNum (FFin 1 0))] [(k_pb, JStr s_42e0)])
    = CastOk [(k_pa, VBool false); (k_pb, VInt 42)] /\
  compiles cond_c1 = true /\
  all_present (c_params cond_c1) [(k_pa, VBool false); (k_pb, VInt 42)] = true.
Proof. vm_compute. auto. Qed.

Example notmet_iff_false_instance :
  evaluate_tuple_condition (convert no_ext) k_c1 [(k_pb, JNum (FFin 1 0))] (Some cond_c1)
    [(k_pa, JBool false); (k_pb, JStr s_42e0)] = TNotMet.
Proof. vm_compute. auto. Qed.

(* convert_exact_or_error_partial / convert_int_exact_partial: the hypotheses hold for "42e0",
   for 2^62 and for a list of them, and the conversion is not trivial *)
Example convert_partial_instance :
  conv_flag num_inexact (TList TInt) (JList [JStr s_42e0; JNum (FFin 1 62)]) = false /\
  convert no_ext (TList TInt) (JList [JStr s_42e0; JNum (FFin 1 62)]) = COk (VList [VInt 42; VInt 4611686018427387904]) /\
  exact_frac (JStr s_42e0) = SFrac 42 1.
Proof. vm_compute. auto. Qed.

(* evaluate_matches_spec_partial: its hypothesis holds for the instance above *)
Example evaluate_matches_spec_instance :
  eval_flag num_inexact cond_c1 [(k_pa, JBool false); (k_pb, JNum (FFin 1 0))] [(k_pb, JStr s_42e0)] = false.
Proof. vm_compute. auto. Qed.

(* convert_out_of_range_is_error: 1e19 = 19073486328125 * 2^19 for an int, 3e19 for a uint, -1 for a uint *)
Example out_of_range_instance :
  exact_frac (JNum (FFin 19073486328125 19)) = SFrac 10000000000000000000 1 /\
  max_int64 * 1 < 10000000000000000000 /\
  convert no_ext TInt (JNum (FFin 19073486328125 19)) = CErr /\
  convert no_ext TUint (JNum (FFin 57220458984375 19)) = CErr /\
  convert no_ext TUint (JNum (FFin (-1) 0)) = CErr.
Proof. vm_compute. auto. Qed.

(* convert_uint_full_range: 2^64-1 given as a string, 2^63 given as a number *)
Example uint_full_range_instance :
  exact_frac (JStr [49;56;52;52;54;55;52;52;48;55;51;55;48;57;53;53;49;54;49;53]%N) = SFrac (max_uint64 * 1) 1 /\
  num_inexact (JStr [49;56;52;52;54;55;52;52;48;55;51;55;48;57;53;53;49;54;49;53]%N) = false /\
  convert no_ext TUint (JStr [49;56;52;52;54;55;52;52;48;55;51;55;48;57;53;53;49;54;49;53]%N) = COk (VUint max_uint64) /\
  convert no_ext TUint (JNum (FFin 1 63)) = COk (VUint 9223372036854775808).
Proof. vm_compute. auto. Qed.

(* absorption: (pm["a"] == "a") is a runtime error on an empty map, and is absorbed by a true
   disjunct / a false conjunct on either side *)
Definition k_pm : bytes := [112; 109]%N.
Example absorption_instance :
  let g := [(k_pa, VBool true); (k_pm, VMap [])] in
  let err := ECmp OEq (EIdx (EParam k_pm) (EStr s_a)) (EStr s_a) in
  eval g err = RErr /\
  eval g (EOr err (EParam k_pa)) = ROk (VBool true) /\
  eval g (EOr (EParam k_pa) err) = ROk (VBool true) /\
  eval g (EAnd err (ENot (EParam k_pa))) = ROk (VBool false) /\
  eval g (EAnd err (EParam k_pa)) = RErr.
Proof. vm_compute. auto. Qed.

(* eval_total_when_present *)
Example eval_total_instance :
  compiles cond_c1 = true /\ all_present (c_params cond_c1) [(k_pa, VBool false); (k_pb, VInt 1)] = true /\
  eval [(k_pa, VBool false)] (c_expr cond_c1) = RUnk.
Proof. vm_compute. auto. Qed.
