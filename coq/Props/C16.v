(* C16 — Stores are isolated from each other.
   Model: Store/Stores.v (data layout and operations of pkg/storage/memory/memory.go, with
   Store/Models.v and Store/Assertions.v for the model and assertion maps; what an operation
   computes from the data of its own store is abstract) and the cache-key constructors
   enumerated from the source into Generated/C16KeySites.v. *)
From OFGA Require Import Base.Bytes Store.Assertions Store.Models Store.Stores Store.StoresProofs.
From OFGA Require Import Generated.C16KeySites.
From Coq Require Import String.

(* Frame / locality, for every history h (any interleaving of operations on any stores) and every
   store s: the results of the operations on s and the final projection of the state on s are
   exactly those of the history in which every operation on another store is erased.
   Hypothesis: store ids contain no '|' (Props/C31.v: the assertion map's concatenated key);
   every id accepted by the API satisfies it (C31 api_ids_satisfy_hypothesis). *)
Theorem memory_ops_local :
  forall (body : Type) (ntypes : body -> N) (tup chg wreq wres qreq qres : Type)
         (apply_write : view body tup chg -> wreq -> wres * option (list tup * list chg))
         (eval_query : view body tup chg -> qreq -> qres)
         (h : list (sop body wreq qreq)) (s : bytes),
    store_ok s = true ->
    forallb (op_store_ok body wreq qreq) h = true ->
    proj_eq body tup chg
      (srun body ntypes tup chg wreq wres qreq qres apply_write eval_query (sinit body tup chg) h)
      (srun body ntypes tup chg wreq wres qreq qres apply_write eval_query (sinit body tup chg)
            (filter (on_store body wreq qreq s) h)) s /\
    outs_on body wreq wres qreq qres s
      (strace body ntypes tup chg wreq wres qreq qres apply_write eval_query (sinit body tup chg) h) =
    map snd
      (strace body ntypes tup chg wreq wres qreq qres apply_write eval_query (sinit body tup chg)
              (filter (on_store body wreq qreq s) h)).
Proof. exact StoresProofs.memory_ops_local. Qed.
Print Assumptions memory_ops_local.

(* After DeleteStore(id), whatever happens next short of creating id again, GetStore(id) is
   not-found and ListStores does not list id. *)
Theorem deleted_store_hidden :
  forall (body : Type) (ntypes : body -> N) (tup chg wreq wres qreq qres : Type)
         (apply_write : view body tup chg -> wreq -> wres * option (list tup * list chg))
         (eval_query : view body tup chg -> qreq -> qres)
         (h1 h2 : list (sop body wreq qreq)) (id : bytes),
    forallb (fun o => negb (creates body wreq qreq id o)) h2 = true ->
    snd (sstep body ntypes tup chg wreq wres qreq qres apply_write eval_query
           (srun body ntypes tup chg wreq wres qreq qres apply_write eval_query (sinit body tup chg)
                 (h1 ++ PDelete body wreq qreq id :: h2))
           (PGet body wreq qreq id)) = QNotFound body wres qres /\
    listed body wres qres id
      (snd (sstep body ntypes tup chg wreq wres qreq qres apply_write eval_query
              (srun body ntypes tup chg wreq wres qreq qres apply_write eval_query (sinit body tup chg)
                    (h1 ++ PDelete body wreq qreq id :: h2))
              (PList body wreq qreq))) = false /\
    (* ... nor under any combination of the IDs filter (the one access control uses) and the name filter *)
    forall ids name,
      listed body wres qres id
        (snd (sstep body ntypes tup chg wreq wres qreq qres apply_write eval_query
                (srun body ntypes tup chg wreq wres qreq qres apply_write eval_query (sinit body tup chg)
                      (h1 ++ PDelete body wreq qreq id :: h2))
                (PListF body wreq qreq ids name))) = false.
Proof. exact StoresProofs.deleted_store_hidden. Qed.
Print Assumptions deleted_store_hidden.

(* The same for sqlite's store table (soft delete: deleted_at; every query carries
   `deleted_at IS NULL`), for every history of store-table operations. *)
Theorem sqlite_deleted_store_hidden :
  forall (h1 h2 : list top) (id : bytes),
    forallb (fun o => negb (tcreates id o)) h2 = true ->
    let t := sql_trun [] (h1 ++ TDelete id :: h2) in
    sql_get_store t id = None /\
    forall ids name, existsb (fun p => beqb (fst p) id) (sql_list_stores t ids name) = false.
Proof. exact StoresProofs.sqlite_deleted_store_hidden. Qed.
Print Assumptions sqlite_deleted_store_hidden.

(* Every keys.GetBuilder() call site of the source (regenerated on every run) is classified, and
   every constructor of a key of a cache shared between stores encodes the store id as a string
   field of the key it returns; the singleflight keys mention the store id. *)
Theorem every_key_site_reviewed :
  forallb site_ok c16_sites = true /\ forallb sf_site_ok c16_sf_sites = true.
Proof. exact (conj c16_all_sites_ok c16_all_sf_sites_ok). Qed.
Print Assumptions every_key_site_reviewed.

(* Hence two requests for different stores never build the same field sequence, whatever their
   other arguments (that different field sequences give different key bytes is C24). *)
Theorem store_in_every_key :
  forall site e, In site c16_sites -> shared_store_expr site = Some e ->
  forall (env1 : string -> bytes) (envn1 : string -> N) (env2 : string -> bytes) (envn2 : string -> N),
    env1 e <> env2 e ->
    eval_site env1 envn1 site <> eval_site env2 envn2 site.
Proof. exact c16_store_in_every_key. Qed.
Print Assumptions store_in_every_key.

(* ---- non-vacuity ------------------------------------------------------------------------ *)
Definition s1 : bytes := [115; 49].
Definition s2 : bytes := [115; 50].
Definition t1 : ttup := ([100; 58; 49], rel_viewer, [117; 58; 97]).
Definition exb (v : N) : tbody := mkTBody [v] true true 3 200 v.

(* an interleaved history over two stores with the same model id, the same tuple, the same
   assertion key parts: the operations on s1 see only s1 *)
Example memory_ops_local_nonvacuous :
  let h := [PCreate tbody twreq tqreq s1 [110]; PCreate tbody twreq tqreq s2 [110];
            PWriteModel tbody twreq tqreq s1 [109] (exb 1); PWriteModel tbody twreq tqreq s2 [109] (exb 0);
            PWrite tbody twreq tqreq s1 ([], [t1]); PWrite tbody twreq tqreq s2 ([], [t1]);
            PWrite tbody twreq tqreq s2 ([t1], []);
            PQuery tbody twreq tqreq s1 (TCheck [100; 58; 49] 0 [117; 58; 97]);
            PQuery tbody twreq tqreq s2 (TCheck [100; 58; 49] 0 [117; 58; 97]);
            PDelete tbody twreq tqreq s2; PList tbody twreq tqreq;
            PQuery tbody twreq tqreq s1 TChanges] in
  forallb (op_store_ok tbody twreq tqreq) h = true /\
  t_outs_on s1 (t_strace h) = map snd (t_strace (filter (t_on_store s1) h)) /\
  t_outs_on s1 (t_strace h) =
    [QStore tbody N tqres s1 [110]; QOk tbody N tqres; QWrite tbody N tqres 0;
     QQuery tbody N tqres (TBool true); QQuery tbody N tqres (TChgs [(true, t1)])].
Proof. vm_compute. repeat split. Qed.

Example deleted_store_hidden_nonvacuous :
  let h := [PCreate tbody twreq tqreq s1 [110]; PCreate tbody twreq tqreq s2 [110]; PDelete tbody twreq tqreq s1;
            PCreate tbody twreq tqreq [115; 51] [110]; PWrite tbody twreq tqreq s1 ([], [t1])] in
  map snd (t_strace (h ++ [PGet tbody twreq tqreq s1; PGet tbody twreq tqreq s2; PList tbody twreq tqreq])) =
  [QStore tbody N tqres s1 [110]; QStore tbody N tqres s2 [110]; QOk tbody N tqres; QStore tbody N tqres [115; 51] [110];
   QWrite tbody N tqres 3;
   QNotFound tbody N tqres; QStore tbody N tqres s2 [110]; QStores tbody N tqres [(s2, [110]); ([115; 51], [110])]].
Proof. vm_compute. reflexivity. Qed.

Example deleted_store_hidden_filters_nonvacuous :
  let h := [TCreate s1 [110]; TCreate s2 [110]; TDelete s1; TCreate s1 [110]] in
  map snd (sql_ttrace [] (h ++ [TList [s1] []; TList [s1; s2] [110]; TList [] [110]; TGet s1])) =
    [TStore s1 [110]; TStore s2 [110]; TOk; TCollision;
     TStores []; TStores [(s2, [110])]; TStores [(s2, [110])]; TNotFound] /\
  map snd (t_strace [PCreate tbody twreq tqreq s1 [110]; PCreate tbody twreq tqreq s2 [110]; PDelete tbody twreq tqreq s1;
                     PListF tbody twreq tqreq [s1] []; PListF tbody twreq tqreq [s2; s1; s2] [110]]) =
    [QStore tbody N tqres s1 [110]; QStore tbody N tqres s2 [110]; QOk tbody N tqres;
     QStores tbody N tqres []; QStores tbody N tqres [(s2, [110]); (s2, [110])]].
Proof. vm_compute. split; reflexivity. Qed.

Example store_in_every_key_nonvacuous :
  List.length c16_sites = 21%nat /\
  List.length (filter (fun s => match shared_store_expr s with Some _ => true | None => false end) c16_sites) = 19%nat.
Proof. vm_compute. split; reflexivity. Qed.
