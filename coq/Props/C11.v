(* C11 -- the cache controller bounds staleness after writes.
   Model: Cache/Controller.v (InMemoryCacheController, the marker / timestamp checks of
   cached_datastore.go and cached_resolver.go, JitteredTTL).  Lemmas: Cache/ControllerProofs.v.

   A history is any list of Write / Request / InvStart / InvRead / InvFinish / Tick operations:
   any number of changes (more than one changelog page or not), any spacing in time (inside or
   outside the iterator TTL window), requests and writes between the three moments of a run.
   A request is a forest of sub-problems; every sub-problem is looked up in / stored into the query
   cache with the LastCacheInvalidationTime that the top-level request carries (clone()).
   The answer of a request is its provenance (for every datastore read: how long the changelog was
   when the data was read), so "computed from entries populated before the write" is [~ fresh_at]. *)
From Coq Require Import NArith List Bool Lia.
Import ListNotations.
From OFGA Require Import Cache.Controller Cache.ControllerProofs.
Open Scope N_scope.

(* STALENESS IS BOUNDED.  Hypotheses [cfg_ok]: at most one of {query cache, iterator cache}, jitter
   0, the clock advances across a write, positive TTLs, store-wide marker TTL >= iterator TTL, page
   size >= 1 -- the TTL relation the proof needs ("an iterator entry lives at most iteratorTTL after
   the instant its data was read") follows from jitter = 0; dispatched sub-problems carry the
   invalidation time ([c_subinv], as coded).  [hist_ok]: with the query cache on, a request that
   dispatches sub-problems does not fall between a write and the completion of a run that read
   after it (requests without dispatch may fall anywhere; subproblem_restamp_refuted shows that the
   restriction is needed -- a finding).
   If a run performs its changelog read after the write [Write ws] (it was waiting to read in the
   state reached by h1 ++ [Write ws] ++ h2; in particular every run STARTED after the write) and
   that run finishes ([h3] contains no InvFinish, so the InvFinish shown is the one of this run),
   then after ANY continuation h4 every request reflects every change written up to and including
   that write: no part of its answer that such a change touches was read before the change. *)
Theorem staleness_bounded :
  forall (c : cfg) (h1 : list op) (ws : list tup) (h2 h3 h4 : list op),
  cfg_ok c = true ->
  hist_ok c (h1 ++ [Write ws] ++ h2 ++ [InvRead] ++ h3 ++ [InvFinish] ++ h4) init_state = true ->
  let sW := run_ops c (h1 ++ [Write ws]) init_state in
  let sA := run_ops c (h1 ++ [Write ws] ++ h2) init_state in
  (exists x, s_run sA = Some (RPending x)) ->
  no_finish h3 = true ->
  let s := run_ops c (h1 ++ [Write ws] ++ h2 ++ [InvRead] ++ h3 ++ [InvFinish] ++ h4) init_state in
  firstn (length (s_db sW)) (s_db s) = s_db sW /\
  forall i, (i < length (s_db sW))%nat ->
  forall f st jq jis, fresh_at (s_db s) i (out_src (snd (step c s (Request f st jq jis)))).
Proof. exact staleness_bounded_lemma. Qed.
Print Assumptions staleness_bounded.

(* The same, stated on the state: [s_done] (ghost) is the length of the longest changelog that a
   COMPLETED run had read; every change below it is reflected by every request. *)
Theorem staleness_bounded_state :
  forall (c : cfg) (h : list op), cfg_ok c = true -> hist_ok c h init_state = true ->
  let s := run_ops c h init_state in
  forall i, (i < s_done s)%nat ->
  forall f st jq jis, fresh_at (s_db s) i (out_src (snd (step c s (Request f st jq jis)))).
Proof. exact staleness_ghost. Qed.
Print Assumptions staleness_bounded_state.

(* The marker keys match the datastore specification: a change that alters the result of a read
   writes at least one of the markers that read consults. *)
Theorem markers_cover_touches :
  forall (t : tup) (k : ikey), touches t k = true ->
  exists m, In m (markers_of_write t) /\ In m (markers_of_key k).
Proof. exact touch_covered. Qed.
Print Assumptions markers_cover_touches.

(* INVALIDATION ONLY FORCES RECOMPUTATION, for every configuration (both caches, jitter, ...):
   in a state that differs from s only by more invalidation, every part of every answer is either
   read from the datastore now, or the content of a cache entry that a request in s could have used
   as well.  Invalidation never makes up data. *)
Theorem inv_monotone_safe :
  forall (c : cfg) (s s' : state), more_invalid c s s' ->
  forall f st jq jis k n,
  In (k, n) (out_src (snd (step c s' (Request f st jq jis)))) ->
  n = length (s_db s) \/
  (c_ion c = true /\ exists e, i_usable s k e /\ ie_snap e = n) \/
  (exists id e, q_usable c s id e /\ In (k, n) (qe_src e)).
Proof. exact inv_monotone_safe_lemma. Qed.
Print Assumptions inv_monotone_safe.

(* ... and the three controller operations do nothing but more invalidation, in every reachable
   state (needs a positive query TTL: the changelog entry the run writes must be visible). *)
Theorem controller_only_invalidates :
  forall (c : cfg) (h : list op) (o : op), 0 < c_qttl c -> controller_op o = true ->
  let s := run_ops c h init_state in more_invalid c s (fst (step c s o)).
Proof. exact controller_only_invalidates_lemma. Qed.
Print Assumptions controller_only_invalidates.

(* Hence invalidation never causes a wrong answer: if every usable cache entry holds what an
   uncached read returns, then after any controller operation every part of every answer is what an
   uncached read returns now. *)
Theorem invalidation_never_wrong :
  forall (c : cfg) (h : list op) (o : op), 0 < c_qttl c -> controller_op o = true ->
  let s := run_ops c h init_state in
  cache_consistent c s ->
  let s' := fst (step c s o) in
  forall f st jq jis k n,
  In (k, n) (out_src (snd (step c s' (Request f st jq jis)))) ->
  view (s_db s') k n = view (s_db s') k (length (s_db s')).
Proof. exact invalidation_never_wrong_lemma. Qed.
Print Assumptions invalidation_never_wrong.

(* OUTSIDE THE HYPOTHESES.  [refutes c h1 ws h2 h3 h4 i f]: the history [w_hist h1 ws h2 h3 h4] has
   exactly the shape of staleness_bounded and the final request f is NOT fresh for change i.

   Both caches on: the documented caveat of docs/caching.md (excluded by the property). *)
Theorem both_caches_refuted :
  exists c h1 ws h2 h3 h4 i f,
    c_qon c = true /\ c_ion c = true /\ c_jit c = 0 /\ cfg_rest c = true /\ c_subinv c = true /\
    hist_ok c (w_hist h1 ws h2 h3 h4) init_state = true /\ refutes c h1 ws h2 h3 h4 i f.
Proof. exact both_caches_refuted_lemma. Qed.
Print Assumptions both_caches_refuted.

(* TTL jitter, iterator cache only: an entry outlives the window the controller looks at
   (known finding ttl_jitter_iterator_outlives_window). *)
Theorem staleness_jitter_refuted :
  exists c h1 ws h2 h3 h4 i f,
    c_qon c = false /\ c_ion c = true /\ c_jit c = 100 /\ cfg_rest c = true /\ c_subinv c = true /\
    hist_ok c (w_hist h1 ws h2 h3 h4) init_state = true /\ refutes c h1 ws h2 h3 h4 i f.
Proof. exact staleness_jitter_iter_refuted_lemma. Qed.
Print Assumptions staleness_jitter_refuted.

(* TTL jitter, query cache only: an entry outlives the ChangelogCacheEntry it is compared with
   (known finding ttl_jitter_query_outlives_changelog). *)
Theorem staleness_jitter_query_refuted :
  exists c h1 ws h2 h3 h4 i f,
    c_qon c = true /\ c_ion c = false /\ c_jit c = 100 /\ cfg_rest c = true /\ c_subinv c = true /\
    hist_ok c (w_hist h1 ws h2 h3 h4) init_state = true /\ refutes c h1 ws h2 h3 h4 i f.
Proof. exact staleness_jitter_query_refuted_lemma. Qed.
Print Assumptions staleness_jitter_query_refuted.

(* The clock hypothesis is needed: if a write can carry the timestamp of a read that preceded it,
   the marker comparison [Before] lets the stale entry through (not a finding: nanosecond clock). *)
Theorem staleness_coarse_clock_refuted :
  exists c h1 ws h2 h3 h4 i f,
    c_wtick c = 0 /\
    cfg_ok (mkCfg (c_qon c) (c_ion c) (c_qttl c) (c_ittl c) (c_interval c) (c_full c) (c_page c) (c_jit c) 1 (c_subinv c)) = true /\
    hist_ok c (w_hist h1 ws h2 h3 h4) init_state = true /\ refutes c h1 ws h2 h3 h4 i f.
Proof. exact staleness_coarse_clock_refuted_lemma. Qed.
Print Assumptions staleness_coarse_clock_refuted.

(* AS CODED, query cache only, no jitter (cfg_ok holds): a request for another parent of a cached
   sub-problem, made after the write and before the run, stores the parent's answer -- stamped after
   the write -- computed from the sub-problem's entry from before the write; the run invalidates the
   sub-problem but not the parent (known finding subproblem_restamped_after_write).  hist_ok is the
   only hypothesis of staleness_bounded that fails. *)
Theorem subproblem_restamp_refuted :
  exists c h1 ws h2 h3 h4 i f,
    cfg_ok c = true /\ hist_ok c (w_hist h1 ws h2 h3 h4) init_state = false /\ refutes c h1 ws h2 h3 h4 i f.
Proof. exact subproblem_restamp_refuted_lemma. Qed.
Print Assumptions subproblem_restamp_refuted.

(* The propagation of LastCacheInvalidationTime to dispatched sub-problems is needed: without it
   (c_subinv = false, everything else as in cfg_ok, admissible history) the recomputed parent is
   answered from the sub-problem's stale entry. *)
Theorem subproblem_time_dropped_refuted :
  exists c h1 ws h2 h3 h4 i f,
    c_subinv c = false /\
    cfg_ok (mkCfg (c_qon c) (c_ion c) (c_qttl c) (c_ittl c) (c_interval c) (c_full c) (c_page c) (c_jit c) (c_wtick c) true) = true /\
    hist_ok c (w_hist h1 ws h2 h3 h4) init_state = true /\ refutes c h1 ws h2 h3 h4 i f.
Proof. exact subproblem_time_dropped_refuted_lemma. Qed.
Print Assumptions subproblem_time_dropped_refuted.

(* ------------------------------------------------------------------------------------------ *)
(* Non-vacuity                                                                                 *)

(* x_cfg_i / x_cfg_q: iterator cache only / query cache only, TTLs 300, interval 100, page 50;
   x_other n: a write that does not touch w_k1 (Cache/ControllerProofs.v) *)

(* the configurations of a real server satisfy cfg_ok (one cache at a time) *)
Example real_cfg_ok : cfg_ok (real_cfg true false 0) = true /\ cfg_ok (real_cfg false true 0) = true.
Proof. split; reflexivity. Qed.

(* staleness_bounded's hypotheses hold for a history in which the stale entry exists, the write is
   followed by MORE changes than one page holds (60 > 50, all inside the TTL window), and a request
   and another write fall between the run's read and its finish: the run decides "full" and the
   last request re-reads the key (changelog length 63, the entry populated at length 1 is not used) *)
Example staleness_bounded_page_overflow :
  let h1 := [Write [w_t 1]; Tick 1; Request w_q1 true 0 []; Tick 1] in
  let h2 := map x_other (seq 10 60) ++ [Tick 1; InvStart] in
  let h3 := [Request w_q1 true 0 []; x_other 99] in
  cfg_ok x_cfg_i = true /\
  hist_ok x_cfg_i (w_hist h1 [w_t 2] h2 h3 [Tick 1]) init_state = true /\
  (exists x, s_run (run_ops x_cfg_i (h1 ++ [Write [w_t 2]] ++ h2) init_state) = Some (RPending x)) /\
  no_finish h3 = true /\
  snd (step x_cfg_i (run_ops x_cfg_i (h1 ++ [Write [w_t 2]] ++ h2 ++ [InvRead] ++ h3) init_state) InvFinish) = OFin DFull /\
  snd (step x_cfg_i (run_ops x_cfg_i (w_hist h1 [w_t 2] h2 h3 [Tick 1]) init_state)
            (Request w_q1 true 0 [])) = OAns [(w_k1, 63%nat)] [false] [false] false false.
Proof. repeat split; try (eexists; vm_compute; reflexivity); vm_compute; reflexivity. Qed.

(* changes straddling the TTL window: the old change is outside (its entries have expired), the
   recent one gets the two entity markers: "partial" *)
Example staleness_bounded_window_straddle :
  let h := [Write [w_t 1]; Tick 1; Request w_q12 true 0 []; Tick 400; Write [mkTup 7 1 2 1 false]; Tick 1;
            InvStart; InvRead] in
  snd (step x_cfg_i (run_ops x_cfg_i h init_state) InvFinish) = OFin (DPartial [MOR 1 2 1; MUOT 7 1]) /\
  snd (step x_cfg_i (run_ops x_cfg_i (h ++ [InvFinish]) init_state) (Request w_q12 true 0 []))
  = OAns [(w_k1, 2%nat); (w_k2, 2%nat)] [false] [false; false] false false.
Proof. split; vm_compute; reflexivity. Qed.

(* query cache only, a request without dispatch between the write and the run (admissible): the
   cached answer is served before the run and dropped after it *)
Example staleness_bounded_query :
  let h := [Write [w_t 1]; Tick 1; Request w_q1 true 0 []; Tick 1; Write [w_t 2]; Tick 1; Request w_q1 true 0 []] in
  cfg_ok x_cfg_q = true /\ hist_ok x_cfg_q (h ++ [InvRead; InvFinish]) init_state = true /\
  snd (step x_cfg_q (run_ops x_cfg_q h init_state) (Request w_q1 true 0 [])) = OAns [(w_k1, 1%nat)] [true] [] true false /\
  snd (step x_cfg_q (run_ops x_cfg_q (h ++ [InvRead; InvFinish]) init_state) (Request w_q1 true 0 []))
  = OAns [(w_k1, 2%nat)] [false] [false] false false.
Proof. repeat split; vm_compute; reflexivity. Qed.

(* query cache only, sub-problems: in an admissible history (both requests in covered states) the run
   invalidates the parent AND, through the propagated time, the dispatched sub-problem: both are
   looked up, both miss, the read is repeated at changelog length 2 *)
Example staleness_bounded_subproblems :
  let h := [Write [w_t 1]; Tick 1; InvStart; InvRead; InvFinish; Tick 1; Request w_p1 true 0 []; Tick 1;
            Write [w_t 2]; Tick 1; InvStart; InvRead; InvFinish; Tick 1] in
  cfg_ok x_cfg_q = true /\ hist_ok x_cfg_q h init_state = true /\
  snd (step x_cfg_q (run_ops x_cfg_q h init_state) (Request w_p1 true 0 []))
  = OAns [(w_k1, 2%nat)] [false; false] [false] false false /\
  snd (step x_cfg_q (run_ops x_cfg_q h init_state) (Request w_p2 true 0 []))
  = OAns [(w_k1, 2%nat)] [false; false] [false] false false.
Proof. repeat split; vm_compute; reflexivity. Qed.

(* more_invalid / cache_consistent are satisfiable by a state with a usable entry, and the
   conclusion of invalidation_never_wrong is about a non-empty answer *)
Example invalidation_never_wrong_nonvacuous :
  let h := [Write [w_t 1]; Tick 1; Request w_q1 true 0 []; Tick 1; InvRead] in
  let s := run_ops x_cfg_i h init_state in
  cache_consistent x_cfg_i s /\ (exists e, i_usable s w_k1 e) /\
  s_mk (fst (step x_cfg_i s InvFinish)) <> s_mk s /\
  out_src (snd (step x_cfg_i (fst (step x_cfg_i s InvFinish)) (Request w_q1 true 0 []))) = [(w_k1, 1%nat)].
Proof.
  cbv zeta. split; [|split; [|split]].
  - split.
    + intros k e [G _]. vm_compute in G. destruct k as [o t i r|]; try discriminate.
      destruct o as [|[| |]]; try discriminate; destruct t as [|[| |]]; try discriminate;
      destruct i as [|[| |]]; try discriminate; destruct r as [|[| |]]; try discriminate.
      injection G as <-. vm_compute. reflexivity.
    + intros id e [Q _]. vm_compute in Q. discriminate.
  - eexists. vm_compute. repeat split.
  - vm_compute. discriminate.
  - vm_compute. reflexivity.
Qed.

(* a read that RACES with a write (rows selected before the write, iterator handed back and cached after
   it: the entry's LastModified equals the write's timestamp): the next run is partial (the first change
   has left the window) and its markers carry the RUN time, which is what discards that entry *)
Example staleness_bounded_racing_read :
  let h := [Write [mkTup 7 1 2 1 false]; Tick 400; RaceRead w_k1 [w_t 2] true 0; InvStart; InvRead] in
  cfg_ok x_cfg_i = true /\ hist_ok x_cfg_i (h ++ [InvFinish]) init_state = true /\
  s_ic (run_ops x_cfg_i h init_state) = [(w_k1, mkIE 402 702 1)] /\
  snd (step x_cfg_i (run_ops x_cfg_i h init_state) InvFinish) = OFin (DPartial [MOR 1 1 1; MUOT 2 1]) /\
  snd (step x_cfg_i (run_ops x_cfg_i (h ++ [InvFinish]) init_state) (Request w_q1 true 0 []))
  = OAns [(w_k1, 2%nat)] [false] [false] false false.
Proof. repeat split; vm_compute; reflexivity. Qed.
