(* C02 — Check and ListObjects answers do not depend on strategy or tuning: property theorems.
   Proved here: the cores of the non-default strategies compute their set-level specification for
   ALL inputs (fast-path set operations on sorted streams of any length/chunking, the weight2
   two-sided intersection for every schedule, the recursive BFS on graphs of any size with the
   depth error characterised exactly), and strategy_irrelevant: with coherent decision points
   every planner gives the same answer.  Covered by correspondence only: that the default strategy
   computes the reference semantics on the same sub-problems (C01), the tuning knobs and the
   goroutine schedules of the real engine, ListObjects. *)
From Coq Require Import List NArith Bool Arith.
From OFGA Require Import Check.V1Weight2 Check.V1Recursive Check.V1FastPathBase Check.V1FastPathUnion
  Check.V1FastPathInter Check.V1FastPathDiff Check.V1FastPathSource Check.V1Weight2W2Proofs
  Check.V1RecursiveProofs Check.V1StrategyProofs Check.V1RecursiveFirst Check.V1RecursiveFirstProofs.
Import ListNotations.
Open Scope N_scope.

(* ---- fast-path set operations ---- *)
Theorem c02_fp_union_spec : forall ls, Forall (fun l => ssortedb l = true) ls ->
  ssortedb (fp_union ls) = true /\ forall x, In x (fp_union ls) <-> exists l, In l ls /\ In x l.
Proof. exact fp_union_spec. Qed.
Print Assumptions c02_fp_union_spec.

Theorem c02_fp_inter_spec : forall ls, ls <> [] -> Forall (fun l => ssortedb l = true) ls ->
  ssortedb (fp_inter ls) = true /\ forall x, In x (fp_inter ls) <-> forall l, In l ls -> In x l.
Proof. exact fp_inter_spec. Qed.
Print Assumptions c02_fp_inter_spec.

Theorem c02_fp_diff_spec : forall a b, ssortedb a = true -> ssortedb b = true ->
  ssortedb (fp_diff a b) = true /\ forall x, In x (fp_diff a b) <-> In x a /\ ~ In x b.
Proof. exact fp_diff_spec. Qed.
Print Assumptions c02_fp_diff_spec.

(* the same for streams that arrive in any number of chunks (iterator messages) *)
Theorem c02_fp_union_chunked : forall css,
  Forall (fun cs => stream_clean cs = true) css -> Forall (fun cs => ssortedb (cvals cs) = true) css ->
  exists r, fp_union_c css = FPDone r /\ ssortedb r = true /\
            forall x, In x r <-> exists cs, In cs css /\ In x (cvals cs).
Proof. exact fp_union_c_spec. Qed.
Print Assumptions c02_fp_union_chunked.

Theorem c02_fp_inter_chunked : forall css, css <> [] ->
  Forall (fun cs => stream_clean cs = true) css -> Forall (fun cs => ssortedb (cvals cs) = true) css ->
  exists r, fp_inter_c css = FPDone r /\ ssortedb r = true /\
            forall x, In x r <-> forall cs, In cs css -> In x (cvals cs).
Proof. exact fp_inter_c_spec. Qed.
Print Assumptions c02_fp_inter_chunked.

Theorem c02_fp_diff_chunked : forall base sub,
  stream_clean base = true -> stream_clean sub = true ->
  ssortedb (cvals base) = true -> ssortedb (cvals sub) = true ->
  exists r, fp_diff_c base sub = FPDone r /\ ssortedb r = true /\
            forall x, In x r <-> In x (cvals base) /\ ~ In x (cvals sub).
Proof. exact fp_diff_c_spec. Qed.
Print Assumptions c02_fp_diff_chunked.

(* sortedness of the inputs is really needed *)
Theorem c02_fp_union_unsorted_refuted : exists ls, ~ (ssortedb (fp_union ls) = true) /\ ~ NoDup (fp_union ls).
Proof. exact fp_union_unsorted_refuted. Qed.
Print Assumptions c02_fp_union_unsorted_refuted.
Theorem c02_fp_inter_unsorted_refuted : exists ls x, (forall l, In l ls -> In x l) /\ ~ In x (fp_inter ls).
Proof. exact fp_inter_unsorted_refuted. Qed.
Print Assumptions c02_fp_inter_unsorted_refuted.
Theorem c02_fp_diff_unsorted_refuted : exists a b x, In x (fp_diff a b) /\ In x b.
Proof. exact fp_diff_unsorted_refuted. Qed.
Print Assumptions c02_fp_diff_unsorted_refuted.

Example c02_fp_ex : ssortedb [1; 4; 9] = true /\ fp_union [[1; 4; 9]; [2; 4]] = [1; 2; 4; 9] /\
  fp_inter [[1; 4; 9]; [2; 4]] = [4] /\ fp_diff [1; 4; 9] [2; 4] = [1; 9].
Proof. vm_compute. repeat split. Qed.

(* ---- weight2 ---- *)
Theorem c02_weight2_spec : forall sched left right,
  left_ok left = true -> right_ok right = true ->
  exists r, weight2 sched left right = Some r /\ w_err r = false /\
            (w_allowed r = true <-> exists x, In x (lvals left) /\ In x (rvals right)).
Proof. exact weight2_spec. Qed.
Print Assumptions c02_weight2_spec.

(* with failures, for every schedule: `allowed` only when the sets intersect, and then no error *)
Theorem c02_weight2_sound : forall sched left right r,
  weight2 sched left right = Some r -> w_allowed r = true ->
  intersects (lvals left) (rvals right) = true /\ w_err r = false.
Proof. exact weight2_sound. Qed.
Print Assumptions c02_weight2_sound.

Theorem c02_weight2_terminates : forall sched left right, weight2 sched left right <> None.
Proof. exact w2_terminates. Qed.
Print Assumptions c02_weight2_terminates.

Theorem c02_weight2_schedule_irrelevant : forall s1 s2 left right,
  left_ok left = true -> right_ok right = true -> weight2 s1 left right = weight2 s2 left right.
Proof. exact weight2_schedule_irrelevant. Qed.
Print Assumptions c02_weight2_schedule_irrelevant.

(* with a failing producer the outcome (error or allowed) does depend on the schedule *)
Theorem c02_weight2_failure_schedule_refuted : exists s1 s2 left right, weight2 s1 left right <> weight2 s2 left right.
Proof. exact weight2_failure_schedule_dependent. Qed.
Print Assumptions c02_weight2_failure_schedule_refuted.

Example c02_weight2_ex : left_ok [LIter [IVal 3; IVal 5]] = true /\ right_ok [RVal 9; RVal 5] = true /\
  weight2 [false; true] [LIter [IVal 3; IVal 5]] [RVal 9; RVal 5] = Some {| w_allowed := true; w_err := false |}.
Proof. vm_compute. repeat split. Qed.

(* ---- recursive strategy ---- *)
Theorem c02_bfs_terminates : forall succ failing targets maxdepth nodes depth visited frontier err,
  closed_graph succ nodes -> incl frontier nodes ->
  bfs succ failing targets maxdepth (bfs_fuel nodes) depth visited frontier err <> BFuel.
Proof. exact bfs_terminates. Qed.
Print Assumptions c02_bfs_terminates.

Theorem c02_bfs_spec : forall succ failing targets maxdepth nodes depth frontier,
  closed_graph succ nodes -> incl frontier nodes -> (depth < maxdepth)%nat ->
  (bfs succ failing targets maxdepth (bfs_fuel nodes) depth [] frontier false = BTrue <->
   exists t n, In t targets /\ (1 <= n)%nat /\ (n <= maxdepth - depth - 1)%nat /\ reach_from succ frontier t n).
Proof. exact bfs_true_iff. Qed.
Print Assumptions c02_bfs_spec.

Theorem c02_bfs_depth_exact : forall succ failing targets maxdepth nodes depth frontier err,
  closed_graph succ nodes -> incl frontier nodes -> (depth < maxdepth)%nat ->
  (bfs succ failing targets maxdepth (bfs_fuel nodes) depth [] frontier err = BDepth <->
   (~ exists t n, In t targets /\ (1 <= n)%nat /\ (n <= maxdepth - depth - 1)%nat /\ reach_from succ frontier t n) /\
   forall i, (i < maxdepth - depth - 1)%nat -> exists y, level succ frontier i y).
Proof. exact bfs_depth_iff. Qed.
Print Assumptions c02_bfs_depth_exact.

Theorem c02_rec_check_spec : forall edges direct maxdepth x,
  (length (nodes_of edges (x :: direct)) + 2 < maxdepth)%nat ->
  (rec_check edges direct maxdepth x = BTrue <-> exists t n, In t direct /\ path (succ_of edges) x t n).
Proof. exact rec_check_true_iff. Qed.
Print Assumptions c02_rec_check_spec.

Example c02_bfs_ex : rec_check [(1,2);(2,3);(3,1);(3,4)] [4] 25 1 = BTrue /\
  rec_check [(1,2);(2,3);(3,4)] [4] 2 1 = BDepth /\
  (length (nodes_of [(1,2);(2,3);(3,1);(3,4)]%N [1; 4]%N) + 2 < 25)%nat.
Proof. vm_compute. repeat split; repeat constructor. Qed.

(* the first level of the recursive strategy (the loop that merges the object side and the user
   side before the search): for EVERY interleaving of the two sides a hit is found exactly when
   they have a common element, and the outcome class does not depend on the interleaving *)
Theorem c02_first_level_matched_iff : forall sched user obj r, first_level sched user obj = Some r ->
  (r = FLMatched <-> exists x, In x user /\ In x obj).
Proof. exact first_level_matched_iff. Qed.
Print Assumptions c02_first_level_matched_iff.

Theorem c02_first_level_order_irrelevant : forall s1 s2 user obj,
  fl_class (first_level s1 user obj) = fl_class (first_level s2 user obj).
Proof. exact first_level_order_irrelevant. Qed.
Print Assumptions c02_first_level_order_irrelevant.

Theorem c02_first_level_search_sets : forall sched user obj us os,
  first_level sched user obj = Some (FLSearch us os) ->
  (forall x, In x us <-> In x user) /\ (forall x, In x os <-> In x obj) /\ user <> [] /\
  ~ (exists x, In x user /\ In x obj).
Proof. exact first_level_search_sets. Qed.
Print Assumptions c02_first_level_search_sets.

Theorem c02_first_level_agrees_with_rec_fast : forall sched user obj,
  fl_class (first_level sched user obj) = 0 <->
  (obj <> [] /\ user <> [] /\ existsb (fun y => memN y user) obj = true).
Proof. exact first_level_agrees_with_rec_fast. Qed.
Print Assumptions c02_first_level_agrees_with_rec_fast.

(* the user-side userset arriving before / after the matching object-side one *)
Example c02_first_level_ex : first_level [true; true; true] [2] [1; 2] = Some FLMatched /\
  first_level [false; false; false] [2] [1; 2] = Some FLMatched.
Proof. vm_compute. split; reflexivity. Qed.

(* ---- the answer does not depend on the planner ---- *)
Theorem c02_strategy_irrelevant : forall (key : Type) (n : node key), coherent key n = true ->
  forall sigma1 sigma2 sel1 sel2, eval key sigma1 sel1 n = eval key sigma2 sel2 n.
Proof. exact strategy_irrelevant. Qed.
Print Assumptions c02_strategy_irrelevant.

Theorem c02_weight2_choice_coherent : forall (key : Type) (k : key) sched left right r,
  left_ok left = true -> right_ok right = true -> weight2 sched left right = Some r ->
  coherent key (Choice k [(SDefault, Or (map (fun o => Leaf (memN o (lvals left))) (rvals right)));
                          (SWeight2, Leaf (w_allowed r))]) = true.
Proof. exact weight2_choice_coherent. Qed.
Print Assumptions c02_weight2_choice_coherent.

Theorem c02_recursive_choice_coherent : forall (key : Type) (k : key) (d : node key) edges direct maxdepth x,
  (length (nodes_of edges (x :: direct)) + 2 < maxdepth)%nat ->
  coherent key d = true ->
  (den key d = true <-> exists t n, In t direct /\ path (succ_of edges) x t n) ->
  coherent key (Choice k [(SDefault, d);
                          (SRecursive, Leaf (match rec_check edges direct maxdepth x with BTrue => true | _ => false end))]) = true.
Proof. exact recursive_choice_coherent. Qed.
Print Assumptions c02_recursive_choice_coherent.

Example c02_strategy_ex :
  let n := Or [Choice 1%nat [(SDefault, Or [Leaf false; Leaf true]); (SWeight2, Leaf true)];
               Reset (Choice 2%nat [(SDefault, And [Leaf true; Leaf false]); (SRecursive, Leaf false)])] in
  coherent nat n = true /\ eval nat (fun _ => SWeight2) None n = eval nat (fun _ => SRecursive) (Some SDefault) n.
Proof. exact strategy_irrelevant_ex. Qed.

(* ---- the producer of the user side: strategy independence holds only without repeated objects
        (known finding fastpath_dedup_before_condition) ---- *)
(* full-strength statement, false for the code as it is:
     forall ctxt stored o, In o (fst (source_impl ctxt stored)) <->
                           exists t, In t (ctxt ++ stored) /\ fst t = o /\ snd t = 0 *)
Theorem c02_source_partial : forall ctxt stored,
  nodupb (map fst (ctxt ++ stored)) = true ->
  forall o, In o (fst (source_impl ctxt stored)) <-> exists t, In t (ctxt ++ stored) /\ fst t = o /\ snd t = 0.
Proof. exact source_partial. Qed.
Print Assumptions c02_source_partial.

Theorem c02_source_refuted : exists ctxt stored o,
  (exists t, In t (ctxt ++ stored) /\ fst t = o /\ snd t = 0) /\ ~ In o (fst (source_impl ctxt stored)).
Proof. exact source_refuted. Qed.
Print Assumptions c02_source_refuted.

Theorem c02_weight2_source_refuted : exists stored right,
  (exists r, weight2 [] [LIter (map IVal (fst (source_impl [] stored)))] right = Some r /\ w_allowed r = false) /\
  (exists r, weight2 [] [LIter (map IVal (map fst (filter (fun t => snd t =? 0) stored)))] right = Some r /\ w_allowed r = true).
Proof. exact weight2_source_refuted. Qed.
Print Assumptions c02_weight2_source_refuted.

Theorem c02_cond_filter_error_iff : forall l,
  snd (cond_objs l) = true <-> (forall t, In t l -> snd t <> 0) /\ (exists t, In t l /\ snd t = 2).
Proof. exact cond_objs_error_iff. Qed.
Print Assumptions c02_cond_filter_error_iff.

Example c02_cond_chunk_ex : cond_chunk [(4, 1); (5, 2)] = Ch [] true /\ cond_chunk [(4, 1); (5, 2); (6, 0)] = Ch [6] false /\
  cond_chunk [(4, 1)] = Ch [] false.
Proof. exact cond_chunk_ex. Qed.

Example c02_source_ex : nodupb (map fst ([(1, 0)] ++ [(2, 1); (3, 0); (5, 2)])) = true /\
  source_impl [(1, 0)] [(2, 1); (3, 0); (5, 2)] = ([1; 3], false).
Proof. exact source_partial_ex. Qed.
