(* C10 -- Higher-consistency requests are never stale.
   Model: Cache/Consistency.v -- (1) the control skeletons of every cache-consulting method,
   regenerated from the Go source into Generated/C10Bypass.v on every run, with their execution
   semantics `run`; (2) the layered cache machine that interprets those skeletons (query cache /
   edge cache, shared iterators, iterator caches, datastore) around an abstract engine and an
   abstract store; (3) the request-level replay model the correspondence oracle runs.
   Proofs: Cache/ConsistencyProofs.v. *)
From OFGA Require Import Cache.Consistency Cache.ConsistencyProofs.
Close Scope string_scope.
Open Scope list_scope.

(* For EVERY store type, datastore read function, engine (reads / dispatched sub-problems /
   combination, as long as it only issues the three read kinds), EVERY configuration of the cache
   flags and of the engine flag, EVERY history of writes and of cached and HIGHER_CONSISTENCY
   Check / BatchCheck / ListObjects / ListUsers requests, EVERY initial cache content (stale, wrong)
   and EVERY resolution of the data-dependent conditionals of the wrappers (hit / miss, entry
   valid / expired / invalidated by the cache controller, errors): the answer of a
   HIGHER_CONSISTENCY request is the cache-free answer for the store state at the time of the
   request.  The wrappers are the skeletons generated from the Go source (gen_wrappers). *)
Theorem higher_consistency_fresh :
  forall (S : Type) (db : S -> rkey -> rval) (reads_of : N -> list rkey)
         (subs_of : N -> list rval -> list N) (combine : N -> list rval -> list qval -> qval),
    (forall q k, In k (reads_of q) -> (fst k = 0 \/ fst k = 1 \/ fst k = 2)%N) ->
    forall (c : config) (fuel : nat) (h : list (op S)) (s : S) (st : cstate)
           (hi : bool) (q : N) (s' : S) (v : qval),
      In (hi, q, s', v) (run_hist S db reads_of subs_of combine gen_wrappers c fuel h s st) ->
      hi = true ->
      v = spec S db reads_of subs_of combine fuel s' q.
Proof. exact higher_consistency_fresh_gen. Qed.
Print Assumptions higher_consistency_fresh.

(* What such a request leaves behind, as coded: the iterator cache and the shared iterators are not
   touched at all; every entry it adds to the check query cache / edge cache is the cache-free
   answer of that sub-problem for the current store state (at some remaining depth). *)
Theorem higher_consistency_does_not_poison :
  forall (S : Type) (db : S -> rkey -> rval) (reads_of : N -> list rkey)
         (subs_of : N -> list rval -> list N) (combine : N -> list rval -> list qval -> qval),
    (forall q k, In k (reads_of q) -> (fst k = 0 \/ fst k = 1 \/ fst k = 2)%N) ->
    forall (c : config) (a : api) (fuel : nat) (s : S) (q : N) (st : cstate),
      let st' := snd (request S db reads_of subs_of combine gen_wrappers c a fuel true s q st) in
      ic st' = ic st /\ sh st' = sh st /\
      forall k v, In (k, v) (qc st') ->
        In (k, v) (qc st) \/ exists f, (f <= fuel)%nat /\ v = spec S db reads_of subs_of combine f s k.
Proof. exact higher_consistency_does_not_poison_gen. Qed.
Print Assumptions higher_consistency_does_not_poison.

(* Over the table generated from the Go source: in every listed method the consistency test
   precedes the first cache read / delete / cache-controller call, the tested expression is the
   request's preference, nothing is unrecognised (row_ok); and, path-sensitively, for every
   resolution of the other conditionals the execution of a HIGHER_CONSISTENCY request contains no
   cache read, no cache delete, no cache-controller call and no unrecognised statement. *)
Theorem bypass_dominates :
  forallb row_ok c10_table = true /\
  forall r ch, In r c10_table ->
    forallb (fun e => negb (bad_hi e)) (trace (c10_body r) true ch) = true.
Proof. exact bypass_dominates_gen. Qed.
Print Assumptions bypass_dominates.

(* The bypass of the storage wrappers tests options.Consistency.Preference: over the read call sites
   regenerated from the Go source (every Read* call of both engines, of ListObjects' reverse
   expansion and pipeline store, of ListUsers, Expand and Read), every call passes options whose
   Consistency.Preference is the request's preference; the allow-list of sites that may omit it is
   empty at the pinned commit. *)
Theorem reads_forward_consistency : forallb read_ok c10_reads = true.
Proof. exact reads_forward_consistency_gen. Qed.
Print Assumptions reads_forward_consistency.

(* The request-level model the oracle replays: in every history and configuration a
   HIGHER_CONSISTENCY request -- and every request that passes through no cache -- is predicted to
   return exactly the reference answer (so a deviation is reported, see replay_verdict_hi); when the
   driver made the datastore fail during the request, the reference answer or an error, never another
   (cached) decision. *)
Theorem replay_higher_exact :
  forall (c : rcfg) (h : list rop) (st : rstate) (r : rreq) (p : prediction),
    In (r, p) (predictions c st h) ->
    rq_hi r = true \/ caches_on c (rq_api r) = false ->
    p = if rq_fault r then PExactOrError (rq_ref r) else PExact (rq_ref r).
Proof. exact replay_hi_exact. Qed.
Print Assumptions replay_higher_exact.

(* Non-vacuity.  A concrete engine and a stale cache with all flags on: the cached request returns
   the stale `allowed`, the HIGHER_CONSISTENCY request the fresh `denied` (= spec), and refreshes
   the query-cache entry; the read-kind hypothesis is satisfiable; the generated table contains
   cache reads on the cached paths of every wrapper (the static checks are not vacuous). *)
Example higher_consistency_fresh_nonvacuous :
  (forall q k, In k (ex_reads q) -> (fst k = 0 \/ fst k = 1 \/ fst k = 2)%N) /\
  fst (request (list N) ex_db ex_reads ex_subs ex_combine gen_wrappers ex_cfg ACheck 3 false [] 5%N ex_stale) = Some true /\
  fst (request (list N) ex_db ex_reads ex_subs ex_combine gen_wrappers ex_cfg ACheck 3 true [] 5%N ex_stale) = Some false /\
  spec (list N) ex_db ex_reads ex_subs ex_combine 3 [] 5%N = Some false.
Proof. exact (conj ex_kinds (conj ex_cached_request_is_stale ex_higher_request_is_fresh)). Qed.

Example higher_consistency_does_not_poison_nonvacuous :
  let st' := snd (request (list N) ex_db ex_reads ex_subs ex_combine gen_wrappers ex_cfg ACheck 3 true [] 5%N (set_chs ex_stale [])) in
  qlook (qc st') 5%N = Some (Some false) /\ ic st' = ic ex_stale.
Proof. exact ex_higher_request_refreshes. Qed.

Example bypass_dominates_nonvacuous :
  forallb (fun n => reads_cache_lo (find_row n))
    ["CachedCheckResolver.ResolveCheck"; "v2.Resolver.isCached"; "v2.Resolver.ResolveUnionEdges";
     "v2.Resolver.ResolveRecursive";
     "CachedDatastore.Read"; "CachedDatastore.ReadUsersetTuples"; "CachedDatastore.ReadStartingWithUser";
     "CachedTupleReader.Read"; "CachedTupleReader.ReadUsersetTuples"; "CachedTupleReader.ReadStartingWithUser";
     "IteratorDatastore.Read"; "IteratorDatastore.ReadUsersetTuples"; "IteratorDatastore.ReadStartingWithUser";
     "CheckQuery.Execute"; "Server.v2Check"; "Server.BatchCheck"; "ListObjectsQuery.Execute"]%string = true.
Proof. exact table_not_vacuous. Qed.

Example reads_forward_consistency_nonvacuous :
  forallb (fun fm => has_read (fst fm) (snd fm))
    [("Resolver.resolveRecursiveTTU", "Read"); ("Resolver.resolveRecursiveUserset", "ReadUsersetTuples");
     ("Resolver.ttu", "Read"); ("Resolver.specificType", "ReadUserTuple");
     ("Resolver.specificTypeAndRelation", "ReadUsersetTuples"); ("Resolver.specificTypeWildcard", "ReadUsersetTuples");
     ("Recursive.buildTupleMapperForID", "Read"); ("Recursive.buildTupleMapperForID", "ReadUsersetTuples");
     ("bottomUp.specificType", "ReadStartingWithUser");
     ("LocalChecker.checkTTU", "Read"); ("LocalChecker.checkDirectUserTuple", "ReadUserTuple");
     ("LocalChecker.checkPublicAssignable", "ReadUsersetTuples");
     ("buildRecursiveMapper", "Read"); ("buildRecursiveMapper", "ReadUsersetTuples");
     ("IteratorReadUsersetTuples", "ReadUsersetTuples"); ("IteratorReadStartingFromUser", "ReadStartingWithUser");
     ("ValidatingStore.createIterator", "ReadStartingWithUser"); ("ListObjectsQuery.Execute", "WithStoreConsistency");
     ("ReverseExpandQuery.readTuplesAndExecute", "ReadStartingWithUser");
     ("ReverseExpandQuery.buildFilteredIterator", "ReadStartingWithUser");
     ("listUsersQuery.expandDirect", "Read"); ("listUsersQuery.expandTTU", "Read")]%string = true.
Proof. exact reads_not_vacuous. Qed.

Example replay_higher_exact_nonvacuous :
  map snd (predictions ex_rcfg rs0 ex_hist) = [PExact 1; PExact 1; PAnyAnswer; PExact 0; PExact 0]%N /\
  replay ex_rcfg rs0 ex_hist = [0; 0; 0; 0; 0]%N /\
  replay ex_rcfg rs0 [RReq (mkReq 0 false 7 1 1 [] false); RWrite; RReq (mkReq 0 true 7 0 1 [] false)] = [0; 2]%N /\
  replay ex_rcfg rs0 [RReq (mkReq 0 false 7 1 1 [] false); RWrite; RReq (mkReq 0 true 7 0 5 [] true);
                      RReq (mkReq 0 true 7 0 0 [] true); RReq (mkReq 0 true 7 0 1 [] true)] = [0; 0; 0; 2]%N.
Proof. exact ex_replay. Qed.
