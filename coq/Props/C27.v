(* C27 — Authentication accepts exactly valid credentials.
   Model: Sec/Authn.v; lemmas: Sec/AuthnProofs.v.  External behaviour enters only as
   universally quantified functions: [H] (SHA-256) and [parse_jwt] (JWT decoding, JWKS
   lookup by kid, RSA signature verification). *)
From OFGA Require Import Base.Bytes Sec.Authn Sec.AuthnProofs.
From Coq Require Import ZArith.

(* ---- bearer header ---------------------------------------------------------------- *)

Theorem c27_bearer_header : forall vals t,
  auth_from_md vals = MdToken t <->
  exists scheme rest,
    vals = (scheme ++ c_space :: t) :: rest /\
    mem c_space scheme = false /\
    eq_fold_ascii scheme s_bearer = true.
Proof. exact auth_from_md_token_iff. Qed.
Print Assumptions c27_bearer_header.

Example c27_bearer_header_ex :
  auth_from_md [[98; 69; 65; 82; 101; 114; 32; 120; 32; 121]; [1]] = MdToken [120; 32; 121].
Proof. vm_compute. reflexivity. Qed.

(* ---- pre-shared keys --------------------------------------------------------------- *)

Theorem c27_constant_time_compare : forall x y, ct_compare x y = 1 <-> x = y.
Proof. exact ct_compare_one_iff. Qed.
Print Assumptions c27_constant_time_compare.

Example c27_constant_time_compare_ex :
  ct_compare [1; 2; 255] [1; 2; 255] = 1 /\ ct_compare [1; 2; 255] [1; 2; 254] = 0 /\
  ct_compare [1; 2] [1; 2; 3] = 0.
Proof. vm_compute. auto. Qed.

(* for every digest function: accepted iff the token's digest equals a configured key's *)
Theorem c27_psk_accept_digest : forall (H : bytes -> bytes) keys hs vals,
  psk_new H keys = Some hs ->
  (psk_authenticate H hs vals = PskAccept <->
   exists t k, auth_from_md vals = MdToken t /\ In k keys /\ H t = H k).
Proof. exact psk_accept_digest. Qed.
Print Assumptions c27_psk_accept_digest.

(* the property: with H injective on token :: keys, accepted iff the bearer token is a key;
   for all key lists (any length, duplicates allowed) and all header lists *)
Theorem c27_psk_accept_iff : forall (H : bytes -> bytes) keys hs vals,
  psk_new H keys = Some hs ->
  (forall t, auth_from_md vals = MdToken t -> inj_on H (t :: keys)) ->
  (psk_authenticate H hs vals = PskAccept <->
   exists t, auth_from_md vals = MdToken t /\ In t keys).
Proof. exact psk_accept_iff. Qed.
Print Assumptions c27_psk_accept_iff.

Example c27_psk_accept_iff_ex :
  let H := fun b : bytes => 7 :: b in
  psk_new H [[1]; [2; 3]] = Some [[7; 1]; [7; 2; 3]] /\
  inj_on H [[2; 3]; [1]; [2; 3]] /\
  psk_authenticate H [[7; 1]; [7; 2; 3]] (hdr [2; 3]) = PskAccept /\
  psk_authenticate H [[7; 1]; [7; 2; 3]] (hdr [2]) = PskUnauthenticated.
Proof.
  split; [reflexivity|]. split; [exact ex_inj_on|]. vm_compute. auto.
Qed.

Theorem c27_psk_missing_bearer_iff : forall (H : bytes -> bytes) hs vals,
  psk_authenticate H hs vals = PskMissingBearer <-> (forall t, auth_from_md vals <> MdToken t).
Proof. exact psk_missing_bearer_iff. Qed.
Print Assumptions c27_psk_missing_bearer_iff.

Example c27_psk_missing_bearer_ex :
  psk_authenticate (fun b => b) [[1]] [[66; 97; 115; 105; 99; 32; 1]] = PskMissingBearer.
Proof. vm_compute. reflexivity. Qed.

(* ---- OIDC -------------------------------------------------------------------------- *)

(* the code's decision is the decision table applied to the claim-validity record *)
Theorem c27_oidc_decision_table : forall (parse_jwt : bytes -> token) cfg now vals,
  cfg_wf cfg = true ->
  accepted (oidc_authenticate parse_jwt cfg now vals) = decide (validity_of parse_jwt cfg now vals).
Proof. exact oidc_decision_table. Qed.
Print Assumptions c27_oidc_decision_table.

(* exact characterisation over concrete claims *)
Theorem c27_oidc_accept_iff : forall (parse_jwt : bytes -> token) cfg now vals,
  cfg_wf cfg = true ->
  ((exists p, oidc_authenticate parse_jwt cfg now vals = OAccept p) <->
   oidc_code_accepts parse_jwt cfg now vals).
Proof. exact oidc_accept_iff. Qed.
Print Assumptions c27_oidc_accept_iff.

Example c27_oidc_accept_ex :
  cfg_wf (w_cfg [] [s_alice]) = true /\
  accepted (oidc_authenticate (w_parse (w_claims (JStr s_main) (JStr s_alice) []))
                              (w_cfg [] [s_alice]) 1000%Z (hdr [120])) = true /\
  oidc_authenticate (w_parse (w_claims (JStr s_main) (JStr s_alice) []))
                    (w_cfg [] [s_alice]) 2000%Z (hdr [120]) = OInvalid RClaims.
Proof. vm_compute. auto. Qed.

(* Soundness, full strength (the "only valid credentials" half of the property text): for EVERY
   configuration, clock value, header list and token.  (Until the fix 8b29193 this needed the
   hypothesis that the alias and subject lists contain no empty string.) *)
Theorem c27_oidc_sound : forall (parse_jwt : bytes -> token) cfg now vals,
  (exists p, oidc_authenticate parse_jwt cfg now vals = OAccept p) ->
  oidc_property parse_jwt cfg now vals.
Proof. exact oidc_sound. Qed.
Print Assumptions c27_oidc_sound.

Example c27_oidc_sound_ex :
  oidc_authenticate (w_parse (w_claims (JStr s_evil) JAbsent [])) (w_cfg [[]] []) 1000%Z (hdr [120])
  = OInvalid RIssuer /\
  oidc_authenticate (w_parse (w_claims (JStr s_main) (JStr s_evil) [])) (w_cfg [] [s_alice; []])
                    1000%Z (hdr [120])
  = OInvalid RSubject /\
  accepted (oidc_authenticate (w_parse (w_claims (JStr s_main) (JStr s_alice) []))
                              (w_cfg [[]] [s_alice; []]) 1000%Z (hdr [120])) = true.
Proof. vm_compute. auto. Qed.

(* Completeness, full strength:
     forall parse_jwt cfg now vals, cfg_wf cfg = true ->
       oidc_property parse_jwt cfg now vals -> exists p, oidc_authenticate ... = OAccept p
   is FALSE for the code as it is: the code is stricter than the text in two places (see the
   _refuted theorems).  Proved instead, under the two extra conditions the code imposes
   (nbf not in the future, sub a string when present): *)
Theorem c27_oidc_complete_partial : forall (parse_jwt : bytes -> token) cfg now vals,
  cfg_wf cfg = true ->
  oidc_property parse_jwt cfg now vals ->
  (forall t c, auth_from_md vals = MdToken t ->
               parse_jwt t = TokParsed AlgRS256 (KidFound true true) c ->
               not_in_future k_nbf now c /\ sub_wellformed c) ->
  exists p, oidc_authenticate parse_jwt cfg now vals = OAccept p.
Proof. exact oidc_complete_partial. Qed.
Print Assumptions c27_oidc_complete_partial.

Theorem c27_oidc_exact_partial : forall (parse_jwt : bytes -> token) cfg now vals,
  cfg_wf cfg = true ->
  extra_ok (validity_of parse_jwt cfg now vals) = true ->
  accepted (oidc_authenticate parse_jwt cfg now vals)
  = property_literal (validity_of parse_jwt cfg now vals).
Proof. exact oidc_exact_partial. Qed.
Print Assumptions c27_oidc_exact_partial.

Example c27_oidc_partial_ex :
  let parse := w_parse (w_claims (JStr s_main) (JStr s_alice) [(k_nbf, JNum 900)]) in
  let cfg := w_cfg [s_evil] [s_alice] in
  cfg_wf cfg = true /\
  extra_ok (validity_of parse cfg 1000%Z (hdr [120])) = true /\
  property_literal (validity_of parse cfg 1000%Z (hdr [120])) = true.
Proof. vm_compute. auto. Qed.

Theorem c27_oidc_complete_refuted_nbf :
  exists parse cfg now vals,
    cfg_wf cfg = true /\
    property_literal (validity_of parse cfg now vals) = true /\
    accepted (oidc_authenticate parse cfg now vals) = false.
Proof. exact oidc_complete_refuted_nbf. Qed.
Print Assumptions c27_oidc_complete_refuted_nbf.

Theorem c27_oidc_complete_refuted_sub_type :
  exists parse cfg now vals,
    cfg_wf cfg = true /\
    property_literal (validity_of parse cfg now vals) = true /\
    accepted (oidc_authenticate parse cfg now vals) = false.
Proof. exact oidc_complete_refuted_sub_type. Qed.
Print Assumptions c27_oidc_complete_refuted_sub_type.

(* every configuration the constructor lets through satisfies cfg_wf *)
Theorem c27_oidc_new_wf : forall main aliases aud subs cic cfg,
  oidc_new main aliases aud subs cic = Some cfg -> cfg_wf cfg = true.
Proof. exact oidc_new_wf. Qed.
Print Assumptions c27_oidc_new_wf.

Example c27_oidc_new_ex :
  oidc_new [] [] s_aud [] [] = None /\ oidc_new s_main [] [] [] [] = None /\
  oidc_new s_main [[]] s_aud [[]] [] = Some (w_cfg [[]] [[]]).
Proof. vm_compute. auto. Qed.

(* the record fields mean what the property text says *)
Theorem c27_record_meaning : forall (parse_jwt : bytes -> token) cfg now vals,
  (decide (validity_of parse_jwt cfg now vals) = true <-> oidc_code_accepts parse_jwt cfg now vals) /\
  (property_literal (validity_of parse_jwt cfg now vals) = true <-> oidc_property parse_jwt cfg now vals).
Proof. exact record_meaning. Qed.
Print Assumptions c27_record_meaning.

(* error classes and the principal *)
Theorem c27_oidc_missing_bearer_iff : forall (parse_jwt : bytes -> token) cfg now vals,
  oidc_authenticate parse_jwt cfg now vals = OMissingBearer <->
  (forall t, auth_from_md vals <> MdToken t).
Proof. exact oidc_missing_bearer_iff. Qed.
Print Assumptions c27_oidc_missing_bearer_iff.

Theorem c27_oidc_class_precedence : forall (parse_jwt : bytes -> token) cfg now vals,
  oidc_class (oidc_authenticate parse_jwt cfg now vals)
  = if vy_bearer (validity_of parse_jwt cfg now vals)
    then (if accepted (oidc_authenticate parse_jwt cfg now vals) then 0 else 2)
    else 1.
Proof. exact oidc_class_precedence. Qed.
Print Assumptions c27_oidc_class_precedence.

Theorem c27_oidc_accept_principal : forall (parse_jwt : bytes -> token) cfg now vals p,
  oidc_authenticate parse_jwt cfg now vals = OAccept p ->
  exists t a k c,
    auth_from_md vals = MdToken t /\ parse_jwt t = TokParsed a k c /\
    p_subject p = match cget k_sub c with JStr s => s | _ => [] end /\
    p_client_id p = client_id (client_id_claims cfg) c /\
    p_scopes p = scopes_of c.
Proof. exact oidc_accept_principal. Qed.
Print Assumptions c27_oidc_accept_principal.

Example c27_oidc_principal_ex :
  oidc_authenticate
    (w_parse (w_claims (JStr s_main) (JStr s_alice)
                       [(k_scope, JStr [114; 32; 32; 119]); (k_client_id, JStr [99]); (k_azp, JNum 3)]))
    (w_cfg [] []) 1000%Z (hdr [120])
  = OAccept {| p_subject := s_alice; p_client_id := [99]; p_scopes := [[114]; []; [119]] |}.
Proof. vm_compute. reflexivity. Qed.

(* ---- histories ---------------------------------------------------------------------- *)

(* the i-th answer of any history equals the single-call answer at time t_i *)
Theorem c27_oidc_stateless : forall (parse_jwt : bytes -> token) cfg h i c,
  nth_error h i = Some c ->
  nth_error (oidc_run parse_jwt cfg h) i = Some (oidc_authenticate parse_jwt cfg (fst c) (snd c)).
Proof. exact oidc_stateless. Qed.
Print Assumptions c27_oidc_stateless.

Theorem c27_psk_stateless : forall (H : bytes -> bytes) h i c,
  nth_error h i = Some c ->
  nth_error (psk_run H h) i
  = Some (match psk_new H (fst c) with
          | None => None
          | Some hs => Some (psk_authenticate H hs (snd c))
          end).
Proof. exact psk_stateless. Qed.
Print Assumptions c27_psk_stateless.

Theorem c27_authn_stateless :
  (forall (parse_jwt : bytes -> token) cfg h1 h1' c h2 h2',
     nth_error (oidc_run parse_jwt cfg (h1 ++ c :: h2)) (length h1)
     = nth_error (oidc_run parse_jwt cfg (h1' ++ c :: h2')) (length h1')) /\
  (forall (H : bytes -> bytes) h1 h1' c h2 h2',
     nth_error (psk_run H (h1 ++ c :: h2)) (length h1)
     = nth_error (psk_run H (h1' ++ c :: h2')) (length h1')).
Proof. exact authn_stateless. Qed.
Print Assumptions c27_authn_stateless.

(* the same token, accepted at 1000 and 1500, is rejected at 2000 = exp *)
Example c27_authn_stateless_ex :
  map oidc_class
      (oidc_run (w_parse (w_claims (JStr s_main) (JStr s_alice) [])) (w_cfg [] [s_alice])
                [(1000%Z, hdr [120]); (1500%Z, hdr [120]); (2000%Z, hdr [120]); (1999%Z, hdr [120])])
  = [0; 0; 2; 0].
Proof. vm_compute. reflexivity. Qed.
