(* C22 — Internal concurrent queues behave like FIFO channels.
   Models: Conc/Mpmc.v (internal/containers/mpmc/queue.go), Conc/Mpsc.v
   (internal/containers/mpsc/accumulator.go), specification Conc/FifoSpec.v.
   Every theorem quantifies over ALL schedules (lists of thread ids, any length), ALL numbers of
   threads and ALL programs (lists of calls per thread); MPMC additionally over every initial
   capacity >= 2 and every extensions setting. *)
From OFGA Require Import Conc.FifoSpec Conc.Mpmc Conc.MpmcInv Conc.MpmcProofs Conc.FifoSpecProofs.
From OFGA Require Import Conc.MpmcWakeup.
From OFGA Require Import Conc.Medium Conc.MediumProofs.
From OFGA Require Import Conc.Mpsc Conc.MpscProofs.

(* ---- MPMC ---- *)

Theorem mpmc_seq_invariant : forall c e progs sched, 2 <= c ->
  seq_invariant (g (run (init c e progs) sched)).
Proof. exact mpmc_seq_invariant_lemma. Qed.
Print Assumptions mpmc_seq_invariant.

(* ... and it survives every further step, the buffer extension included *)
Theorem mpmc_seq_invariant_extend : forall c e progs sched t, 2 <= c ->
  let s := run (init c e progs) sched in
  forall s', step s t = Some s' -> seq_invariant (g s').
Proof. exact mpmc_seq_invariant_extend_lemma. Qed.
Print Assumptions mpmc_seq_invariant_extend.

Theorem mpmc_no_loss_no_dup : forall c e progs sched, 2 <= c ->
  let G := g (run (init c e progs) sched) in
  enqs (events G) = deqs (events G) ++ pending G
  /\ length (pending G) = Mpmc.head G - Mpmc.tail G
  /\ (forall k, k < Mpmc.head G - Mpmc.tail G -> seq_at G (Mpmc.tail G + k) = Mpmc.tail G + k + 1 ->
        nth_error (pending G) k = Some (data_at G (Mpmc.tail G + k))).
Proof. exact mpmc_no_loss_no_dup_lemma. Qed.
Print Assumptions mpmc_no_loss_no_dup.

Theorem mpmc_fifo : forall c e progs sched, 2 <= c ->
  let s := run (init c e progs) sched in
  legal (events (g s))
  /\ (forall t th, nth_error (thr s) t = Some th ->
        proj t (events (g s)) = flat_map (res_event t) (res th) ++ inflight t th
        /\ nth_error progs t = Some (map op_of (res th) ++ prog th)).
Proof. exact mpmc_fifo_lemma. Qed.
Print Assumptions mpmc_fifo.

Theorem mpmc_close : forall c e progs sched, 2 <= c ->
  let ev := events (g (run (init c e progs) sched)) in
  (forall a t b, ev = a ++ EClose t :: b -> forall x, In x b -> is_enq x = false)
  /\ (forall a t b, ev = a ++ EEnqFail t :: b -> exists u, In (EClose u) a)
  /\ (forall a t b, ev = a ++ EDeqFail t :: b -> enqs a = deqs a /\ exists u, In (EClose u) a).
Proof. exact mpmc_close_lemma. Qed.
Print Assumptions mpmc_close.

Theorem mpmc_no_panic : forall c e progs sched, 2 <= c ->
  panicked (g (run (init c e progs) sched)) = false.
Proof. exact mpmc_no_panic_lemma. Qed.
Print Assumptions mpmc_no_panic.

(* the wake-up clause is refuted for the code as written (F10, flag mpmc_lost_wakeup) *)
Theorem mpmc_lost_wakeup_refuted :
  exists c e progs sched r s,
    2 <= c /\ multi_receiver progs = true
    /\ run_strict (init c e progs) sched = Some s
    /\ run (init c e progs) sched = s
    /\ lost_wakeup_state s r = true
    /\ pending (g s) = [8%N].
Proof. exact mpmc_lost_wakeup_refuted_lemma. Qed.
Print Assumptions mpmc_lost_wakeup_refuted.

Theorem mpmc_no_lost_wakeup_full_statement_is_false : ~ mpmc_no_lost_wakeup_statement.
Proof. exact mpmc_no_lost_wakeup_statement_false. Qed.
Print Assumptions mpmc_no_lost_wakeup_full_statement_is_false.

(* what does hold: with at most one receiving thread (multi_receiver progs = false -- one
   goroutine per QueueMedium calls Recv in the pipeline) no wake-up is lost *)
Theorem mpmc_no_lost_wakeup_partial : forall c e progs sched r, 2 <= c ->
  multi_receiver progs = false ->
  lost_wakeup_state (run (init c e progs) sched) r = false.
Proof. exact mpmc_no_lost_wakeup_partial_lemma. Qed.
Print Assumptions mpmc_no_lost_wakeup_partial.

(* ---- MPSC ---- *)

Theorem mpsc_fifo : forall cp pps sched,
  let s := mrun (minit cp pps) sched in
  legal (mevents s)
  /\ deqs (mevents s) = firstn (ctail s) (enqs (mevents s))
  /\ proj 0 (mevents s) = flat_map cres_event (cres (cons s))
  /\ cp = map cop_of (cres (cons s)) ++ cprog (cons s)
  /\ (forall k p, nth_error (prods s) k = Some p ->
        proj (k + 2) (mevents s) = flat_map (pres_event (k + 2)) (pres p) ++ pinflight (k + 2) p
        /\ nth_error pps k = Some (map pop_of (pres p) ++ pprog p)).
Proof. exact mpsc_fifo_lemma. Qed.
Print Assumptions mpsc_fifo.

Theorem mpsc_fifo_per_producer : forall cp pps sched,
  let s := mrun (minit cp pps) sched in
  let received := firstn (ctail s) (tenqs (mevents s)) in
  deqs (mevents s) = map snd received
  /\ (forall t, exists rest,
        enqs_of t (mevents s) = map snd (filter (from_producer t) received) ++ rest)
  /\ (forall k p, nth_error (prods s) k = Some p ->
        enqs_of (k + 2) (mevents s)
        = enqs (flat_map (pres_event (k + 2)) (pres p) ++ pinflight (k + 2) p)).
Proof. exact mpsc_fifo_per_producer_lemma. Qed.
Print Assumptions mpsc_fifo_per_producer.

Theorem mpsc_no_loss : forall cp pps sched,
  let ev := mevents (mrun (minit cp pps) sched) in
  (exists pending, enqs ev = deqs ev ++ pending)
  /\ (forall a t b, ev = a ++ EDeqFail t :: b -> enqs a = deqs a /\ exists u, In (EClose u) a)
  /\ (forall a t b, ev = a ++ EClose t :: b -> forall x, In x b -> is_enq x = false)
  /\ (forall a t b, ev = a ++ EEnqFail t :: b -> exists u, In (EClose u) a).
Proof. exact mpsc_no_loss_lemma. Qed.
Print Assumptions mpsc_no_loss.

Theorem mpsc_no_lost_wakeup : forall cp pps sched,
  let s := mrun (minit cp pps) sched in
  consumer_stuck s = true ->
  (next_of_tail s <> None ->
     exists k p, nth_error (prods s) k = Some p /\ (p_pc p = P_sig \/ p_pc p = K_done))
  /\ (prods_idle s = true ->
      skipn (ctail s) (enqs (mevents s)) = [] /\ hnil s = false /\ next_of_tail s = None).
Proof. exact mpsc_no_lost_wakeup_lemma. Qed.
Print Assumptions mpsc_no_lost_wakeup.

Theorem mpsc_no_panic : forall cp pps sched, mpanicked (mrun (minit cp pps) sched) = false.
Proof. exact mpsc_no_panic_lemma. Qed.
Print Assumptions mpsc_no_panic.

(* ---- the media of worker/medium.go (wrappers with a [closed] latch) ---- *)

Theorem medium_legal : forall k ops,
  let s := med_run (minit_medium k) ops in
  legal (mev s) /\ enqs (mev s) = deqs (mev s) ++ c_buf (mch s).
Proof. exact medium_legal_lemma. Qed.
Print Assumptions medium_legal.

Theorem medium_cancel_does_not_close : forall k ops choice,
  let s := med_run (minit_medium k) ops in
  (latch (fst (med_step s (MRecv false choice))) = latch s
   /\ (snd (med_step s (MRecv false choice)) = MRRecv None ->
         mch (fst (med_step s (MRecv false choice))) = mch s))
  /\ (latch s = true -> c_closed (mch s) = true /\ c_buf (mch s) = [])
  /\ (forall v rest, c_buf (mch s) = v :: rest ->
        snd (med_step s (MRecv true choice)) = MRRecv (Some v)
        /\ c_buf (mch (fst (med_step s (MRecv true choice)))) = rest).
Proof. exact medium_cancel_does_not_close_lemma. Qed.
Print Assumptions medium_cancel_does_not_close.

(* exactly-once hand-over: an item is delivered iff Send returned true, whatever the context *)
Theorem medium_send_true_iff_delivered : forall s live v,
  let r := med_step s (MSend live v) in
  (snd r = MRSend true <-> c_buf (mch (fst r)) = c_buf (mch s) ++ [v])
  /\ (snd r <> MRSend true -> mch (fst r) = mch s)
  /\ (forall s' r', med_step_alt s (MSend live v) = Some (s', r') ->
        r' = MRSend true /\ c_buf (mch s') = c_buf (mch s) ++ [v]).
Proof. exact medium_send_true_iff_delivered_lemma. Qed.
Print Assumptions medium_send_true_iff_delivered.

(* cancelled Recv on the empty open QueueMedium, then Send, Close: the item is still received *)
Example medium_nonvacuous :
  let s := med_run (minit_medium MQueue)
             [(MRecv false false, false); (MSend true 5%N, false); (MClose, false)] in
  latch s = false /\ snd (med_step s (MRecv true false)) = MRRecv (Some 5%N)
  /\ snd (med_step (fst (med_step s (MRecv true false))) (MRecv true false)) = MRRecv None
  /\ latch (fst (med_step (fst (med_step s (MRecv true false))) (MRecv true false))) = true.
Proof. vm_compute. repeat split. Qed.

(* ---- non-vacuity: concrete runs in which the interesting branches are taken ---- *)

(* MPMC: capacity 2, one extension allowed; 3 sends force a growth, a close in the middle, the
   receiver drains after the close and then gets (_, false); the late send fails. *)
Example mpmc_nonvacuous :
  let s := run (init 2 (Some 1) [[OSend 1%N; OSend 2%N; OSend 3%N; OClose; OSend 4%N];
                                 [ORecv; ORecv; ORecv; ORecv]])
               (repeat 0 200 ++ repeat 1 200) in
  cap (g s) = 4
  /\ events (g s) = [EEnq 0 1%N; EEnq 0 2%N; EEnq 0 3%N; EClose 0; EEnqFail 0;
                     EDeq 1 1%N; EDeq 1 2%N; EDeq 1 3%N; EDeqFail 1]
  /\ map res (thr s) = [[RSend 1%N true; RSend 2%N true; RSend 3%N true; RClose; RSend 4%N false];
                        [RRecv (Some 1%N); RRecv (Some 2%N); RRecv (Some 3%N); RRecv None]].
Proof. vm_compute. repeat split. Qed.

(* MPMC: an interleaved run with wrap-around (4 items through 2 slots, sender parks on full) *)
Example mpmc_nonvacuous_wrap :
  let s := run (init 2 (Some 0) [[OSend 1%N; OSend 2%N; OSend 3%N; OSend 4%N];
                                 [ORecv; ORecv; ORecv; ORecv]])
               (concat (repeat [0; 0; 0; 1; 1] 60)) in
  map res (thr s) = [[RSend 1%N true; RSend 2%N true; RSend 3%N true; RSend 4%N true];
                     [RRecv (Some 1%N); RRecv (Some 2%N); RRecv (Some 3%N); RRecv (Some 4%N)]]
  /\ Mpmc.head (g s) = 4 /\ Mpmc.tail (g s) = 4.
Proof. vm_compute. repeat split. Qed.

(* MPMC, single receiver: the receiver parks (5 steps), two sends complete, the receiver is woken
   by the token and takes both items; the hypothesis of the partial theorem is satisfiable *)
Example mpmc_nonvacuous_single_receiver :
  let progs := [[ORecv; ORecv]; [OSend 7%N]; [OSend 8%N]] in
  multi_receiver progs = false
  /\ tpc (nth 0 (thr (run (init 2 (Some 0) progs) (repeat 0 5))) (init_thread [])) = R_park
  /\ map res (thr (run (init 2 (Some 0) progs) (repeat 0 5 ++ repeat 1 10 ++ repeat 2 10 ++ repeat 0 40)))
     = [[RRecv (Some 7%N); RRecv (Some 8%N)]; [RSend 7%N true]; [RSend 8%N true]].
Proof. vm_compute. repeat split. Qed.

(* MPSC: two producers, consumer parks first, close, drain *)
Example mpsc_nonvacuous :
  let s := mrun (minit [CRecv; CRecv; CRecv] [[PSend 5%N; PClose]; [PSend 6%N]])
                ([0; 0] ++ repeat 2 5 ++ repeat 3 5 ++ repeat 0 8 ++ repeat 2 6 ++ repeat 0 5) in
  mevents s = [EEnq 2 5%N; EEnq 3 6%N; EDeq 0 5%N; EDeq 0 6%N; EClose 2; EDeqFail 0]
  /\ cres (cons s) = [CRRecv (Some 5%N); CRRecv (Some 6%N); CRRecv None].
Proof. vm_compute. repeat split. Qed.

(* MPSC: the consumer really is parked (hypothesis of mpsc_no_lost_wakeup satisfiable) *)
Example mpsc_nonvacuous_parked :
  consumer_stuck (mrun (minit [CRecv] [[PSend 5%N]]) [0; 0]) = true.
Proof. reflexivity. Qed.
