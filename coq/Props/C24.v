(* C24 - cache keys distinguish every answer-relevant input.
   Statements only; proofs are in Codec/{VarintProofs,KeySortProofs,KeyEncProofs,KeyUsersProofs}.v.
   Also holds the C16 corollary store_in_every_key and the C07 de-duplication key theorem. *)
From Coq Require Import String.
From OFGA Require Import Base.Bytes Codec.Varint Codec.VarintProofs Codec.KeyEnc Codec.KeySortProofs
  Codec.KeyEncProofs Codec.KeyUsersProofs Generated.C24Tags.
From Coq Require Import Permutation Sorted.

(* ---------------- constants and layouts read from the Go source on every run *)
Theorem C24_tags_pairwise_distinct : nodupN (map snd c24_tag_table) = true.
Proof. exact tags_pairwise_distinct. Qed.
Print Assumptions C24_tags_pairwise_distinct.

Theorem C24_prefixes_pairwise_distinct :
  nodupb (map snd c24_prefix_table ++ [lit_TS; lit_V2; lit_USERSET; lit_TTU]) = true.
Proof. exact prefixes_pairwise_distinct. Qed.
Print Assumptions C24_prefixes_pairwise_distinct.

Theorem C24_key_sites_as_modelled : c24_key_sites = modelled_key_sites.
Proof. exact key_sites_as_modelled. Qed.
Print Assumptions C24_key_sites_as_modelled.

Theorem C24_method_tags_as_modelled :
  c24_method_tags =
  [("EncodeArray", ""); ("EncodeArrayHeader", "tagArray"); ("EncodeBool", "tagBool");
   ("EncodeByte", "tagByte"); ("EncodeBytes", "tagBytes"); ("EncodeMap", "");
   ("EncodeMapHeader", "tagMap"); ("EncodeNull", "tagNull");
   ("EncodePair", "tagPair,tagKey,tagValue"); ("EncodeString", "tagString");
   ("EncodeUint64", "tagUint64"); ("EncodeUnset", "tagUnset")]%string.
Proof. exact method_tags_as_modelled. Qed.
Print Assumptions C24_method_tags_as_modelled.

Theorem C24_filter_fields_as_modelled :
  c24_filter_fields =
  [("ReadFilter", ["Object"; "Relation"; "User"; "Conditions"]);
   ("ReadStartingWithUserFilter", ["ObjectType"; "Relation"; "UserFilter"; "ObjectIDs"; "Conditions"]);
   ("ReadUsersetTuplesFilter", ["Object"; "Relation"; "AllowedUserTypeRestrictions"; "Conditions"])]%string.
Proof. exact filter_fields_as_modelled. Qed.
Print Assumptions C24_filter_fields_as_modelled.

(* ---------------- the byte encoding is a prefix code, for ALL byte strings *)
Theorem C24_uvarint_prefix_free : forall x y r1 r2,
  uvarint x ++ r1 = uvarint y ++ r2 -> x = y /\ r1 = r2.
Proof. exact uvarint_prefix_free. Qed.
Print Assumptions C24_uvarint_prefix_free.

Theorem C24_uvarint_decode_encode : forall x r, uvarint_decode (uvarint x ++ r) = Some (x, r).
Proof. exact uvarint_decode_encode. Qed.
Print Assumptions C24_uvarint_decode_encode.

(* tlv_prefix_free *)
Theorem C24_tlv_prefix_free : forall v1 v2 r1 r2,
  ser_wf v1 = true -> ser_wf v2 = true ->
  enc_ser v1 ++ r1 = enc_ser v2 ++ r2 -> v1 = v2 /\ r1 = r2.
Proof. exact enc_ser_pf. Qed.
Print Assumptions C24_tlv_prefix_free.
Example C24_tlv_prefix_free_nonvacuous :
  ser_wf (SMap [(SString [4; 0; 35], SArray [SU64 18446744073709551615; SNull; SPair SUnset (SBytes [6])])]) = true.
Proof. reflexivity. Qed.

(* encode_inj: a sequence of Serializable values written one after the other *)
Theorem C24_encode_inj : forall l1 l2,
  Forall (fun v => ser_wf v = true) l1 -> Forall (fun v => ser_wf v = true) l2 ->
  flat_map enc_ser l1 = flat_map enc_ser l2 -> l1 = l2.
Proof. exact encode_inj. Qed.
Print Assumptions C24_encode_inj.
Example C24_encode_inj_separator_like :   (* the classic "ab"+"c" vs "a"+"bc" and embedded tag bytes *)
  flat_map enc_ser [SString [97; 98]; SString [99]] <> flat_map enc_ser [SString [97]; SString [98; 99]] /\
  flat_map enc_ser [SString [4; 1; 97]] <> flat_map enc_ser [SString []; SString [97]].
Proof. split; vm_compute; discriminate. Qed.

Theorem C24_enc_fields_inj : forall l1 l2,
  forallb field_wf l1 = true -> forallb field_wf l2 = true -> enc_fields l1 = enc_fields l2 -> l1 = l2.
Proof. exact enc_fields_inj. Qed.
Print Assumptions C24_enc_fields_inj.

(* ---------------- structpb values *)
(* pbvalue_encode_canonical: equal up to map-key order <-> equal encodings *)
Theorem C24_pbvalue_encode_canonical : forall v1 v2,
  pb_wf v1 = true -> pb_wf v2 = true -> pb_keys_unique v1 = true ->
  (enc_pb v1 = enc_pb v2 <-> pb_equiv v1 v2).
Proof. exact pbvalue_encode_canonical. Qed.
Print Assumptions C24_pbvalue_encode_canonical.
Example C24_pbvalue_nonvacuous :
  let v1 := PStruct [([98], PNum 4607182418800017408); ([97], PStruct [([122], PNull); ([121], PList [PUnset])])] in
  let v2 := PStruct [([97], PStruct [([121], PList [PUnset]); ([122], PNull)]); ([98], PNum 4607182418800017408)] in
  pb_wf v1 = true /\ pb_keys_unique v1 = true /\ v1 <> v2 /\ enc_pb v1 = enc_pb v2.
Proof. repeat split; try reflexivity. discriminate. Qed.

Theorem C24_pbvalue_prefix_free : forall v1 v2 r1 r2,
  pb_wf v1 = true -> pb_wf v2 = true ->
  enc_pb v1 ++ r1 = enc_pb v2 ++ r2 -> pb_equiv v1 v2 /\ r1 = r2.
Proof. exact enc_pb_pf. Qed.
Print Assumptions C24_pbvalue_prefix_free.

(* the explicit-stack walk of PbValue.WriteTo never runs out of fuel and equals the recursive definition *)
Theorem C24_pb_walk_eq_recursive : forall v, pb_write_outcome v = Bytes (enc_pb v).
Proof. exact pb_write_total. Qed.
Print Assumptions C24_pb_walk_eq_recursive.

(* ---------------- contextual tuples *)
(* tuple_array_inj *)
Theorem C24_tuple_array_inj : forall ts1 ts2 r1 r2,
  length ts1 = length ts2 ->
  Forall (fun t => tk_wf t = true) ts1 -> Forall (fun t => tk_wf t = true) ts2 ->
  not_string_start r1 -> not_string_start r2 ->
  flat_map enc_tuple ts1 ++ r1 = flat_map enc_tuple ts2 ++ r2 ->
  Forall2 tuple_equiv ts1 ts2 /\ r1 = r2.
Proof. exact enc_tuples_pf. Qed.
Print Assumptions C24_tuple_array_inj.

(* invariant_key_sem, "=>" (the direction answers depend on; no hypothesis on duplicates) *)
Theorem C24_invariant_key_inj : forall s1 m1 c1 ts1 s2 m2 c2 ts2,
  inv_wf c1 ts1 = true -> inv_wf c2 ts2 = true ->
  inv_bytes s1 m1 c1 ts1 = inv_bytes s2 m2 c2 ts2 ->
  s1 = s2 /\ m1 = m2 /\ ctx_equiv c1 c2 /\ tuples_equiv ts1 ts2.
Proof. exact invariant_key_inj. Qed.
Print Assumptions C24_invariant_key_inj.

(* ... for any sort that returns a permutation (covers Go's pdqsort beyond 12 tuples) *)
Theorem C24_invariant_key_inj_any_sort : forall srt, (forall l, Permutation (srt l) l) ->
  forall s1 m1 c1 ts1 s2 m2 c2 ts2,
  inv_wf c1 ts1 = true -> inv_wf c2 ts2 = true ->
  inv_bytes_with srt s1 m1 c1 ts1 = inv_bytes_with srt s2 m2 c2 ts2 ->
  s1 = s2 /\ m1 = m2 /\ ctx_equiv c1 c2 /\ tuples_equiv ts1 ts2.
Proof. exact inv_bytes_with_inj. Qed.
Print Assumptions C24_invariant_key_inj_any_sort.

(* invariant_key_sem, "<=": full statement = without [tie_free]; refuted below.
   Missing part: contextual tuples that agree on object, relation, user and condition name but
   differ in condition context keep an input-dependent order. *)
Theorem C24_invariant_key_canonical_partial : forall s m c1 ts1 c2 ts2,
  inv_keys_unique c1 ts1 = true -> tie_free ts1 = true ->
  ctx_equiv c1 c2 -> tuples_equiv ts1 ts2 ->
  inv_bytes s m c1 ts1 = inv_bytes s m c2 ts2.
Proof. exact invariant_key_canonical. Qed.
Print Assumptions C24_invariant_key_canonical_partial.
Example C24_invariant_key_canonical_nonvacuous :
  let ts := [tie_t1; mk_tkey [100] [114] [117] None; tie_t1] in
  inv_wf [([107], PStr [118])] ts = true /\ inv_keys_unique [([107], PStr [118])] ts = true /\ tie_free ts = true.
Proof. repeat split; reflexivity. Qed.

Theorem C24_invariant_key_canonical_refuted :
  exists s m c ts1 ts2,
    inv_wf c ts1 = true /\ inv_keys_unique c ts1 = true /\
    tuples_equiv ts1 ts2 /\ inv_bytes s m c ts1 <> inv_bytes s m c ts2.
Proof. exact invariant_key_canonical_refuted. Qed.
Print Assumptions C24_invariant_key_canonical_refuted.

Theorem C24_sorted_tuple_bytes_unique : forall ts sorted,
  Permutation sorted ts -> StronglySorted tk_le sorted -> tie_free ts = true ->
  flat_map enc_tuple sorted = flat_map enc_tuple (sort_tuples ts).
Proof. exact inv_bytes_any_sort. Qed.
Print Assumptions C24_sorted_tuple_bytes_unique.

(* ---------------- keys that are sequences of fields *)
Theorem C24_pkey_inj : forall k1 k2,
  pkey_wf k1 = true -> pkey_wf k2 = true -> pkey_domain k1 = pkey_domain k2 ->
  pkey_bytes k1 = pkey_bytes k2 -> k1 = k2.
Proof. exact pkey_inj. Qed.
Print Assumptions C24_pkey_inj.
Example C24_pkey_inj_nonvacuous :
  pkey_wf (KEdge [1] [2] [3] [4] [5] 7 [6] [7] 18446744073709551615) = true /\
  pkey_domain (KEdge [1] [2] [3] [4] [5] 7 [6] [7] 0) = pkey_domain (KCheck [1] [2] [3] [4] 5).
Proof. split; reflexivity. Qed.

Theorem C24_check_key_inj : forall s1 o1 r1 u1 i1 s2 o2 r2 u2 i2,
  is_u64 i1 = true -> is_u64 i2 = true ->
  pkey_bytes (KCheck s1 o1 r1 u1 i1) = pkey_bytes (KCheck s2 o2 r2 u2 i2) ->
  s1 = s2 /\ o1 = o2 /\ r1 = r2 /\ u1 = u2 /\ i1 = i2.
Proof. exact check_key_inj. Qed.
Print Assumptions C24_check_key_inj.

(* C16 *)
Theorem C16_store_in_every_key : forall k1 k2,
  pkey_wf k1 = true -> pkey_wf k2 = true -> pkey_domain k1 = pkey_domain k2 ->
  pkey_bytes k1 = pkey_bytes k2 -> pkey_store k1 = pkey_store k2.
Proof. exact store_in_every_key. Qed.
Print Assumptions C16_store_in_every_key.

(* ---------------- keys with an embedded digest; [hash] is any function into uint64 *)
Example C24_hash_hypothesis_satisfiable :
  exists hash : bytes -> N, (forall b, is_u64 (hash b) = true) /\ hash [1] <> hash [].
Proof.
  exists (fun b => N.of_nat (length b) mod two64). split.
  - intro b. unfold is_u64. apply N.ltb_lt. apply N.mod_lt. discriminate.
  - vm_compute. discriminate.
Qed.

(* C07: the BatchCheck de-duplication key = the sub-problem key of NewRequest *)
Theorem C24_batch_key_sem : forall hash, (forall b, is_u64 (hash b) = true) ->
  forall s1 m1 o1 r1 u1 c1 ts1 s2 m2 o2 r2 u2 c2 ts2,
  inv_wf c1 ts1 = true -> inv_wf c2 ts2 = true ->
  (hash (inv_bytes s1 m1 c1 ts1) = hash (inv_bytes s2 m2 c2 ts2) ->
   inv_bytes s1 m1 c1 ts1 = inv_bytes s2 m2 c2 ts2) ->
  batch_key hash s1 m1 o1 r1 u1 c1 ts1 = batch_key hash s2 m2 o2 r2 u2 c2 ts2 ->
  s1 = s2 /\ m1 = m2 /\ o1 = o2 /\ r1 = r2 /\ u1 = u2 /\ ctx_equiv c1 c2 /\ tuples_equiv ts1 ts2.
Proof. exact batch_key_sem. Qed.
Print Assumptions C24_batch_key_sem.

Theorem C24_batch_key_canonical_partial : forall hash s m o r u c1 ts1 c2 ts2,
  inv_keys_unique c1 ts1 = true -> tie_free ts1 = true ->
  ctx_equiv c1 c2 -> tuples_equiv ts1 ts2 ->
  batch_key hash s m o r u c1 ts1 = batch_key hash s m o r u c2 ts2.
Proof. exact batch_key_canonical. Qed.
Print Assumptions C24_batch_key_canonical_partial.

Theorem C24_edge_key_sem : forall hash, (forall b, is_u64 (hash b) = true) ->
  forall s1 m1 o1 u1 rd1 et1 tl1 tr1 c1 ts1 s2 m2 o2 u2 rd2 et2 tl2 tr2 c2 ts2,
  is_u64 et1 = true -> is_u64 et2 = true ->
  inv_wf c1 ts1 = true -> inv_wf c2 ts2 = true ->
  (hash (inv_bytes s1 m1 c1 ts1) = hash (inv_bytes s2 m2 c2 ts2) ->
   inv_bytes s1 m1 c1 ts1 = inv_bytes s2 m2 c2 ts2) ->
  edge_key hash s1 m1 o1 u1 rd1 et1 tl1 tr1 c1 ts1 = edge_key hash s2 m2 o2 u2 rd2 et2 tl2 tr2 c2 ts2 ->
  s1 = s2 /\ m1 = m2 /\ o1 = o2 /\ u1 = u2 /\ rd1 = rd2 /\ et1 = et2 /\ tl1 = tl2 /\ tr1 = tr2 /\
  ctx_equiv c1 c2 /\ tuples_equiv ts1 ts2.
Proof. exact edge_key_sem. Qed.
Print Assumptions C24_edge_key_sem.

(* ---------------- iterator keys *)
Theorem C24_sort_strings_canonical : forall l1 l2, sort_strings l1 = sort_strings l2 <-> Permutation l1 l2.
Proof. exact sort_strings_canonical. Qed.
Print Assumptions C24_sort_strings_canonical.

Theorem C24_rswu_key_inj : forall hash, (forall b, is_u64 (hash b) = true) ->
  forall s1 t1 r1 uf1 o1 c1 s2 t2 r2 uf2 o2 c2,
  (hash (rswu_stage1 uf1 o1 c1) = hash (rswu_stage1 uf2 o2 c2) ->
   rswu_stage1 uf1 o1 c1 = rswu_stage1 uf2 o2 c2) ->
  rswu_key hash s1 t1 r1 uf1 o1 c1 = rswu_key hash s2 t2 r2 uf2 o2 c2 ->
  s1 = s2 /\ t1 = t2 /\ r1 = r2 /\
  Permutation (map uf_str uf1) (map uf_str uf2) /\ oid_values o1 = oid_values o2 /\ Permutation c1 c2.
Proof. exact rswu_key_inj. Qed.
Print Assumptions C24_rswu_key_inj.

Theorem C24_rswu_key_canonical : forall hash s t r uf1 o1 c1 uf2 o2 c2,
  Permutation (map uf_str uf1) (map uf_str uf2) -> oid_values o1 = oid_values o2 -> Permutation c1 c2 ->
  rswu_key hash s t r uf1 o1 c1 = rswu_key hash s t r uf2 o2 c2.
Proof. exact rswu_key_canonical. Qed.
Print Assumptions C24_rswu_key_canonical.

(* full statement: ... -> Permutation uf1 uf2 /\ o1 = o2 /\ ... without the four hypotheses.
   Missing parts: names containing '#' (excluded by validation) and nil vs empty ObjectIDs. *)
Theorem C24_rswu_key_inj_partial : forall hash, (forall b, is_u64 (hash b) = true) ->
  forall s1 t1 r1 uf1 o1 c1 s2 t2 r2 uf2 o2 c2,
  forallb uf_wf uf1 = true -> forallb uf_wf uf2 = true ->
  is_empty_some o1 = false -> is_empty_some o2 = false ->
  (hash (rswu_stage1 uf1 o1 c1) = hash (rswu_stage1 uf2 o2 c2) ->
   rswu_stage1 uf1 o1 c1 = rswu_stage1 uf2 o2 c2) ->
  rswu_key hash s1 t1 r1 uf1 o1 c1 = rswu_key hash s2 t2 r2 uf2 o2 c2 ->
  s1 = s2 /\ t1 = t2 /\ r1 = r2 /\ Permutation uf1 uf2 /\ o1 = o2 /\ Permutation c1 c2.
Proof. exact rswu_key_inj_wellformed. Qed.
Print Assumptions C24_rswu_key_inj_partial.
Example C24_rswu_key_inj_partial_nonvacuous :
  forallb uf_wf [([117; 58; 49], []); ([103; 58; 49], [109])] = true /\
  is_empty_some (Some [[49]; [50]]) = false /\ is_empty_some None = false.
Proof. repeat split; reflexivity. Qed.

Theorem C24_rswu_key_nil_empty_conflated : forall hash s t r uf c,
  rswu_key hash s t r uf None c = rswu_key hash s t r uf (Some []) c.
Proof. exact rswu_key_nil_empty_conflated. Qed.
Print Assumptions C24_rswu_key_nil_empty_conflated.

Theorem C24_rswu_key_inj_refuted : forall hash,
  exists s t r uf c o1 o2, o1 <> o2 /\ rswu_key hash s t r uf o1 c = rswu_key hash s t r uf o2 c.
Proof. exact rswu_key_inj_refuted. Qed.
Print Assumptions C24_rswu_key_inj_refuted.

Theorem C24_rut_key_inj : forall hash, (forall b, is_u64 (hash b) = true) ->
  forall s1 o1 r1 refs1 c1 s2 o2 r2 refs2 c2,
  (hash (rut_stage1 refs1 c1) = hash (rut_stage1 refs2 c2) -> rut_stage1 refs1 c1 = rut_stage1 refs2 c2) ->
  rut_key hash s1 o1 r1 refs1 c1 = rut_key hash s2 o2 r2 refs2 c2 ->
  s1 = s2 /\ o1 = o2 /\ r1 = r2 /\
  Permutation (map ref_str refs1) (map ref_str refs2) /\ Permutation c1 c2.
Proof. exact rut_key_inj. Qed.
Print Assumptions C24_rut_key_inj.

Theorem C24_rut_key_canonical : forall hash s o r refs1 c1 refs2 c2,
  Permutation (map ref_str refs1) (map ref_str refs2) -> Permutation c1 c2 ->
  rut_key hash s o r refs1 c1 = rut_key hash s o r refs2 c2.
Proof. exact rut_key_canonical. Qed.
Print Assumptions C24_rut_key_canonical.

Theorem C24_rut_key_inj_wellformed : forall hash, (forall b, is_u64 (hash b) = true) ->
  forall s1 o1 r1 refs1 c1 s2 o2 r2 refs2 c2,
  forallb ref_wf refs1 = true -> forallb ref_wf refs2 = true ->
  (hash (rut_stage1 refs1 c1) = hash (rut_stage1 refs2 c2) -> rut_stage1 refs1 c1 = rut_stage1 refs2 c2) ->
  rut_key hash s1 o1 r1 refs1 c1 = rut_key hash s2 o2 r2 refs2 c2 ->
  s1 = s2 /\ o1 = o2 /\ r1 = r2 /\ Permutation refs1 refs2 /\ Permutation c1 c2.
Proof. exact rut_key_inj_wellformed. Qed.
Print Assumptions C24_rut_key_inj_wellformed.
Example C24_rut_wellformed_nonvacuous :
  forallb ref_wf [([103], RRel [109]); ([117], RWild); ([117], RNone)] = true.
Proof. reflexivity. Qed.

Theorem C24_read_key_inj : forall hash, (forall b, is_u64 (hash b) = true) ->
  forall s1 o1 r1 u1 c1 s2 o2 r2 u2 c2,
  (hash (read_stage1 c1) = hash (read_stage1 c2) -> read_stage1 c1 = read_stage1 c2) ->
  read_key hash s1 o1 r1 u1 c1 = read_key hash s2 o2 r2 u2 c2 ->
  s1 = s2 /\ o1 = o2 /\ r1 = r2 /\ u1 = u2 /\ Permutation c1 c2.
Proof. exact read_key_inj. Qed.
Print Assumptions C24_read_key_inj.

Theorem C24_read_key_canonical : forall hash s o r u c1 c2,
  Permutation c1 c2 -> read_key hash s o r u c1 = read_key hash s o r u c2.
Proof. exact read_key_canonical. Qed.
Print Assumptions C24_read_key_canonical.

(* filter lists up to duplicates: refuted (the keys treat them as multisets) *)
Theorem C24_filter_set_semantics_refuted :
  exists c1 c2, (forall x, In x c1 <-> In x c2) /\ read_stage1 c1 <> read_stage1 c2.
Proof. exact filter_set_semantics_refuted. Qed.
Print Assumptions C24_filter_set_semantics_refuted.
