(* C08: the Check query cache never changes answers.

   Statements only.  Models: Check/V1.v (default engine, outcome SETS), Check/QueryCache.v (the
   same engine behind CachedCheckResolver: collecting semantics over every entry that MAY have
   been stored, partitions = user x model version x context x contextual tuples, histories),
   Check/QueryCacheV2.v (abstract model of the weighted-graph engine's shared `visited` set and
   edge cache).  Proofs: Check/QueryCacheProofs.v.

   Vocabulary.  DEFINITE outcome = AT (allowed) or AFn (denied, CycleDetected = false): the only
   outcomes CachedCheckResolver stores.  `unfoldB h o r` = definite part of the h-level unfolding
   of sub-problem o#r WITHOUT VisitedPaths and depth counter: the path-independent value.  A
   cache is `valid` when every entry is such a value (there is at most one: unfoldB_agree).

   Default engine -- proved for ALL models (union, intersection, exclusion, computed usersets,
   tuple-to-userset, conditions in all three states, invalid tuples), stores, users, fuels,
   depths, paths, request sequences and valid caches:
     A. path independence: two definite outcomes of one sub-problem, on any two paths / depths /
        fuels, are equal; a definite outcome on any path is the outcome on the empty path once
        fuel and depth limit are at least the fuel it was found with.  The literal reading
        ("the outcome does not depend on VisitedPaths") is false at the cut itself.
     B. completeness of the path-based cycle cut for definite values (the rank argument).
     C. cached_entry_valid: every entry ever stored is the path-independent value.
     D. cache_transparent_v1, for every request sequence and every valid initial cache -- hence
        for every order in which entries arrive, every expiry / eviction pattern:
          (a) a definite answer of the uncached engine stays a possible answer with the cache;
          (b) a definite answer with the cache never differs from a definite answer without;
          (c) a definite answer with the cache IS the uncached answer for every fuel and depth
              limit above a bound (the cache never invents an answer).
        What (c) leaves open is the depth limit itself: the LITERAL statement is REFUTED by a
        request that exceeds the resolution depth without the cache and is answered with it
        (flag depth_error_masked_by_cache; reproduced on the real code by the driver).
        NOT proved: that the cache cannot turn one non-definite answer into another (an error
        class into `denied with cycle flag` or vice versa); covered by the correspondence run.
   Weighted-graph engine (abstract model): the literal statement is REFUTED by the F3 graph
   (flag v2_edge_cache_visited); the variant that stores an edge result only when it is `allowed`
   or was computed without a visited set is transparent for every graph and request sequence. *)
From Coq Require Import List Bool Arith NArith.
From OFGA Require Import Sem.B3 Sem.Vocab Sem.Semantics Check.V1 Check.V1Proofs
  Check.QueryCache Check.QueryCacheV2 Check.QueryCacheProofs.
Import ListNotations.
Open Scope N_scope.

(* ================================================================== *)
(* A. path independence of the default engine                         *)
(* ================================================================== *)

Theorem cycle_free_result_path_independent :
  forall m conds store subj pathx maxdepth f d V f' d' V' o r a a',
    definite a = true -> definite a' = true ->
    In a (fst (check m conds store subj pathx maxdepth f d V o r)) ->
    In a' (fst (check m conds store subj pathx maxdepth f' d' V' o r)) -> a = a'.
Proof. exact v1_definite_path_independent. Qed.
Print Assumptions cycle_free_result_path_independent.

Theorem cycle_free_result_at_empty_path :
  forall m conds store subj pathx maxdepth f d V o r a,
    definite a = true -> In a (fst (check m conds store subj pathx maxdepth f d V o r)) ->
    forall fuel' md', (f <= fuel')%nat -> (f <= md')%nat ->
      In a (fst (check_top m conds store subj pathx md' fuel' o r)).
Proof. exact v1_definite_at_empty_path. Qed.
Print Assumptions cycle_free_result_at_empty_path.

Theorem path_independence_literal_refuted :
  exists m conds store subj pathx md f d V V' o r,
    In AT (fst (check m conds store subj pathx md f d V o r)) /\
    ~ In AT (fst (check m conds store subj pathx md f d V' o r)).
Proof. exact QueryCacheProofs.path_independence_literal_refuted. Qed.
Print Assumptions path_independence_literal_refuted.

(* the definite part of the engine's outcome set is a pure function of the sub-problem, the path
   and the depth (checkB), bounded by the unfolding *)
Theorem check_definite_part :
  forall m conds store subj pathx maxdepth f d V o r,
    dv (fst (check m conds store subj pathx maxdepth f d V o r)) = checkB m conds store subj pathx maxdepth f d V o r /\
    le4 (checkB m conds store subj pathx maxdepth f d V o r) (unfoldB m conds store subj pathx f o r).
Proof. exact check_dv_bounded. Qed.
Print Assumptions check_definite_part.

(* ================================================================== *)
(* B. completeness of the path-based cycle cut for definite values     *)
(* ================================================================== *)

Theorem path_cut_complete :
  forall m conds store subj pathx maxdepth h o r f d V,
    (h <= f)%nat -> (d + h <= maxdepth)%nat ->
    (forall v, In v V -> unfoldB m conds store subj pathx h (fst v) (snd v) = bot4) ->
    le4 (unfoldB m conds store subj pathx h o r) (checkB m conds store subj pathx maxdepth f d V o r).
Proof. exact unfoldB_le_checkB. Qed.
Print Assumptions path_cut_complete.

Theorem path_independent_value_unique :
  forall m conds store subj pathx a b h h' o r,
    le4 (dvb a) (unfoldB m conds store subj pathx h o r) ->
    le4 (dvb b) (unfoldB m conds store subj pathx h' o r) -> a = b.
Proof. exact unfoldB_agree. Qed.
Print Assumptions path_independent_value_unique.

(* ================================================================== *)
(* C. the invariant                                                    *)
(* ================================================================== *)

Theorem cached_entry_valid :
  forall envs fuel qs g,
    gvalid envs g -> gvalid envs (snd (run_history envs true fuel qs g)).
Proof. exact history_valid. Qed.
Print Assumptions cached_entry_valid.

Theorem cached_entry_valid_one_request :
  forall m conds store subj pathx maxdepth enabled fuel o r c,
    valid m conds store subj pathx c ->
    valid m conds store subj pathx (snd (resolve_top m conds store subj pathx maxdepth enabled fuel o r c)).
Proof. exact resolve_top_valid. Qed.
Print Assumptions cached_entry_valid_one_request.

Example cached_entry_valid_ex :
  gvalid (fun _ => d1_env 2) [] /\
  snd (run_history (fun _ => d1_env 2) true 8 d1_requests []) =
  [(0, [((mk_obj 2 1, 1), true); ((mk_obj 2 2, 1), true); ((mk_obj 2 2, 1), true); ((mk_obj 2 3, 1), true)])].
Proof. exact d1_valid_example. Qed.

(* ================================================================== *)
(* D. transparency                                                     *)
(* ================================================================== *)

(* answers_ok envs fuel q sc  (Check/QueryCacheProofs.v), with s = the outcome set of Check/V1.check_top
   for request q under the depth limit of its partition:
     (a) forall a, definite a -> In a s -> In a sc
     (b) forall a a', definite a -> definite a' -> In a sc -> In a' s -> a = a'
     (c) forall a, definite a -> In a sc ->
           exists F0, forall fuel' md', F0 <= fuel' -> F0 <= md' -> In a (check_top ... md' fuel' ...)
   gvalid envs g: every entry (k, b) of every partition p of g satisfies
     exists h, le4 (dvb b) (unfoldB <env of p> h k)        (in particular g = []). *)
Theorem cache_transparent_v1 :
  forall envs fuel qs g,
    gvalid envs g ->
    Forall2 (answers_ok envs fuel) qs (fst (run_history envs true fuel qs g)).
Proof. exact history_answers. Qed.
Print Assumptions cache_transparent_v1.

(* one request against ANY valid cache: whatever subset of the valid entries is present *)
Theorem cache_transparent_any_valid_cache :
  forall envs fuel q g,
    gvalid envs g -> answers_ok envs fuel q (fst (run1 envs true fuel q g)).
Proof. exact run1_answers. Qed.
Print Assumptions cache_transparent_any_valid_cache.

Theorem uncached_history_is_V1 :
  forall envs fuel qs g,
    Forall2 (fun q s => dv s = dv (uncached envs fuel (pe_maxdepth (envs (q_part q))) q))
            qs (fst (run_history envs false fuel qs g)).
Proof. exact history_off_is_V1. Qed.
Print Assumptions uncached_history_is_V1.

(* with a depth limit that is out of reach the D1 history is transparent and the second request
   is answered from the cache as well *)
Example cache_transparent_v1_ex :
  fst (run_history (fun _ => d1_env 25) true 8 d1_requests []) = [[AT]; [AT]] /\
  fst (run_history (fun _ => d1_env 25) false 8 d1_requests []) = [[AT]; [AT]].
Proof. exact d1_transparent_example. Qed.

Theorem C08_v1_literal_refuted : exists envs fuel qs, ~ literal_transparent envs fuel qs.
Proof. exact literal_v1_refuted_depth. Qed.
Print Assumptions C08_v1_literal_refuted.

(* ================================================================== *)
(* weighted-graph engine: edge cache under a shared visited set         *)
(* ================================================================== *)

Theorem v2_edge_cache_refuted : ~ v2_literal_transparent false.
Proof. exact v2_literal_refuted. Qed.
Print Assumptions v2_edge_cache_refuted.

Theorem v2_edge_cache_transparent_fixed : v2_literal_transparent true.
Proof. exact v2_literal_fixed. Qed.
Print Assumptions v2_edge_cache_transparent_fixed.

(* every run of the fixed variant (and every run without the cache) answers plain reachability *)
Theorem v2_fixed_answers_reachability :
  forall succ hit cyc cache_on fixed,
    (cache_on = true -> fixed = true) ->
    forall fuel reqs c bs,
      ecache_ok succ hit c -> v2_run succ hit cyc cache_on fixed fuel reqs c = Some bs ->
      Forall2 (fun n b => b = true <-> reach_hit succ hit n) reqs bs.
Proof. exact v2_run_correct. Qed.
Print Assumptions v2_fixed_answers_reachability.

Example v2_edge_cache_ex :
  v2_run f3_succ f3_hit f3_cyc true false 10 f3_requests [] = Some [true; false] /\
  v2_run f3_succ f3_hit f3_cyc false false 10 f3_requests [] = Some [true; true] /\
  v2_run f3_succ f3_hit f3_cyc true true 10 f3_requests [] = Some [true; true].
Proof. exact v2_example. Qed.
