(* C23 — iterator adapters and shared iterators yield their specified sequences.
   Statements only; every proof is `exact <lemma>` (Cache/IterAdaptersProofs.v,
   Cache/SharedIterProofs.v).  Models: Cache/IterAdapters.v (every adapter of
   internal/iterator, pkg/storage/tuple_iterators.go and tuple_mappers.go as a state machine over
   scripted inner iterators: a script is a list of events, an item or an error at each position)
   and Cache/SharedIter.v (the shared iterator: buffer, producer, clones, reference count; and the
   datastore wrapper around it).

   [drains_to next st out]: for EVERY number n of consecutive Next calls from state st, the results
   are the first n elements of out followed by ErrIteratorDone.  All statements are about all
   inputs / all call counts / all traces. *)
From Coq Require Import List NArith ZArith Bool Permutation Sorted.
From OFGA Require Import Cache.IterAdapters Cache.SharedIter Cache.IterAdaptersProofs Cache.SharedIterProofs.
Import ListNotations.
Open Scope N_scope.

(* ---- concat ---- *)

Theorem C23_concat_spec : forall xs ys,
  drains_to concat_next (concat_init (map Item xs) (map Item ys)) (map ROk (xs ++ ys)).
Proof. exact concat_spec. Qed.
Print Assumptions C23_concat_spec.
Example C23_concat_spec_ex :
  nexts concat_next 5 (concat_init [Item 1; Item 2] [Item 3]) = [ROk 1; ROk 2; ROk 3; RDone; RDone].
Proof. reflexivity. Qed.

(* all scripts, errors included: the complete behaviour is the list function concat_out *)
Theorem C23_concat_all_scripts : forall a b, wf a = true -> wf b = true ->
  drains_to concat_next (concat_init a b) (concat_out a b).
Proof. exact concat_drains. Qed.
Print Assumptions C23_concat_all_scripts.
Theorem C23_concat_error_position_first : forall xs e r b,
  concat_out (map Item xs ++ Err e :: r) b = map ROk xs ++ [RErr e].
Proof. exact concat_error_position_first. Qed.
Print Assumptions C23_concat_error_position_first.
Theorem C23_concat_error_position_second : forall xs ys e r, ys <> [] ->
  concat_out (map Item xs) (map Item ys ++ Err e :: r) = map ROk xs ++ map ROk ys ++ [RErr e].
Proof. exact concat_error_position_second. Qed.
Print Assumptions C23_concat_error_position_second.
Example C23_concat_error_ex :
  wf [Item 1; Err 10; Item 2] = true /\
  nexts concat_next 3 (concat_init [Item 1; Err 10; Item 2] [Item 3]) = [ROk 1; RErr 10; RDone].
Proof. split; reflexivity. Qed.

(* ---- merge ---- *)

Theorem C23_merge_sorted_perm : forall la lb,
  sortedN la -> sortedN lb -> (forall x, In x la -> ~ In x lb) ->
  exists out, drains_to merge_next (merge_init (map Item la) (map Item lb)) (map ROk out)
              /\ sortedN out /\ Permutation out (la ++ lb).
Proof. exact merge_sorted_perm. Qed.
Print Assumptions C23_merge_sorted_perm.
Example C23_merge_sorted_perm_ex :
  nexts merge_next 5 (merge_init [Item 1; Item 4] [Item 2; Item 3]) = [ROk 1; ROk 2; ROk 3; ROk 4; RDone].
Proof. reflexivity. Qed.

(* with common values: every value occurs max(multiplicity left, multiplicity right) times *)
Theorem C23_merge_sorted_spec : forall la lb, sortedN la -> sortedN lb ->
  exists out, drains_to merge_next (merge_init (map Item la) (map Item lb)) (map ROk out)
              /\ sortedN out
              /\ forall x, count_occ N.eq_dec out x = Nat.max (count_occ N.eq_dec la x) (count_occ N.eq_dec lb x).
Proof. exact merge_sorted_spec. Qed.
Print Assumptions C23_merge_sorted_spec.
Example C23_merge_sorted_spec_ex :
  nexts merge_next 4 (merge_init [Item 1; Item 1; Item 2] [Item 1; Item 3]) = [ROk 1; ROk 1; ROk 2; ROk 3].
Proof. reflexivity. Qed.

(* Merge never swallows an error of its inputs: over any number of calls from ANY state, the
   (non-done) errors reported are exactly the (non-done) errors consumed *)
Theorem C23_merge_error_conservation : forall n st,
  merge_errs st = (merge_errs (final merge_next n st)
                   + fold_right (fun r acc => (res_err r + acc)%nat) O (nexts merge_next n st))%nat.
Proof. exact merge_error_conservation. Qed.
Print Assumptions C23_merge_error_conservation.
Example C23_merge_error_ex :
  nexts merge_next 3 (merge_init [Item 1; Err 10] []) = [R (Some 1) (Some 10); ROk 1; RDone].
Proof. reflexivity. Qed.

(* Stop contract ("any subsequent call to Next must return ErrIteratorDone"):
   full-strength statement: forall a b ops n,
     nexts merge_next n (merge_stop (snd (run ... ops (merge_init a b)))) = pad n [].
   Refuted by the faithful model (finding merge_yields_after_stop); what holds is the _partial
   version: at most the two prefetched values come out and the inputs are not read any more. *)
Theorem C23_merge_next_after_stop_refuted :
  exists a b ops n,
    nexts merge_next n (merge_stop (snd (run merge_next merge_head merge_stop ops (merge_init a b)))) <> pad n [].
Proof. exact merge_next_after_stop_refuted. Qed.
Print Assumptions C23_merge_next_after_stop_refuted.
Theorem C23_merge_stop_partial : forall st, m_init st = true ->
  exists out, drains_to merge_next (merge_stop st) out /\ (length out <= 2)%nat
              /\ live (m_1 (merge_stop st)) = [] /\ live (m_2 (merge_stop st)) = [].
Proof. exact merge_stop_partial. Qed.
Print Assumptions C23_merge_stop_partial.

(* ---- ordered combined iterator ---- *)

Theorem C23_ordered_combined_spec : forall key xss,
  Forall (ksorted key) xss ->
  exists out,
    drains_to (oc_next key) (oc_init (map (map Item) xss)) (map ROk out)
    /\ StronglySorted (lt_key key) out
    /\ incl out (concat xss)
    /\ (forall z, In z (concat xss) -> exists o, In o out /\ key o = key z).
Proof. exact ordered_combined_spec. Qed.
Print Assumptions C23_ordered_combined_spec.
Example C23_ordered_combined_spec_ex :
  nexts (oc_next (fun x => x / 8)) 4 (oc_init [[Item 8; Item 16]; [Item 9; Item 25]; [Item 18]])
  = [ROk 8; ROk 16; ROk 25; RDone].
Proof. vm_compute. reflexivity. Qed.

(* the ascending check is sound (no error on sorted inputs, above) but not complete *)
Theorem C23_ordered_detection_incomplete :
  exists xss, ~ Forall (ksorted (fun x => x)) xss
    /\ nexts (oc_next (fun x => x)) 4 (oc_init (map (map Item) xss)) = [ROk 1; ROk 2; ROk 1; RDone].
Proof. exact ordered_detection_incomplete. Qed.
Print Assumptions C23_ordered_detection_incomplete.
Example C23_ordered_detection_ex :
  nexts (oc_next (fun x => x)) 2 (oc_init [[Item 2; Item 1]]) = [ROk 2; RErr ENotAscending].
Proof. vm_compute. reflexivity. Qed.

Theorem C23_ordered_head_shows_next : forall key st, oc_lastHead st = None ->
  fst (oc_head key st) = fst (oc_next key st).
Proof. exact oc_head_shows_next. Qed.
Print Assumptions C23_ordered_head_shows_next.
Theorem C23_ordered_head_cached : forall key st h, oc_lastHead st = Some h -> oc_head key st = (ROk h, st).
Proof. exact oc_head_cached. Qed.
Print Assumptions C23_ordered_head_cached.
Theorem C23_ordered_head_then_next : forall key pl ly fin,
  bounded_all key ly pl ->
  let st := mkOc (map (mk) pl) fin None ly false in
  fst (oc_next key (snd (oc_head key st))) = fst (oc_head key st).
Proof. exact oc_head_then_next_sorted. Qed.
Print Assumptions C23_ordered_head_then_next.
Example C23_ordered_head_then_next_ex :
  bounded_all (fun x => x / 8) (Some 8) [(0, [16; 24], 0); (1, [9; 17], 0)].
Proof.
  repeat constructor; unfold p_items; simpl; intros z Hz;
    repeat (destruct Hz as [Hz|Hz]; [subst; vm_compute; discriminate|]); contradiction.
Qed.
(* without sortedness Head/Next coherence fails (coded behaviour, not a finding: the inputs
   violate the documented precondition) *)
Theorem C23_ordered_head_next_unsorted_refuted :
  exists xss ops, fst (run (oc_next (fun x => x / 8)) (oc_head (fun x => x / 8)) oc_stop ops
                            (oc_init (map (map Item) xss)))
                  = [ROk 17; ROk 9; RErr ENotAscending].
Proof. exact ordered_head_next_unsorted_refuted. Qed.
Print Assumptions C23_ordered_head_next_unsorted_refuted.

(* ---- filtered / validate / mappers / skip / to-channel ---- *)

Theorem C23_filter_spec : forall p xs k once,
  drains_to (flt_next p) (mkOne (open_src (map Item xs) k) once) (map ROk (filter p xs)).
Proof. exact filter_spec. Qed.
Print Assumptions C23_filter_spec.
Theorem C23_filter_all_scripts : forall p l k once,
  drains_to (flt_next p) (mkOne (open_src l k) once) (flt_out p l).
Proof. exact flt_drains. Qed.
Print Assumptions C23_filter_all_scripts.
Theorem C23_filter_error_position : forall p xs e r,
  flt_out p (map Item xs ++ Err e :: r) = map ROk (filter p xs) ++ RErr e :: flt_out p r.
Proof. exact flt_error_position. Qed.
Print Assumptions C23_filter_error_position.
Theorem C23_filter_head_next : forall p st, fst (flt_next p (snd (flt_head p st))) = fst (flt_head p st).
Proof. exact flt_head_next_coherent. Qed.
Print Assumptions C23_filter_head_next.
Theorem C23_filter_head_idem : forall p st, flt_head p (snd (flt_head p st)) = flt_head p st.
Proof. exact flt_head_idem. Qed.
Print Assumptions C23_filter_head_idem.
Example C23_filter_ex :
  nexts (flt_next N.even) 4 (one_init [Item 1; Item 2; Err 10; Item 4]) = [ROk 2; RErr 10; ROk 4; RDone].
Proof. reflexivity. Qed.

Theorem C23_validate_spec : forall vf xs k once,
  drains_to (val_next vf) (mkOne (open_src (map Item xs) k) once) (flat_map (val_item vf) xs).
Proof. exact validate_spec. Qed.
Print Assumptions C23_validate_spec.
Theorem C23_validate_error_position : forall vf xs e r,
  val_out vf (map Item xs ++ Err e :: r) = flat_map (val_item vf) xs ++ RErr e :: val_out vf r.
Proof. exact val_error_position. Qed.
Print Assumptions C23_validate_error_position.
Theorem C23_validate_head_next : forall vf st, fst (val_next vf (snd (val_head vf st))) = fst (val_head vf st).
Proof. exact val_head_next_coherent. Qed.
Print Assumptions C23_validate_head_next.
Theorem C23_validate_head_idem : forall vf st, val_head vf (snd (val_head vf st)) = val_head vf st.
Proof. exact val_head_idem. Qed.
Print Assumptions C23_validate_head_idem.
Example C23_validate_ex :
  nexts (val_next (Some (fun x => if x =? 2 then VReject else if x =? 3 then VErr 12 else VPass))) 4
        (one_init [Item 1; Item 2; Item 3; Item 4]) = [ROk 1; RErr 12; ROk 4; RDone].
Proof. reflexivity. Qed.

Theorem C23_mapper_spec : forall g xs k once,
  drains_to (map_next g) (mkOne (open_src (map Item xs) k) once) (map g xs).
Proof. exact mapper_spec. Qed.
Print Assumptions C23_mapper_spec.
Theorem C23_mapper_head_next : forall g st, fst (map_head g st) = fst (map_next g st).
Proof. exact map_head_next_coherent. Qed.
Print Assumptions C23_mapper_head_next.

Theorem C23_skip_to_spec : forall target l,
  exists dropped,
    l = map Item dropped ++ snd (skip_to_loop target l)
    /\ Forall (fun x => x < target) dropped
    /\ match snd (skip_to_loop target l) with
       | [] => fst (skip_to_loop target l) = RNil
       | Item x :: _ => target <= x /\ fst (skip_to_loop target l) = RNil
       | Err e :: _ => fst (skip_to_loop target l) = if done_or_cancelled e then RNil else RErr e
       end.
Proof. exact skip_to_spec. Qed.
Print Assumptions C23_skip_to_spec.
Example C23_skip_to_ex :
  skip_to_loop 3 [Item 1; Item 2; Item 5; Item 1] = (RNil, [Item 5; Item 1])
  /\ skip_to_loop 3 [Item 1; Err 10; Item 5] = (RErr 10, [Err 10; Item 5])
  /\ skip_to_loop 3 [Item 1; Err 1; Item 5] = (RNil, [Err 1; Item 5]).
Proof. repeat split; reflexivity. Qed.

Theorem C23_to_channel_spec : forall xs, to_channel (map Item xs) = map ROk xs.
Proof. exact to_channel_spec. Qed.
Print Assumptions C23_to_channel_spec.

(* ---- fan-in ---- *)

Theorem C23_fan_in_spec : forall A (sched : list nat) (chans : list (list A)),
  Permutation (fan_in_sched chans sched) (concat chans).
Proof. exact fan_in_spec. Qed.
Print Assumptions C23_fan_in_spec.
Theorem C23_is_interleaving_sound : forall out chans,
  is_interleaving chans out = true -> Permutation out (concat chans).
Proof. exact is_interleaving_sound. Qed.
Print Assumptions C23_is_interleaving_sound.
Example C23_fan_in_ex :
  fan_in_sched [[1; 2]; [3]; [4; 5]] [2; 0; 7; 2]%nat = [4; 1; 5; 2; 3].
Proof. reflexivity. Qed.

(* ---- condition filter (and the generic filter with the same Next) ---- *)

Theorem C23_cond_filter_spec : forall f xs k once,
  drains_to (cf_next f) (mkCf (open_src (map Item xs) k) None false once)
    (map ROk (filter (passes f) xs)
     ++ (if existsb (passes f) xs then []
         else match last_err f xs None with Some e => [RErr e] | None => [] end)).
Proof. exact cond_filter_spec. Qed.
Print Assumptions C23_cond_filter_spec.
Theorem C23_cond_filter_all_scripts : forall f l le ov k once,
  drains_to (cf_next f) (mkCf (open_src l k) le ov once) (cf_out f l le ov).
Proof. exact cf_drains. Qed.
Print Assumptions C23_cond_filter_all_scripts.
(* which errors are swallowed *)
Theorem C23_cond_filter_swallows_all : forall f xs, existsb (passes f) xs = true ->
  cf_out f (map Item xs) None false = map ROk (filter (passes f) xs).
Proof. exact cond_filter_swallows_all. Qed.
Print Assumptions C23_cond_filter_swallows_all.
Theorem C23_cond_filter_reports_last : forall f xs, existsb (passes f) xs = false ->
  cf_out f (map Item xs) None false = match last_err f xs None with Some e => [RErr e] | None => [] end.
Proof. exact cond_filter_reports_last. Qed.
Print Assumptions C23_cond_filter_reports_last.
Theorem C23_cond_filter_error_position : forall f xs e r le ov,
  cf_out f (map Item xs ++ Err e :: r) le ov =
  map ROk (filter (passes f) xs) ++ RErr e :: cf_out f r (last_err f xs le) (ov || existsb (passes f) xs).
Proof. exact cf_error_position. Qed.
Print Assumptions C23_cond_filter_error_position.
Theorem C23_cond_filter_head_next : forall f st, fst (cf_next f (snd (cf_head f st))) = fst (cf_head f st).
Proof. exact cf_head_next_coherent. Qed.
Print Assumptions C23_cond_filter_head_next.
Theorem C23_cond_filter_head_idem : forall f st, cf_head f (snd (cf_head f st)) = cf_head f st.
Proof. exact cf_head_idem. Qed.
Print Assumptions C23_cond_filter_head_idem.
Theorem C23_cond_filter_after_stop : forall f st, cf_once st = false ->
  drains_to (cf_next f) (cf_stop st)
    (match cf_last st with Some e => if cf_valid st then [] else [RErr e] | None => [] end).
Proof. exact cf_stop_then. Qed.
Print Assumptions C23_cond_filter_after_stop.
Example C23_cond_filter_ex :
  let f := fun x => if x =? 1 then VPass else if x =? 2 then VReject else VErr (10 + x) in
  nexts (cf_next f) 3 (cf_init [Item 3; Item 1; Item 4]) = [ROk 1; RDone; RDone]
  /\ nexts (cf_next f) 3 (cf_init [Item 3; Item 2; Item 4]) = [RErr 14; RDone; RDone].
Proof. split; reflexivity. Qed.

(* ---- combined ---- *)

Theorem C23_combined_spec : forall ls, forallb wf ls = true ->
  drains_to comb_next (comb_init ls) (map ev_res (concat ls)).
Proof. exact combined_spec. Qed.
Print Assumptions C23_combined_spec.
Theorem C23_combined_clean : forall xss,
  drains_to comb_next (comb_init (map (map Item) xss)) (map ROk (concat xss)).
Proof. exact combined_clean. Qed.
Print Assumptions C23_combined_clean.
Theorem C23_combined_head_next : forall st, fst (comb_next (snd (comb_head st))) = fst (comb_head st).
Proof. exact comb_head_next_coherent. Qed.
Print Assumptions C23_combined_head_next.
Theorem C23_combined_head_idem : forall st, fst (comb_head (snd (comb_head st))) = fst (comb_head st).
Proof. exact comb_head_idem. Qed.
Print Assumptions C23_combined_head_idem.
Example C23_combined_ex :
  forallb wf [[Item 1]; []; [Err 10; Item 2]] = true /\
  nexts comb_next 4 (comb_init [[Item 1]; []; [Err 10; Item 2]]) = [ROk 1; RErr 10; ROk 2; RDone].
Proof. split; reflexivity. Qed.

(* ---- Stop ---- *)

Theorem C23_stop_idempotent :
  (forall st, concat_stop (concat_stop st) = concat_stop st)
  /\ (forall st, cf_stop (cf_stop st) = cf_stop st)
  /\ (forall st, one_stop_once (one_stop_once st) = one_stop_once st)
  /\ (forall st, comb_stop (comb_stop st) = comb_stop st)
  /\ (forall st, oc_stop (oc_stop st) = oc_stop st).
Proof. exact (conj concat_stop_idem (conj cf_stop_idem (conj one_stop_once_idem (conj comb_stop_idem oc_stop_idem)))). Qed.
Print Assumptions C23_stop_idempotent.
Theorem C23_concat_stop_then_done : forall a b ops,
  drains_to concat_next (concat_stop (snd (run concat_next concat_head concat_stop ops (concat_init a b)))) [].
Proof. exact concat_stop_then_done. Qed.
Print Assumptions C23_concat_stop_then_done.
Theorem C23_combined_stop_then_done : forall st, cb_once st = false -> drains_to comb_next (comb_stop st) [].
Proof. exact comb_stop_then_done. Qed.
Print Assumptions C23_combined_stop_then_done.
Theorem C23_filter_stop_then_done : forall p st, o_once st = false -> drains_to (flt_next p) (one_stop_once st) [].
Proof. exact flt_stop_then_done. Qed.
Print Assumptions C23_filter_stop_then_done.
Theorem C23_validate_stop_then_done : forall vf st, drains_to (val_next vf) (one_stop_always st) [].
Proof. exact val_stop_then_done. Qed.
Print Assumptions C23_validate_stop_then_done.

(* ---- shared iterator ---- *)

(* every clone, along every trace of Next/Head/Stop calls (cancelled or not) of all clones, of
   clones being created and of the original instance expiring, reads exactly the underlying
   sequence, for every buffer size >= 1 *)
Theorem C23_shared_clone_complete : forall b evs0 ops i,
  reads b i ops (sys_init evs0) = ideal_seq evs0 O (length (reads b i ops (sys_init evs0))).
Proof. exact shared_clone_complete. Qed.
Print Assumptions C23_shared_clone_complete.
Theorem C23_ideal_seq_full : forall evs0 k,
  ideal_seq evs0 O (length (clean_prefix evs0) + k)
  = map ROk (clean_prefix evs0) ++ repeat (RErr (term_err evs0)) k.
Proof. exact (ideal_seq_full O). Qed.
Print Assumptions C23_ideal_seq_full.
Example C23_shared_clone_complete_ex :
  (* two clones interleaved, the second one created late, the first one stopped early,
     buffer size 2, error after three items *)
  let ops := [ShClone; ShNext 0 false; ShNext 0 false; ShClone; ShNext 1 false; ShNext 0 false;
              ShStop 0; ShExpire; ShNext 1 false; ShNext 1 false; ShHead 1 false; ShNext 1 false; ShNext 1 false] in
  reads 1 1 ops (sys_init [Item 5; Item 6; Item 7; Err 10; Item 8])
  = [ROk 5; ROk 6; ROk 7; RErr 10; RErr 10]
  /\ reads 1 0 ops (sys_init [Item 5; Item 6; Item 7; Err 10; Item 8]) = [ROk 5; ROk 6; ROk 7].
Proof. split; vm_compute; reflexivity. Qed.

Theorem C23_shared_inner_open_while_referenced : forall b evs0 ops i c,
  let st := snd (sys_run (S b) ops (sys_init evs0)) in
  nth_error (sy_clones st) i = Some c -> cl_stopped c = false -> sstopped (sh_inner (sy_sh st)) = false.
Proof. exact inner_stopped_only_when_unreferenced. Qed.
Print Assumptions C23_shared_inner_open_while_referenced.
Theorem C23_shared_stopped_clone_done : forall b c sh, cl_stopped c = true ->
  clone_next (S b) false c sh = (RDone, c, sh) /\ current (S b) false c sh = (RDone, sh).
Proof. exact stopped_clone_done. Qed.
Print Assumptions C23_shared_stopped_clone_done.
Theorem C23_shared_stop_idempotent : forall b st i,
  snd (sys_step (S b) (ShStop i) (snd (sys_step (S b) (ShStop i) st))) = snd (sys_step (S b) (ShStop i) st).
Proof. exact clone_stop_idem. Qed.
Print Assumptions C23_shared_stop_idempotent.

(* through the datastore wrapper: any sequence of Read* / Next / Head / Stop / expiry operations on
   any keys; a read through a handle of a shared iterator returns what the script of THAT
   underlying iterator has at the clone's position *)
Theorem C23_ds_shared_read_complete : forall b ops limit scripts h i c st cl,
  let d := snd (ds_run (S b) ops (ds_init limit scripts)) in
  nth_error (ds_handles d) h = Some (HShared i c) ->
  nth_error (ds_inst d) i = Some st ->
  nth_error (sy_clones st) c = Some cl -> cl_stopped cl = false ->
  exists l, fst (ds_step (S b) (DNext h false) d) = ideal l (cl_head cl).
Proof. exact ds_shared_read_complete. Qed.
Print Assumptions C23_ds_shared_read_complete.
Example C23_ds_ex :
  fst (ds_run 100 [DOpen 1 false; DNext 0 false; DOpen 1 false; DNext 1 false; DExpireAll; DNext 1 false;
                   DOpen 1 false; DNext 2 false]
              (ds_init 10 [Some [Item 5; Item 6]; Some [Item 7]]))
  = [R (Some 0) None; ROk 5; R (Some 1) None; ROk 5; RNil; ROk 6; R (Some 0) None; ROk 7].
Proof. vm_compute. reflexivity. Qed.
