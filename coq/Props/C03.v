(* C03 — weighted-graph Check agrees with the default engine.
   Level: translation validation against the proved reference semantics (Sem.holds3) + proofs of
   the local lemmas below.  The weighted-graph engine as a whole is NOT modelled: its answers are
   compared, request by request, with the reference semantics, the default engine and the
   breaking-change detector by the correspondence run (harness/cmd/c03, ocaml/c03_oracle.ml). *)
From OFGA Require Import Check.V2Dfs Check.V2Contract Check.V2Sem Check.V2Streams Check.V2Proofs.

(* 1. The boolean contract the oracle evaluates on every request IS the property's statement:
      (P1) object subject and v2 decided => the decision is the reference semantics;
      (P2) userset / wildcard subject, both engines decided and differ => a breaking-change reason is reported;
      (P3) a v2 error is a documented request-shape error or the fallback was taken, and after a
           fallback the final answer is the default engine's. *)
Theorem c03_ok_iff_statement : forall x : obs, c03_ok x = true <-> (P1 x /\ P2 x /\ P3 x).
Proof. exact V2Proofs.c03_ok_iff_statement. Qed.
Print Assumptions c03_ok_iff_statement.

(* 2. "Never misses" at the schema level, for the documented shapes (each defined independently
      of the detector as a predicate on the model): the detector model is non-empty on them. *)
Theorem breaking_reason_total_on_shapes : forall m subj o r,
    (shape_self_ref subj o r \/ shape_alias m subj o r \/ shape_computed_self m subj o r \/ shape_ttu m subj o r
     -> check_reason m subj o r <> RNone) /\
    (shape_userset_excl m subj o r -> excl_reason m subj o r = Some RUsersetExcl).
Proof. exact V2Proofs.breaking_reason_total_on_shapes. Qed.
Print Assumptions breaking_reason_total_on_shapes.

(* 2'. wildcard_with_exclusion: PARTIAL — proved for a difference that occurs structurally in the
      target relation's own rewrite and whose base structurally contains a direct assignment
      accepting T:* (no computed / TTU edge crossed; the answer is "not `none`": RWildExcl, or the
      model's explicit out-of-fuel outcome, which the oracle reports).  Missing: the shapes that
      cross relation edges (they need visited_dfs_spec instantiated to the walk over rewrites);
      those are covered by the correspondence run only (real detector vs model, DIFF). *)
Theorem breaking_reason_total_on_wildcard_shape_partial : forall m subj o r,
    shape_wild_excl_structural m subj o r -> excl_reason m subj o r <> Some RNone.
Proof. exact V2Proofs.excl_reason_total_on_wildcard_shape_partial. Qed.
Print Assumptions breaking_reason_total_on_wildcard_shape_partial.

(* 2''. The full-strength claim of the package ("may over-report but never miss a real
      divergence") is FALSE: a request on which the reference semantics (= the default engine)
      and the semantics without the reflexive userset rule (= the weighted-graph engine, as
      observed on the real server) differ, and for which both detectors report nothing. *)
Theorem detector_never_misses_refuted :
  exists m conds store subj atoms o r,
    kind_of subj = KSet /\
    holds3 m conds store subj atoms o r = T /\
    holds3_q noreflex [] [] m conds store subj atoms o r = F /\
    check_reason m subj o r = RNone /\
    excl_reason m subj o r = Some RNone.
Proof. exact V2Proofs.detector_never_misses_refuted. Qed.
Print Assumptions detector_never_misses_refuted.

(* 3. The local algorithmic core: depth-first search with ONE visited set shared by the whole
      request, over any finite union-only graph, answers the ROOT query correctly (and never runs
      out of fuel when fuel > number of nodes). *)
Theorem visited_dfs_spec :
  forall (succ : N -> list N) (leaf : N -> bool) (nodes : list N),
    (forall n, In n nodes -> incl (succ n) nodes) ->
    forall root fuel, In root nodes -> (fuel > length nodes)%nat ->
    exists b, dfs_root succ leaf fuel root = Some b /\ (b = true <-> reach succ leaf root).
Proof. exact V2Proofs.visited_dfs_spec. Qed.
Print Assumptions visited_dfs_spec.

(* 3'. ... but the result computed for an INNER node under the shared visited set is not that
      node's truth value (witness: 0 -> [1; 2], 1 -> [0], 2 leaf): caching it per node, as
      check.ResolveUnionEdges does with edge results, is the C08 finding. *)
Theorem visited_dfs_inner_refuted :
  exists succ leaf fuel root inner V,
    dfs_root succ leaf (S fuel) root = Some true /\
    dfs succ leaf (S fuel) [root] root = scan (dfs succ leaf fuel) (succ root) [root] /\
    V = inner :: [root] /\
    fst (dfs succ leaf fuel V inner) = Some false /\
    reach succ leaf inner.
Proof. exact V2Proofs.visited_dfs_inner_refuted. Qed.
Print Assumptions visited_dfs_inner_refuted.

(* 4. The evaluator the oracle uses to NAME a deviation is the reference semantics when every
      switch is off (so a KNOWN verdict is always relative to Sem.holds3). *)
Theorem holds3q_noquirks : forall cyc cyct m conds store subj atoms o r,
    holds3_q noquirks cyc cyct m conds store subj atoms o r = holds3 m conds store subj atoms o r.
Proof. exact V2Proofs.holds3q_noquirks. Qed.
Print Assumptions holds3q_noquirks.


(* 5. Failing result streams in the bottom-up strategies (resolveUnion -> weight2 / recursive
      execute, Check/V2Streams.v): when both sides are drained, `denied` is answered only if NO
      consumed stream failed and no value is common; `allowed` only on a real common value.  The
      driver's fault injection (iterators failing after k tuples, k swept) checks the same
      predicate on the real engine: an injected read error is never turned into a wrong decision. *)
Theorem stream_error_never_denied : forall (ss : list stream) (right : stream),
    execute (union_out ss) right = Denied ->
    (forall s, In s ss -> snd (consume s) = false) /\ snd (consume right) = false /\
    (forall s v, In s ss -> In v (fst (consume s)) -> In v (fst (consume right)) -> False).
Proof. exact V2Proofs.stream_error_never_denied. Qed.
Print Assumptions stream_error_never_denied.

Theorem stream_allowed_is_witnessed : forall (ss : list stream) (right : stream),
    execute (union_out ss) right = Allowed ->
    exists s v, In s ss /\ In v (fst (consume s)) /\ In v (fst (consume right)).
Proof. exact V2Proofs.stream_allowed_is_witnessed. Qed.
Print Assumptions stream_allowed_is_witnessed.

(* ---- non-vacuity ---- *)
(* the contract accepts and rejects concrete observations *)
Example c03_ok_accepts :
  c03_ok {| ob_kind := KSet; ob_spec := T; ob_v1 := DT; ob_v2 := V2F; ob_reason := RSelfRef;
            ob_fallback := false; ob_final := DF |} = true.
Proof. reflexivity. Qed.
Example c03_ok_rejects_object_deviation :
  c03_ok {| ob_kind := KObj; ob_spec := T; ob_v1 := DT; ob_v2 := V2F; ob_reason := RNone;
            ob_fallback := false; ob_final := DF |} = false.
Proof. reflexivity. Qed.
Example c03_ok_rejects_silent_userset_divergence :
  c03_ok {| ob_kind := KSet; ob_spec := T; ob_v1 := DT; ob_v2 := V2F; ob_reason := RNone;
            ob_fallback := false; ob_final := DF |} = false.
Proof. reflexivity. Qed.
Example c03_ok_rejects_undocumented_error :
  c03_ok {| ob_kind := KObj; ob_spec := T; ob_v1 := DT; ob_v2 := V2E EPanic; ob_reason := RNone;
            ob_fallback := false; ob_final := DE |} = false.
Proof. reflexivity. Qed.

(* the shapes are satisfiable (V2Proofs.alias_model: the alias_userset example of TestBreakingChangeReason) *)
Example shape_alias_satisfiable :
  shape_alias alias_model (SSet {| otype := 2; oid := 3 |} 1) {| otype := 2; oid := 1 |} 3 /\
  check_reason alias_model (SSet {| otype := 2; oid := 3 |} 1) {| otype := 2; oid := 1 |} 3 = RAlias.
Proof.
  split; [|reflexivity].
  exists {| otype := 2; oid := 3 |}, 1,
    [ {| r_type := 1; r_kind := RObj; r_cond := 0 |}; {| r_type := 2; r_kind := RSet 2; r_cond := 0 |} ], 2, 2%nat.
  repeat split.
  - left. reflexivity.
  - eapply rs_comp; [reflexivity | reflexivity |]. eapply rs_this; reflexivity.
  - vm_compute. repeat constructor.
  - intros r'' [H|[]]. inversion H. discriminate.
Qed.

(* wildcard_with_exclusion, structural part (V2Proofs.wild_model: viewer: [user:*] but not blocked) *)
Example shape_wild_satisfiable :
  shape_wild_excl_structural wild_model (SWild 1) {| otype := 2; oid := 1 |} 1 /\
  excl_reason wild_model (SWild 1) {| otype := 2; oid := 1 |} 1 = Some RWildExcl.
Proof.
  split; [|reflexivity]. split; [discriminate|].
  eexists. split; [reflexivity|]. apply do_here. apply ba_this. reflexivity.
Qed.

(* visited_dfs_spec's hypotheses hold for the witness graph of 3' (a cyclic graph) *)
Example dfs_spec_applies :
  exists b, dfs_root wsucc wleaf 4 0 = Some b /\ (b = true <-> reach wsucc wleaf 0).
Proof.
  apply (visited_dfs_spec wsucc wleaf [0; 1; 2]).
  - intros n [H|[H|[H|[]]]]; subst; vm_compute; intros x Hx; repeat (destruct Hx as [Hx|Hx]; [subst; simpl; tauto|]); destruct Hx.
  - left. reflexivity.
  - simpl. auto.
Qed.

(* the user's groups stream [a; <error>; b] against the document's groups [b] (the shape of seeded
   C03-m6): the healthy union reports the failure; a union that forgets an error following a value
   would answer `denied` although the matching group b was never read *)
Example stream_midstream_error :
  execute (union_out [[Val 1; Err; Val 2]]) [Val 2] = Failed /\
  execute (union_out_forgetful [[Val 1; Err; Val 2]]) [Val 2] = Denied /\
  execute (union_out [[Val 1; Val 2]]) [Val 2] = Allowed /\
  execute (union_out [[Val 1]; []]) [Val 2] = Denied.
Proof. repeat split. Qed.
