(* C07 — BatchCheck is equivalent to individual Checks.
   Model: Query/Batch.v (BatchCheckQuery.Execute of pkg/server/commands/batch_check_command.go and
   the API mapping of pkg/server/batch_check.go).  Every statement is for ALL payload/key/state
   types, ALL de-duplication keys [key] with a decidable equality [keqb], ALL checkers [eval], ALL
   limits, ALL item lists and ALL evaluation orders [sched] (every permutation of the groups is
   some [sched]: schedule_exhaustive). *)
From Coq Require Import Permutation.
From OFGA Require Import Query.Batch Query.BatchProofs.
Open Scope nat_scope.

(* Each correlation id of an accepted batch gets exactly one outcome and the response holds nothing
   else; a batch that is empty, over the limit, or has an empty or a duplicate correlation id is
   rejected before any evaluation: no check runs and the shared state is unchanged. *)
Theorem batch_total_unique :
  forall (P K St : Type) (key : P -> K) (keqb : K -> K -> bool) (eval : St -> P -> outcome * St) (maxn : N),
    (forall a b, keqb a b = true <-> a = b) ->
    forall sched st (items : list (bytes * P)),
      match validate maxn items with
      | Some r => batch key keqb eval maxn sched st items = (Rejected r, [], st)
      | None =>
          exists out dups,
            resp_of (batch key keqb eval maxn sched st items) = Results out dups /\
            Permutation (map fst out) (map fst items) /\ NoDup (map fst items) /\
            (forall id, In id (map fst items) -> exists! o, In (id, o) out) /\
            (forall id o, In (id, o) out -> In id (map fst items))
      end.
Proof. exact (@batch_total_unique_lemma). Qed.
Print Assumptions batch_total_unique.

(* What is accepted: non-empty, within the limit, no empty id, no duplicate id. *)
Theorem batch_validation :
  forall (P : Type) (maxn : N) (items : list (bytes * P)),
    (validate maxn items = None <->
       items <> [] /\ (N.of_nat (length items) <= maxn)%N /\
       Forall (fun it => fst it <> []) items /\ NoDup (map fst items)) /\
    (validate maxn items = Some RTooMany <-> (maxn < N.of_nat (length items))%N) /\
    (validate maxn items = Some REmptyBatch <-> items = []).
Proof. exact batch_validation_lemma. Qed.
Print Assumptions batch_validation.

(* ONE evaluation per distinct key: the executed checks have pairwise distinct keys, cover the key
   of every item, are items of the batch, and DuplicateCheckCount = items - executed checks. *)
Theorem batch_one_eval_per_key :
  forall (P K St : Type) (key : P -> K) (keqb : K -> K -> bool) (eval : St -> P -> outcome * St) (maxn : N),
    (forall a b, keqb a b = true <-> a = b) ->
    forall sched st (items : list (bytes * P)),
      validate maxn items = None ->
      let r := batch key keqb eval maxn sched st items in
      NoDup (map key (trace_of r)) /\
      (forall id p, In (id, p) items -> In (key p) (map key (trace_of r))) /\
      (forall q, In q (trace_of r) -> exists id, In (id, q) items) /\
      length (trace_of r) <= length items /\
      (exists out, resp_of r = Results out (length items - length (trace_of r))).
Proof. exact (@batch_one_eval_per_key_lemma). Qed.
Print Assumptions batch_one_eval_per_key.

(* outcome(id) = check(item id), for every id, every schedule, provided
   - two items of THIS batch with equal keys are equivalent requests (no_key_collision, boolean;
     supplied by C24's injectivity of the key encoding, modulo the 64-bit digest),
   - the standalone check respects that equivalence,
   - what the checks of a batch share (the query cache) is transparent: from a good state every
     check answers as the standalone check and leaves a good state (C08). *)
Theorem batch_eq_individual :
  forall (P K St : Type) (key : P -> K) (keqb : K -> K -> bool) (eval : St -> P -> outcome * St) (maxn : N),
    (forall a b, keqb a b = true <-> a = b) ->
    forall (check : P -> outcome) (good : St -> Prop),
      (forall st p, good st -> good (snd (eval st p))) ->
      (forall st p, good st -> fst (eval st p) = check p) ->
      forall (sem_eqb : P -> P -> bool),
        (forall a b, sem_eqb a b = true -> check a = check b) ->
        forall sched st (items : list (bytes * P)),
          validate maxn items = None ->
          no_key_collision key keqb sem_eqb items = true ->
          good st ->
          forall id p, In (id, p) items ->
            outcome_at id (resp_of (batch key keqb eval maxn sched st items)) = Some (check p).
Proof. exact (@batch_eq_individual_lemma). Qed.
Print Assumptions batch_eq_individual.

(* The hypothesis no_key_collision is needed: under a key that forgets the context, two items
   that differ only in their context are answered from each other (for every schedule). *)
Theorem batch_eq_individual_refuted :
  exists (items : list (bytes * (N * N))) id p,
    In (id, p) items /\ validate 50 items = None /\
    no_key_collision forget_key N.eqb pair_sem_eqb items = false /\
    (forall sched,
       outcome_at id (resp_of (batch forget_key N.eqb (pure_eval ctx_check) 50 sched tt items)) = Some (Allowed true)) /\
    ctx_check p = Allowed false.
Proof. exact batch_eq_individual_refuted_lemma. Qed.
Print Assumptions batch_eq_individual_refuted.

(* The evaluation order is irrelevant (whole response, including DuplicateCheckCount), under the
   transparency hypothesis on the shared state. *)
Theorem batch_order_irrelevant :
  forall (P K St : Type) (key : P -> K) (keqb : K -> K -> bool) (eval : St -> P -> outcome * St) (maxn : N),
    (forall a b, keqb a b = true <-> a = b) ->
    forall (check : P -> outcome) (good : St -> Prop),
      (forall st p, good st -> good (snd (eval st p))) ->
      (forall st p, good st -> fst (eval st p) = check p) ->
      forall s1 s2 st (items : list (bytes * P)),
        good st ->
        resp_of (batch key keqb eval maxn s1 st items) = resp_of (batch key keqb eval maxn s2 st items).
Proof. exact (@batch_order_irrelevant_lemma). Qed.
Print Assumptions batch_order_irrelevant.

(* ... and that hypothesis is needed: a checker whose answer depends on how many checks ran. *)
Theorem batch_order_irrelevant_refuted :
  exists (items : list (bytes * N)) s1 s2,
    validate 50 items = None /\
    resp_of (batch (fun p : N => p) N.eqb counting_eval 50 s1 O items) <>
    resp_of (batch (fun p : N => p) N.eqb counting_eval 50 s2 O items).
Proof. exact batch_order_irrelevant_refuted_lemma. Qed.
Print Assumptions batch_order_irrelevant_refuted.

(* [sched] ranges over exactly the permutations of the groups. *)
Theorem schedule_exhaustive :
  forall (A : Type) (l : list A),
    (forall sched, Permutation l (schedule sched l)) /\
    (forall l', Permutation l l' -> exists sched, schedule sched l = l').
Proof. exact schedule_exhaustive_lemma. Qed.
Print Assumptions schedule_exhaustive.

(* The nil type assertion in the fan-out loop is unreachable. *)
Theorem batch_no_panic :
  forall (P K St : Type) (key : P -> K) (keqb : K -> K -> bool) (eval : St -> P -> outcome * St) (maxn : N),
    (forall a b, keqb a b = true <-> a = b) ->
    forall sched st (items : list (bytes * P)),
      resp_of (batch key keqb eval maxn sched st items) <> Panic.
Proof. exact (@batch_no_panic_lemma). Qed.
Print Assumptions batch_no_panic.

(* API layer: what the proto rules reject (no item, a correlation id outside ^[\w\d-]{1,36}$) is
   answered InvalidArgument without any evaluation; an accepted batch is answered with the image
   of the standalone outcomes under the error-code mapping; the command's empty-id error cannot be
   reached through the API. *)
Theorem api_batch_eq_individual :
  forall (P K St : Type) (key : P -> K) (keqb : K -> K -> bool) (eval : St -> P -> outcome * St) (maxn : N),
    (forall a b, keqb a b = true <-> a = b) ->
    (forall sched st (items : list (bytes * P)),
       items = [] \/ forallb (fun it => id_pattern_ok (fst it)) items = false ->
       api_batch key keqb eval maxn sched st items = (ApiInvalidArgument, [], st)) /\
    (forall sched st (items : list (bytes * P)) idx,
       fst (fst (api_batch key keqb eval maxn sched st items)) <> ApiValidationError (REmptyId idx)) /\
    (forall (check : P -> outcome) (good : St -> Prop),
       (forall st p, good st -> good (snd (eval st p))) ->
       (forall st p, good st -> fst (eval st p) = check p) ->
       forall (sem_eqb : P -> P -> bool),
         (forall a b, sem_eqb a b = true -> check a = check b) ->
         forall sched st (items : list (bytes * P)),
           items <> [] ->
           forallb (fun it => id_pattern_ok (fst it)) items = true ->
           validate maxn items = None ->
           no_key_collision key keqb sem_eqb items = true ->
           good st ->
           exists out,
             fst (fst (api_batch key keqb eval maxn sched st items)) =
               ApiResults (map (fun q => (fst q, api_item_of (snd q))) out) /\
             Permutation (map fst out) (map fst items) /\
             forall id p, In (id, p) items -> lookup_id id out = Some (check p)).
Proof. exact api_batch_eq_individual_lemma. Qed.
Print Assumptions api_batch_eq_individual.

(* ------------------------------------------------------------------ non-vacuity *)
(* an accepted batch with two groups, one of them shared by two ids *)
Definition ex_items : list (bytes * (N * N)) :=
  [([97%N], (7%N, 1%N)); ([98%N], (7%N, 0%N)); ([99%N], (7%N, 1%N))].
Definition pair_key (p : N * N) : N * N := p.
Definition pair_keqb (a b : N * N) : bool := pair_sem_eqb a b.

Example ex_accepted : validate 50 ex_items = None.
Proof. reflexivity. Qed.

Example ex_no_collision : no_key_collision pair_key pair_keqb pair_sem_eqb ex_items = true.
Proof. reflexivity. Qed.

Example ex_pair_keqb_spec : forall a b, pair_keqb a b = true <-> a = b.
Proof.
  intros [a1 a2] [b1 b2]. unfold pair_keqb, pair_sem_eqb. simpl.
  rewrite andb_true_iff, !N.eqb_eq. split; [intros [-> ->]; reflexivity | intro H; inversion H; auto].
Qed.

(* the hypotheses of batch_eq_individual hold of a concrete non-trivial instance (pure checker,
   any state is good), and the conclusion is what the model computes *)
Example ex_eq_individual :
  resp_of (batch pair_key pair_keqb (pure_eval ctx_check) 50 [1; 0] tt ex_items) =
  Results [([97%N], Allowed true); ([99%N], Allowed true); ([98%N], Allowed false)] 1.
Proof. reflexivity. Qed.

Example ex_respects : forall a b, pair_sem_eqb a b = true -> ctx_check a = ctx_check b.
Proof.
  intros [a1 a2] [b1 b2]. unfold pair_sem_eqb, ctx_check. simpl.
  rewrite andb_true_iff, !N.eqb_eq. intros [_ ->]. reflexivity.
Qed.

(* rejected batches of each kind *)
Example ex_rejects :
  validate 2 ex_items = Some RTooMany /\
  validate 50 (@nil (bytes * N)) = Some REmptyBatch /\
  validate 50 [([97%N], 1%N); ([], 2%N); ([97%N], 3%N)] = Some (REmptyId 1) /\
  validate 50 [([97%N], 1%N); ([98%N], 2%N); ([97%N], 3%N); ([], 4%N)] = Some (RDupId [97%N]) /\
  validate 0 (@nil (bytes * N)) = Some REmptyBatch.
Proof. repeat split. Qed.

(* the correlation id pattern *)
Example ex_pattern :
  id_pattern_ok [97%N; 45%N; 95%N; 48%N] = true /\ id_pattern_ok [] = false /\
  id_pattern_ok [97%N; 32%N] = false /\ id_pattern_ok (repeat 97%N 36) = true /\
  id_pattern_ok (repeat 97%N 37) = false.
Proof. repeat split. Qed.
