(* C09 -- iterator caches never change answers.
   Model: Cache/CachedIter.v (cachedIterator / cachedTupleIterator of cached_datastore.go and
   cached_iterators.go = variant V1; CachingIterator / LockFreeCachedIterator of iterator_cache.go
   and cached_reader.go = variant V2).  Lemmas: Cache/CachedIterProofs.v.

   [world]: the unchanged store -- the answer [w_full k] and the iterator's key fields [w_kf v k]
   are functions of the cache key k (injectivity of the key functions is property C24).
   [op_ok W o]: every read in the history is answered by that store through an inner iterator whose
   errors do not consume elements (q_lossy = false), and the store only returns tuples that match
   the query ([consistent]).  Nothing is assumed about the error scripts, the contexts passed by the
   consumers, the interleaving of background drain steps, invalidations, evictions, or the moment
   the server context is cancelled. *)
From OFGA Require Import Cache.CachedIter Cache.CachedIterProofs Cache.CachedIterAdmit Cache.CachedIterAdmitProofs
  Cache.CachedIterShared Cache.CachedIterSharedProofs.
Open Scope N_scope.

(* Whenever an entry is written into the cache, it is the WHOLE answer, never a prefix: for every
   history of operations and every error script. *)
Theorem flush_complete :
  forall (W : world) (h : list op), Forall (op_ok W) h ->
  forall k e mx, In (k, e, mx) (st_writes (fst (run init_state h))) ->
  match e with
  | CE1 recs _ => recs = map (elide (w_kf W V1 k)) (w_full W k)
  | CE2 ms _ => ms = map minimal (w_full W k)
  end.
Proof. exact flush_complete_lemma. Qed.
Print Assumptions flush_complete.

(* ... and so is whatever the cache holds at any moment. *)
Theorem cache_complete :
  forall (W : world) (h : list op), Forall (op_ok W) h ->
  forall k e, alist_get k (st_cache (fst (run init_state h))) = Some e ->
  match e with
  | CE1 recs _ => recs = map (elide (w_kf W V1 k)) (w_full W k)
  | CE2 ms _ => ms = map minimal (w_full W k)
  end.
Proof. exact cache_complete_lemma. Qed.
Print Assumptions cache_complete.

(* The fields elided from a cached record are reconstructed exactly (v1: including the timestamp;
   v2: everything except the timestamp, which v2 does not keep). *)
Theorem elide_reconstruct_id :
  forall (k : keyf) (t : tuple), consistent k t = true -> reconstruct k (elide k t) = t.
Proof. exact elide_reconstruct_id_lemma. Qed.
Print Assumptions elide_reconstruct_id.

Theorem minimal_reconstruct_id :
  forall (k : keyf) (t : tuple), consistent2 k t = true -> reconstruct2 k (minimal t) = strip_ts t.
Proof. exact minimal_reconstruct_id_lemma. Qed.
Print Assumptions minimal_reconstruct_id.

(* A cache hit creates an iterator that replays exactly the stored read: its Next calls return the
   decoded entry, in order, then Done. *)
Theorem cache_hit_eq_read :
  forall st q e c', bypass q = false ->
  find_in_cache (q_var q) (st_cache st) (st_inval st) (q_key q) (q_markers q) = (Some e, c') ->
  snd (step st (OOpen q)) = OOpened true false /\
  exists h, st_iters (fst (step st (OOpen q))) = st_iters st ++ [IHit h] /\
            hi_items h = decode (kf_of q) e /\
            hit_drain h (S (length (hi_items h))) = map RItem (decode (kf_of q) e) ++ [RDone].
Proof. exact cache_hit_eq_read_lemma. Qed.
Print Assumptions cache_hit_eq_read.

(* A result that reaches the size limit is not cached (v1: strictly fewer than max tuples, or the
   empty result; v2: between 1 and max tuples).  No hypothesis on the history. *)
Theorem max_size_not_cached :
  forall (h : list op) k e mx, In (k, e, mx) (st_writes (fst (run init_state h))) ->
  match e with
  | CE1 recs _ => recs = [] \/ (length recs < mx)%nat
  | CE2 ms _ => (1 <= length ms <= mx)%nat
  end.
Proof. exact max_size_not_cached_lemma. Qed.
Print Assumptions max_size_not_cached.

(* Transparency.  Along every history: each Next / Head on an iterator its consumer has not stopped
   returns an error (and nothing moves), or the next element of the uncached answer, or Done exactly
   when the whole uncached answer has been handed out ([step_spec]); and the bookkeeping of "handed
   out" is exactly the list of tuples Next returned ([out_frame]).  This holds for cache misses,
   cache hits and bypassing reads alike, so a cached read and an uncached read of the same query are
   indistinguishable up to injected errors. *)
Theorem iter_cache_transparent :
  forall (W : world) (h : list op), Forall (op_ok W) h -> hist_ok W init_state h.
Proof. exact iter_cache_transparent_lemma. Qed.
Print Assumptions iter_cache_transparent.

(* At every moment what an iterator has handed out is a prefix of the uncached answer. *)
Theorem handed_prefix :
  forall (W : world) (h : list op), Forall (op_ok W) h ->
  forall i it k, nth_error (st_iters (fst (run init_state h))) i = Some it -> it_key it = Some k ->
  map (it_norm it) (it_out it) = firstn (length (it_out it)) (map (it_norm it) (w_full W k)).
Proof. exact handed_prefix_lemma. Qed.
Print Assumptions handed_prefix.

(* A successful inner step's element is always returned and buffered -- also when the caller's
   context was cancelled or expired while the step was in progress (script event SFx): the code
   checks the inner error, not ctx.Err(), after a successful step.  flush_complete rests on this;
   a Next that re-checked the context and dropped the element would cache a result with a hole. *)
Theorem next_success_is_buffered :
  forall m c inn t, mi_closing m = false -> inner_call true c (mi_inner m) = (inn, RItem t) ->
  snd (miss_next m c) = RItem t /\
  mi_buf (fst (miss_next m c)) = buf_push (mi_var m) (mi_max m) (mi_buf m) t /\
  mi_out (fst (miss_next m c)) = mi_out m ++ [t].
Proof. exact next_success_is_buffered_lemma. Qed.
Print Assumptions next_success_is_buffered.

(* The hypothesis q_lossy = false cannot be dropped: over an inner iterator that loses the element
   it was about to return when it reports a cancellation, the buffer kept "on done-or-cancelled" is
   later flushed with a hole.  (No iterator below the cache in /repo behaves like that; this is the
   contract the cache relies on, not a defect.) *)
Theorem flush_needs_inner_contract :
  exists h k recs ts mx,
    In (k, CE1 recs ts, mx) (st_writes (fst (run init_state h))) /\
    (forall o, In o h -> match o with OOpen q => q_items q = w_full ex_world (q_key q) | _ => True end) /\
    recs <> map (elide (w_kf ex_world V1 k)) (w_full ex_world k).
Proof. exact flush_needs_inner_contract_lemma. Qed.
Print Assumptions flush_needs_inner_contract.

(* ---- admission into a shared iterator (storageItem.unwrap) ----
   Full-strength statement, which the unchanged code does NOT satisfy:
     admission_isolated : forall h, forallb aout_ok (arun ainit h) = true
   (a request whose own context is alive, over a datastore that does not fail, is given its
   iterator, whatever the other requests do).  The faithful model refutes it: a request that joins an
   item whose producer runs under the CREATOR's cancelled context is handed the creator's
   "context canceled" (finding shared_admission_cancel_leak, reproduced on the real code by the
   driver's class D).  What holds is the statement under the hypothesis that excludes the trigger. *)
Theorem admission_isolated_refuted :
  exists h, forallb aout_ok (arun ainit h) = false /\ existsb aout_leak (arun ainit h) = true.
Proof. exact admission_isolated_refuted_lemma. Qed.
Print Assumptions admission_isolated_refuted.

(* missing part: histories in which a producer runs under a dead context *)
Theorem admission_isolated_partial :
  forall h, no_dead_producer h = true -> forallb aout_ok (arun ainit h) = true.
Proof. exact admission_isolated_partial_lemma. Qed.
Print Assumptions admission_isolated_partial.

Example ex_admission_partial_nonvacuous :
  no_dead_producer [AArrive 0 7; AArrive 1 7; AProduce 7 None None; AReturn 0 true; AReturn 1 true] = true /\
  arun ainit [AArrive 0 7; AArrive 1 7; AProduce 7 None None; AReturn 0 true; AReturn 1 true]
  = [ANone; ANone; ANone; ARes AOk true false false false; ARes AOk true true false false].
Proof. split; vm_compute; reflexivity. Qed.

(* ---- reference counting of a shared iterator (sharedIterator.clone / Stop) ----
   Stop is idempotent per instance (the decrement is guarded by the stopped flag), so for every
   sequence of clone / Stop (repeated Stops included) / timer-Stop operations the reference count
   equals the number of live instances, and the underlying iterator is stopped exactly when none is
   left: no consumer can close the iterator under another consumer, or under the storage item that
   still hands out clones. *)
Theorem shared_refs_count_live :
  forall h, let st := sh_run sh_init h in
  sh_refs st = Z.of_nat (sh_live st) /\ (sh_inner_stopped st = true <-> sh_live st = 0%nat).
Proof. exact shared_refs_count_live_lemma. Qed.
Print Assumptions shared_refs_count_live.

Theorem shared_inner_open_while_live :
  forall h, let st := sh_run sh_init h in
  (sh_base_stopped st = false \/ existsb negb (sh_clones st) = true) -> sh_inner_stopped st = false.
Proof. exact shared_inner_open_while_live_lemma. Qed.
Print Assumptions shared_inner_open_while_live.

(* the guard is necessary: with the decrement outside it, Stop; Stop on one clone closes the
   underlying iterator while the item is still admitted *)
Theorem unguarded_stop_breaks_refs :
  let st := sh_run_unguarded sh_init [SClone; SStop 0; SStop 0] in
  sh_base_stopped st = false /\ sh_inner_stopped st = true.
Proof. exact unguarded_stop_breaks_refs_lemma. Qed.
Print Assumptions unguarded_stop_breaks_refs.

Example ex_double_stop_is_harmless :
  let st := sh_run sh_init [SClone; SStop 0; SStop 0; SClone; SStop 0; SStop 1; SStop 1] in
  sh_refs st = 1%Z /\ sh_inner_stopped st = false /\ sh_clones st = [true; true] /\
  sh_inner_stopped (sh_run st [SStopBase; SStopBase]) = true.
Proof. vm_compute. repeat split; reflexivity. Qed.

(* ---- non-vacuity: a concrete store, a history with a cancellation in the middle of a read, an
   abandoned iterator, an unrelated error met by the background drain, a flush, and a second read
   served from the cache ---- *)
Example ex_hypotheses_hold : Forall (op_ok ex_world) (ex_history V1) /\ Forall (op_ok ex_world) (ex_history V2).
Proof. split; apply ex_history_ok. Qed.

Example ex_flush_happens :
  length (st_writes (fst (run init_state (ex_history V1)))) = 1%nat /\
  length (st_writes (fst (run init_state (ex_history V2)))) = 1%nat.
Proof. split; vm_compute; reflexivity. Qed.

Example ex_second_read_is_a_hit_and_complete :
  skipn 11 (snd (run init_state (ex_history V1))) =
  [OOpened true false; ORes (RItem ex_ta); ORes (RItem ex_tb); ORes (RItem ex_tc);
   ORes (RItem ex_tc); ORes RDone].
Proof. vm_compute. reflexivity. Qed.

Example ex_cancelled_during_a_successful_next :
  (* second Next returns its tuple although the context died meanwhile; the drained entry is whole;
     the second read is a hit with all three tuples *)
  firstn 4 (snd (run init_state (ex_fx_history V1))) =
    [OOpened false false; ORes (RItem ex_ta); ORes (RItem ex_tb); ORes (RErr ECancel)] /\
  map (fun w => entry_len (snd (fst w))) (st_writes (fst (run init_state (ex_fx_history V1)))) = [3%nat] /\
  skipn 10 (snd (run init_state (ex_fx_history V1))) =
    [OOpened true false; ORes (RItem ex_ta); ORes (RItem ex_tb); ORes (RItem ex_tc); ORes RDone].
Proof. vm_compute. repeat split; reflexivity. Qed.

Example ex_consistent : forallb (consistent (kf_of (ex_q V1 [] false))) ex_full = true /\
                        forallb (consistent2 (kf_of (ex_q V2 [] false))) ex_full = true.
Proof. split; vm_compute; reflexivity. Qed.

Example ex_reconstruct : map (reconstruct (kf_of (ex_q V1 [] false))) (map (elide (kf_of (ex_q V1 [] false))) ex_full) = ex_full.
Proof. vm_compute. reflexivity. Qed.

Example ex_hit_state :
  exists st q e c', bypass q = false /\
    find_in_cache (q_var q) (st_cache st) (st_inval st) (q_key q) (q_markers q) = (Some e, c').
Proof.
  exists (fst (run init_state (firstn 11 (ex_history V1)))), (ex_q V1 [] false).
  vm_compute. do 2 eexists. split; reflexivity.
Qed.

Example ex_max_boundary :
  (* v1 with max = 3 and a 3-tuple answer: nothing is written; with max = 4 it is *)
  st_writes (fst (run init_state
    [OOpen (mkQ V1 KRut false [100;58;49] [114] [] 7 [100] 3 ex_full [] false None);
     ONext 0 CLive; ONext 0 CLive; ONext 0 CLive; ONext 0 CLive; OStop 0; OBg 0; OBg 0])) = [] /\
  length (st_writes (fst (run init_state
    [OOpen (mkQ V1 KRut false [100;58;49] [114] [] 7 [100] 4 ex_full [] false None);
     ONext 0 CLive; ONext 0 CLive; ONext 0 CLive; ONext 0 CLive; OStop 0; OBg 0; OBg 0]))) = 1%nat.
Proof. split; vm_compute; reflexivity. Qed.
