(* C13 — storage backends implement the same read semantics.
   Models: Store/ReadSpec.v (documented meaning), Store/MemoryRead.v (memory backend loops),
   Store/SqlRead.v (sqlite WHERE clauses as predicates), Store/ReadFlags.v (triggers of the listed
   divergences and the caller contract).  All statements quantify over every store and filter.
   `_partial` = the full statement (backend = documented meaning, as multisets) fails on the
   unchanged code; it is proved under "trigger flag = false" and refuted by a witness otherwise. *)
From Coq Require Import Permutation.
From OFGA Require Import Base.Bytes Store.ReadSpec Store.MemoryRead Store.SqlRead Store.ReadFlags
  Store.ReadProofs Store.IterModel Store.IterProofs.

(* ---- Read / ReadPage ---- *)

(* missing part: the all-empty key with Conditions (memory copies the store, Conditions unused) *)
Theorem memory_read_eq_spec_partial : forall s f,
  wf_read_filter f = true -> flag_read_all_ignores_conditions s f = false ->
  memory_read s f = read_spec s f.
Proof. exact ReadProofs.memory_read_eq_spec_partial. Qed.
Print Assumptions memory_read_eq_spec_partial.

Theorem memory_read_eq_spec_refuted :
  exists s f, wf_store s = true /\ keys_unique s = true /\ wf_read_filter f = true /\
              ~ Permutation (memory_read s f) (read_spec s f).
Proof. exact ReadProofs.memory_read_eq_spec_refuted. Qed.
Print Assumptions memory_read_eq_spec_refuted.

(* full statement since fix a279b76 (before it: a user filter "type:id" also returned type:id#rel) *)
Theorem sql_read_eq_spec : forall s f,
  wf_read_filter f = true -> sql_read s f = read_spec s f.
Proof. exact ReadProofs.sql_read_eq_spec. Qed.
Print Assumptions sql_read_eq_spec.

Theorem memory_eq_sql_read : forall s f,
  wf_read_filter f = true ->
  flag_read_all_ignores_conditions s f = false ->
  Permutation (memory_read s f) (sql_read s f).
Proof. exact ReadProofs.memory_eq_sql_read. Qed.
Print Assumptions memory_eq_sql_read.

Example read_nonvacuous :
  let f := mkRF (OType b_doc) b_viewer (UExact (mkUser b_group b_1 b_member)) [b_c1] in
  wf_read_filter f = true /\ flag_read_all_ignores_conditions w_store f = false /\
  read_spec w_store f = [w_t2] /\
  sql_read w_store (mkRF OAny [] (UExact (mkUser b_group b_1 [])) []) = [w_t3].
Proof. vm_compute. auto. Qed.

(* ---- ReadUserTuple ---- *)

(* missing part: a key with an empty (mandatory) field — outside the documented contract *)
Theorem memory_read_user_tuple_eq_spec_partial : forall s k cs,
  key_full k = true -> read_user_tuple_sat s k cs (memory_read_user_tuple s k cs).
Proof. exact ReadProofs.memory_read_user_tuple_eq_spec_partial. Qed.
Print Assumptions memory_read_user_tuple_eq_spec_partial.

Theorem memory_read_user_tuple_eq_spec_refuted :
  exists s k cs, wf_store s = true /\ keys_unique s = true /\
                 ~ read_user_tuple_sat s k cs (memory_read_user_tuple s k cs).
Proof. exact ReadProofs.memory_read_user_tuple_eq_spec_refuted. Qed.
Print Assumptions memory_read_user_tuple_eq_spec_refuted.

Theorem sql_read_user_tuple_eq_spec : forall s k cs,
  read_user_tuple_sat s k cs (sql_read_user_tuple s k cs).
Proof. exact ReadProofs.sql_read_user_tuple_eq_spec. Qed.
Print Assumptions sql_read_user_tuple_eq_spec.

Theorem read_user_tuple_candidates_unique : forall s k cs,
  keys_unique s = true -> (length (read_user_tuple_spec s k cs) <= 1)%nat.
Proof. exact ReadProofs.keys_unique_candidates. Qed.
Print Assumptions read_user_tuple_candidates_unique.

Theorem memory_eq_sql_read_user_tuple : forall s k cs,
  key_full k = true -> memory_read_user_tuple s k cs = sql_read_user_tuple s k cs.
Proof. exact ReadProofs.memory_eq_sql_read_user_tuple. Qed.
Print Assumptions memory_eq_sql_read_user_tuple.

Example read_user_tuple_nonvacuous :
  let k := mkKey b_doc b_2 b_viewer (mkUser b_group b_1 b_member) in
  key_full k = true /\ keys_unique w_store = true /\
  memory_read_user_tuple w_store k [[]; b_c1] = Some w_t2 /\
  memory_read_user_tuple w_store k [[]] = None.
Proof. vm_compute. auto. Qed.

(* ---- ReadUsersetTuples ---- *)

(* full statement since fix d969704 (before it the memory loop never applied Conditions and
   appended a row once per matching restriction entry); no_bare is the caller contract: every
   restriction is type#relation or type:* *)
Theorem memory_read_userset_tuples_eq_spec : forall s f,
  no_bare (uf_restr f) = true ->
  memory_read_userset_tuples s f = read_userset_tuples_spec s f.
Proof. exact ReadProofs.memory_read_userset_tuples_eq_spec. Qed.
Print Assumptions memory_read_userset_tuples_eq_spec.

Theorem sql_read_userset_tuples_eq_spec : forall s f,
  wf_store s = true -> wf_ofilter (uf_obj f) = true ->
  sql_read_userset_tuples s f = read_userset_tuples_spec s f.
Proof. exact ReadProofs.sql_read_userset_tuples_eq_spec. Qed.
Print Assumptions sql_read_userset_tuples_eq_spec.

Theorem memory_eq_sql_read_userset_tuples : forall s f,
  wf_store s = true -> wf_usersets_filter f = true ->
  Permutation (memory_read_userset_tuples s f) (sql_read_userset_tuples s f).
Proof. exact ReadProofs.memory_eq_sql_read_userset_tuples. Qed.
Print Assumptions memory_eq_sql_read_userset_tuples.

Example read_userset_tuples_nonvacuous :
  let f := mkUF (OFull b_doc b_2) b_viewer [RRel b_group b_member; RWild b_user] [[]; b_c1] in
  wf_store w_store = true /\ wf_usersets_filter f = true /\
  read_userset_tuples_spec w_store f = [w_t2; w_t4] /\
  memory_read_userset_tuples w_store (mkUF (OFull b_doc b_2) b_viewer [RRel b_group b_member; RRel b_group b_member] [[]]) = [].
Proof. vm_compute. auto. Qed.

(* ---- ReadStartingWithUser ---- *)

(* missing part: a user filter that lists the same user twice (one copy per entry) *)
Theorem memory_rswu_eq_spec_partial : forall s f,
  flag_rswu_duplicate_user_filter f = false ->
  Permutation (memory_rswu s f) (rswu_spec s f).
Proof. exact ReadProofs.memory_rswu_eq_spec_partial. Qed.
Print Assumptions memory_rswu_eq_spec_partial.

Theorem memory_rswu_eq_spec_refuted :
  exists s f, wf_store s = true /\ keys_unique s = true /\
              ~ Permutation (memory_rswu s f) (rswu_spec s f).
Proof. exact ReadProofs.memory_rswu_eq_spec_refuted. Qed.
Print Assumptions memory_rswu_eq_spec_refuted.

(* missing part: a present-but-empty ObjectIDs set (the relation-less user filter part was repaired
   by a279b76) *)
Theorem sql_rswu_eq_spec_partial : forall s f,
  flag_rswu_empty_object_ids f = false -> sql_rswu s f = rswu_spec s f.
Proof. exact ReadProofs.sql_rswu_eq_spec_partial. Qed.
Print Assumptions sql_rswu_eq_spec_partial.

Theorem sql_rswu_eq_spec_refuted_empty_object_ids :
  exists s f, wf_store s = true /\ keys_unique s = true /\
              ~ Permutation (sql_rswu s f) (rswu_spec s f).
Proof. exact ReadProofs.sql_rswu_eq_spec_refuted_empty_object_ids. Qed.
Print Assumptions sql_rswu_eq_spec_refuted_empty_object_ids.

Theorem memory_eq_sql_rswu : forall s f,
  flag_rswu_duplicate_user_filter f = false -> flag_rswu_empty_object_ids f = false ->
  Permutation (memory_rswu s f) (sql_rswu s f).
Proof. exact ReadProofs.memory_eq_sql_rswu. Qed.
Print Assumptions memory_eq_sql_rswu.

Example rswu_nonvacuous :
  let f := mkSF b_doc b_viewer [mkUser b_group b_1 b_member; mkUser b_user star []] (Some [b_2]) [[]; b_c1] in
  flag_rswu_duplicate_user_filter f = false /\ flag_rswu_empty_object_ids f = false /\
  rswu_spec w_store f = [w_t2; w_t4] /\
  sql_rswu w_store (mkSF b_doc b_viewer [mkUser b_group b_1 []] None []) = [w_t3].
Proof. vm_compute. auto. Qed.

(* the two backends disagree with each other on the unchanged code *)
Theorem memory_eq_sql_refuted :
  (exists s f, ~ Permutation (memory_rswu s f) (sql_rswu s f)) /\
  (exists s f, ~ Permutation (memory_read s f) (sql_read s f)).
Proof. exact ReadProofs.memory_eq_sql_refuted. Qed.
Print Assumptions memory_eq_sql_refuted.

(* ---- conditions and contexts round-trip ---- *)

(* every tuple any operation of either backend returns is a stored tuple: same key, same
   condition name, and the stored context whenever the condition is named (an unnamed condition
   is returned as "no condition") *)
Theorem cond_ctx_roundtrip : forall s,
  (forall f x, In x (memory_read s f) -> from_store s x) /\
  (forall f x, In x (sql_read s f) -> from_store s x) /\
  (forall k cs x, memory_read_user_tuple s k cs = Some x -> from_store s x) /\
  (forall k cs x, sql_read_user_tuple s k cs = Some x -> from_store s x) /\
  (forall f x, In x (memory_read_userset_tuples s f) -> from_store s x) /\
  (forall f x, In x (sql_read_userset_tuples s f) -> from_store s x) /\
  (forall f x, In x (memory_rswu s f) -> from_store s x) /\
  (forall f x, In x (sql_rswu s f) -> from_store s x).
Proof. exact ReadProofs.cond_ctx_roundtrip. Qed.
Print Assumptions cond_ctx_roundtrip.

Theorem named_condition_unchanged : forall t, t_cond t <> [] -> obs t = t.
Proof. exact ReadProofs.obs_named. Qed.
Print Assumptions named_condition_unchanged.

Example cond_ctx_nonvacuous :
  In w_t2 (memory_read w_store (mkRF OAny [] UAny [])) /\ t_cond w_t2 = b_c1 /\ t_ctx w_t2 = 7.
Proof. vm_compute. auto 10. Qed.

(* ---- large ObjectIDs sets ---- *)

(* ReadStartingWithUser depends on ObjectIDs only through the membership of the STORED object ids
   and through its emptiness: the driver hands the oracle this reduced set for sets of 99..1500 ids *)
Theorem rswu_object_ids_reduction : forall s f o',
  oids_equiv s (sf_oids f) o' ->
  rswu_spec s f = rswu_spec s (with_oids f o') /\
  memory_rswu s f = memory_rswu s (with_oids f o') /\
  sql_rswu s f = sql_rswu s (with_oids f o') /\
  flag_rswu_empty_object_ids f = flag_rswu_empty_object_ids (with_oids f o').
Proof. exact ReadProofs.rswu_oids_equiv. Qed.
Print Assumptions rswu_object_ids_reduction.

Example rswu_object_ids_reduction_nonvacuous :
  oids_equiv w_store (Some [b_2; [33; 48]; [33; 49]; [126; 48]; [126; 49]]) (Some [b_2; [33; 48]]) /\
  rswu_spec w_store (mkSF b_doc b_viewer [mkUser b_user star []; mkUser b_user b_a []] (Some [b_2; [33; 48]]) []) = [w_t4].
Proof. exact ReadProofs.rswu_oids_equiv_nonvacuous. Qed.

(* ---- the iterators the reads return: Head / Next schedules ---- *)

(* on both iterators every schedule of Head and Next calls observes what the reference observes:
   Head shows the first remaining item without consuming it (so it equals the following Next and
   is idempotent), Next consumes it *)
Theorem iter_schedule : forall (A : Type) (l : list A) ops,
  run A (mem_step A) l ops = ref_run A l ops /\
  run A (sql_step A) (mkIt A None l) ops = ref_run A l ops.
Proof. exact IterProofs.iter_schedule. Qed.
Print Assumptions iter_schedule.

(* whatever the schedule, the Next calls hand out the result list itself, in order *)
Theorem iter_nexts_any_schedule : forall (A : Type) (l : list A) ops,
  nexts A ops (run A (mem_step A) l ops) = firstn (count_next ops) l /\
  nexts A ops (run A (sql_step A) (mkIt A None l) ops) = firstn (count_next ops) l.
Proof. exact IterProofs.iter_nexts_any_schedule. Qed.
Print Assumptions iter_nexts_any_schedule.

Example iter_schedule_nonvacuous :
  run N (sql_step N) (mkIt N None [7; 8; 9]) [OpHead; OpHead; OpNext; OpNext; OpHead; OpNext; OpHead; OpNext]
  = [Some 7; Some 7; Some 7; Some 8; Some 9; Some 9; None; None].
Proof. vm_compute. reflexivity. Qed.
