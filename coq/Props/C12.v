(* C12 - Writes are atomic and honour on_duplicate / on_missing.

   Models: Store/Memory.v (memory backend Write as coded, Write command validation, the
   specification spec_write), Store/SqlTxn.v (sqlite's write as a statement list inside one
   transaction of an abstract engine, with a failure point).  Proofs: Store/MemoryProofs.v,
   Store/SqlTxnProofs.v.

   Full-strength statements that the unchanged code REFUTES (kept visible; the _partial theorems
   below carry the excluding hypothesis, the _refuted theorems the witness):
     (F-a) write_options_exact  without  trig_mem_ctx = false
           memory: on_duplicate=ignore compares contexts by String(); nil prints "<nil>", {} prints ""
     (F-b) write_options_exact  for deletes that are not well-formed keys (the command layer lets
           an object without id through): memory's match treats "doc:" as a pattern
     (F-c) sql_options_exact    without  trig_sql_ctx = false
           sqlite: a stored context-less condition reads back with an empty context, proto.Equal
           with the request's nil context is false
     (F-d) sql_refines_memory   without  wf_request (repeated key below the command layer) *)
From OFGA Require Import Store.Memory Store.MemoryProofs Store.SqlTxn Store.SqlTxnProofs.
From Coq Require Import Permutation.
Open Scope N_scope.

(* A failed request leaves the state (tuples and changelog) untouched; a successful one keeps
   the tuples no delete matched, appends records for (a sub-sequence of) the writes, and extends
   the changelog by exactly one delete entry per removed tuple followed by one write entry per
   added tuple, in that order.  For ALL states and requests, well-formed or not. *)
Theorem write_all_or_nothing :
  forall ondup onmiss dels wrs now st r st',
  mem_write ondup onmiss dels wrs now st = (r, st') ->
  match r with
  | WErr _ => st' = st
  | WOk =>
      exists (p : mrec -> bool) (added : list witem),
        tuples st' = filter (fun x => negb (p x)) (tuples st) ++ map new_rec added
        /\ changes st' = changes st ++ map (del_change now) (filter p (tuples st)) ++ map (wr_change now) added
        /\ (forall x, p x = true -> exists d, In d dels /\ tk_match x d = true)
        /\ (forall w, In w added -> In w wrs)
  end.
Proof. exact write_all_or_nothing_lemma. Qed.
Print Assumptions write_all_or_nothing.

(* The truth table of the property, for all well-formed stores and requests: the request fails
   iff a written tuple exists (without ignore, or with ignore and another condition) or a deleted
   one is missing (without ignore); otherwise tuples = (old - deletes) + new writes and the
   changelog grows by the deletes that existed, then the writes that did not. *)
Theorem write_options_exact_partial :
  forall ondup onmiss dels wrs now st,
  wf_store st = true -> wf_request dels wrs = true -> trig_mem_ctx ondup wrs st = false ->
  match spec_write ondup onmiss dels wrs (obs_tuples st) with
  | None => exists e, mem_write ondup onmiss dels wrs now st = (WErr e, st)
  | Some (ts', dlog, wlog) =>
      exists st', mem_write ondup onmiss dels wrs now st = (WOk, st')
        /\ obs_tuples st' = ts' /\ obs_log st' = obs_log st ++ dlog ++ wlog /\ wf_store st' = true
  end.
Proof. exact write_options_exact_partial_lemma. Qed.
Print Assumptions write_options_exact_partial.

Example write_options_exact_partial_nonvacuous :
  wf_store st_two_docs = true /\
  wf_request [k_d1] [mkW k_d2 None true; mkW (mkKey b_doc1 b_viewer [117; 115; 101; 114; 58; 98]) (Some (b_c1, CStruct [])) true] = true /\
  trig_mem_ctx OIgnore [mkW k_d2 None true] st_two_docs = false.
Proof. exact write_options_exact_nonvacuous. Qed.

Theorem write_options_exact_refuted_ctx :
  exists ondup onmiss dels wrs now st,
    wf_store st = true /\ wf_request dels wrs = true /\
    spec_write ondup onmiss dels wrs (obs_tuples st) = Some (obs_tuples st, [], []) /\
    mem_write ondup onmiss dels wrs now st = (WErr ECondConflict, st).
Proof. exact write_options_exact_refuted_ctx_lemma. Qed.
Print Assumptions write_options_exact_refuted_ctx.

Theorem write_options_exact_refuted_partial_key :
  exists dels st st',
    wf_store st = true /\ cmd_validate OError OError dels [] = None /\
    spec_write OError OError dels [] (obs_tuples st) = None /\
    mem_cmd_write OError OError dels [] 2 st = (WOk, st') /\
    obs_tuples st' = [] /\ length (changes st') = (length (changes st) + 2)%nat /\ length dels = 1%nat.
Proof. exact write_options_exact_refuted_partial_key_lemma. Qed.
Print Assumptions write_options_exact_refuted_partial_key.

(* sqlite: for ANY engine whose transactions are atomic (the four hypotheses: nothing a
   transaction does is visible - to another connection, after ROLLBACK, after a lost connection,
   or after a crash and reopen - unless COMMIT returned), for every request and every failure
   point fail = 1 .. n (BEGIN, each SELECT, each DELETE / INSERT / changelog INSERT batch,
   COMMIT), the committed state after the call is the state before, unless the call returned
   success, in which case it is sql_pure of the state before; with no failure the result class is
   that of sql_pure. *)
Theorem sql_txn_atomic :
  forall (E : Type) (committed pending : E -> tables) (e_begin : E -> E)
         (e_apply : (tables -> tables) -> E -> E) (e_commit e_abort : E -> E),
  (forall e, committed (e_begin e) = committed e /\ pending (e_begin e) = committed e) ->
  (forall f e, committed (e_apply f e) = committed e /\ pending (e_apply f e) = f (pending e)) ->
  (forall e, committed (e_commit e) = pending e) ->
  (forall e, committed (e_abort e) = committed e) ->
  forall ondup onmiss dels wrs now fail e r e' tr,
  sql_write E pending e_begin e_apply e_commit e_abort ondup onmiss dels wrs now fail e = (r, e', tr) ->
  (r <> WOk -> committed e' = committed e)
  /\ (r = WOk -> sql_pure ondup onmiss dels wrs now (committed e) = (WOk, committed e'))
  /\ (fail = 0%nat -> r = fst (sql_pure ondup onmiss dels wrs now (committed e))).
Proof. exact sql_txn_atomic_lemma. Qed.
Print Assumptions sql_txn_atomic.

(* the engine hypotheses are satisfiable: the concrete engine used by the oracle *)
Example sql_txn_atomic_nonvacuous :
  (forall e, en_comm (eng_begin e) = en_comm e /\ en_work (eng_begin e) = en_comm e) /\
  (forall f e, en_comm (eng_apply f e) = en_comm e /\ en_work (eng_apply f e) = f (en_work e)) /\
  (forall e, en_comm (eng_commit e) = en_work e) /\
  (forall e, en_comm (eng_abort e) = en_comm e) /\
  fst (fst (sql_write_c OError OError [] [mkW k_d1 None true] 1 5 eng_empty)) = WErr EInjected /\
  fst (fst (sql_write_c OError OError [] [mkW k_d1 None true] 1 6 eng_empty)) = WOk.
Proof.
  repeat split; try reflexivity.
Qed.

(* sqlite's statement list computes the same truth table *)
Theorem sql_options_exact_partial :
  forall ondup onmiss dels wrs now v,
  wf_tables v = true -> wf_request dels wrs = true -> trig_sql_ctx ondup wrs v = false ->
  match spec_err ondup onmiss dels wrs (sql_obs_tuples v) with
  | Some e => sql_pure ondup onmiss dels wrs now v = (WErr e, v)
  | None =>
      exists v', sql_pure ondup onmiss dels wrs now v = (WOk, v')
        /\ sql_obs_tuples v' = spec_kept dels (sql_obs_tuples v) ++ spec_new wrs (sql_obs_tuples v)
        /\ sql_obs_log v' = sql_obs_log v
             ++ map (fun d => (OpDelete, d, (@nil N, @nil N))) (filter (present_key (sql_obs_tuples v)) dels)
             ++ spec_wlog wrs (sql_obs_tuples v)
        /\ wf_tables v' = true
  end.
Proof. exact sql_options_exact_lemma. Qed.
Print Assumptions sql_options_exact_partial.

Theorem sql_options_exact_refuted :
  exists ondup onmiss dels wrs now v st,
    wf_tables v = true /\ wf_store st = true /\ sql_obs_tuples v = obs_tuples st /\
    wf_request dels wrs = true /\
    spec_write ondup onmiss dels wrs (sql_obs_tuples v) = Some (sql_obs_tuples v, [], []) /\
    sql_pure ondup onmiss dels wrs now v = (WErr ECondConflict, v) /\
    mem_write ondup onmiss dels wrs now st = (WOk, st).
Proof. exact sql_options_exact_refuted_lemma. Qed.
Print Assumptions sql_options_exact_refuted.

(* refinement: run to completion on any atomic engine, sqlite's statement list returns what the
   memory model's write returns and leaves the same tuples; the changelogs grow by the same
   write entries and by a permutation of the same delete entries (memory logs deletes in store
   order, sqlite in request order) *)
Theorem sql_refines_memory_partial :
  forall (E : Type) (committed pending : E -> tables) (e_begin : E -> E)
         (e_apply : (tables -> tables) -> E -> E) (e_commit e_abort : E -> E),
  (forall e, committed (e_begin e) = committed e /\ pending (e_begin e) = committed e) ->
  (forall f e, committed (e_apply f e) = committed e /\ pending (e_apply f e) = f (pending e)) ->
  (forall e, committed (e_commit e) = pending e) ->
  (forall e, committed (e_abort e) = committed e) ->
  forall ondup onmiss dels wrs now e st r e' tr,
  wf_tables (committed e) = true -> wf_store st = true ->
  sql_obs_tuples (committed e) = obs_tuples st ->
  wf_request dels wrs = true ->
  trig_mem_ctx ondup wrs st = false -> trig_sql_ctx ondup wrs (committed e) = false ->
  sql_write E pending e_begin e_apply e_commit e_abort ondup onmiss dels wrs now 0 e = (r, e', tr) ->
  exists st' dl1 dl2 wl,
    mem_write ondup onmiss dels wrs now st = (r, st') /\
    sql_obs_tuples (committed e') = obs_tuples st' /\
    wf_tables (committed e') = true /\ wf_store st' = true /\
    obs_log st' = obs_log st ++ dl1 ++ wl /\
    sql_obs_log (committed e') = sql_obs_log (committed e) ++ dl2 ++ wl /\ Permutation dl1 dl2.
Proof. exact sql_refines_memory_lemma. Qed.
Print Assumptions sql_refines_memory_partial.

Example sql_refines_memory_partial_nonvacuous :
  wf_tables v_c1_nil = true /\ wf_store st_c1_nil = true /\ sql_obs_tuples v_c1_nil = obs_tuples st_c1_nil /\
  wf_request [k_d1] [mkW k_d2 (Some (b_c1, CStruct [120; 61; 49])) true] = true /\
  trig_mem_ctx OIgnore [mkW k_d2 (Some (b_c1, CStruct [120; 61; 49])) true] st_c1_nil = false /\
  trig_sql_ctx OIgnore [mkW k_d2 (Some (b_c1, CStruct [120; 61; 49])) true] v_c1_nil = false /\
  fst (sql_pure OIgnore OError [k_d1] [mkW k_d2 (Some (b_c1, CStruct [120; 61; 49])) true] 2 v_c1_nil) = WOk.
Proof. exact sql_refines_memory_nonvacuous. Qed.

Theorem sql_refines_memory_refuted_repeated_key :
  exists dels wrs st' v,
    nodup_keys (req_keys dels wrs) = false /\
    mem_write OError OError dels wrs 1 empty_state = (WOk, st') /\ length (tuples st') = 1%nat /\
    sql_pure OError OError dels wrs 1 empty_tables = (WErr EConflictInsert, v) /\ v = empty_tables.
Proof. exact sql_refines_memory_refuted_repeated_key_lemma. Qed.
Print Assumptions sql_refines_memory_refuted_repeated_key.
